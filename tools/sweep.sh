#!/bin/bash
# sweep.sh <seed> [ids...]
cd /verif
seed=$1; shift
ids="$@"
[ -z "$ids" ] && ids=$(ls checks.d | sed 's/.json//')
for c in $ids; do
  VERIF_SEED=$seed VERIF_EVIDENCE_DIR=${VERIF_SWEEP_EVIDENCE:-/tmp/sweep-evidence} ./check $c 2>&1 | grep -v "^KNOWN" | cut -c1-300 | tail -3 | sed "s/^/[$c seed=$seed] /"
done
echo SWEEP-DONE $seed
