#!/usr/bin/env python3
"""prints the DESIGN.md P7 table from /verif/seeded/*/meta.json"""
import json, glob, os
notes = {
 "C01": "rebased after the C04 fix (orig. patch changed `blocks.Less`)",
 "C04": "rebased after the C04 fix (orig. patch changed `blocks.Less`)",
 "C09": "C39 only after the burst phase was added",
 "C10": "missed first; C10 strengthened (multi-field points, fields of a rejected point)",
 "C14": "rebased after the tsi1 fix; missed first; C14 strengthened (tag-less re-create of a dropped measurement)",
 "C23": "missed first; top/bottom tie → earliest point added to the C22/C23 oracle",
 "C26": "missed first; long-lineage histories (segment ids 9/10, 99/100) added",
 "C27": "missed first; retry contract rule (shouldRetry=false ⇒ queue empty) added",
 "C29": "missed first; grants naming one resource with two actions added, quick budget ×10",
 "C35": "missed first; server-style folds (no clones, leaves re-used) added",
 "C38": "missed first; closed export range + ranges on TSM file edges, quick budget ×4",
 "C39": "C39 only after the burst phase was added",
 "C41": "missed first by C41 and C20; calendar-month windows added to both",
 "C42": "missed at quick (thorough caught it); single-leaf multi-value conditions under a restricted authorizer added, quick budget ×3",
 "C44": "missed first; renewal with a session handle looked up before sign-out added",
 "C02b": "missed first; histories with small WAL segments (a roll every few writes) added",
 "C10b": "missed at seed 1, caught at seed 2; drop → re-create → unclean restart now steered",
 "C15b": "missed first; bulky series sets (dozens of series per tag value in one log file) added",
 "C19b": "missed first; fault stream (failing meta commits) added",
 "C21b": "missed first — and masked: the world set-up discarded worlds whose shard-cursor reads disagreed with the model as 'delete defect'; now a violation unless a set-up delete ran",
 "C24b": "caught at once (dispatch/exec accounting); the settle-based 'run after release' rule was added on top",
 "C25b": "the change is in TreeScheduler: caught by C24; C25 records the coordinator's Schedule/Release calls with a recording scheduler by design and cannot see it",
 "C30b": "missed first; KV fault injection on a bolt store (faulted histories + retry rule) added",
 "C43b": "missed first; KV fault injection on a bolt store added",
}
print("| seed (property) | change | caught by (quick tier unless noted) — first class reported | note |")
print("|---|---|---|---|")
import sys
pat = "/verif/seeded/C??b/meta.json" if len(sys.argv) > 1 and sys.argv[1] == "b" else "/verif/seeded/C??/meta.json"
for p in sorted(glob.glob(pat)):
    m = json.load(open(p))
    pid = m["property"]
    name = m.get("name", pid)
    title = m.get("title", "").replace("|", "/")
    for pre in (pid + " seeded defect:", pid + " seed:", pid + " - seeded defect:", pid + " —", pid + " -", pid + " seeded defect"):
        if title.startswith(pre):
            title = title[len(pre):].strip()
    det = []
    for k, v in sorted(m.get("detection", {}).items()):
        c, tier = k.split("/")
        if v.get("detected"):
            cls = ""
            for l in v.get("lines", []):
                if "class=" in l:
                    cls = l.strip().split(" ")[0].replace("class=", "")
                    break
            det.append("%s%s `%s`" % (c, "" if tier == "quick" else " (thorough)", cls))
    missed = [k.split("/")[0] for k, v in sorted(m.get("detection", {}).items()) if not v.get("detected")]
    cell = "; ".join(det)
    if missed:
        cell += " — not by " + ", ".join(sorted(set(missed)))
    print("| %s | %s | %s | %s |" % (name, title or "see README", cell, notes.get(name, "")))
