#!/usr/bin/env python3
"""drill.py <name> <file> <old> <new> <check>[,<check>...] [tier]  — apply one textual mutation on a scratch
worktree of /repo (HEAD + uncommitted verif files), run the checks against it via VERIF_REPO_DIR,
report whether each printed a VIOLATION, and restore the worktree. Appends to /verif/drills/log.jsonl."""
import json, os, subprocess, sys, time
WT = os.environ.get("DRILL_WT", "/tmp/wt-main")
def sh(*a, **k): return subprocess.run(a, capture_output=True, text=True, **k)
def ensure_wt():
    if not os.path.isdir(WT):
        r = sh("git", "-C", "/repo", "worktree", "add", "--detach", WT, "HEAD")
        assert r.returncode == 0, r.stderr
    else:
        sh("git", "-C", WT, "checkout", "--detach", sh("git","-C","/repo","rev-parse","HEAD").stdout.strip())
        sh("git", "-C", WT, "checkout", "--", ".")
def main():
    name, rel, old, new, checks = sys.argv[1:6]
    tier = sys.argv[6] if len(sys.argv) > 6 else "quick"
    ensure_wt()
    p = os.path.join(WT, rel)
    s = open(p).read()
    if s.count(old) != 1:
        print("MUTATION-NOT-APPLICABLE", name, "occurrences:", s.count(old)); sys.exit(2)
    open(p, "w").write(s.replace(old, new))
    b = sh("go", "build", "./" + os.path.dirname(rel), cwd=WT, env=dict(os.environ, GOFLAGS="-mod=mod", GOPROXY="off", GOSUMDB="off",
           PKG_CONFIG_PATH="/verif/libflux-stub/build", CGO_LDFLAGS="-L/verif/libflux-stub/build"))
    res = {"name": name, "file": rel, "old": old, "new": new, "tier": tier, "results": {}}
    if b.returncode != 0:
        res["build_failed"] = b.stderr[-500:]
    else:
        for c in checks.split(","):
            t0 = time.time()
            r = sh("/verif/check", c, "--tier", tier, env=dict(os.environ, VERIF_REPO_DIR=WT, VERIF_EVIDENCE_DIR="/tmp/drill-evidence"))
            lines = [l for l in r.stdout.splitlines() if l.startswith("VIOLATION") or l.startswith("  class=")]
            res["results"][c] = {"exit": r.returncode, "detected": r.returncode == 1 and any(l.startswith("VIOLATION") for l in lines),
                                 "first": lines[:2], "secs": round(time.time() - t0)}
    sh("git", "-C", WT, "checkout", "--", ".")
    with open("/verif/drills/log.jsonl", "a") as f:
        f.write(json.dumps(res) + "\n")
    print(json.dumps(res, indent=1))
main()
