#!/bin/bash
# Run the pinned baseline packages with the verif guard OFF (no -tags verif, no stub libflux) and compare
# with /root/.vp/BASELINE.json's stable_pass list. (MANIFEST.hooks.baseline_off_cmd is the full command.)
cd "${1:-/repo}" || exit 2
python3 - > /tmp/basepk.txt <<'PY'
import json
b=json.load(open('/root/.vp/BASELINE.json'))
print(" ".join(sorted({t.split('::')[0].replace('github.com/influxdata/influxdb/v2/','./') for t in b['stable_pass']})))
PY
(GOFLAGS=-mod=mod go test -json -vet=off -count=1 -timeout 25m $(cat /tmp/basepk.txt) 2>/dev/null) > /tmp/base.json
python3 - <<'PY'
import json,sys
b=json.load(open('/root/.vp/BASELINE.json')); want=set(b['stable_pass']); got=set(); fail=set()
for l in open('/tmp/base.json'):
    try: e=json.loads(l)
    except: continue
    if e.get('Test') and e.get('Action') in('pass','fail'):
        (got if e['Action']=='pass' else fail).add(e['Package']+'::'+e['Test'])
print("baseline: want",len(want),"passed",len(want&got),"missing",len(want-got),"failed",len(fail)); print(sorted(want-got)[:20])
sys.exit(0 if not (want-got) else 1)
PY
