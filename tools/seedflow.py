#!/usr/bin/env python3
"""seedflow.py confirm <ID> [--name N]   — confirm a sub-agent's seeded change in a fresh scratch worktree:
                                          demo passes without the patch; with it: packages build (also -tags verif),
                                          the existing tests of the touched packages pass, the demo fails.
   seedflow.py detect  <ID> [--name N] <check>[,<check>...] [tier]
                                        — run /verif checks against the patched worktree (VERIF_REPO_DIR).
   seedflow.py keep    <ID> [--name N]   — copy patch, demo and meta.json to /verif/seeded/<name>/.
Inputs come from /tmp/seed-out/<ID>/ (patch.diff, demo file(s), demo_cmd.txt) and the seeder's worktree
/tmp/seed-<ID> (for the location of the untracked demo file). State is kept in /tmp/seed-out/<ID>/state.json.
"""
import json, os, re, shutil, subprocess, sys, time

ENV = dict(os.environ)
ENV["PATH"] = "/root/go/pkg/mod/golang.org/toolchain@v0.0.1-go1.26.3.linux-amd64/bin:" + ENV["PATH"]
ENV.update(GOTOOLCHAIN="local", GOFLAGS="-mod=mod", GOPROXY="off", GOSUMDB="off", CGO_ENABLED="1",
           PKG_CONFIG_PATH="/tmp/fluxstub", CGO_LDFLAGS="-L/tmp/fluxstub")


def sh(cmd, cwd=None, timeout=3600, env=None):
    r = subprocess.run(cmd, shell=True, cwd=cwd, env=env or ENV, capture_output=True, text=True, timeout=timeout)
    return r.returncode, (r.stdout + r.stderr)


def paths(pid, name):
    out = "/tmp/seed-out/" + (name or pid)
    return out, "/tmp/seed-" + (name or pid), "/tmp/confirm-" + (name or pid)


def state(out):
    p = os.path.join(out, "state.json")
    return json.load(open(p)) if os.path.exists(p) else {}


def save(out, st):
    json.dump(st, open(os.path.join(out, "state.json"), "w"), indent=1)


def fresh(wt):
    if os.path.isdir(wt):
        sh("git -C /repo worktree remove --force " + wt)
    rc, o = sh("git -C /repo worktree add --detach %s HEAD" % wt)
    assert rc == 0, o


def demo_files(seedwt):
    rc, o = sh("git status --porcelain --untracked-files=all", cwd=seedwt)
    return [l[3:] for l in o.splitlines() if l.startswith("?? ")]


def touched_pkgs(patch):
    pk = set()
    for l in open(patch):
        m = re.match(r"^\+\+\+ b/(.*)$", l)
        if m and m.group(1).endswith(".go"):
            pk.add("./" + os.path.dirname(m.group(1)))
    return sorted(pk)


def confirm(pid, name):
    out, seedwt, wt = paths(pid, name)
    st = {"id": pid, "name": name or pid}
    patch = os.path.join(out, "patch.diff")
    assert os.path.exists(patch), "no patch.diff"
    demo_cmd = open(os.path.join(out, "demo_cmd.txt")).read().strip().splitlines()
    demo_cmd = [l for l in demo_cmd if l.strip() and not l.startswith("#")][-1]
    demo_cmd = demo_cmd.replace(". /tmp/fluxstub/env.sh &&", "").replace(". /tmp/fluxstub/env.sh;", "").strip()
    demo_cmd = re.sub(r"cd /tmp/seed-[A-Za-z0-9_-]+\s*(&&|;)", "", demo_cmd).strip()
    fresh(wt)
    files = demo_files(seedwt)
    st["demo_files"] = files
    for f in files:
        os.makedirs(os.path.dirname(os.path.join(wt, f)), exist_ok=True)
        shutil.copy(os.path.join(seedwt, f), os.path.join(wt, f))
    t0 = time.time()
    rc, o = sh(demo_cmd, cwd=wt)
    st["demo_without_patch"] = {"cmd": demo_cmd, "rc": rc, "tail": o[-600:]}
    rc, o = sh("git apply " + patch, cwd=wt)
    st["apply"] = {"rc": rc, "out": o[-300:]}
    pk = touched_pkgs(patch)
    st["packages"] = pk
    rc, o = sh("go build ./... 2>&1 | tail -5; go build -tags verif %s" % " ".join(pk), cwd=wt)
    st["build"] = {"rc": rc, "tail": o[-400:]}
    rc, o = sh("go vet %s 2>&1 | tail -5" % " ".join(pk), cwd=wt)
    # existing tests of the touched packages, demo file moved aside
    for f in files:
        os.rename(os.path.join(wt, f), os.path.join(wt, f) + ".aside")
    # TestGenerateIndexFile_Uvarint (tsi1) fails on the unchanged tree as well (testdata missing): skipped
    rc, o = sh("go test -count=1 -timeout 120m -skip 'TestGenerateIndexFile_Uvarint' %s 2>&1 | tail -15" % " ".join(pk), cwd=wt, timeout=9000)
    st["existing_tests"] = {"rc": rc, "tail": o[-900:], "pass": ("FAIL" not in o and "panic:" not in o)}
    for f in files:
        os.rename(os.path.join(wt, f) + ".aside", os.path.join(wt, f))
    rc, o = sh(demo_cmd, cwd=wt)
    st["demo_with_patch"] = {"rc": rc, "tail": o[-900:]}
    st["confirmed"] = (st["demo_without_patch"]["rc"] == 0 and st["apply"]["rc"] == 0 and st["build"]["rc"] == 0
                       and st["existing_tests"]["pass"] and st["demo_with_patch"]["rc"] != 0)
    st["confirm_secs"] = round(time.time() - t0)
    # leave the worktree patched, without the demo files, for `detect`
    for f in files:
        os.remove(os.path.join(wt, f))
    save(out, st)
    print(json.dumps({k: st[k] for k in ("confirmed", "packages", "demo_files", "confirm_secs")}, indent=1))
    for k in ("demo_without_patch", "build", "existing_tests", "demo_with_patch"):
        print("--", k, "rc=%s" % st[k]["rc"]); print(st[k]["tail"][-400:])


def reapply(pid, name):
    """fresh worktree at /repo HEAD with the (rebased, if present) patch applied; no demo, no tests."""
    out, seedwt, wt = paths(pid, name)
    st = state(out)
    fresh(wt)
    patch = os.path.join(out, "patch.rebased.diff")
    if not os.path.exists(patch):
        patch = os.path.join(out, "patch.diff")
    rc, o = sh("git apply " + patch, cwd=wt)
    rc2, o2 = sh("git rev-parse --short=10 HEAD", cwd=wt)
    st["reapply"] = {"rc": rc, "out": o[-300:], "patch": os.path.basename(patch), "head": o2.strip()}
    save(out, st)
    print("reapply", pid, "rc", rc, o[-200:], "head", o2.strip())
    return rc


def detect(pid, name, checks, tier):
    out, seedwt, wt = paths(pid, name)
    st = state(out)
    st.setdefault("detect", {})
    for c in checks.split(","):
        t0 = time.time()
        env = dict(os.environ, VERIF_REPO_DIR=wt, VERIF_EVIDENCE_DIR="/tmp/seed-evidence")
        r = subprocess.run(["/verif/check", c, "--tier", tier], env=env, capture_output=True, text=True)
        lines = [l for l in r.stdout.splitlines() if l.startswith("VIOLATION") or l.startswith("  class=") or l.startswith("BUILD-FAILED") or l.startswith("INCONCLUSIVE")]
        st["detect"]["%s/%s" % (c, tier)] = {"exit": r.returncode, "detected": r.returncode == 1, "lines": lines[:4], "secs": round(time.time() - t0)}
        print(c, tier, "exit", r.returncode, lines[:3])
    save(out, st)


def readme_section(text, words):
    """returns the body of the first markdown section whose heading contains one of the words"""
    lines = text.splitlines()
    for i, l in enumerate(lines):
        if l.startswith("#") and any(w in l.lower() for w in words):
            body = []
            for m in lines[i + 1:]:
                if m.startswith("#"):
                    break
                body.append(m)
            return "\n".join(body).strip()
    return ""


def keep(pid, name):
    out, seedwt, wt = paths(pid, name)
    st = state(out)
    dst = "/verif/seeded/" + (name or pid)
    os.makedirs(dst, exist_ok=True)
    shutil.copy(os.path.join(out, "patch.diff"), dst)
    if os.path.exists(os.path.join(out, "patch.orig.diff")):
        shutil.copy(os.path.join(out, "patch.orig.diff"), dst)
    for f in st.get("demo_files", []):
        src = os.path.join(seedwt, f)
        if not os.path.exists(src):
            src = os.path.join(out, os.path.basename(f))
        shutil.copy(src, os.path.join(dst, os.path.basename(f)))
    for f in ("demo_cmd.txt", "README.md"):
        if os.path.exists(os.path.join(out, f)):
            shutil.copy(os.path.join(out, f), dst)
    readme = ""
    if os.path.exists(os.path.join(out, "README.md")):
        readme = open(os.path.join(out, "README.md")).read()
    title = readme.splitlines()[0].lstrip("# ").strip() if readme else ""
    det = st.get("detect", {})
    meta = {"property": pid, "name": name or pid, "title": title,
            "breaks": readme_section(readme, ["what it breaks", "what breaks"])[:1500],
            "needs_to_manifest": readme_section(readme, ["needs"])[:2500],
            "packages": st.get("packages"),
            "demo_files": [{"file": os.path.basename(f), "goes_to": f} for f in st.get("demo_files", [])],
            "applies_to_repo_commit": st.get("reapply", {}).get("head"),
            "rebased": os.path.exists(os.path.join(out, "patch.orig.diff")),
            "confirmed": st.get("confirmed"),
            "what_i_ran": {
                "worktree": "fresh scratch worktree of /repo (git worktree add --detach), removed afterwards",
                "demo_without_patch": {"cmd": st.get("demo_without_patch", {}).get("cmd"), "rc": st.get("demo_without_patch", {}).get("rc")},
                "patch_applies": st.get("apply", {}).get("rc") == 0,
                "build_with_and_without_verif_tag_rc": st.get("build", {}).get("rc"),
                "existing_tests_of_touched_packages_pass": st.get("existing_tests", {}).get("pass"),
                "existing_tests_note": st.get("existing_tests", {}).get("note", ""),
                "demo_with_patch_rc": st.get("demo_with_patch", {}).get("rc"),
                "reapplied_to_head": st.get("reapply", {}),
                "checks": "VERIF_REPO_DIR=<patched worktree> /verif/check <id> (tools/seedflow.py detect)"},
            "detection": det,
            "detected_by": sorted(k for k, v in det.items() if v.get("detected")),
            "missed_by": sorted(k for k, v in det.items() if not v.get("detected"))}
    json.dump(meta, open(os.path.join(dst, "meta.json"), "w"), indent=1)
    print("kept", dst, "detected_by", meta["detected_by"])


if __name__ == "__main__":
    a = sys.argv[1:]
    name = None
    if "--name" in a:
        i = a.index("--name"); name = a[i + 1]; del a[i:i + 2]
    if a[0] == "confirm":
        confirm(a[1], name)
    elif a[0] == "reapply":
        sys.exit(reapply(a[1], name))
    elif a[0] == "detect":
        detect(a[1], name, a[2], a[3] if len(a) > 3 else "quick")
    elif a[0] == "keep":
        keep(a[1], name)
