package g_tsm

import (
	"fmt"
	"os"
	"path/filepath"
	"sort"
	"strconv"
	"strings"
	"sync"
	"testing"

	"github.com/influxdata/influxdb/v2/pkg/verifhook"

	"verifharness/vkit"
	"verifharness/vkit/crash"
	"verifharness/vkit/sk"
)

// C02 — acknowledged writes and deletes survive a crash at any point (DESIGN §5 C02, §4 M3).
//
// A generated history (writes, range deletes, snapshots, compactions) runs on a real shard.
// Crash images (copies of the data+WAL+series directories) are taken (i) at every operation
// boundary, (ii) at every verifhook point reached inside an operation (step boundaries of the
// snapshot / compaction / FileStore.replace / delete / tombstone commit sequences), and
// (iii) as torn-tail variants of the files an in-flight write or delete appends in place (WAL
// segment, fields.idxl), cut at byte offsets with clean-cut / zero-fill / garbage-fill. Every
// image is reopened with the real code and checked with the crash rule; then the recovered
// shard is written to, closed WITHOUT flush, reopened again and re-checked (double restart).

type c02Wit struct {
	Case     int      `json:"case"`
	History  []string `json:"history"`
	Op       int      `json:"op_index"`
	InFlight string   `json:"in_flight"`
	Image    string   `json:"image"`
	Phase    string   `json:"phase"`
	Diff     string   `json:"diff"`
	Files    []string `json:"image_files"`
}

func c02Tearable(rel string) bool {
	return strings.HasSuffix(rel, ".wal") || filepath.Base(rel) == "fields.idxl"
}

func c02IsIdxl(rel string) bool { return filepath.Base(rel) == "fields.idxl" }

// order in which an operation appends to files in place. WritePoints: field changes, (index,)
// WAL. Delete: (tombstones,) WAL, (index and series file,) field changes of dropped measurements.
func c02TearOrder(kind, rel string) int {
	if c02IsIdxl(rel) == (kind != "delete") {
		return 0
	}
	return 1
}

// c02IndexDirs are the parts of a shard image a delete changes only after its WAL entry.
var c02IndexDirs = []string{filepath.Join("data", "db0", "rp0", "1", "index"), filepath.Join("data", "db0", "_series")}

type c02Ctx struct {
	r       *vkit.Run
	caseNo  int
	series  []seriesDef
	hist    []opSpec
	workDir string
	probeN  int64
	all     bool
	// snapRetained: a snapshot write failed and the cache still holds that snapshot for a retry;
	// delRetained: a delete ran in that state (known finding C03-delete-with-retained-failed-snapshot:
	// it does not see the snapshotted points, so no WAL entry or tombstone covers them)
	snapRetained, delRetained bool
}

func listFiles(dir string) []string {
	var out []string
	for rel, sz := range crash.FileSizes(dir) {
		if strings.Contains(rel, "_series") || strings.Contains(rel, "/index/") {
			continue
		}
		out = append(out, fmt.Sprintf("%s(%d)", rel, sz))
	}
	sort.Strings(out)
	return out
}

// readState reads every series×field over the full range.
func readState(s *sk.Shard, series []seriesDef, extra []seriesDef) (map[string]map[string][]sk.Pt, error) {
	out := map[string]map[string][]sk.Pt{}
	for _, sd := range append(append([]seriesDef{}, series...), extra...) {
		out[sd.Key] = map[string][]sk.Pt{}
		fs := fieldsOf(sd.Name)
		if len(fs) == 0 {
			fs = []string{"pv"}
		}
		for _, f := range fs {
			got, err := s.Read(sd.Key, f, sk.MinT, sk.MaxT, true)
			if err != nil {
				return nil, fmt.Errorf("read %s %s: %w", sd.Key, f, err)
			}
			out[sd.Key][f] = got
		}
	}
	return out, nil
}

// c02Kind is the classification (sk.Model.Classify) of the mismatch modelEquals reported last.
var c02Kind string

func modelEquals(m *sk.Model, st map[string]map[string][]sk.Pt) string {
	for key, fs := range st {
		for f, got := range fs {
			want := m.Read(key, f, sk.MinT, sk.MaxT, true)
			if d := sk.Diff(want, got); d != "" {
				c02Kind = m.Classify(key, f, want, got)
				return fmt.Sprintf("series=%q field=%s: %s", key, f, d)
			}
		}
	}
	// anything in the model that was not read?
	for key, fs := range m.S {
		for f, fm := range fs {
			if len(fm.P) > 0 {
				if _, ok := st[key][f]; !ok {
					return fmt.Sprintf("internal: model has %s/%s but it was not read", key, f)
				}
			}
		}
	}
	return ""
}

// c02OverwrittenExposed counts points of an in-flight delete seen with an older, overwritten value.
var c02OverwrittenExposed int64

// c02WasOverwritten: v was written at (key, field, t) earlier and overwritten since.
func c02WasOverwritten(m *sk.Model, key, field string, t int64, v sk.Val) bool {
	f := m.S[key][field]
	if f == nil {
		return false
	}
	for _, x := range f.Old[t] {
		if x == v {
			return true
		}
	}
	return false
}

// crashRule decides an image: returns the effective model (what the shard now holds) or a diff.
func crashRule(acked *sk.Model, series []seriesDef, inflight *opSpec, st map[string]map[string][]sk.Pt) (*sk.Model, string, string) {
	d0 := modelEquals(acked, st)
	if d0 == "" {
		return acked.Clone(), "", "absent"
	}
	if inflight == nil {
		return nil, d0, ""
	}
	switch inflight.Kind {
	case "write", "bigwrite":
		with := acked.Clone()
		applyModel(with, series, *inflight)
		if d1 := modelEquals(with, st); d1 == "" {
			return with, "", "present"
		} else {
			return nil, "neither without the in-flight write (" + d0 + ") nor with it (" + d1 + ")", ""
		}
	case "delete":
		// every point named by the delete is individually either; everything else exact
		named := map[string]bool{}
		for _, si := range inflight.DelSeries {
			named[series[si].Key] = true
		}
		eff := sk.NewModel()
		for key, fs := range st {
			for f, got := range fs {
				want := acked.Read(key, f, sk.MinT, sk.MaxT, true)
				wi := 0
				for _, g := range got {
					for wi < len(want) && want[wi].T < g.T {
						// acked point missing: allowed only if the delete names it
						if !(named[key] && want[wi].T >= inflight.Min && want[wi].T <= inflight.Max) {
							return nil, fmt.Sprintf("series=%q field=%s: acknowledged point %d:%s missing and not named by the in-flight delete; got=%s", key, f, want[wi].T, want[wi].V, sk.FmtPts(got)), ""
						}
						wi++
					}
					if wi < len(want) && want[wi].T == g.T && want[wi].V != g.V &&
						named[key] && g.T >= inflight.Min && g.T <= inflight.Max && c02WasOverwritten(acked, key, f, g.T, g.V) {
						// the delete tombstones file by file: a crash between two files can remove the
						// newer version of a point it names and leave an older, overwritten one. The
						// delete never returned, the value was written once: the statement allows it.
						c02OverwrittenExposed++
						eff.Put(key, f, g.T, g.V)
						wi++
						continue
					}
					if wi >= len(want) || want[wi].T != g.T || want[wi].V != g.V {
						return nil, fmt.Sprintf("series=%q field=%s: point %d:%s was never acknowledged in this form; want=%s got=%s", key, f, g.T, g.V, sk.FmtPts(want), sk.FmtPts(got)), ""
					}
					eff.Put(key, f, g.T, g.V)
					wi++
				}
				for ; wi < len(want); wi++ {
					if !(named[key] && want[wi].T >= inflight.Min && want[wi].T <= inflight.Max) {
						return nil, fmt.Sprintf("series=%q field=%s: acknowledged point %d:%s missing and not named by the in-flight delete; got=%s", key, f, want[wi].T, want[wi].V, sk.FmtPts(got)), ""
					}
				}
			}
		}
		return eff, "", "partial_delete"
	}
	return nil, d0, ""
}

var c02ProbeSeries = seriesDef{Name: "probe", Tags: map[string]string{"h": "z"}, Key: sk.SeriesKey("probe", map[string]string{"h": "z"})}

// verifyImage reopens a copy of the image and applies the crash rule, the post-recovery write
// and the double restart.
func (c *c02Ctx) verifyImage(imgDir string, acked *sk.Model, inflight *opSpec, opIdx int, label string, feats map[string]string) bool {
	r := c.r
	work := filepath.Join(c.workDir, "w")
	os.RemoveAll(work)
	if err := crash.CopyTree(imgDir, work); err != nil {
		r.T.Fatalf("copy image: %v", err)
	}
	defer os.RemoveAll(work)
	inf := "none"
	if inflight != nil {
		inf = inflight.String()
		feats["inflight"] = inflight.Kind
	} else {
		feats["inflight"] = "none"
	}
	wit := func(phase, d string) c02Wit {
		return c02Wit{Case: c.caseNo, History: opStrings(c.hist), Op: opIdx, InFlight: inf, Image: label, Phase: phase, Diff: d, Files: listFiles(imgDir)}
	}
	fmt.Printf("IMG case=%d op=%d image=%s\n", c.caseNo, opIdx, label) // journal: attributes a process-fatal event
	r.Event("images_reopened", 1)
	s, err := sk.Open(work, sk.Opts{})
	if err != nil {
		feats["phase"] = "reopen"
		r.Violation("reopen_failed", feats, wit("reopen", err.Error()))
		return false
	}
	extra := []seriesDef{c02ProbeSeries}
	st, err := readState(s, c.series, extra)
	if err != nil {
		s.Close()
		feats["phase"] = "read_after_reopen"
		r.Violation("read_failed_after_recovery", feats, wit("read_after_reopen", err.Error()))
		return false
	}
	eff, diff, how := crashRule(acked, c.series, inflight, st)
	if diff != "" {
		s.Close()
		feats["phase"] = "after_reopen"
		feats["kind"], feats["delete_with_retained_snapshot"] = c02Kind, fmt.Sprint(c.delRetained)
		r.Violation("crash_recovery_mismatch", feats, wit("after_reopen", diff))
		return false
	}
	if inflight != nil {
		r.Event("inflight_"+inflight.Kind+"_"+how, 1)
	}
	// the recovered shard must accept further writes
	c.probeN++
	pt := 100000 + c.probeN
	probe := opSpec{Kind: "write", Pts: []ptSpec{}}
	pm := eff
	pts := []struct {
		sd seriesDef
		f  string
		v  sk.Val
	}{
		{c02ProbeSeries, "pv", sk.IntVal(c.probeN)},
		{c.series[int(c.probeN)%len(c.series)], fieldsOf(c.series[int(c.probeN)%len(c.series)].Name)[0], sk.Val{}},
	}
	sd1 := pts[1].sd
	k1 := fieldKinds[sd1.Name][pts[1].f]
	vc := &valCounter{n: 10_000_000 + c.probeN}
	pts[1].v = vc.next(k1)
	var mpts = make([]interface{}, 0)
	_ = mpts
	for _, p := range pts {
		if err := s.Write(modelsPoint(p.sd, p.f, p.v, pt)); err != nil {
			s.Close()
			feats["phase"] = "write_after_recovery"
			r.Violation("write_refused_after_recovery", feats, wit("write_after_recovery", err.Error()))
			return false
		}
		pm.Put(p.sd.Key, p.f, pt, p.v)
	}
	_ = probe
	st, err = readState(s, c.series, extra)
	if err == nil {
		if d := modelEquals(pm, st); d != "" {
			err = fmt.Errorf("%s", d)
		}
	}
	if err != nil {
		s.Close()
		feats["phase"] = "after_recovery_write"
		feats["kind"], feats["delete_with_retained_snapshot"] = c02Kind, fmt.Sprint(c.delRetained)
		r.Violation("post_recovery_write_mismatch", feats, wit("after_recovery_write", err.Error()))
		return false
	}
	// double restart: close without flush, reopen, everything acknowledged so far must be there
	if err := s.Close(); err != nil {
		feats["phase"] = "close"
		r.Violation("close_failed", feats, wit("close", err.Error()))
		return false
	}
	s2, err := sk.Open(work, sk.Opts{})
	if err != nil {
		feats["phase"] = "second_reopen"
		r.Violation("reopen_failed", feats, wit("second_reopen", err.Error()))
		return false
	}
	defer s2.Close()
	st, err = readState(s2, c.series, extra)
	if err == nil {
		if d := modelEquals(pm, st); d != "" {
			err = fmt.Errorf("%s", d)
		}
	}
	if err != nil {
		feats["phase"] = "after_second_restart"
		feats["kind"], feats["delete_with_retained_snapshot"] = c02Kind, fmt.Sprint(c.delRetained)
		r.Violation("double_restart_mismatch", feats, wit("after_second_restart", err.Error()))
		return false
	}
	r.Event("images_ok", 1)
	return true
}

func c02History(r *vkit.Run, caseNo int, rg *vkit.Rand, all bool) {
	series := domSeries()
	vc := &valCounter{}
	g := &histGen{rg: rg, series: series, vc: vc, Deletes: true, NoReopen: true, SnapHeavy: caseNo%3 == 1}
	root := tmpDir("c02")
	defer os.RemoveAll(root)
	live, store, work := filepath.Join(root, "live"), filepath.Join(root, "img"), filepath.Join(root, "work")
	os.MkdirAll(store, 0o755)
	os.MkdirAll(work, 0o755)
	// one history in three rolls its WAL segment every few writes: the write that triggers the
	// roll must be as durable at its acknowledgement as any other
	lopts := sk.Opts{}
	if caseNo%3 == 2 {
		lopts.WALSegmentSize = rg.Range(150, 700)
		r.Event("histories_with_small_wal_segments", 1)
	}
	s, err := sk.Open(live, lopts)
	if err != nil {
		r.T.Fatalf("open: %v", err)
	}
	defer func() { s.Close() }()
	im := &crash.Imager{Root: live, Store: store}
	c := &c02Ctx{r: r, caseNo: caseNo, series: series, workDir: work, all: all}
	m := sk.NewModel()
	prev, err := im.Take("boundary", -1)
	if err != nil {
		r.T.Fatalf("image: %v", err)
	}
	nops := rg.Range(6, 14)
	images, torn, hookImgsN := 0, 0, 0
	kinds := map[string]bool{}
	for k := 0; k < nops; k++ {
		o := g.genOp()
		if o.Kind == "reopen" {
			o = g.genWrite()
		}
		c.hist = append(c.hist, o)
		kinds[o.Kind] = true
		acked := m.Clone()
		// (ii) hook images during the op
		im.ResetWindow()
		im.Max = 14
		var hmu sync.Mutex
		var hookImgs []*crash.Image
		restore := verifhook.SetGlobal(func(name string, _ interface{}) {
			img, err := im.Take(name, k)
			if err == nil && img != nil {
				hmu.Lock()
				hookImgs = append(hookImgs, img)
				hmu.Unlock()
			}
		})
		var opErr error
		switch o.Kind {
		case "write":
			opErr = s.Write(g.points(o))
		case "delete":
			var keys []string
			for _, si := range o.DelSeries {
				keys = append(keys, series[si].Key)
			}
			opErr = s.DeleteRange(keys, o.Min, o.Max)
			if c.snapRetained {
				c.delRetained = true
				r.Event("deletes_with_retained_snapshot", 1)
			}
		case "snapfail":
			if err := s.SnapshotFailing(); err != nil {
				r.Event("failed_snapshots", 1)
				c.snapRetained = true
			}
		case "snapshot":
			opErr = s.Snapshot()
			if opErr == nil {
				c.snapRetained = false
			}
		case "level":
			s.CompactLevel(o.Level, o.Fast, o.PPB)
		case "full":
			s.CompactFull(o.PPB)
		case "optimize":
			s.CompactOptimize(o.PPB)
		case "run":
			from, n := resolveRun(o, len(s.Generations()))
			if n >= 1 {
				s.CompactRun(from, n, o.Mode, o.PPB)
			}
		}
		restore()
		if opErr != nil {
			r.Violation("op_error", map[string]string{"op": o.Kind}, c02Wit{Case: caseNo, History: opStrings(c.hist), Op: k, Diff: opErr.Error()})
			return
		}
		applyModel(m, series, o)
		im.Max = 0
		bimg, err := im.Take("boundary", k)
		if err != nil {
			r.T.Fatalf("image: %v", err)
		}
		ok := true
		for _, hi := range hookImgs {
			hookImgsN++
			images++
			r.Event("hook_image:"+hi.Label, 1)
			if !c.verifyImage(hi.Dir, acked, &o, k, fmt.Sprintf("hook:%s#%d", hi.Label, hi.Nth), map[string]string{"image": "hook", "hook": hi.Label, "fill": "none"}) {
				ok = false
			}
			os.RemoveAll(hi.Dir)
		}
		// (iii) torn tails of files appended in place by a write / delete
		if ok && (o.Kind == "write" || o.Kind == "delete") {
			grown := crash.Grown(prev.Dir, bimg.Dir, c02Tearable)
			sort.SliceStable(grown, func(i, j int) bool { return c02TearOrder(o.Kind, grown[i].Rel) < c02TearOrder(o.Kind, grown[j].Rel) })
			for gi, gf := range grown {
				// WAL tails are torn three ways; fields.idxl records carry no checksum, so only the
				// prefix cut (what a process death mid-write leaves) is a promised-recoverable state
				fills := []string{"cut", "zero", "garbage"}
				if all && k == 0 {
					fills = append(fills, "garbageA5")
				}
				if c02IsIdxl(gf.Rel) {
					fills = []string{"cut"}
				}
				for _, j := range crash.Offsets(gf.New-gf.Old, all) {
					for _, fill := range fills {
						// zero / garbage fill only for the whole in-flight append (j == 0): WAL
						// entries carry no checksum, so a fill that starts inside an entry body
						// whose length prefix is intact is not detectable and is not what a
						// process death leaves behind (see DESIGN Appendix C, correction 1)
						if fill != "cut" && j != 0 {
							continue
						}
						vdir := filepath.Join(store, "variant")
						os.RemoveAll(vdir)
						if err := crash.CopyTree(bimg.Dir, vdir); err != nil {
							r.T.Fatalf("variant: %v", err)
						}
						// files written later in the operation are still at their old length
						for _, later := range grown[gi+1:] {
							if later.Old == 0 && c02IsIdxl(later.Rel) {
								os.Remove(filepath.Join(vdir, later.Rel))
							} else {
								os.Truncate(filepath.Join(vdir, later.Rel), later.Old)
							}
						}
						// a delete drops series from the index and the series file only after its WAL
						// entry is written: while that entry is torn they are as before the delete
						if o.Kind == "delete" && !c02IsIdxl(gf.Rel) {
							for _, d := range c02IndexDirs {
								os.RemoveAll(filepath.Join(vdir, d))
								if _, err := os.Stat(filepath.Join(prev.Dir, d)); err == nil {
									if err := crash.CopyTree(filepath.Join(prev.Dir, d), filepath.Join(vdir, d)); err != nil {
										r.T.Fatalf("variant index: %v", err)
									}
								}
							}
							r.Event("torn_delete_index_from_before", 1)
						}
						if err := crash.Tear(filepath.Join(vdir, gf.Rel), gf.Old+j, gf.New, fill); err != nil {
							r.T.Fatalf("tear: %v", err)
						}
						torn++
						images++
						kind := "wal"
						if c02IsIdxl(gf.Rel) {
							kind = "fields.idxl"
						}
						r.Event("torn_image:"+kind+":"+fill, 1)
						label := fmt.Sprintf("torn:%s@%d+%d/%d:%s", filepath.Base(gf.Rel), gf.Old, j, gf.New-gf.Old, fill)
						if !c.verifyImage(vdir, acked, &o, k, label, map[string]string{"image": "torn", "file": kind, "fill": fill}) {
							ok = false
						}
						os.RemoveAll(vdir)
						if !ok {
							break
						}
					}
					if !ok {
						break
					}
				}
				if !ok {
					break
				}
			}
		}
		// (i) the boundary image: everything up to and including op k is acknowledged
		images++
		r.Event("boundary_image", 1)
		if !c.verifyImage(bimg.Dir, m, nil, k, "boundary", map[string]string{"image": "boundary", "after_op": o.Kind, "fill": "none"}) {
			ok = false
		}
		os.RemoveAll(prev.Dir)
		prev = bimg
		if !ok || r.Violations() > 3 {
			break
		}
	}
	r.Event("ops", int64(len(c.hist)))
	if c02OverwrittenExposed > 0 {
		r.Event("inflight_delete_exposed_overwritten_value", c02OverwrittenExposed)
		c02OverwrittenExposed = 0
	}
	r.Case(mustJSON(c.hist), kinds["write"] && images >= 10 && torn > 0)
	if caseNo%5 == 0 && r.WantSample() {
		r.Sample(map[string]any{"case": caseNo, "history": opStrings(c.hist), "images_checked": images, "torn_variants": torn, "hook_images": hookImgsN})
	}
}

func TestC02(t *testing.T) {
	r := vkit.Start(t, "C02", "fault_enumeration")
	defer r.Finish()
	r.Rule("case = generated history (6–14 ops: writes, range deletes, snapshots, level/full/optimize/run compactions) on a real shard; crash points enumerated per history: every op boundary, every verifhook point reached inside an op (snapshot/compaction/replace/delete/tombstone commit step boundaries), and torn tails (clean cut / zero fill / 0xA5 fill) of WAL segment and fields.idxl at byte offsets of the in-flight append (stride in quick, every byte in thorough); each image reopened by the real code, crash rule applied, then written to, closed without flush, reopened, re-checked; non-trivial = history has a write, ≥10 images and ≥1 torn variant; distinct = hash of op list")
	r.Assume("crash model = process death (everything handed to the kernel survives) + torn last append; no block-layer reordering")
	n := r.N(8, 48)
	only := -1
	if v := os.Getenv("VERIF_C02_ONLY"); v != "" { // replay aid: one history of the tier
		only, _ = strconv.Atoi(v)
	}
	for i := 0; i < n; i++ {
		if only >= 0 && i != only {
			continue
		}
		c02History(r, i, r.Rand(i), !r.Quick())
		if r.Violations() > 3 {
			break
		}
	}
	// syscall durability monitor: scripted histories in a child under strace
	ns := r.N(2, 40)
	for i := 0; i < ns; i++ {
		c02Strace(r, i, r.SubRand("strace", i).Uint64())
	}
}
