package g_tsm

import (
	"encoding/json"
	"fmt"
	"os"
	"sort"
	"strings"

	"github.com/influxdata/influxdb/v2/models"

	"verifharness/vkit"
	"verifharness/vkit/sk"
)

// ---- shared history machinery for C01 / C03 / C39 (DESIGN §4 M1, M6) -------------------

type seriesDef struct {
	Name string
	Tags map[string]string
	Key  string
}

// field name -> kind is fixed per measurement so histories never hit a type conflict
// (type conflicts are C10/C40's subject).
var fieldKinds = map[string]map[string]byte{
	"m0":    {"fi": 'i', "ff": 'f', "fs": 's'},
	"m 1,x": {"fu": 'u', "fb": 'b', "ff": 'f'},
}

func domSeries() []seriesDef {
	var out []seriesDef
	for _, m := range []string{"m0", "m 1,x"} {
		for _, h := range []string{"a", "b c"} {
			tags := map[string]string{"h": h}
			out = append(out, seriesDef{Name: m, Tags: tags, Key: sk.SeriesKey(m, tags)})
		}
	}
	return out
}

func fieldsOf(m string) []string {
	var fs []string
	for f := range fieldKinds[m] {
		fs = append(fs, f)
	}
	sort.Strings(fs)
	return fs
}

var timeGrid = func() []int64 {
	var g []int64
	for i := 0; i < 16; i++ {
		g = append(g, int64(i*10-50))
	}
	return g
}()

func pickTime(rg *vkit.Rand) int64 {
	if rg.Chance(1, 16) {
		return vkit.Pick(rg, []int64{sk.MinT, sk.MinT + 1, sk.MaxT, sk.MaxT - 1})
	}
	return vkit.Pick(rg, timeGrid)
}

type ptSpec struct {
	S      int               `json:"s"` // series index
	T      int64             `json:"t"`
	Fields map[string]sk.Val `json:"f"`
}

type opSpec struct {
	Kind  string   `json:"op"` // write snapshot level full optimize reopen delete bigwrite
	Pts   []ptSpec `json:"pts,omitempty"`
	Level int      `json:"level,omitempty"`
	Fast  bool     `json:"fast,omitempty"`
	PPB   int      `json:"ppb,omitempty"`
	// delete
	DelSeries []int `json:"del_series,omitempty"`
	Min       int64 `json:"min,omitempty"`
	Max       int64 `json:"max,omitempty"`
	// bigwrite
	N int `json:"n,omitempty"`
	// run: contiguous generations [From, From+Len) as fractions resolved at execution time
	FromPct int    `json:"from_pct,omitempty"`
	LenPct  int    `json:"len_pct,omitempty"`
	Mode    string `json:"mode,omitempty"`
}

func (o opSpec) String() string {
	switch o.Kind {
	case "write":
		var ps []string
		for _, p := range o.Pts {
			var fs []string
			for k, v := range p.Fields {
				fs = append(fs, k+"="+v.String())
			}
			sort.Strings(fs)
			ps = append(ps, fmt.Sprintf("s%d@%d{%s}", p.S, p.T, strings.Join(fs, ",")))
		}
		return "write[" + strings.Join(ps, " ") + "]"
	case "level":
		return fmt.Sprintf("level(%d,fast=%v,ppb=%d)", o.Level, o.Fast, o.PPB)
	case "full", "optimize":
		return fmt.Sprintf("%s(ppb=%d)", o.Kind, o.PPB)
	case "delete":
		return fmt.Sprintf("delete(series=%v,[%d,%d])", o.DelSeries, o.Min, o.Max)
	case "bigwrite":
		return fmt.Sprintf("bigwrite(s%d,n=%d)", o.Pts[0].S, o.N)
	case "run":
		return fmt.Sprintf("run(from=%d%%,len=%d%%,%s,ppb=%d)", o.FromPct, o.LenPct, o.Mode, o.PPB)
	}
	return o.Kind
}

// valCounter hands out unique values so that a read names the write it observed.
type valCounter struct{ n int64 }

func (c *valCounter) next(kind byte) sk.Val {
	c.n++
	switch kind {
	case 'i':
		return sk.IntVal(c.n)
	case 'u':
		return sk.UintVal(uint64(c.n))
	case 'f':
		return sk.FloatVal(float64(c.n))
	case 's':
		return sk.StrVal(fmt.Sprintf("w%d", c.n))
	default:
		return sk.BoolVal(c.n%2 == 0)
	}
}

type histGen struct {
	rg        *vkit.Rand
	series    []seriesDef
	vc        *valCounter
	Deletes   bool
	NoReopen  bool
	SnapHeavy bool // many write+snapshot pairs so that level plans and multi-generation runs exist
}

func (g *histGen) genPoint() ptSpec {
	si := g.rg.Intn(len(g.series))
	m := g.series[si].Name
	fs := fieldsOf(m)
	p := ptSpec{S: si, T: pickTime(g.rg), Fields: map[string]sk.Val{}}
	n := g.rg.Range(1, len(fs))
	for _, j := range g.rg.Perm(len(fs))[:n] {
		p.Fields[fs[j]] = g.vc.next(fieldKinds[m][fs[j]])
	}
	return p
}

func (g *histGen) genWrite() opSpec {
	n := g.rg.Range(1, 8)
	o := opSpec{Kind: "write"}
	for i := 0; i < n; i++ {
		p := g.genPoint()
		if i > 0 && g.rg.Chance(1, 5) { // same cell again inside one batch
			p.S, p.T = o.Pts[i-1].S, o.Pts[i-1].T
			m := g.series[p.S].Name
			p.Fields = map[string]sk.Val{}
			for f := range o.Pts[i-1].Fields {
				p.Fields[f] = g.vc.next(fieldKinds[m][f])
			}
		}
		o.Pts = append(o.Pts, p)
	}
	return o
}

var ppbChoices = []int{3, 7, 1000}

func (g *histGen) genRun() opSpec {
	return opSpec{Kind: "run", FromPct: g.rg.Intn(100), LenPct: g.rg.Range(1, 100), Mode: vkit.Pick(g.rg, []string{"fast", "level", "full", "optimize"}), PPB: vkit.Pick(g.rg, ppbChoices)}
}

func (g *histGen) genOp() opSpec {
	r := g.rg.Intn(100)
	if g.rg.Chance(1, 25) {
		// a cache snapshot whose write fails (snapshots disabled on the compactor); the cache
		// keeps the snapshot and a later snapshot retries it
		return opSpec{Kind: "snapfail"}
	}
	if g.SnapHeavy {
		switch {
		case r < 38:
			return g.genWrite()
		case r < 70:
			return opSpec{Kind: "snapshot"}
		case r < 78:
			return opSpec{Kind: "level", Level: g.rg.Range(1, 3), Fast: g.rg.Bool(), PPB: vkit.Pick(g.rg, ppbChoices)}
		case r < 90:
			return g.genRun()
		case r < 92:
			return opSpec{Kind: "full", PPB: vkit.Pick(g.rg, ppbChoices)}
		case r < 94:
			return opSpec{Kind: "optimize", PPB: vkit.Pick(g.rg, ppbChoices)}
		case r < 96 && !g.NoReopen:
			return opSpec{Kind: "reopen"}
		default:
			if g.Deletes {
				return g.genDelete()
			}
			return g.genWrite()
		}
	}
	switch {
	case r < 45:
		return g.genWrite()
	case r < 62:
		return opSpec{Kind: "snapshot"}
	case r < 74:
		return opSpec{Kind: "level", Level: g.rg.Range(1, 3), Fast: g.rg.Bool(), PPB: vkit.Pick(g.rg, ppbChoices)}
	case r < 80:
		return opSpec{Kind: "full", PPB: vkit.Pick(g.rg, ppbChoices)}
	case r < 84:
		return opSpec{Kind: "optimize", PPB: vkit.Pick(g.rg, ppbChoices)}
	case r < 90:
		if g.NoReopen {
			return g.genWrite()
		}
		return opSpec{Kind: "reopen"}
	default:
		if !g.Deletes {
			return g.genWrite()
		}
		return g.genDelete()
	}
}

func (g *histGen) genDelete() opSpec {
	o := opSpec{Kind: "delete"}
	n := g.rg.Range(1, 2)
	for _, j := range g.rg.Perm(len(g.series))[:n] {
		o.DelSeries = append(o.DelSeries, j)
	}
	sort.Ints(o.DelSeries)
	switch g.rg.Intn(5) {
	case 0:
		o.Min, o.Max = sk.MinT, sk.MaxT
	case 1:
		o.Min, o.Max = sk.MinT, vkit.Pick(g.rg, timeGrid)
	case 2:
		o.Min, o.Max = vkit.Pick(g.rg, timeGrid), sk.MaxT
	default:
		a, b := vkit.Pick(g.rg, timeGrid), vkit.Pick(g.rg, timeGrid)
		if a > b {
			a, b = b, a
		}
		o.Min, o.Max = a+int64(g.rg.Intn(3)-1), b+int64(g.rg.Intn(3)-1)
		if o.Min > o.Max {
			o.Min, o.Max = o.Max, o.Min
		}
	}
	return o
}

func (g *histGen) genBigWrite() opSpec {
	si := g.rg.Intn(len(g.series))
	return opSpec{Kind: "bigwrite", Pts: []ptSpec{{S: si}}, N: g.rg.Range(1500, 2500)}
}

// resolveRun maps the percentages of a run op onto the current number of generations.
func resolveRun(o opSpec, ngen int) (from, n int) {
	if ngen < 1 {
		return 0, 0
	}
	from = o.FromPct * ngen / 100
	if from >= ngen {
		from = ngen - 1
	}
	n = 1 + o.LenPct*(ngen-from)/100
	if from+n > ngen {
		n = ngen - from
	}
	return from, n
}

// points builds the models.Points of a write op.
func (g *histGen) points(o opSpec) []models.Point {
	var out []models.Point
	for _, p := range o.Pts {
		sd := g.series[p.S]
		out = append(out, sk.Point(sd.Name, sd.Tags, p.Fields, p.T))
	}
	return out
}

// applyModel applies a write/delete op to the reference model.
func applyModel(m *sk.Model, series []seriesDef, o opSpec) {
	switch o.Kind {
	case "write":
		for _, p := range o.Pts {
			for f, v := range p.Fields {
				m.Put(series[p.S].Key, f, p.T, v)
			}
		}
	case "delete":
		for _, si := range o.DelSeries {
			m.Delete(series[si].Key, o.Min, o.Max)
		}
	}
}

// bigWritePoints materialises a bigwrite: N points on one key, timestamps 1000+i (outside the
// grid so they do not collide), unique values; applied to the model as well.
func bigWritePoints(m *sk.Model, series []seriesDef, o opSpec, vc *valCounter) []models.Point {
	sd := series[o.Pts[0].S]
	f := fieldsOf(sd.Name)[0]
	k := fieldKinds[sd.Name][f]
	pts := make([]models.Point, 0, o.N)
	for i := 0; i < o.N; i++ {
		v := vc.next(k)
		t := int64(1000 + i)
		pts = append(pts, sk.Point(sd.Name, sd.Tags, map[string]sk.Val{f: v}, t))
		m.Put(sd.Key, f, t, v)
	}
	return pts
}

type readRange struct {
	Lo, Hi int64
}

func readRanges(rg *vkit.Rand) []readRange {
	a, b := vkit.Pick(rg, timeGrid), vkit.Pick(rg, timeGrid)
	if a > b {
		a, b = b, a
	}
	p := vkit.Pick(rg, timeGrid)
	return []readRange{{sk.MinT, sk.MaxT}, {a, b}, {p, p}, {sk.MinT, p}, {p, 5000}}
}

// checkAll compares every series × field × range × direction with the model; returns the
// first difference and the number of comparisons made.
// lastMismatch describes the most recent difference checkAll found (kind per sk.Model.Classify,
// block locations of the key): known findings are matched on these features.
var lastMismatch = map[string]string{}

func mismatchFeatures(feats map[string]string) map[string]string {
	for k, v := range lastMismatch {
		feats[k] = v
	}
	return feats
}

func checkAll(s *sk.Shard, m *sk.Model, series []seriesDef, ranges []readRange) (diff string, reads int, nonEmpty int) {
	lastMismatch = map[string]string{}
	for _, sd := range series {
		for _, f := range fieldsOf(sd.Name) {
			for _, rr := range ranges {
				for _, asc := range []bool{true, false} {
					got, err := s.Read(sd.Key, f, rr.Lo, rr.Hi, asc)
					reads++
					if err != nil {
						return fmt.Sprintf("read %s %s [%d,%d] asc=%v: error %v", sd.Key, f, rr.Lo, rr.Hi, asc, err), reads, nonEmpty
					}
					want := m.Read(sd.Key, f, rr.Lo, rr.Hi, asc)
					if len(want) > 0 {
						nonEmpty++
					}
					if d := sk.Diff(want, got); d != "" {
						loc := s.KeyLocations(sd.Key, f)
						lastMismatch["kind"] = m.Classify(sd.Key, f, want, got)
						lastMismatch["key_locations"] = "le12"
						if loc > 12 {
							lastMismatch["key_locations"] = "gt12"
						}
						return fmt.Sprintf("read series=%q field=%s range=[%d,%d] asc=%v (%s, %d block locations): %s", sd.Key, f, rr.Lo, rr.Hi, asc, lastMismatch["kind"], loc, d), reads, nonEmpty
					}
				}
			}
		}
	}
	return "", reads, nonEmpty
}

func opStrings(ops []opSpec) []string {
	out := make([]string, len(ops))
	for i, o := range ops {
		out[i] = o.String()
	}
	return out
}

func mustJSON(v any) string {
	b, _ := json.Marshal(v)
	return string(b)
}

func tmpDir(prefix string) string {
	d, err := os.MkdirTemp("", prefix)
	if err != nil {
		panic(err)
	}
	return d
}

func countPoints(m *sk.Model) int {
	n := 0
	for _, fs := range m.S {
		for _, f := range fs {
			n += len(f.P)
		}
	}
	return n
}

func modelsPoint(sd seriesDef, field string, v sk.Val, t int64) []models.Point {
	return []models.Point{sk.Point(sd.Name, sd.Tags, map[string]sk.Val{field: v}, t)}
}
