package g_tsm

import (
	"fmt"
	"os"
	"testing"

	"verifharness/vkit"
	"verifharness/vkit/sk"
)

// C01 — read-your-writes, last-write-wins across flushes and compactions (DESIGN §5 C01).
// The harness owns the schedule: background compactions are off, snapshot / level / full /
// optimize compactions and reopen are explicit operations of the generated history; after
// every operation every series×field is read over several ranges in both directions and
// compared with the reference model M1 (unique values: a read names the write it observed).

type c01Wit struct {
	Case    int      `json:"case"`
	History []string `json:"history"`
	FailsAt int      `json:"fails_after_op"`
	Diff    string   `json:"diff"`
	Files   []string `json:"tsm_files"`
}

type histCfg struct {
	BG      bool   // engine's own background compaction goroutines on
	Deletes bool   // history contains range deletes (C03)
	Class   string // violation class
}

func runC01History(r *vkit.Run, caseNo int, rg *vkit.Rand, bg bool) {
	runHistory(r, caseNo, rg, histCfg{BG: bg, Class: "read_mismatch"})
}

func runHistory(r *vkit.Run, caseNo int, rg *vkit.Rand, cfg histCfg) {
	bg := cfg.BG
	series := domSeries()
	vc := &valCounter{}
	g := &histGen{rg: rg, series: series, vc: vc, SnapHeavy: caseNo%2 == 1, Deletes: cfg.Deletes}
	nops := rg.Range(12, 40)
	if g.SnapHeavy {
		nops = rg.Range(30, 80)
	}
	big := rg.Chance(1, 8)
	dir := tmpDir("c01")
	defer os.RemoveAll(dir)
	opts := sk.Opts{}
	if bg {
		opts = sk.Opts{Background: true, CacheSnapshotSize: 256}
	}
	s, err := sk.Open(dir, opts)
	if err != nil {
		r.T.Fatalf("open: %v", err)
	}
	defer func() { s.Close() }()
	m := sk.NewModel()
	var hist []opSpec
	kinds := map[string]bool{}
	overwrites := 0
	// a cache snapshot whose write failed is retained by the cache until a later snapshot
	// succeeds (or the shard restarts)
	failedSnapPending := false
	// a delete ran while such a snapshot was retained (known finding: it does not see the
	// snapshotted points; the damage can surface any number of operations later)
	delRetained := false
	fail := func(i int, d string) {
		r.Violation(cfg.Class, mismatchFeatures(map[string]string{"after_op": hist[i].Kind, "background": fmt.Sprint(bg), "schedule": "sequential", "failed_snapshot_pending": fmt.Sprint(failedSnapPending), "delete_with_retained_snapshot": fmt.Sprint(delRetained)}),
			c01Wit{Case: caseNo, History: opStrings(hist), FailsAt: i, Diff: d, Files: s.TSMFiles()})
	}
	for i := 0; i < nops; i++ {
		var o opSpec
		if big && i == nops/3 {
			o = g.genBigWrite()
		} else {
			o = g.genOp()
		}
		hist = append(hist, o)
		kinds[o.Kind] = true
		switch o.Kind {
		case "write":
			for _, p := range o.Pts {
				for f := range p.Fields {
					if fm := m.S[series[p.S].Key][f]; fm != nil {
						if _, ok := fm.P[p.T]; ok {
							overwrites++
						}
					}
				}
			}
			if err := s.Write(g.points(o)); err != nil {
				fail(i, "write returned error: "+err.Error())
				return
			}
			applyModel(m, series, o)
		case "bigwrite":
			if err := s.Write(bigWritePoints(m, series, o, vc)); err != nil {
				fail(i, "write returned error: "+err.Error())
				return
			}
		case "delete":
			var keys []string
			for _, si := range o.DelSeries {
				keys = append(keys, series[si].Key)
			}
			if failedSnapPending {
				delRetained = true
				r.Event("deletes_with_retained_snapshot", 1)
			}
			if err := s.DeleteRange(keys, o.Min, o.Max); err != nil {
				fail(i, "delete returned error: "+err.Error())
				return
			}
			before := countPoints(m)
			applyModel(m, series, o)
			r.Event("deletes", 1)
			r.Event("points_deleted_in_model", int64(before-countPoints(m)))
		case "snapfail":
			if !bg {
				if err := s.SnapshotFailing(); err != nil {
					r.Event("failed_snapshots", 1)
					failedSnapPending = true
				}
			}
		case "snapshot":
			if err := s.Snapshot(); err != nil {
				fail(i, "snapshot error: "+err.Error())
				return
			}
			failedSnapPending = false
		case "level":
			if !bg {
				r.Event("level_groups_run", int64(s.CompactLevel(o.Level, o.Fast, o.PPB)))
			}
		case "full":
			if !bg {
				r.Event("full_groups_run", int64(s.CompactFull(o.PPB)))
			}
		case "optimize":
			if !bg {
				r.Event("optimize_groups_run", int64(s.CompactOptimize(o.PPB)))
			}
		case "run":
			if !bg {
				from, n := resolveRun(o, len(s.Generations()))
				if n >= 1 && s.CompactRun(from, n, o.Mode, o.PPB) {
					r.Event("run_compactions_"+o.Mode, 1)
					if n > 1 {
						r.Event("run_compactions_multi_generation", 1)
					}
				}
			}
		case "reopen":
			if err := s.Reopen(); err != nil {
				fail(i, "reopen error: "+err.Error())
				return
			}
			failedSnapPending = false
		}
		d, reads, nonEmpty := checkAll(s, m, series, readRanges(rg))
		r.Event("reads_compared", int64(reads))
		r.Event("nonempty_reads_compared", int64(nonEmpty))
		if d != "" {
			fail(i, d)
			return
		}
	}
	r.Event("ops", int64(len(hist)))
	r.Event("overwrites_of_existing_cell", int64(overwrites))
	nontrivial := kinds["write"] && (kinds["snapshot"] || kinds["reopen"]) && overwrites > 0
	if cfg.Deletes {
		nontrivial = nontrivial && kinds["delete"]
	}
	r.Case(mustJSON(hist), nontrivial)
	if caseNo%37 == 0 && r.WantSample() {
		r.Sample(map[string]any{"case": caseNo, "background_compactions": bg, "history": opStrings(hist), "final_tsm_files": s.TSMFiles()})
	}
}

func TestC01(t *testing.T) {
	r := vkit.Start(t, "C01", "exploration")
	defer r.Finish()
	r.Rule("case = generated history of 12–40 ops (write batches with in-batch and cross-generation overwrites, snapshot, level/full/optimize compaction with ppb∈{3,7,1000}, reopen, 1 in 8 with a 1500–2500-point write) on a real shard with the harness owning the schedule; after every op all series×fields are read over 5 ranges × 2 directions and compared with the model; non-trivial = history contains a write, an overwrite of an existing cell and a snapshot or reopen; distinct = hash of the op list")
	n := r.N(150, 3000)
	for i := 0; i < n; i++ {
		runC01History(r, i, r.Rand(i), false)
		if r.Violations() > 5 {
			break
		}
	}
	// histories with the engine's own background compaction goroutines on (tiny thresholds)
	nb := r.N(6, 200)
	for i := 0; i < nb; i++ {
		runC01History(r, 1_000_000+i, r.SubRand("bg", i), true)
		if r.Violations() > 5 {
			break
		}
	}
}
