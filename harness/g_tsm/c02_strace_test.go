package g_tsm

import (
	"encoding/json"
	"fmt"
	"os"
	"os/exec"
	"path/filepath"
	"strings"
	"time"

	"verifharness/vkit"
	"verifharness/vkit/sk"
	"verifharness/vkit/strace"
)

// C02, syscall durability monitor (DESIGN §4 M4). A crash image cannot show a missing fsync:
// the page cache survives a process kill. So a scripted history runs in a child process under
// `strace -f -y`, the child marks the instant each operation returned success, and an offline
// checker asserts over the trace: D1 no WAL / TSM / tombstone / field-index file written by the
// operation is still un-fsynced when it is acknowledged; D2 a temp file is fsynced before it is
// renamed into place and the directory is fsynced before the acknowledgement; D3 WAL segments
// are unlinked only after a TSM file was renamed into place.

type c02StraceIn struct {
	Dir  string `json:"dir"`
	Ack  string `json:"ack"`
	Seed uint64 `json:"seed"`
}

// c02StraceChild runs in the traced child process.
func c02StraceChild(payload []byte) ([]byte, error) {
	var in c02StraceIn
	if err := json.Unmarshal(payload, &in); err != nil {
		return nil, err
	}
	ack, err := os.OpenFile(in.Ack, os.O_CREATE|os.O_WRONLY|os.O_APPEND, 0o644)
	if err != nil {
		return nil, err
	}
	defer ack.Close()
	s, err := sk.Open(in.Dir, sk.Opts{})
	if err != nil {
		return nil, err
	}
	rg := vkit.NewRand(in.Seed)
	series := domSeries()
	vc := &valCounter{}
	g := &histGen{rg: rg, series: series, vc: vc, Deletes: true, NoReopen: true}
	var hist []string
	n := 0
	mark := func(kind string) {
		n++
		fmt.Fprintf(ack, "ACK %d %s\n", n, kind)
	}
	script := []string{"write", "write", "delete", "snapshot", "write", "delete", "write", "snapshot", "write", "snapshot", "run", "delete", "write", "snapshot", "full", "write"}
	for _, k := range script {
		var o opSpec
		switch k {
		case "write":
			o = g.genWrite()
			if err := s.Write(g.points(o)); err != nil {
				return nil, fmt.Errorf("write: %w", err)
			}
		case "delete":
			o = g.genDelete()
			var keys []string
			for _, si := range o.DelSeries {
				keys = append(keys, series[si].Key)
			}
			if err := s.DeleteRange(keys, o.Min, o.Max); err != nil {
				return nil, fmt.Errorf("delete: %w", err)
			}
		case "snapshot":
			o = opSpec{Kind: "snapshot"}
			if err := s.Snapshot(); err != nil {
				return nil, fmt.Errorf("snapshot: %w", err)
			}
		case "run":
			o = opSpec{Kind: "run", Mode: "level", PPB: 3}
			gens := s.Generations()
			if len(gens) >= 2 {
				s.CompactRun(0, len(gens), "level", 3)
			}
		case "full":
			o = opSpec{Kind: "full", PPB: 7}
			s.CompactFull(7)
		}
		hist = append(hist, o.String())
		mark(o.Kind)
	}
	s.Close()
	return json.Marshal(hist)
}

func c02Durable(root string) func(string) string {
	return func(p string) string {
		if !strings.HasPrefix(p, root) {
			return ""
		}
		b := filepath.Base(p)
		switch {
		case strings.HasSuffix(b, ".wal"):
			return "wal"
		case strings.HasSuffix(b, ".tsm") || strings.HasSuffix(b, ".tsm.tmp"):
			return "tsm"
		case strings.Contains(b, ".tombstone"):
			return "tombstone"
		case strings.HasPrefix(b, "fields.idx"):
			return "fields"
		}
		return ""
	}
}

func c02Strace(r *vkit.Run, caseNo int, seed uint64) {
	if _, err := exec.LookPath("strace"); err != nil {
		r.Inconclusive("strace not installed")
		return
	}
	root := tmpDir("c02s")
	defer os.RemoveAll(root)
	in := c02StraceIn{Dir: filepath.Join(root, "shard"), Ack: filepath.Join(root, "ackmarker"), Seed: seed}
	payload, _ := json.Marshal(in)
	inF, outF, logF := filepath.Join(root, "in"), filepath.Join(root, "out"), filepath.Join(root, "strace.log")
	os.WriteFile(inF, payload, 0o644)
	cmd := exec.Command("strace", "-f", "-y", "-s", "40", "-o", logF,
		"-e", "trace=openat,write,pwrite64,writev,fsync,fdatasync,rename,renameat,renameat2,unlink,unlinkat",
		os.Args[0])
	cmd.Env = append(os.Environ(), "VERIF_CHILD=c02strace", "VERIF_CHILD_IN="+inF, "VERIF_CHILD_OUT="+outF)
	done := make(chan error, 1)
	var out []byte
	go func() {
		var err error
		out, err = cmd.CombinedOutput()
		done <- err
	}()
	select {
	case err := <-done:
		if err != nil {
			if strings.Contains(string(out), "ptrace") || strings.Contains(string(out), "Operation not permitted") {
				r.Inconclusive("ptrace not permitted in this sandbox")
				return
			}
			r.Violation("strace_child_failed", map[string]string{"part": "strace"}, map[string]any{"case": caseNo, "error": err.Error(), "output": string(out)})
			return
		}
	case <-time.After(5 * time.Minute):
		cmd.Process.Kill()
		r.Inconclusive("strace child watchdog")
		return
	}
	evs, err := strace.Parse(logF)
	if err != nil {
		r.T.Fatalf("parse strace log: %v", err)
	}
	var hist []string
	if b, err := os.ReadFile(outF); err == nil {
		json.Unmarshal(b, &hist)
	}
	rules := strace.Rules{Durable: c02Durable(in.Dir), AckMarker: in.Ack,
		RenameNeedsDirSync: map[string]bool{"tsm": true, "tombstone": true, "fields": true}}
	finds, st := strace.Check(evs, rules, strace.OSyncPaths(evs, logF))
	r.Event("strace_events", int64(st.Events))
	r.Event("strace_fsyncs", int64(st.Fsyncs))
	r.Event("strace_renames", int64(st.Renames))
	r.Event("strace_unlinks", int64(st.Unlinks))
	r.Event("strace_acks", int64(st.Acks))
	for cls, n := range st.DurableWrites {
		r.Event("strace_durable_writes_"+cls, int64(n))
	}
	if st.Acks == 0 || st.Fsyncs == 0 {
		r.Inconclusive("strace log shows no acknowledgements or no fsyncs")
		return
	}
	seen := map[string]bool{}
	for _, f := range finds {
		cls := rules.Durable(f.Path)
		k := f.Rule + cls
		if seen[k] {
			continue
		}
		seen[k] = true
		r.Violation("durability_order", map[string]string{"rule": f.Rule, "file_class": cls, "part": "strace"},
			map[string]any{"case": caseNo, "history": hist, "finding": f.String()})
	}
	r.Case(fmt.Sprint("strace", seed, hist), st.Acks >= 10)
	if r.WantSample() && caseNo == 0 {
		r.Sample(map[string]any{"strace_case": caseNo, "history": hist, "syscalls": st.Events, "fsyncs": st.Fsyncs, "renames": st.Renames, "acks": st.Acks})
	}
}
