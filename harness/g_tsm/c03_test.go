package g_tsm

import (
	"fmt"
	"os"
	"testing"
	"time"

	"verifharness/vkit"
	"verifharness/vkit/sched"
	"verifharness/vkit/sk"
)

// C03 — deleted points never reappear (DESIGN §5 C03).
//  (a) sequential histories as in C01 plus range deletes (all range shapes, series subsets),
//      followed by snapshot / compaction / reopen placements, read-back after every op;
//  (b) schedule enumeration (M2): a cache snapshot is parked at each of its step boundaries,
//      a delete (then reads) is placed there, the snapshot is released, then reads, compaction,
//      reopen, reads;
//  (c) the engine's own background level compaction parked after it wrote its output, a
//      delete issued meanwhile (the engine serialises the two by aborting/waiting; the oracle
//      checks the outcome either way).

var c03SnapshotHooks = []string{
	"tsm1.snapshot.afterCacheSnapshot",
	"tsm1.snapshot.afterWrite",
	"tsm1.snapshot.afterReplace",
	"tsm1.snapshot.afterClear",
	"tsm1.snapshot.afterWALRemove",
}

type c03Wit struct {
	Case     string   `json:"case"`
	Setup    []string `json:"setup_history"`
	ParkedAt string   `json:"a_parked_at"`
	Delete   string   `json:"delete"`
	Phase    string   `json:"phase"`
	Diff     string   `json:"diff"`
	Files    []string `json:"tsm_files"`
}

// c03Schedule runs one (snapshot parked at hook) × delete schedule on a fresh shard.
func c03Schedule(r *vkit.Run, id string, rg *vkit.Rand, hook string) {
	series := domSeries()
	vc := &valCounter{}
	g := &histGen{rg: rg, series: series, vc: vc, NoReopen: true}
	dir := tmpDir("c03")
	defer os.RemoveAll(dir)
	s, err := sk.Open(dir, sk.Opts{})
	if err != nil {
		r.T.Fatalf("open: %v", err)
	}
	defer func() { s.Close() }()
	m := sk.NewModel()
	var setup []opSpec
	// data shape: some points already in TSM files, some only in the cache that will be snapshotted
	pre := rg.Range(1, 4)
	for i := 0; i < pre; i++ {
		o := g.genWrite()
		setup = append(setup, o)
		if err := s.Write(g.points(o)); err != nil {
			r.T.Fatalf("write: %v", err)
		}
		applyModel(m, series, o)
		if rg.Chance(1, 2) {
			setup = append(setup, opSpec{Kind: "snapshot"})
			if err := s.Snapshot(); err != nil {
				r.T.Fatalf("snapshot: %v", err)
			}
		}
	}
	for i := 0; i < rg.Range(1, 3); i++ { // guaranteed hot-cache content for the parked snapshot
		o := g.genWrite()
		setup = append(setup, o)
		if err := s.Write(g.points(o)); err != nil {
			r.T.Fatalf("write: %v", err)
		}
		applyModel(m, series, o)
	}
	g.Deletes = true
	del := g.genDelete()
	var keys []string
	for _, si := range del.DelSeries {
		keys = append(keys, series[si].Key)
	}
	ranges := readRanges(rg)
	feat := func(phase string) map[string]string {
		return mismatchFeatures(map[string]string{"schedule": "snapshot_parked", "a_op": "snapshot", "parked_at": hook, "b_op": "delete", "phase": phase})
	}
	wit := func(phase, d string) c03Wit {
		return c03Wit{Case: id, Setup: opStrings(setup), ParkedAt: hook, Delete: del.String(), Phase: phase, Diff: d, Files: s.TSMFiles()}
	}

	park := sched.At(hook, 1)
	aDone := make(chan struct{})
	var aErr error
	go func() { defer close(aDone); aErr = s.Snapshot() }()
	if !park.WaitReached(20 * time.Second) {
		park.Release()
		<-aDone
		r.Inconclusive("snapshot never reached " + hook)
		return
	}
	r.Event("hook_reached:"+hook, 1)
	// B: the delete, placed while A is parked
	bDone := make(chan struct{})
	var bErr error
	go func() { defer close(bDone); bErr = s.DeleteRange(keys, del.Min, del.Max) }()
	serialised := false
	if done, site := sched.DoneOrBlocked(bDone, "sk.(*Shard).DeleteRange", 20*time.Second); !done {
		// the code serialises the delete behind the parked snapshot at this point
		serialised = true
		r.Event("serialised_by_code:"+hook+" ("+site+")", 1)
		park.Release()
		<-bDone
	}
	if bErr != nil {
		park.Release()
		<-aDone
		r.Violation("delete_error", feat("delete"), wit("delete", bErr.Error()))
		return
	}
	before := countPoints(m)
	applyModel(m, series, del)
	r.Event("points_deleted_in_model", int64(before-countPoints(m)))
	deleted := before - countPoints(m)
	if !serialised {
		// reads placed after the delete returned, snapshot still parked
		d, reads, _ := checkAll(s, m, series, ranges)
		r.Event("reads_compared", int64(reads))
		if d != "" {
			r.Violation("deleted_point_visible", feat("after_delete_snapshot_parked"), wit("after_delete_snapshot_parked", d))
			park.Release()
			<-aDone
			return
		}
	}
	park.Release()
	<-aDone
	if aErr != nil {
		r.Violation("snapshot_error", feat("snapshot"), wit("snapshot", aErr.Error()))
		return
	}
	steps := []struct {
		name string
		f    func() error
	}{
		{"after_snapshot_released", func() error { return nil }},
		{"after_second_snapshot", func() error { return s.Snapshot() }},
		{"after_full_compaction", func() error { s.CompactFull(vkit.Pick(rg, ppbChoices)); return nil }},
		{"after_reopen", func() error { return s.Reopen() }},
		{"after_second_reopen", func() error { return s.Reopen() }},
	}
	for _, st := range steps {
		if err := st.f(); err != nil {
			r.Violation("step_error", feat(st.name), wit(st.name, err.Error()))
			return
		}
		d, reads, _ := checkAll(s, m, series, ranges)
		r.Event("reads_compared", int64(reads))
		if d != "" {
			r.Violation("deleted_point_visible", feat(st.name), wit(st.name, d))
			return
		}
	}
	key := fmt.Sprint(hook, mustJSON(setup), del.String())
	r.Case(key, deleted > 0 && !serialised)
	if serialised {
		r.Event("schedules_serialised", 1)
	} else {
		r.Event("schedules_explored", 1)
	}
	if r.WantSample() && deleted > 0 {
		r.Sample(map[string]any{"schedule": "snapshot parked at " + hook + ", delete placed there", "setup": opStrings(setup), "delete": del.String(), "points_deleted": deleted, "serialised_by_code": serialised})
	}
}

// c03BackgroundCompaction: the engine's own level-1 compaction (background goroutines on) is
// parked after writing its output; a delete is issued meanwhile.
func c03BackgroundCompaction(r *vkit.Run, id string, rg *vkit.Rand) {
	series := domSeries()
	vc := &valCounter{}
	g := &histGen{rg: rg, series: series, vc: vc, NoReopen: true}
	dir := tmpDir("c03bg")
	defer os.RemoveAll(dir)
	s, err := sk.Open(dir, sk.Opts{Background: true})
	if err != nil {
		r.T.Fatalf("open: %v", err)
	}
	defer func() { s.Close() }()
	m := sk.NewModel()
	var setup []opSpec
	park := sched.At("tsm1.compact.afterWrite", 1)
	defer park.Release()
	for i := 0; i < 8; i++ { // 8 level-1 generations make a level-1 plan
		o := g.genWrite()
		setup = append(setup, o, opSpec{Kind: "snapshot"})
		if err := s.Write(g.points(o)); err != nil {
			r.T.Fatalf("write: %v", err)
		}
		applyModel(m, series, o)
		if err := s.Snapshot(); err != nil {
			r.T.Fatalf("snapshot: %v", err)
		}
	}
	if !park.WaitReached(15 * time.Second) {
		r.Inconclusive("background level compaction never reached tsm1.compact.afterWrite")
		return
	}
	r.Event("hook_reached:tsm1.compact.afterWrite(background)", 1)
	g.Deletes = true
	del := g.genDelete()
	del.Min, del.Max = sk.MinT, sk.MaxT
	var keys []string
	for _, si := range del.DelSeries {
		keys = append(keys, series[si].Key)
	}
	bDone := make(chan struct{})
	var bErr error
	go func() { defer close(bDone); bErr = s.DeleteRange(keys, del.Min, del.Max) }()
	serialised := false
	if done, site := sched.DoneOrBlocked(bDone, "sk.(*Shard).DeleteRange", 20*time.Second); !done {
		serialised = true
		r.Event("serialised_by_code:tsm1.compact.afterWrite(background) ("+site+")", 1)
	}
	park.Release()
	<-bDone
	feat := func(phase string) map[string]string {
		return mismatchFeatures(map[string]string{"schedule": "background_compaction_parked", "a_op": "level_compaction", "parked_at": "tsm1.compact.afterWrite", "b_op": "delete", "phase": phase})
	}
	wit := func(phase, d string) c03Wit {
		return c03Wit{Case: id, Setup: opStrings(setup), ParkedAt: "tsm1.compact.afterWrite", Delete: del.String(), Phase: phase, Diff: d, Files: s.TSMFiles()}
	}
	if bErr != nil {
		r.Violation("delete_error", feat("delete"), wit("delete", bErr.Error()))
		return
	}
	before := countPoints(m)
	applyModel(m, series, del)
	deleted := before - countPoints(m)
	ranges := readRanges(rg)
	// let the compaction finish its Replace (it runs in the engine's goroutine): wait until the
	// file set is stable for a few polls, bounded by a watchdog — only to place the later reads
	// after the commit; every read below must hold regardless of where it lands.
	for _, phase := range []string{"after_delete", "after_settle", "after_reopen"} {
		switch phase {
		case "after_settle":
			time.Sleep(1500 * time.Millisecond)
		case "after_reopen":
			if err := s.Reopen(); err != nil {
				r.Violation("step_error", feat(phase), wit(phase, err.Error()))
				return
			}
		}
		d, reads, _ := checkAll(s, m, series, ranges)
		r.Event("reads_compared", int64(reads))
		if d != "" {
			r.Violation("deleted_point_visible", feat(phase), wit(phase, d))
			return
		}
	}
	r.Case(fmt.Sprint("bg", mustJSON(setup), del.String()), deleted > 0)
	r.Event("background_schedules", 1)
	if serialised {
		r.Event("schedules_serialised", 1)
	}
}

func TestC03(t *testing.T) {
	r := vkit.Start(t, "C03", "exploration")
	defer r.Finish()
	r.Rule("(a) sequential histories (C01 generator + range deletes over all range shapes/series subsets) with read-back after every op; (b) for each snapshot step boundary (5 hooks) × data shapes: snapshot parked there, delete placed, reads, release, reads after second snapshot / full compaction / two reopens; (c) background level compaction parked after writing, delete meanwhile. non-trivial = the delete removed ≥1 model point (and, for (a), history also has overwrite + snapshot/reopen); distinct = hash of history / (hook, setup, delete)")
	n := r.N(100, 2400)
	for i := 0; i < n; i++ {
		runHistory(r, i, r.Rand(i), histCfg{Deletes: true, Class: "deleted_or_wrong_point_visible"})
		if r.Violations() > 5 {
			break
		}
	}
	shapes := r.N(5, 100)
	for sh := 0; sh < shapes; sh++ {
		for hi, hook := range c03SnapshotHooks {
			c03Schedule(r, fmt.Sprintf("sched-%d-%s", sh, hook), r.SubRand("sched", sh*16+hi), hook)
		}
	}
	nbg := r.N(2, 30)
	for i := 0; i < nbg; i++ {
		c03BackgroundCompaction(r, fmt.Sprintf("bg-%d", i), r.SubRand("bgcompact", i))
	}
}
