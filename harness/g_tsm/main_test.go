package g_tsm

import (
	"testing"

	"verifharness/vkit"
)

func TestMain(m *testing.M) {
	vkit.ChildMain(m, map[string]vkit.ChildHandler{
		"c02strace": c02StraceChild,
	})
}
