package g_tsm

import (
	"fmt"
	"io"
	"os"
	"runtime"
	"sort"
	"strings"
	"sync"
	"sync/atomic"
	"testing"
	"time"

	"github.com/anishathalye/porcupine"
	"github.com/influxdata/influxdb/v2/models"
	"github.com/influxdata/influxdb/v2/pkg/verifhook"

	"verifharness/vkit"
	"verifharness/vkit/sk"
)

// C39 — concurrent shard operations stay race-free and consistent (DESIGN §5 C39).
// 4–8 clients operate on a real shard whose own background compaction goroutines are ON;
// oracles: the race detector (build = race; reports are turned into violations by the driver),
// a process-fatal event (driver: crash → violation, attributed by the HIST journal line), a
// quiescence-based deadlock detector, and porcupine per (series, field) with model M1:
// write / deleteRange / read(range) — snapshots, compactions, backups, SetEnabled toggles and
// reopen are no-ops on the model.
//
// Two modes keep the check sound next to known finding C03-delete-during-inflight-snapshot:
// "delete" histories run no cache snapshot concurrently with deletes (snapshots, backups and
// full-compaction scheduling all snapshot the cache); "snapshot" histories run everything but
// deletes.

type c39P struct {
	T  int64
	ID int64
}
type c39In struct {
	Op  string // write delete read
	Key string // series|field
	Pts []c39P
	Lo  int64
	Hi  int64
	Asc bool
	// reads: time ranges of deletes whose interval overlaps this read. A range delete commits
	// tombstones file by file and then the cache, so a read that overlaps it may see any subset
	// of the named points gone; the property speaks of completed operations, so those
	// timestamps are left out of the comparison for this read (DESIGN Appendix C, correction 4).
	Ignore [][2]int64
}
type c39Out struct {
	Pts []c39P
}

func c39Enc(m map[int64]int64) string {
	ts := make([]int64, 0, len(m))
	for t := range m {
		ts = append(ts, t)
	}
	sort.Slice(ts, func(i, j int) bool { return ts[i] < ts[j] })
	var sb strings.Builder
	for _, t := range ts {
		fmt.Fprintf(&sb, "%d:%d;", t, m[t])
	}
	return sb.String()
}
func c39Dec(s string) map[int64]int64 {
	m := map[int64]int64{}
	for _, p := range strings.Split(s, ";") {
		if p == "" {
			continue
		}
		var t, id int64
		fmt.Sscanf(p, "%d:%d", &t, &id)
		m[t] = id
	}
	return m
}

var c39Model = porcupine.Model{
	Partition: func(h []porcupine.Operation) [][]porcupine.Operation {
		byKey := map[string][]porcupine.Operation{}
		var keys []string
		for _, o := range h {
			k := o.Input.(c39In).Key
			if _, ok := byKey[k]; !ok {
				keys = append(keys, k)
			}
			byKey[k] = append(byKey[k], o)
		}
		sort.Strings(keys)
		var out [][]porcupine.Operation
		for _, k := range keys {
			out = append(out, byKey[k])
		}
		return out
	},
	Init: func() interface{} { return "" },
	Step: func(st, in, out interface{}) (bool, interface{}) {
		i := in.(c39In)
		switch i.Op {
		case "write":
			m := c39Dec(st.(string))
			for _, p := range i.Pts {
				m[p.T] = p.ID
			}
			return true, c39Enc(m)
		case "delete":
			m := c39Dec(st.(string))
			for t := range m {
				if t >= i.Lo && t <= i.Hi {
					delete(m, t)
				}
			}
			return true, c39Enc(m)
		case "read":
			m := c39Dec(st.(string))
			ignored := func(t int64) bool {
				for _, rg := range i.Ignore {
					if t >= rg[0] && t <= rg[1] {
						return true
					}
				}
				return false
			}
			var want []c39P
			for t, id := range m {
				if t >= i.Lo && t <= i.Hi && !ignored(t) {
					want = append(want, c39P{t, id})
				}
			}
			sort.Slice(want, func(a, b int) bool {
				if i.Asc {
					return want[a].T < want[b].T
				}
				return want[a].T > want[b].T
			})
			var got []c39P
			for _, p := range out.(c39Out).Pts {
				if !ignored(p.T) {
					got = append(got, p)
				}
			}
			if len(got) != len(want) {
				return false, st
			}
			for k := range want {
				if want[k] != got[k] {
					return false, st
				}
			}
			return true, st
		}
		return false, st
	},
	DescribeOperation: func(in, out interface{}) string {
		i := in.(c39In)
		switch i.Op {
		case "write":
			return fmt.Sprintf("write(%s,%v)", i.Key, i.Pts)
		case "delete":
			return fmt.Sprintf("delete(%s,[%d,%d])", i.Key, i.Lo, i.Hi)
		}
		return fmt.Sprintf("read(%s,[%d,%d],asc=%v)->%v", i.Key, i.Lo, i.Hi, i.Asc, out.(c39Out).Pts)
	},
}

type c39Rec struct {
	mu    sync.Mutex
	ops   []porcupine.Operation
	other []string
	clock int64
}

func (r *c39Rec) now() int64 { return atomic.AddInt64(&r.clock, 1) }
func (r *c39Rec) add(cl int, in c39In, call int64, out c39Out, ret int64) {
	r.mu.Lock()
	r.ops = append(r.ops, porcupine.Operation{ClientId: cl, Input: in, Call: call, Output: out, Return: ret})
	r.mu.Unlock()
}
func (r *c39Rec) note(cl int, what string, call, ret int64) {
	r.mu.Lock()
	r.other = append(r.other, fmt.Sprintf("c%d [%d,%d] %s", cl, call, ret, what))
	r.mu.Unlock()
}
func (r *c39Rec) describe() []string {
	r.mu.Lock()
	defer r.mu.Unlock()
	type ln struct {
		call int64
		s    string
	}
	var ls []ln
	for _, o := range r.ops {
		ls = append(ls, ln{o.Call, fmt.Sprintf("c%d [%d,%d] %s", o.ClientId, o.Call, o.Return, c39Model.DescribeOperation(o.Input, o.Output))})
	}
	for _, s := range r.other {
		var cl int
		var call int64
		fmt.Sscanf(s, "c%d [%d,", &cl, &call)
		ls = append(ls, ln{call, s})
	}
	sort.Slice(ls, func(i, j int) bool { return ls[i].call < ls[j].call })
	out := make([]string, len(ls))
	for i, l := range ls {
		out[i] = l.s
	}
	return out
}

type c39Wit struct {
	Case    int      `json:"case"`
	Mode    string   `json:"mode"`
	History []string `json:"history"`
	Detail  string   `json:"detail"`
}

var c39Hooks = []string{
	"tsm1.snapshot.afterCacheSnapshot", "tsm1.snapshot.afterWrite", "tsm1.snapshot.afterReplace", "tsm1.snapshot.afterClear",
	"tsm1.compact.afterWrite", "tsm1.compact.afterReplace", "tsm1.delete.afterTombstones", "tsm1.delete.afterCache", "tsm1.delete.afterWAL",
	"tsm1.cache.write.afterLimitCheck", "tsm1.cache.values.afterLookup", "tsm1.filestore.replace.afterRename", "tsm1.filestore.replace.afterRemoveOld",
}

func c39History(r *vkit.Run, caseNo int, rg *vkit.Rand) {
	mode := "snapshot"
	if caseNo%2 == 1 {
		mode = "delete"
	}
	fmt.Printf("HIST case=%d mode=%s\n", caseNo, mode) // journal for process-fatal events
	series := domSeries()[:3]
	dir := tmpDir("c39")
	defer os.RemoveAll(dir)
	opts := sk.Opts{Background: true}
	if mode == "snapshot" {
		opts.CacheSnapshotSize = 512 // the engine's own cache-snapshot goroutine fires too
	}
	s, err := sk.Open(dir, opts)
	if err != nil {
		r.T.Fatalf("open: %v", err)
	}
	var smu sync.RWMutex // guards s across the barrier reopen only
	// In the real system tsdb.Store serialises a delete against the writes it conflicts with
	// (epoch tracker + guard, C17's subject); the shard API used here sits below that layer, so
	// the harness provides the exclusion itself: deletes are exclusive against writes, nothing
	// else is serialised (DESIGN Appendix C, correction 4).
	var wd sync.RWMutex
	defer func() { s.Close() }()
	rec := &c39Rec{}
	maxLoc := map[string]int{} // most TSM block locations seen per key at the barriers
	var idc int64
	var failed atomic.Bool
	fail := func(class string, feats map[string]string, detail string) {
		if failed.Swap(true) {
			return
		}
		feats["mode"] = mode
		r.Violation(class, feats, c39Wit{Case: caseNo, Mode: mode, History: rec.describe(), Detail: detail})
	}
	// widen interleavings: seeded yields / microsleeps at the hook points
	var yc uint64
	yseed := rg.Uint64()
	var restores []func()
	for _, h := range c39Hooks {
		restores = append(restores, verifhook.Set(h, func(string, interface{}) {
			switch (atomic.AddUint64(&yc, 1)*0x9E3779B97F4A7C15 ^ yseed) % 5 {
			case 0:
				runtime.Gosched()
			case 1:
				time.Sleep(50 * time.Microsecond)
			}
		}))
	}
	defer func() {
		for _, f := range restores {
			f()
		}
	}()

	doWrite := func(cl int, g *vkit.Rand) {
		n := g.Range(1, 4)
		var pts []models.Point
		per := map[string][]c39P{}
		for i := 0; i < n; i++ {
			sd := series[g.Intn(len(series))]
			f := fieldsOf(sd.Name)[0]
			id := atomic.AddInt64(&idc, 1)
			t := int64(g.Intn(12))
			k := fieldKinds[sd.Name][f]
			var v sk.Val
			switch k {
			case 'i':
				v = sk.IntVal(id)
			case 'u':
				v = sk.UintVal(uint64(id))
			default:
				v = sk.FloatVal(float64(id))
			}
			pts = append(pts, sk.Point(sd.Name, sd.Tags, map[string]sk.Val{f: v}, t))
			key := sd.Key + "|" + f
			per[key] = append(per[key], c39P{t, id})
		}
		smu.RLock()
		wd.RLock()
		call := rec.now()
		err := s.Write(pts)
		ret := rec.now()
		wd.RUnlock()
		smu.RUnlock()
		if err != nil {
			fail("unexpected_error", map[string]string{"op": "write"}, err.Error())
			return
		}
		for key, ps := range per {
			rec.add(cl, c39In{Op: "write", Key: key, Pts: ps}, call, c39Out{}, ret)
		}
		r.Event("op_write", 1)
	}
	doRead := func(cl int, g *vkit.Rand) {
		sd := series[g.Intn(len(series))]
		f := fieldsOf(sd.Name)[0]
		lo, hi := int64(g.Intn(12)), int64(g.Intn(12))
		if lo > hi {
			lo, hi = hi, lo
		}
		if g.Chance(1, 2) {
			lo, hi = sk.MinT, sk.MaxT
		}
		asc := g.Bool()
		smu.RLock()
		call := rec.now()
		got, err := s.Read(sd.Key, f, lo, hi, asc)
		ret := rec.now()
		smu.RUnlock()
		if err != nil {
			fail("unexpected_error", map[string]string{"op": "read"}, err.Error())
			return
		}
		out := c39Out{}
		for _, p := range got {
			out.Pts = append(out.Pts, c39P{p.T, c39ID(p.V)})
		}
		rec.add(cl, c39In{Op: "read", Key: sd.Key + "|" + f, Lo: lo, Hi: hi, Asc: asc}, call, out, ret)
		r.Event("op_read", 1)
	}
	doDelete := func(cl int, g *vkit.Rand) {
		sd := series[g.Intn(len(series))]
		lo, hi := int64(g.Intn(12)), int64(g.Intn(12))
		if lo > hi {
			lo, hi = hi, lo
		}
		smu.RLock()
		wd.Lock()
		call := rec.now()
		err := s.DeleteRange([]string{sd.Key}, lo, hi)
		ret := rec.now()
		wd.Unlock()
		smu.RUnlock()
		if err != nil {
			fail("unexpected_error", map[string]string{"op": "delete"}, err.Error())
			return
		}
		for _, f := range fieldsOf(sd.Name)[:1] {
			rec.add(cl, c39In{Op: "delete", Key: sd.Key + "|" + f, Lo: lo, Hi: hi}, call, c39Out{}, ret)
		}
		r.Event("op_delete", 1)
	}
	doOther := func(cl int, g *vkit.Rand) {
		smu.RLock()
		defer smu.RUnlock()
		call := rec.now()
		what := ""
		var err error
		switch g.Intn(4) + 0*1 {
		case 0:
			what = "snapshot"
			err = s.Snapshot()
			if err != nil && strings.Contains(err.Error(), "snapshot in progress") {
				err = nil
			}
		case 1:
			// ScheduleFullCompaction is deliberately absent: it forces a full plan, which may
			// build non-contiguous groups while level compactions hold generations (known
			// finding C05-full-plan-non-adjacent, reported by C05) and resurrect overwritten
			// values; the snapshot half of that call is exercised here.
			what = "snapshot"
			err = s.Snapshot()
			if err != nil && strings.Contains(err.Error(), "snapshot in progress") {
				err = nil
			}
		case 2:
			what = "backup"
			err = s.Sh.Backup(io.Discard, "", time.Time{})
			if err != nil && strings.Contains(err.Error(), "snapshot in progress") {
				err = nil
			}
		default:
			what = "compactions_off_on"
			s.Sh.SetCompactionsEnabled(false)
			s.Sh.SetCompactionsEnabled(true)
		}
		ret := rec.now()
		rec.note(cl, what, call, ret)
		r.Event("op_"+what, 1)
		// another client may have compactions switched off at this moment: legitimate refusals
		if err != nil && (strings.Contains(err.Error(), "compaction aborted") || strings.Contains(err.Error(), "snapshots disabled") || strings.Contains(err.Error(), "compactions disabled")) {
			r.Event("op_refused_compactions_off", 1)
			err = nil
		}
		if err != nil {
			fail("unexpected_error", map[string]string{"op": what}, err.Error())
		}
	}

	// sequential prefix: some data in TSM files so that level compactions have work
	pre := vkit.NewRand(rg.Uint64())
	for i := 0; i < 9; i++ {
		doWrite(0, pre)
		if err := s.Snapshot(); err != nil {
			fail("unexpected_error", map[string]string{"op": "snapshot"}, err.Error())
			return
		}
	}
	rounds := rg.Range(1, 2)
	for round := 0; round < rounds && !failed.Load(); round++ {
		nclients := rg.Range(4, 8)
		seeds := make([]uint64, nclients)
		for i := range seeds {
			seeds[i] = rg.Uint64()
		}
		var wg sync.WaitGroup
		done := make(chan struct{})
		start := make(chan struct{})
		for cl := 0; cl < nclients; cl++ {
			wg.Add(1)
			go func(cl int) {
				defer wg.Done()
				g := vkit.NewRand(seeds[cl])
				<-start
				n := g.Range(4, 9)
				for i := 0; i < n && !failed.Load(); i++ {
					x := g.Intn(10)
					switch {
					case x < 4:
						doWrite(cl+1, g)
					case x < 7:
						doRead(cl+1, g)
					case x < 9:
						if mode == "delete" {
							doDelete(cl+1, g)
						} else {
							doOther(cl+1, g)
						}
					default:
						if mode == "delete" {
							// only the snapshot-free toggle in delete mode
							smu.RLock()
							c, rt := rec.now(), int64(0)
							s.Sh.SetCompactionsEnabled(false)
							s.Sh.SetCompactionsEnabled(true)
							rt = rec.now()
							smu.RUnlock()
							rec.note(cl+1, "compactions_off_on", c, rt)
						} else {
							doOther(cl+1, g)
						}
					}
				}
			}(cl)
		}
		close(start)
		go func() { wg.Wait(); close(done) }()
		// deadlock watchdog: decided on quiescence of the process, not on the clock alone
		select {
		case <-done:
		case <-time.After(120 * time.Second):
			if c39Quiescent() {
				fail("deadlock", map[string]string{"phase": "concurrent"}, "clients did not finish and no goroutine is executing subject code:\n"+c39Dump())
			} else {
				r.Inconclusive("watchdog fired but the process is still making progress")
			}
			return
		}
		// burst: the hot cache store is emptied by a snapshot, then all clients write their first
		// value of the SAME series field at the same moment (distinct timestamps): the
		// check-then-insert window of the cache's per-key entry creation
		nburst := 10
		if mode == "delete" {
			nburst = 120 // cheap here: the key is emptied by a delete, no file is written
		}
		for b := 0; b < nburst && !failed.Load(); b++ {
			if mode == "snapshot" {
				if err := s.Snapshot(); err != nil && !strings.Contains(err.Error(), "snapshot in progress") && !strings.Contains(err.Error(), "disabled") && !strings.Contains(err.Error(), "aborted") {
					fail("unexpected_error", map[string]string{"op": "snapshot"}, err.Error())
					break
				}
			} else {
				// delete mode: empty the key through a full-range delete instead
				sd := series[b%len(series)]
				wd.Lock()
				c0 := rec.now()
				err := s.DeleteRange([]string{sd.Key}, sk.MinT, sk.MaxT)
				c1 := rec.now()
				wd.Unlock()
				if err != nil {
					fail("unexpected_error", map[string]string{"op": "delete"}, err.Error())
					break
				}
				rec.add(0, c39In{Op: "delete", Key: sd.Key + "|" + fieldsOf(sd.Name)[0], Lo: sk.MinT, Hi: sk.MaxT}, c0, c39Out{}, c1)
			}
			sd := series[b%len(series)]
			f := fieldsOf(sd.Name)[0]
			var bw sync.WaitGroup
			go0 := make(chan struct{})
			for cl := 0; cl < nclients; cl++ {
				bw.Add(1)
				go func(cl int) {
					defer bw.Done()
					id := atomic.AddInt64(&idc, 1)
					t := int64(1000*(round*200+b+1) + cl)
					var v sk.Val
					switch fieldKinds[sd.Name][f] {
					case 'i':
						v = sk.IntVal(id)
					case 'u':
						v = sk.UintVal(uint64(id))
					default:
						v = sk.FloatVal(float64(id))
					}
					pt := sk.Point(sd.Name, sd.Tags, map[string]sk.Val{f: v}, t)
					<-go0
					wd.RLock()
					call := rec.now()
					err := s.Write([]models.Point{pt})
					ret := rec.now()
					wd.RUnlock()
					if err != nil {
						fail("unexpected_error", map[string]string{"op": "write"}, err.Error())
						return
					}
					rec.add(cl+1, c39In{Op: "write", Key: sd.Key + "|" + f, Pts: []c39P{{t, id}}}, call, c39Out{}, ret)
				}(cl)
			}
			if mode == "snapshot" && b%2 == 1 {
				// what the store does to a shard it finds idle (empty cache, nothing to compact),
				// at the moment the first writes arrive: compactions switched off and on again,
				// or the shard's resources released
				bw.Add(1)
				go func(b int) {
					defer bw.Done()
					<-go0
					smu.RLock()
					c := rec.now()
					if b%4 == 1 {
						s.Sh.SetCompactionsEnabled(false)
						s.Sh.SetCompactionsEnabled(true)
					} else {
						s.Sh.Free()
					}
					rec.note(0, "idle_release_during_burst", c, rec.now())
					smu.RUnlock()
				}(b)
				r.Event("burst_with_idle_release", 1)
			}
			close(go0)
			bw.Wait()
			if os.Getenv("VERIF_C39_DEBUG") != "" {
				got, _ := s.Read(sd.Key, f, int64(1000*(round*200+b+1)), int64(1000*(round*200+b+1)+999), true)
				acc := s.Eng().Cache.VerifAccounting()
				fmt.Printf("DEBUG case=%d round=%d b=%d key=%s visible=%d of %d cache=%+v\n", caseNo, round, b, sd.Key, len(got), nclients, acc)
			}
			r.Event("burst_first_writes", int64(nclients))
		}
		// barrier: everything quiescent; full read of every key, then close + reopen
		for _, sd := range series {
			f := fieldsOf(sd.Name)[0]
			if n := s.KeyLocations(sd.Key, f); n > maxLoc[sd.Key+"|"+f] {
				maxLoc[sd.Key+"|"+f] = n
			}
			call := rec.now()
			got, err := s.Read(sd.Key, f, sk.MinT, sk.MaxT, true)
			ret := rec.now()
			if err != nil {
				fail("unexpected_error", map[string]string{"op": "read"}, err.Error())
				return
			}
			out := c39Out{}
			for _, p := range got {
				out.Pts = append(out.Pts, c39P{p.T, c39ID(p.V)})
			}
			rec.add(0, c39In{Op: "read", Key: sd.Key + "|" + f, Lo: sk.MinT, Hi: sk.MaxT, Asc: true}, call, out, ret)
		}
		smu.Lock()
		err := s.Reopen()
		smu.Unlock()
		if err != nil {
			fail("unexpected_error", map[string]string{"op": "reopen"}, err.Error())
			return
		}
		r.Event("barrier_reopens", 1)
		for _, sd := range series {
			f := fieldsOf(sd.Name)[0]
			call := rec.now()
			got, err := s.Read(sd.Key, f, sk.MinT, sk.MaxT, false)
			ret := rec.now()
			if err != nil {
				fail("unexpected_error", map[string]string{"op": "read"}, err.Error())
				return
			}
			out := c39Out{}
			for _, p := range got {
				out.Pts = append(out.Pts, c39P{p.T, c39ID(p.V)})
			}
			rec.add(0, c39In{Op: "read", Key: sd.Key + "|" + f, Lo: sk.MinT, Hi: sk.MaxT, Asc: false}, call, out, ret)
		}
	}
	if failed.Load() {
		return
	}
	for i := range rec.ops {
		in := rec.ops[i].Input.(c39In)
		if in.Op != "read" {
			continue
		}
		for j := range rec.ops {
			d := rec.ops[j].Input.(c39In)
			if d.Op == "delete" && d.Key == in.Key && rec.ops[j].Call <= rec.ops[i].Return && rec.ops[i].Call <= rec.ops[j].Return {
				in.Ignore = append(in.Ignore, [2]int64{d.Lo, d.Hi})
			}
		}
		rec.ops[i].Input = in
	}
	// The property asks that every read be explained by SOME serial order of the completed
	// operations (respecting real-time precedence) - not that one order explains all reads: two
	// overlapping writes to one cell reach the cache and the WAL in either order, so their
	// relative order may legitimately differ before and after a restart. Each read is therefore
	// checked on its own against all writes and deletes of its key (DESIGN Appendix C, corr. 4).
	for _, part := range c39Model.Partition(rec.ops) {
		key := part[0].Input.(c39In).Key
		var muts, reads []porcupine.Operation
		for _, o := range part {
			if o.Input.(c39In).Op == "read" {
				reads = append(reads, o)
			} else {
				muts = append(muts, o)
			}
		}
		for _, rd := range reads {
			h := []porcupine.Operation{rd}
			for _, m := range muts {
				if m.Call <= rd.Return {
					h = append(h, m)
				}
			}
			res, _ := porcupine.CheckOperationsVerbose(c39Model, h, 5*time.Second)
			switch res {
			case porcupine.Ok:
				r.Event("reads_explained", 1)
			case porcupine.Unknown:
				r.Event("porcupine_unknown", 1)
				r.Inconclusive("porcupine timeout")
			case porcupine.Illegal:
				r.Event("reads_unexplained", 1)
				var hs []string
				for _, l := range rec.describe() {
					if strings.Contains(l, "("+key+",") || !strings.Contains(l, "|") {
						hs = append(hs, l)
					}
				}
				kind := c39ClassifyStale(rd, muts)
				loc := "le12"
				if maxLoc[key] > 12 {
					loc = "gt12"
				}
				if !failed.Swap(true) {
					r.Violation("read_not_explained_by_any_serial_order", map[string]string{"oracle": "porcupine", "mode": mode, "kind": kind, "key_locations": loc}, c39Wit{Case: caseNo, Mode: mode, History: hs,
						Detail: fmt.Sprintf("no serial order of the writes/deletes of %s (respecting real-time order) explains: c%d [%d,%d] %s", key, rd.ClientId, rd.Call, rd.Return, c39Model.DescribeOperation(rd.Input, rd.Output))})
				}
			}
			if failed.Load() {
				break
			}
		}
	}
	if failed.Load() {
		return
	}
	r.Event("history_ops", int64(len(rec.ops)))
	r.Case(strings.Join(rec.describe(), "\n"), len(rec.ops) >= 20)
	if caseNo%9 == 0 && r.WantSample() {
		d := rec.describe()
		if len(d) > 40 {
			d = d[:40]
		}
		r.Sample(map[string]any{"case": caseNo, "mode": mode, "history_head": d})
	}
}

// c39ClassifyStale: "stale_value" when the unexplained read becomes explainable after replacing
// every value for which a later write to the same timestamp completed before the read began by
// that later value - i.e. the only thing wrong is that overwritten values came back.
func c39ClassifyStale(rd porcupine.Operation, muts []porcupine.Operation) string {
	out := rd.Output.(c39Out)
	fixed := c39Out{}
	changed := false
	for _, p := range out.Pts {
		var wr *porcupine.Operation
		for i := range muts {
			in := muts[i].Input.(c39In)
			if in.Op != "write" {
				continue
			}
			for _, q := range in.Pts {
				if q == p {
					wr = &muts[i]
				}
			}
		}
		np := p
		if wr != nil {
			var best *porcupine.Operation
			for i := range muts {
				in := muts[i].Input.(c39In)
				if in.Op != "write" || muts[i].Call <= wr.Return || muts[i].Return >= rd.Call {
					continue
				}
				for _, q := range in.Pts {
					if q.T == p.T && (best == nil || muts[i].Call > best.Call) {
						best = &muts[i]
						np = q
					}
				}
			}
			if best != nil {
				changed = true
			}
		}
		fixed.Pts = append(fixed.Pts, np)
	}
	if !changed {
		return "other"
	}
	h := []porcupine.Operation{{ClientId: rd.ClientId, Input: rd.Input, Call: rd.Call, Output: fixed, Return: rd.Return}}
	for _, m := range muts {
		if m.Call <= rd.Return {
			h = append(h, m)
		}
	}
	if porcupine.CheckOperations(c39Model, h) {
		return "stale_value"
	}
	return "other"
}

func floatOf(v sk.Val) float64 { return v.Iface().(float64) }

func c39ID(v sk.Val) int64 {
	switch v.K {
	case 'i':
		return v.I
	case 'u':
		return int64(v.U)
	case 'f':
		return int64(floatOf(v))
	}
	return -1
}

func c39Dump() string {
	buf := make([]byte, 1<<20)
	n := runtime.Stack(buf, true)
	s := string(buf[:n])
	if len(s) > 20000 {
		s = s[:20000]
	}
	return s
}

// c39Quiescent: over several polls no goroutine is running/runnable/in a syscall inside subject code.
func c39Quiescent() bool {
	for i := 0; i < 10; i++ {
		buf := make([]byte, 4<<20)
		n := runtime.Stack(buf, true)
		for _, blk := range strings.Split(string(buf[:n]), "\n\n") {
			nl := strings.IndexByte(blk, '\n')
			if nl < 0 {
				continue
			}
			h := blk[:nl]
			busy := strings.Contains(h, "[running") || strings.Contains(h, "[runnable") || strings.Contains(h, "[syscall") || strings.Contains(h, "[IO wait") || strings.Contains(h, "[sleep")
			if busy && strings.Contains(blk, "influxdata/influxdb/v2/") && !strings.Contains(blk, "c39Quiescent") {
				return false
			}
		}
		time.Sleep(200 * time.Millisecond)
	}
	return true
}

func TestC39(t *testing.T) {
	r := vkit.Start(t, "C39", "exploration")
	defer r.Finish()
	r.Rule("case = history on a real shard with the engine's background compaction goroutines on: sequential prefix (9 × write+snapshot), then 1–2 rounds of 4–8 concurrent clients × 4–9 ops (writes of unique values, range reads both directions, and — by mode — range deletes or snapshot / ScheduleFullCompaction / Backup / compactions off-on), seeded yields and microsleeps at 13 hook points, barrier with full reads, close+reopen, full reads; oracles: race detector, crash, quiescence deadlock detector, porcupine per (series, field); non-trivial = ≥20 recorded model ops; distinct = hash of the recorded history")
	r.Assume("delete-mode histories contain no cache snapshot (known finding C03-delete-during-inflight-snapshot is C03's to report); close+reopen happens at barriers")
	n := r.N(12, 250)
	for i := 0; i < n; i++ {
		c39History(r, i, r.Rand(i))
		if r.Violations() > 3 {
			break
		}
	}
}
