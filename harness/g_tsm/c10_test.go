package g_tsm

import (
	"context"
	"errors"
	"fmt"
	"os"
	"path/filepath"
	"sort"
	"sync"
	"testing"

	"github.com/influxdata/influxdb/v2/models"
	"github.com/influxdata/influxdb/v2/tsdb"
	"github.com/influxdata/influxql"

	"verifharness/vkit"
	"verifharness/vkit/crash"
	"verifharness/vkit/sk"
)

// C10 — a field keeps a single type, persistently (DESIGN §5 C10).
// Histories of create / conflict / drop-measurement / rewrite-with-another-type on a real
// shard; model = measurement → field → type (first writer wins) + M1 for the values; after
// every op the dropped count, the readable values and the shard's field schema are compared
// with the model; restarts are clean (Close+Open) or unclean (crash image = copy of the live
// directories taken while the shard is open, history continues on the copy); torn prefixes of
// fields.idxl for writes that registered new fields; and a concurrent part in which N writers
// race to create the same field with different types (race build).

var c10Kinds = []byte{'i', 'f', 's', 'b', 'u'}

func c10DataType(k byte) influxql.DataType {
	switch k {
	case 'i':
		return influxql.Integer
	case 'f':
		return influxql.Float
	case 's':
		return influxql.String
	case 'b':
		return influxql.Boolean
	}
	return influxql.Unsigned
}

type c10Pt struct {
	M    string `json:"m"`
	Tag  string `json:"tag"`
	F    string `json:"f"`
	Kind string `json:"kind"`
	T    int64  `json:"t"`
	V    sk.Val `json:"-"`
	// optional second field of the same point (multi-field points: a rejected point may have
	// registered its other, new field as a side effect - resolved by observation, then it
	// must persist like any other field)
	F2    string `json:"f2,omitempty"`
	Kind2 string `json:"kind2,omitempty"`
	V2    sk.Val `json:"-"`
}

type c10Op struct {
	Kind string  `json:"op"` // write drop reopen crash
	Pts  []c10Pt `json:"pts,omitempty"`
	M    string  `json:"m,omitempty"`
}

func (o c10Op) String() string {
	switch o.Kind {
	case "write":
		s := "write["
		for i, p := range o.Pts {
			if i > 0 {
				s += " "
			}
			s += fmt.Sprintf("%s,h=%s %s=%s@%d", p.M, p.Tag, p.F, p.V, p.T)
			if p.F2 != "" {
				s += fmt.Sprintf("+%s=%s", p.F2, p.V2)
			}
		}
		return s + "]"
	case "drop":
		return "drop(" + o.M + ")"
	}
	return o.Kind
}

type c10Schema map[string]map[string]byte

func (s c10Schema) clone() c10Schema {
	c := c10Schema{}
	for m, fs := range s {
		c[m] = map[string]byte{}
		for f, k := range fs {
			c[m][f] = k
		}
	}
	return c
}

type c10Wit struct {
	Case    int      `json:"case"`
	History []string `json:"history"`
	At      int      `json:"at_op"`
	Detail  string   `json:"detail"`
}

var c10Measurements = []string{"ma", "mb"}
var c10Fields = []string{"x", "y"}

// schemaDiff compares the shard's field schema with the model. mustKnow lists measurements the
// model has; for measurements absent from the model the shard must report no fields.
func c10SchemaDiff(s *sk.Shard, want c10Schema) string {
	for _, m := range c10Measurements {
		mf := s.Sh.MeasurementFields([]byte(m))
		got := map[string]influxql.DataType{}
		if mf != nil {
			got = mf.FieldSet()
		}
		w := want[m]
		if len(got) != len(w) {
			return fmt.Sprintf("measurement %s: schema has %d fields %v, model %d %v", m, len(got), got, len(w), c10Fmt(w))
		}
		for f, k := range w {
			if got[f] != c10DataType(k) {
				return fmt.Sprintf("measurement %s field %s: schema type %v, model %c", m, f, got[f], k)
			}
		}
	}
	return ""
}

func c10Fmt(w map[string]byte) string {
	var ks []string
	for f, k := range w {
		ks = append(ks, fmt.Sprintf("%s:%c", f, k))
	}
	sort.Strings(ks)
	return fmt.Sprint(ks)
}

func c10ReadAll(s *sk.Shard, m *sk.Model) string {
	for _, me := range c10Measurements {
		for _, tag := range []string{"a", "b"} {
			key := sk.SeriesKey(me, map[string]string{"h": tag})
			for _, f := range c10Fields {
				got, err := s.Read(key, f, sk.MinT, sk.MaxT, true)
				if err != nil {
					return fmt.Sprintf("read %s %s: %v", key, f, err)
				}
				if d := sk.Diff(m.Read(key, f, sk.MinT, sk.MaxT, true), got); d != "" {
					return fmt.Sprintf("series=%q field=%s: %s", key, f, d)
				}
			}
		}
	}
	return ""
}

func c10Val(k byte, n int64) sk.Val {
	switch k {
	case 'i':
		return sk.IntVal(n)
	case 'f':
		return sk.FloatVal(float64(n))
	case 's':
		return sk.StrVal(fmt.Sprintf("w%d", n))
	case 'b':
		return sk.BoolVal(n%2 == 0)
	}
	return sk.UintVal(uint64(n))
}

func c10History(r *vkit.Run, caseNo int, rg *vkit.Rand) {
	root := tmpDir("c10")
	defer os.RemoveAll(root)
	gen := 0
	dir := filepath.Join(root, fmt.Sprintf("g%d", gen))
	s, err := sk.Open(dir, sk.Opts{})
	if err != nil {
		r.T.Fatalf("open: %v", err)
	}
	defer func() { s.Close() }()
	schema := c10Schema{}
	m := sk.NewModel()
	var hist []c10Op
	var vn, tn int64
	kinds := map[string]int{}
	conflicts, rewrites := 0, 0
	droppedOnce := map[string]bool{}
	fail := func(class string, feats map[string]string, i int, d string) {
		r.Violation(class, feats, c10Wit{Case: caseNo, History: c10Strings(hist), At: i, Detail: d})
	}
	nops := rg.Range(8, 18)
	lastKind := ""
	// drop → re-create of the same measurement → unclean restart, all inside one run of the
	// field change log, is steered at (the replay of deletion records is only reached that way)
	lastDropM, recreated := "", false
	for i := 0; i < nops; i++ {
		var o c10Op
		x := rg.Intn(100)
		onlyM := ""
		switch {
		case lastKind == "drop" && rg.Chance(1, 2):
			x, onlyM = 0, lastDropM // a write that re-creates the dropped measurement
		case recreated && rg.Chance(1, 2):
			x = 99 // crash
		}
		recreated = false
		switch {
		case x < 60:
			o.Kind = "write"
			npts := rg.Range(1, 5)
			recreated = onlyM != ""
			for j := 0; j < npts; j++ {
				me := vkit.Pick(rg, c10Measurements)
				if onlyM != "" {
					me = onlyM
				}
				f := vkit.Pick(rg, c10Fields)
				k := vkit.Pick(rg, c10Kinds)
				if have, ok := schema[me][f]; ok && rg.Chance(2, 3) {
					k = have // mostly conforming
				}
				vn++
				tn++
				pt := c10Pt{M: me, Tag: vkit.Pick(rg, []string{"a", "b"}), F: f, Kind: string(k), T: tn, V: c10Val(k, vn)}
				// only the last point of a batch is multi-field: a rejected multi-field point may
				// register its new field, which would make the fate of later points ambiguous
				if j == npts-1 && rg.Chance(1, 2) {
					f2 := "x"
					if f == "x" {
						f2 = "y"
					}
					k2 := vkit.Pick(rg, c10Kinds)
					if have, ok := schema[me][f2]; ok && rg.Chance(1, 2) {
						k2 = have
					}
					vn++
					pt.F2, pt.Kind2, pt.V2 = f2, string(k2), c10Val(k2, vn)
				}
				o.Pts = append(o.Pts, pt)
			}
		case x < 72:
			o.Kind, o.M = "drop", vkit.Pick(rg, c10Measurements)
			lastDropM = o.M
		case x < 84:
			o.Kind = "reopen"
		default:
			o.Kind = "crash"
		}
		if (o.Kind == "reopen" || o.Kind == "crash") && (lastKind == "reopen" || lastKind == "crash") {
			o = c10Op{Kind: "drop", M: vkit.Pick(rg, c10Measurements)}
			lastDropM = o.M
		}
		lastKind = o.Kind
		hist = append(hist, o)
		kinds[o.Kind]++
		feats := map[string]string{"op": o.Kind, "after_restart": "none"}
		switch o.Kind {
		case "write":
			var pts []models.Point
			wantDropped := 0
			before := schema.clone()
			var accepted []c10Pt
			type maybeField struct {
				m, f string
				k    byte
			}
			var maybe []maybeField
			for _, p := range o.Pts {
				fields := map[string]sk.Val{p.F: p.V}
				fk := map[string]byte{p.F: p.Kind[0]}
				if p.F2 != "" {
					fields[p.F2] = p.V2
					fk[p.F2] = p.Kind2[0]
				}
				conflict := false
				for f, k := range fk {
					if have, ok := schema[p.M][f]; ok && have != k {
						conflict = true
					}
				}
				if conflict {
					wantDropped++
					conflicts++
					for f, k := range fk { // new fields of a rejected point: registered or not, either
						if _, ok := schema[p.M][f]; !ok {
							maybe = append(maybe, maybeField{p.M, f, k})
						}
					}
				} else {
					if schema[p.M] == nil {
						schema[p.M] = map[string]byte{}
					}
					for f, k := range fk {
						if _, ok := schema[p.M][f]; !ok && droppedOnce[p.M] {
							rewrites++
						}
						schema[p.M][f] = k
					}
					accepted = append(accepted, p)
				}
				pts = append(pts, sk.Point(p.M, map[string]string{"h": p.Tag}, fields, p.T))
			}
			_ = before
			err := s.Write(pts)
			gotDropped := 0
			if err != nil {
				var pw tsdb.PartialWriteError
				if errors.As(err, &pw) {
					gotDropped = pw.Dropped
				} else {
					fail("unexpected_write_error", feats, i, err.Error())
					return
				}
			}
			if gotDropped != wantDropped {
				fail("dropped_count_mismatch", feats, i, fmt.Sprintf("want dropped=%d got %d (err=%v)", wantDropped, gotDropped, err))
				return
			}
			for _, p := range accepted {
				m.Put(sk.SeriesKey(p.M, map[string]string{"h": p.Tag}), p.F, p.T, p.V)
				if p.F2 != "" {
					m.Put(sk.SeriesKey(p.M, map[string]string{"h": p.Tag}), p.F2, p.T, p.V2)
				}
			}
			// resolve the side-effect fields by observation; a later point of the same batch may
			// also have registered the field with its own type, which the model then already has
			for _, mf := range maybe {
				if _, ok := schema[mf.m][mf.f]; ok {
					continue
				}
				if got := s.Sh.MeasurementFields([]byte(mf.m)); got != nil {
					if t, ok := got.FieldSet()[mf.f]; ok {
						if t != c10DataType(mf.k) {
							fail("schema_mismatch", feats, i, fmt.Sprintf("field %s.%s of a rejected point registered as %v, written as %c", mf.m, mf.f, t, mf.k))
							return
						}
						if schema[mf.m] == nil {
							schema[mf.m] = map[string]byte{}
						}
						schema[mf.m][mf.f] = mf.k
						r.Event("fields_registered_by_rejected_point", 1)
					}
				}
			}
			r.Event("write_points", int64(len(o.Pts)))
			r.Event("write_points_rejected", int64(wantDropped))
		case "drop":
			if err := s.Sh.DeleteMeasurement(context.Background(), []byte(o.M)); err != nil {
				fail("drop_error", feats, i, err.Error())
				return
			}
			if len(schema[o.M]) > 0 {
				droppedOnce[o.M] = true
			}
			delete(schema, o.M)
			for _, tag := range []string{"a", "b"} {
				m.Delete(sk.SeriesKey(o.M, map[string]string{"h": tag}), sk.MinT, sk.MaxT)
			}
			r.Event("measurement_drops", 1)
		case "reopen":
			feats["after_restart"] = "clean"
			if err := s.Reopen(); err != nil {
				fail("reopen_error", feats, i, err.Error())
				return
			}
			r.Event("clean_restarts", 1)
		case "crash":
			feats["after_restart"] = "unclean"
			gen++
			ndir := filepath.Join(root, fmt.Sprintf("g%d", gen))
			if err := crash.CopyTree(dir, ndir); err != nil {
				r.T.Fatalf("copy: %v", err)
			}
			s.Close()
			os.RemoveAll(dir)
			dir = ndir
			s, err = sk.Open(dir, sk.Opts{})
			if err != nil {
				fail("reopen_error", feats, i, err.Error())
				return
			}
			r.Event("unclean_restarts", 1)
		}
		if d := c10SchemaDiff(s, schema); d != "" {
			fail("schema_mismatch", feats, i, d)
			return
		}
		if d := c10ReadAll(s, m); d != "" {
			fail("value_mismatch", feats, i, d)
			return
		}
		r.Event("schema_and_value_checks", 1)
	}
	r.Event("type_conflicts", int64(conflicts))
	r.Event("fields_recreated_after_drop", int64(rewrites))
	r.Case(fmt.Sprint(c10Strings(hist)), conflicts > 0 && (kinds["crash"] > 0 || kinds["reopen"] > 0))
	if caseNo%23 == 0 && r.WantSample() {
		r.Sample(map[string]any{"case": caseNo, "history": c10Strings(hist), "conflicts": conflicts})
	}
}

func c10Strings(h []c10Op) []string {
	out := make([]string, len(h))
	for i, o := range h {
		out[i] = o.String()
	}
	return out
}

// c10Torn: a write that registers new fields, torn at every prefix of its fields.idxl append.
// The write is in flight: after reopening, each of its new fields is either registered with the
// written type or not registered; everything acknowledged before is exact; a later write of any
// type to a not-registered field must be accepted.
func c10Torn(r *vkit.Run, caseNo int, rg *vkit.Rand, all bool) {
	root := tmpDir("c10t")
	defer os.RemoveAll(root)
	live := filepath.Join(root, "live")
	s, err := sk.Open(live, sk.Opts{})
	if err != nil {
		r.T.Fatalf("open: %v", err)
	}
	defer func() { s.Close() }()
	schema := c10Schema{}
	// acknowledged prefix
	k0 := vkit.Pick(rg, c10Kinds)
	if err := s.Write([]models.Point{sk.Point("ma", map[string]string{"h": "a"}, map[string]sk.Val{"x": c10Val(k0, 1)}, 1)}); err != nil {
		r.T.Fatalf("write: %v", err)
	}
	schema["ma"] = map[string]byte{"x": k0}
	prev := filepath.Join(root, "prev")
	crash.CopyTree(live, prev)
	k1, k2 := vkit.Pick(rg, c10Kinds), vkit.Pick(rg, c10Kinds)
	pts := []models.Point{
		sk.Point("ma", map[string]string{"h": "a"}, map[string]sk.Val{"y": c10Val(k1, 2)}, 2),
		sk.Point("mb", map[string]string{"h": "b"}, map[string]sk.Val{"x": c10Val(k2, 3)}, 3),
	}
	if err := s.Write(pts); err != nil {
		r.T.Fatalf("write: %v", err)
	}
	after := filepath.Join(root, "after")
	crash.CopyTree(live, after)
	grown := crash.Grown(prev, after, func(rel string) bool { return filepath.Base(rel) == "fields.idxl" })
	n := 0
	for _, gf := range grown {
		for _, j := range crash.Offsets(gf.New-gf.Old, all) {
			v := filepath.Join(root, "v")
			os.RemoveAll(v)
			crash.CopyTree(after, v)
			for _, w := range crash.Grown(prev, after, func(rel string) bool { return filepath.Ext(rel) == ".wal" }) {
				os.Truncate(filepath.Join(v, w.Rel), w.Old) // WAL is written after the field changes
			}
			crash.Tear(filepath.Join(v, gf.Rel), gf.Old+j, gf.New, "cut")
			n++
			feats := map[string]string{"op": "write", "image": "torn_fields_idxl"}
			wit := func(d string) c10Wit {
				return c10Wit{Case: caseNo, History: []string{fmt.Sprintf("write ma.x:%c (acked)", k0), fmt.Sprintf("write ma.y:%c mb.x:%c (in flight, fields.idxl cut at +%d/%d)", k1, k2, j, gf.New-gf.Old)}, Detail: d}
			}
			s2, err := sk.Open(v, sk.Opts{})
			if err != nil {
				r.Violation("reopen_error", feats, wit(err.Error()))
				continue
			}
			bad := ""
			mfa, mfb := s2.Sh.MeasurementFields([]byte("ma")), s2.Sh.MeasurementFields([]byte("mb"))
			ga, gb := map[string]influxql.DataType{}, map[string]influxql.DataType{}
			if mfa != nil {
				ga = mfa.FieldSet()
			}
			if mfb != nil {
				gb = mfb.FieldSet()
			}
			if ga["x"] != c10DataType(k0) {
				bad = fmt.Sprintf("acknowledged field ma.x lost or changed: %v", ga)
			}
			if t, ok := ga["y"]; ok && t != c10DataType(k1) {
				bad = fmt.Sprintf("ma.y registered with a type never written: %v", t)
			}
			if t, ok := gb["x"]; ok && t != c10DataType(k2) {
				bad = fmt.Sprintf("mb.x registered with a type never written: %v", t)
			}
			if len(ga) > 2 || len(gb) > 1 {
				bad = fmt.Sprintf("phantom fields: ma=%v mb=%v", ga, gb)
			}
			if bad == "" {
				// a not-registered field accepts any type; a registered one accepts its own
				ky := vkit.Pick(rg, c10Kinds)
				if _, ok := ga["y"]; ok {
					ky = k1
				}
				if err := s2.Write([]models.Point{sk.Point("ma", map[string]string{"h": "a"}, map[string]sk.Val{"y": c10Val(ky, 9)}, 9)}); err != nil {
					bad = "write after recovery refused: " + err.Error()
				}
			}
			s2.Close()
			if bad != "" {
				r.Violation("torn_field_changes_recovery", feats, wit(bad))
			}
			r.Event("torn_fields_idxl_images", 1)
		}
	}
	r.Case(fmt.Sprintf("torn %c %c %c", k0, k1, k2), n > 3)
}

// c10Concurrent: N writers race to create the same new field with different types.
func c10Concurrent(r *vkit.Run, caseNo int, rg *vkit.Rand) {
	dir := tmpDir("c10c")
	defer os.RemoveAll(dir)
	s, err := sk.Open(dir, sk.Opts{})
	if err != nil {
		r.T.Fatalf("open: %v", err)
	}
	defer func() { s.Close() }()
	nw := rg.Range(3, 6)
	type res struct {
		kind    byte
		dropped int
		err     error
		t       int64
		v       sk.Val
	}
	out := make([]res, nw)
	var wg sync.WaitGroup
	start := make(chan struct{})
	for w := 0; w < nw; w++ {
		out[w].kind = c10Kinds[(w+rg.Intn(5))%5]
		out[w].t = int64(w + 1)
		out[w].v = c10Val(out[w].kind, int64(w+1))
		wg.Add(1)
		go func(w int) {
			defer wg.Done()
			<-start
			err := s.Write([]models.Point{sk.Point("mc", map[string]string{"h": "a"}, map[string]sk.Val{"z": out[w].v}, out[w].t)})
			if err != nil {
				var pw tsdb.PartialWriteError
				if errors.As(err, &pw) {
					out[w].dropped = pw.Dropped
				} else {
					out[w].err = err
				}
			}
		}(w)
	}
	close(start)
	wg.Wait()
	mf := s.Sh.MeasurementFields([]byte("mc"))
	wit := func(d string) c10Wit {
		var h []string
		for _, o := range out {
			h = append(h, fmt.Sprintf("write mc.z:%c@%d -> dropped=%d err=%v", o.kind, o.t, o.dropped, o.err))
		}
		return c10Wit{Case: caseNo, History: h, Detail: d}
	}
	feats := map[string]string{"op": "concurrent_create"}
	if mf == nil || len(mf.FieldSet()) != 1 {
		r.Violation("concurrent_create_schema", feats, wit(fmt.Sprintf("field set after the race: %v", mf)))
		return
	}
	winner := mf.FieldSet()["z"]
	key := sk.SeriesKey("mc", map[string]string{"h": "a"})
	got, err := s.Read(key, "z", sk.MinT, sk.MaxT, true)
	if err != nil {
		r.Violation("concurrent_create_read", feats, wit(err.Error()))
		return
	}
	want := sk.NewModel()
	for _, o := range out {
		if o.err != nil {
			r.Violation("unexpected_write_error", feats, wit(o.err.Error()))
			return
		}
		accepted := c10DataType(o.kind) == winner
		if accepted != (o.dropped == 0) {
			r.Violation("concurrent_create_outcome", feats, wit(fmt.Sprintf("winner type %v but writer of %c reports dropped=%d", winner, o.kind, o.dropped)))
			return
		}
		if accepted {
			want.Put(key, "z", o.t, o.v)
		}
	}
	if d := sk.Diff(want.Read(key, "z", sk.MinT, sk.MaxT, true), got); d != "" {
		r.Violation("concurrent_create_values", feats, wit(d))
		return
	}
	r.Event("concurrent_create_races", 1)
	distinct := map[byte]bool{}
	for _, o := range out {
		distinct[o.kind] = true
	}
	r.Case(fmt.Sprint("conc", caseNo, len(distinct)), len(distinct) > 1)
}

func TestC10(t *testing.T) {
	r := vkit.Start(t, "C10", "fault_enumeration")
	defer r.Finish()
	r.Rule("(a) histories of 8–18 ops (write batches of single-field points with conforming and conflicting types over 2 measurements × 2 fields × 5 types, drop measurement, clean restart, unclean restart = crash image of the live directories) with dropped count, schema and values compared with the model after every op; (b) a write registering new fields torn at byte prefixes of its fields.idxl append (every byte in thorough); (c) N concurrent writers creating one field with different types. non-trivial = history has a type conflict and a restart / torn case has >3 images / race has ≥2 types; distinct = hash of the history")
	n := r.N(60, 700)
	for i := 0; i < n; i++ {
		c10History(r, i, r.Rand(i))
		if r.Violations() > 5 {
			return
		}
	}
	nt := r.N(6, 60)
	for i := 0; i < nt; i++ {
		c10Torn(r, i, r.SubRand("torn", i), !r.Quick())
	}
	nc := r.N(40, 500)
	for i := 0; i < nc; i++ {
		c10Concurrent(r, i, r.SubRand("conc", i))
		if r.Violations() > 5 {
			return
		}
	}
}
