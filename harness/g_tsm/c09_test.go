package g_tsm

import (
	"fmt"
	"math"
	"runtime"
	"sort"
	"strings"
	"sync"
	"sync/atomic"
	"testing"
	"time"

	"github.com/anishathalye/porcupine"
	"github.com/influxdata/influxdb/v2/pkg/verifhook"
	"github.com/influxdata/influxdb/v2/tsdb"
	"github.com/influxdata/influxdb/v2/tsdb/engine/tsm1"

	"verifharness/vkit"
)

// C09 — the cache is a size-bounded newest-wins map under concurrency (DESIGN §5 C09).
// Oracles: (1) porcupine linearizability per key against a ≤40-line sequential model
// {snapshot values, hot values, snapshotting flag}; snapshot/clear are replicated into every
// key's partition; (2) size accounting at quiescent points against the verif walker;
// (3) the limit rule, exact in single-client phases and as sound bounds in concurrent ones;
// plus the race detector (build = race).

type c09V struct {
	T    int64
	ID   int64
	Kind byte // 'i' or 'f'
}

func (v c09V) String() string { return fmt.Sprintf("%d:%d%c", v.T, v.ID, v.Kind) }

type c09In struct {
	ReadID int64  // values_lookup / values_copy: pairs the two points of one Values() call
	Op     string // write snapshot clear delete values values_lookup values_copy
	// reads: ids written by writes whose interval overlaps this read. Values() sizes its buffer
	// and copies the entry at two different instants, so a read that overlaps a write may miss
	// some of that write's values; the property promises visibility of completed writes, not
	// atomic visibility of a concurrent batch (DESIGN Appendix C, correction 2).
	Optional map[int64]bool
	Key      string
	Vals     []c09V
	Min      int64
	Max      int64
	Success  bool // clear
	Swap     bool // snapshot: whether the (global) snapshot store is empty so hot moves into it
}
type c09Out struct {
	Res  string // ok limit conflict inprogress
	Vals []c09V
}

type c09State struct {
	Snap, Hot string // encoded value lists in insertion order
	Snapping  bool
	Pending   string // "readID=snapEnc|" entries: reads that looked up their entries, not yet copied
}

func c09Enc(vs []c09V) string {
	var sb strings.Builder
	for _, v := range vs {
		fmt.Fprintf(&sb, "%d:%d:%c;", v.T, v.ID, v.Kind)
	}
	return sb.String()
}
func c09Dec(s string) []c09V {
	var out []c09V
	for _, p := range strings.Split(s, ";") {
		if p == "" {
			continue
		}
		var v c09V
		var k rune
		fmt.Sscanf(p, "%d:%d:%c", &v.T, &v.ID, &k)
		v.Kind = byte(k)
		out = append(out, v)
	}
	return out
}

// dedup = stable sort by time, the later-inserted value wins on equal timestamps.
func c09Dedup(vs []c09V) []c09V {
	out := append([]c09V(nil), vs...)
	sort.SliceStable(out, func(i, j int) bool { return out[i].T < out[j].T })
	w := 0
	for i := range out {
		if w > 0 && out[w-1].T == out[i].T {
			out[w-1] = out[i]
		} else {
			out[w] = out[i]
			w++
		}
	}
	return out[:w]
}

func c09Step(st c09State, in c09In, out c09Out) (bool, c09State) {
	switch in.Op {
	case "write":
		hot := c09Dec(st.Hot)
		conflict := len(hot) > 0 && len(in.Vals) > 0 && hot[0].Kind != in.Vals[0].Kind
		switch out.Res {
		case "limit":
			return true, st
		case "ok":
			if conflict {
				return false, st
			}
			st.Hot = st.Hot + c09Enc(in.Vals)
			return true, st
		case "conflict": // some key of the batch conflicted; this key is applied iff it does not
			if !conflict {
				st.Hot = st.Hot + c09Enc(in.Vals)
			}
			return true, st
		}
		return false, st
	case "snapshot":
		if out.Res == "inprogress" {
			return st.Snapping, st
		}
		if st.Snapping {
			return false, st
		}
		st.Snapping = true
		if in.Swap {
			if st.Snap != "" {
				return false, st
			}
			st.Snap, st.Hot = st.Hot, ""
		}
		return true, st
	case "clear":
		st.Snapping = false
		if in.Success {
			st.Snap = ""
		}
		return true, st
	case "delete":
		hot := c09Dedup(c09Dec(st.Hot))
		var keep []c09V
		for _, v := range hot {
			if v.T < in.Min || v.T > in.Max {
				keep = append(keep, v)
			}
		}
		st.Hot = c09Enc(keep)
		return true, st
	case "values":
		return c09ReadOK(st.Snap, st.Hot, in, out), st
	case "values_lookup":
		// Values() identifies the snapshot and hot entries of the key at one instant (under the
		// cache lock) ...
		st.Pending += fmt.Sprintf("%d=%s|", in.ReadID, st.Snap)
		return true, st
	case "values_copy":
		// ... and copies the hot entry's values at a later instant of the same call. The
		// property does not ask for more atomicity than that (DESIGN Appendix C, correction 2).
		tag := fmt.Sprintf("%d=", in.ReadID)
		i := strings.Index(st.Pending, tag)
		if i < 0 {
			return false, st
		}
		j := i + strings.IndexByte(st.Pending[i:], '|')
		snap := st.Pending[i+len(tag) : j]
		st.Pending = st.Pending[:i] + st.Pending[j+1:]
		return c09ReadOK(snap, st.Hot, in, out), st
	}
	return false, st
}

// c09ReadOK: out must be dedup(snap ++ hot) where values of writes overlapping the read
// (in.Optional) that do not appear in out are treated as not yet written.
func c09ReadOK(snap, hot string, in c09In, out c09Out) bool {
	all := append(c09Dec(snap), c09Dec(hot)...)
	if len(in.Optional) > 0 {
		seen := map[int64]bool{}
		for _, v := range out.Vals {
			seen[v.ID] = true
		}
		kept := all[:0:0]
		for _, v := range all {
			if in.Optional[v.ID] && !seen[v.ID] {
				continue
			}
			kept = append(kept, v)
		}
		all = kept
	}
	want := c09Dedup(all)
	if len(want) != len(out.Vals) {
		return false
	}
	for i := range want {
		if want[i] != out.Vals[i] {
			return false
		}
	}
	return true
}

var c09Model = porcupine.Model{
	Partition: func(h []porcupine.Operation) [][]porcupine.Operation {
		keys := map[string]bool{}
		for _, o := range h {
			if k := o.Input.(c09In).Key; k != "" {
				keys[k] = true
			}
		}
		var ks []string
		for k := range keys {
			ks = append(ks, k)
		}
		sort.Strings(ks)
		var parts [][]porcupine.Operation
		for _, k := range ks {
			var p []porcupine.Operation
			for _, o := range h {
				if ik := o.Input.(c09In).Key; ik == k || ik == "" {
					p = append(p, o)
				}
			}
			parts = append(parts, p)
		}
		return parts
	},
	Init: func() interface{} { return c09State{} },
	Step: func(s, in, out interface{}) (bool, interface{}) {
		ok, ns := c09Step(s.(c09State), in.(c09In), out.(c09Out))
		return ok, ns
	},
	DescribeOperation: func(in, out interface{}) string {
		i, o := in.(c09In), out.(c09Out)
		switch i.Op {
		case "write":
			return fmt.Sprintf("write(%s,%v)->%s", i.Key, i.Vals, o.Res)
		case "values_copy", "values":
			return fmt.Sprintf("values(%s)->%v", i.Key, o.Vals)
		case "values_lookup":
			return fmt.Sprintf("values-lookup(%s)", i.Key)
		case "delete":
			return fmt.Sprintf("delete(%s,[%d,%d])", i.Key, i.Min, i.Max)
		case "snapshot":
			return fmt.Sprintf("snapshot(swap=%v)->%s", i.Swap, o.Res)
		}
		return fmt.Sprintf("clear(%v)", i.Success)
	},
}

func c09ToValues(vs []c09V) []tsm1.Value {
	out := make([]tsm1.Value, len(vs))
	for i, v := range vs {
		if v.Kind == 'i' {
			out[i] = tsm1.NewIntegerValue(v.T, v.ID)
		} else {
			out[i] = tsm1.NewFloatValue(v.T, float64(v.ID))
		}
	}
	return out
}

func c09FromValues(vs tsm1.Values) []c09V {
	out := make([]c09V, 0, len(vs))
	for _, v := range vs {
		switch x := v.(type) {
		case tsm1.IntegerValue:
			out = append(out, c09V{x.UnixNano(), x.RawValue(), 'i'})
		case tsm1.FloatValue:
			out = append(out, c09V{x.UnixNano(), int64(x.RawValue()), 'f'})
		default:
			out = append(out, c09V{v.UnixNano(), -1, '?'})
		}
	}
	return out
}

type c09Rec struct {
	mu     sync.Mutex
	ops    []porcupine.Operation
	clock  int64
	readID int64
}

func (r *c09Rec) snapshot() []porcupine.Operation {
	r.mu.Lock()
	defer r.mu.Unlock()
	return append([]porcupine.Operation(nil), r.ops...)
}
func (r *c09Rec) now() int64 { return atomic.AddInt64(&r.clock, 1) }
func (r *c09Rec) add(client int, in c09In, call int64, out c09Out, ret int64) {
	r.mu.Lock()
	r.ops = append(r.ops, porcupine.Operation{ClientId: client, Input: in, Call: call, Output: out, Return: ret})
	r.mu.Unlock()
}

func (r *c09Rec) addRead(client int, key string, call int64, vals []c09V, ret int64) {
	id := atomic.AddInt64(&r.readID, 1)
	r.add(client, c09In{Op: "values", Key: key, ReadID: id}, call, c09Out{Vals: vals}, ret)
}

// c09Prepare attaches to every read the ids of values whose write overlaps the read, and splits
// a read into its two points (entry lookup, value copy) only when a snapshot or clear overlaps
// it — otherwise the snapshot side cannot change during the read and one point suffices.
func c09Prepare(ops []porcupine.Operation) []porcupine.Operation {
	var out []porcupine.Operation
	for i := range ops {
		in := ops[i].Input.(c09In)
		if in.Op != "values" {
			out = append(out, ops[i])
			continue
		}
		opt := map[int64]bool{}
		two := false
		for j := range ops {
			w := ops[j].Input.(c09In)
			if !(ops[j].Call <= ops[i].Return && ops[i].Call <= ops[j].Return) {
				continue
			}
			if w.Op == "write" && w.Key == in.Key {
				for _, v := range w.Vals {
					opt[v.ID] = true
				}
			}
			if w.Op == "snapshot" || w.Op == "clear" {
				two = true
			}
		}
		in.Optional = opt
		if !two {
			o := ops[i]
			o.Input = in
			out = append(out, o)
			continue
		}
		lk, cp := ops[i], ops[i]
		lin := in
		lin.Op, lin.Optional = "values_lookup", nil
		lk.Input, lk.Output = lin, c09Out{}
		in.Op = "values_copy"
		cp.Input = in
		out = append(out, lk, cp)
	}
	return out
}

type c09Wit struct {
	Case    int      `json:"case"`
	Limit   uint64   `json:"limit"`
	History []string `json:"history"`
	Detail  string   `json:"detail"`
}

func c09Describe(ops []porcupine.Operation) []string {
	sorted := append([]porcupine.Operation(nil), ops...)
	sort.Slice(sorted, func(i, j int) bool { return sorted[i].Call < sorted[j].Call })
	var out []string
	for _, o := range sorted {
		if o.Input.(c09In).Op == "values_lookup" {
			continue
		}
		out = append(out, fmt.Sprintf("c%d [%d,%d] %s", o.ClientId, o.Call, o.Return, c09Model.DescribeOperation(o.Input, o.Output)))
	}
	return out
}

func c09ValSize(vs []c09V) uint64 { return uint64(tsm1.Values(c09ToValues(vs)).Size()) }

func c09History(r *vkit.Run, caseNo int, rg *vkit.Rand) {
	keys := []string{"cpu,h=a#!~#v", "cpu,h=b#!~#v", "m#!~#f"}[:rg.Range(2, 3)]
	dupFree := caseNo%2 == 0
	var limit uint64
	if rg.Chance(1, 2) {
		limit = uint64(rg.Range(60, 400))
	}
	c := tsm1.NewCache(limit, tsdb.EngineTags{})
	rec := &c09Rec{}
	var idc int64
	nextID := func() int64 { return atomic.AddInt64(&idc, 1) }
	usedTS := map[string]map[int64]bool{}
	var tsMu sync.Mutex
	pickT := func(g *vkit.Rand, key string) int64 {
		tsMu.Lock()
		defer tsMu.Unlock()
		if usedTS[key] == nil {
			usedTS[key] = map[int64]bool{}
		}
		for {
			t := int64(g.Intn(12))
			if dupFree {
				t = int64(len(usedTS[key])) + 100*int64(g.Intn(3)) // unique per key
				for usedTS[key][t] {
					t++
				}
			}
			usedTS[key][t] = true
			return t
		}
	}
	keyKind := map[string]byte{}
	for _, k := range keys {
		keyKind[k] = 'i'
	}
	var calledBytes uint64 // bytes of all writes called so far (upper bound on size)
	var violatedFlag, snapActive atomic.Bool
	fail := func(class string, feats map[string]string, detail string) {
		violatedFlag.Store(true)
		r.Violation(class, feats, c09Wit{Case: caseNo, Limit: limit, History: c09Describe(rec.snapshot()), Detail: detail})
	}

	doWrite := func(client int, g *vkit.Rand, exact bool) {
		nk := 1
		if g.Chance(1, 4) {
			nk = 2
		}
		batch := map[string][]tsm1.Value{}
		ins := map[string][]c09V{}
		var added uint64
		for _, ki := range g.Perm(len(keys))[:nk] {
			k := keys[ki]
			kind := keyKind[k]
			if !dupFree && g.Chance(1, 10) {
				kind = 'f' // type conflict attempt
			}
			n := g.Range(1, 3)
			var vs []c09V
			for i := 0; i < n; i++ {
				vs = append(vs, c09V{pickT(g, k), nextID(), kind})
			}
			ins[k] = vs
			batch[k] = c09ToValues(vs)
			added += c09ValSize(vs)
		}
		atomic.AddUint64(&calledBytes, added)
		var before uint64
		if exact {
			before = c.Size()
		}
		call := rec.now()
		err := c.WriteMulti(batch)
		ret := rec.now()
		res := "ok"
		if err != nil {
			switch {
			case strings.Contains(err.Error(), "cache-max-memory-size exceeded"):
				res = "limit"
			case err == tsdb.ErrFieldTypeConflict:
				res = "conflict"
			default:
				fail("unexpected_write_error", map[string]string{"op": "write"}, err.Error())
				return
			}
		}
		for k, vs := range ins {
			rec.add(client, c09In{Op: "write", Key: k, Vals: vs}, call, c09Out{Res: res}, ret)
		}
		// limit rule
		if limit > 0 {
			if exact {
				wantReject := before+added > limit
				if wantReject != (res == "limit") {
					fail("limit_rule", map[string]string{"phase": "single_client", "got": res}, fmt.Sprintf("Size()=%d + added=%d vs limit=%d but result=%s", before, added, limit, res))
				}
				r.Event("limit_rule_exact_checks", 1)
			} else {
				if res != "limit" && added > limit {
					fail("limit_rule", map[string]string{"phase": "concurrent", "got": res}, fmt.Sprintf("accepted although added=%d alone exceeds limit=%d", added, limit))
				}
				// (Snapshot() publishes snapshotSize before it zeroes the hot counter, under its
				// write lock; the lock-free Size() read of a concurrent writer can see the sum
				// twice. The property only demands that over-limit writes are rejected, so the
				// "rejected ⇒ could have exceeded" bound is applied only when no snapshotter runs
				// in this phase — DESIGN Appendix C, correction 3.)
				// (key bytes are held once in the hot store and once more in a snapshot that is
				// in flight or retained after a failed write)
				keyBytes := 0
				for _, k := range keys {
					keyBytes += len(k)
				}
				if res == "limit" && !snapActive.Load() && atomic.LoadUint64(&calledBytes)+uint64(2*keyBytes) <= limit {
					fail("limit_rule", map[string]string{"phase": "concurrent", "got": res}, fmt.Sprintf("rejected although all bytes ever offered (%d) fit the limit %d", atomic.LoadUint64(&calledBytes), limit))
				}
			}
		}
		r.Event("op_write_"+res, 1)
	}
	doValues := func(client int, g *vkit.Rand) {
		k := vkit.Pick(g, keys)
		call := rec.now()
		vs := c.Values([]byte(k))
		ret := rec.now()
		rec.addRead(client, k, call, c09FromValues(vs), ret)
		r.Event("op_values", 1)
	}
	doDelete := func(client int, g *vkit.Rand) {
		k := vkit.Pick(g, keys)
		lo, hi := int64(g.Intn(12)), int64(g.Intn(12))
		if lo > hi {
			lo, hi = hi, lo
		}
		if g.Chance(1, 5) {
			lo, hi = math.MinInt64, math.MaxInt64
		}
		call := rec.now()
		c.DeleteRange([][]byte{[]byte(k)}, lo, hi)
		ret := rec.now()
		rec.add(client, c09In{Op: "delete", Key: k, Min: lo, Max: hi}, call, c09Out{Res: "ok"}, ret)
		r.Event("op_delete", 1)
	}
	// snapshotter bookkeeping (single snapshotter role)
	snapEmpty := true // the global snapshot store is empty
	snapping := false
	doSnapshot := func(client int) {
		in := c09In{Op: "snapshot", Swap: snapEmpty}
		call := rec.now()
		snap, err := c.Snapshot()
		ret := rec.now()
		if err != nil {
			if err == tsm1.ErrSnapshotInProgress {
				rec.add(client, in, call, c09Out{Res: "inprogress"}, ret)
				r.Event("op_snapshot_inprogress", 1)
				return
			}
			fail("unexpected_snapshot_error", map[string]string{"op": "snapshot"}, err.Error())
			return
		}
		snapping = true
		if snapEmpty {
			snapEmpty = snap.Size() == 0
		}
		rec.add(client, in, call, c09Out{Res: "ok"}, ret)
		r.Event("op_snapshot", 1)
	}
	doClear := func(client int, success bool) {
		if !snapping {
			return
		}
		call := rec.now()
		c.ClearSnapshot(success)
		ret := rec.now()
		snapping = false
		if success {
			snapEmpty = true
		}
		rec.add(client, c09In{Op: "clear", Success: success}, call, c09Out{Res: "ok"}, ret)
		r.Event("op_clear", 1)
	}
	sizeCheck := func(phase string) {
		a := c.VerifAccounting()
		held := a.HeldKeyBytes + a.HeldValueBytes
		sz := c.Size()
		r.Event("size_checks", 1)
		if sz >= 1<<62 || a.SizeCounter >= 1<<62 {
			fail("size_accounting", map[string]string{"kind": "wrapped"}, fmt.Sprintf("%s: Size()=%d counter=%d", phase, sz, a.SizeCounter))
			return
		}
		if a.SizeCounter < held {
			fail("size_accounting", map[string]string{"kind": "below_held"}, fmt.Sprintf("%s: counter=%d < held=%d (keys=%d values=%d)", phase, a.SizeCounter, held, a.Keys, a.Values))
			return
		}
		if dupFree && a.SizeCounter != held {
			fail("size_accounting", map[string]string{"kind": "not_equal_held"}, fmt.Sprintf("%s: history never writes a (key,timestamp) twice, so counter must equal held: counter=%d held=%d (keys=%d values=%d)", phase, a.SizeCounter, held, a.Keys, a.Values))
			return
		}
		if sz != a.SizeCounter+a.SnapshotSize {
			fail("size_accounting", map[string]string{"kind": "size_not_sum"}, fmt.Sprintf("%s: Size()=%d counter=%d snapshotSize=%d", phase, sz, a.SizeCounter, a.SnapshotSize))
		}
		if dupFree {
			r.Event("size_checks_exact", 1)
		}
	}

	// widen interleavings at the two cache hooks with seeded yields
	var yc uint64
	yseed := rg.Uint64()
	restore1 := verifhook.Set("tsm1.cache.write.afterLimitCheck", func(string, interface{}) {
		if (atomic.AddUint64(&yc, 1)*0x9E3779B97F4A7C15^yseed)%3 == 0 {
			runtime.Gosched()
		}
	})
	restore2 := verifhook.Set("tsm1.cache.values.afterLookup", func(string, interface{}) {
		if (atomic.AddUint64(&yc, 1)*0x9E3779B97F4A7C15^yseed)%3 == 0 {
			runtime.Gosched()
		}
	})
	defer restore1()
	defer restore2()

	rounds := rg.Range(1, 2)
	for round := 0; round < rounds && !violatedFlag.Load(); round++ {
		// single-client phase (exact limit rule)
		for i := 0; i < rg.Range(2, 5) && !violatedFlag.Load(); i++ {
			switch rg.Intn(6) {
			case 0, 1, 2:
				doWrite(0, rg, true)
			case 3:
				doValues(0, rg)
			case 4:
				doDelete(0, rg)
			default:
				doValues(0, rg)
			}
		}
		sizeCheck("after_single_client_phase")
		// concurrent phase
		nclients := rg.Range(2, 4)
		var wg sync.WaitGroup
		start := make(chan struct{})
		seeds := make([]uint64, nclients)
		for i := range seeds {
			seeds[i] = rg.Uint64()
		}
		doSnap := rg.Chance(2, 3)
		snapActive.Store(doSnap)
		for cl := 0; cl < nclients; cl++ {
			wg.Add(1)
			go func(cl int) {
				defer wg.Done()
				g := vkit.NewRand(seeds[cl])
				<-start
				n := g.Range(3, 6)
				for i := 0; i < n; i++ {
					switch g.Intn(8) {
					case 0, 1, 2, 3:
						doWrite(cl+1, g, false)
					case 4, 5:
						doValues(cl+1, g)
					default:
						doDelete(cl+1, g)
					}
				}
			}(cl)
		}
		// the snapshotter role runs concurrently with the clients
		wg.Add(1)
		go func() {
			defer wg.Done()
			g := vkit.NewRand(seeds[0] ^ 0xABCDEF)
			<-start
			if !doSnap {
				return
			}
			doSnapshot(9)
			if g.Chance(1, 4) {
				doSnapshot(9) // in progress
			}
			runtime.Gosched()
			doClear(9, !g.Chance(1, 4))
			if g.Chance(1, 2) {
				doSnapshot(9)
				runtime.Gosched()
				doClear(9, true)
			}
		}()
		// the engine frees the cache of a shard it finds idle (Cache.Free) without excluding
		// writers: to the clients a Free is not an operation at all, whatever it overlaps
		if rg.Chance(1, 3) {
			nfree := rg.Range(1, 3)
			wg.Add(1)
			go func() {
				defer wg.Done()
				<-start
				for i := 0; i < nfree; i++ {
					c.Free()
					runtime.Gosched()
				}
			}()
			r.Event("phases_with_concurrent_free", 1)
		}
		close(start)
		wg.Wait()
		sizeCheck("after_concurrent_phase")
		for _, k := range keys { // quiescent full read of every key
			call := rec.now()
			vs := c.Values([]byte(k))
			ret := rec.now()
			rec.addRead(0, k, call, c09FromValues(vs), ret)
		}
	}
	if !violatedFlag.Load() && snapEmpty && !snapping {
		// idle cache: snapshot + successful clear must account to zero
		doSnapshot(0)
		doClear(0, true)
		if sz := c.Size(); sz != 0 {
			fail("size_accounting", map[string]string{"kind": "nonzero_after_flush"}, fmt.Sprintf("Size()=%d after Snapshot+ClearSnapshot(true) on an idle cache", sz))
		}
		r.Event("flush_to_zero_checks", 1)
	}
	if violatedFlag.Load() {
		return
	}
	res, info := porcupine.CheckOperationsVerbose(c09Model, c09Prepare(rec.ops), 8*time.Second)
	switch res {
	case porcupine.Ok:
		r.Event("porcupine_ok", 1)
	case porcupine.Unknown:
		r.Event("porcupine_unknown", 1)
		r.Inconclusive("porcupine timeout")
	case porcupine.Illegal:
		r.Event("porcupine_illegal", 1)
		_ = info
		fail("not_linearizable", map[string]string{"oracle": "porcupine"}, "no linearization of the per-key history explains the observed Values()/write results")
	}
	r.Event("history_ops", int64(len(rec.ops)))
	r.Case(strings.Join(c09Describe(rec.ops), "\n"), len(rec.ops) >= 10)
	if caseNo%61 == 0 && r.WantSample() {
		r.Sample(map[string]any{"case": caseNo, "limit": limit, "dup_free": dupFree, "history": c09Describe(rec.ops)})
	}
}

func TestC09(t *testing.T) {
	r := vkit.Start(t, "C09", "exploration")
	defer r.Finish()
	r.Rule("case = history on a real tsm1.Cache: rounds of a single-client phase (exact limit rule) and a concurrent phase (2–4 clients × 3–6 ops of WriteMulti/Values/DeleteRange plus a snapshotter doing Snapshot/ClearSnapshot(±)), 2–3 keys, limits at the boundary, half of the histories never write a (key,timestamp) twice; oracles: porcupine per key (snapshot/clear replicated into every partition), size accounting at quiescent points against the verif walker, limit rule; non-trivial = ≥10 recorded ops; distinct = hash of the recorded history")
	r.Assume("Cache.DeleteRange is modelled as affecting the hot store only (the property does not say otherwise; deletes of snapshotted values are C03's subject)")
	n := r.N(1500, 20000)
	for i := 0; i < n; i++ {
		c09History(r, i, r.Rand(i))
		if r.Violations() > 5 {
			break
		}
	}
	if !r.Quick() {
		c09Stress(r)
	}
}

// c09Stress: 16 writers/readers on a few keys with size checks at barriers (thorough only).
func c09Stress(r *vkit.Run) {
	c := tsm1.NewCache(0, tsdb.EngineTags{})
	keys := []string{"a#!~#v", "b#!~#v", "c#!~#v", "d#!~#v"}
	for round := 0; round < 20; round++ {
		var wg sync.WaitGroup
		for w := 0; w < 16; w++ {
			wg.Add(1)
			go func(w int) {
				defer wg.Done()
				g := r.SubRand("stress", round*16+w)
				for i := 0; i < 200; i++ {
					k := vkit.Pick(g, keys)
					switch g.Intn(4) {
					case 0, 1:
						t := int64(round)*1_000_000 + int64(w)*10_000 + int64(i) // unique per key
						c.WriteMulti(map[string][]tsm1.Value{k: {tsm1.NewIntegerValue(t, int64(i))}})
					case 2:
						c.Values([]byte(k))
					default:
						c.DeleteRange([][]byte{[]byte(k)}, int64(round)*1_000_000+int64(w)*10_000, int64(round)*1_000_000+int64(w)*10_000+int64(g.Intn(200)))
					}
				}
			}(w)
		}
		wg.Wait()
		a := c.VerifAccounting()
		r.Event("stress_barrier_size_checks", 1)
		if a.SizeCounter != a.HeldKeyBytes+a.HeldValueBytes {
			r.Violation("size_accounting", map[string]string{"kind": "not_equal_held", "phase": "stress"}, fmt.Sprintf("round %d: counter=%d held=%d", round, a.SizeCounter, a.HeldKeyBytes+a.HeldValueBytes))
			return
		}
		if round%5 == 4 {
			if _, err := c.Snapshot(); err == nil {
				c.ClearSnapshot(true)
			}
		}
	}
}
