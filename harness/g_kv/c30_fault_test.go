package g_kv

import (
	"context"
	"fmt"
	"sort"
	"strings"
	"testing"
	"time"

	"github.com/influxdata/influxdb/v2"
	"github.com/influxdata/influxdb/v2/kit/platform"
	errors2 "github.com/influxdata/influxdb/v2/kit/platform/errors"

	"verifharness/vkit"
)

// ---- C30, faulted histories ---------------------------------------------------------------------
//
// The same operation mix as the sequential histories, on a real bolt store (a failed Update rolls
// back) behind gkvFaultStore. About half of the operations run with one fault armed: the N-th
// Put/Delete of the operation (optionally only those on one KV bucket) or the commit of its k-th
// transaction returns an I/O error. An operation that fails in the middle is an operation of the
// history like any other: the invariants of the statement must hold afterwards.

// the KV buckets of tenant/storage_*.go (persisted schema names)
var c30KVBuckets = []string{"organizationsv1", "organizationindexv1", "bucketsv1", "bucketindexv1", "usersv1", "userindexv1", "userspasswordv1", "userresourcemappingsv1", "userresourcemappingsbyuserindexv1"}

// c30FaultPlan picks the fault position for one operation. The estimate of how many
// transactions / mutations the operation will issue only steers the choice (so that every
// position of the multi-transaction operations is hit over a run); positions past the end are
// chosen now and then and simply do not fire.
func c30FaultPlan(w *c30World, rg *vkit.Rand, kind string, target platform.ID) gkvFault {
	ctx := context.Background()
	urmsOf := func(res platform.ID) int {
		ms, _, _ := w.ts.FindUserResourceMappings(ctx, influxdb.UserResourceMappingFilter{ResourceID: res})
		return len(ms)
	}
	txs, muts := 1, 3
	switch kind {
	case "CreateOrganization":
		txs, muts = 3, 6
	case "DeleteOrganization":
		bs, _, _ := w.ts.FindBuckets(ctx, influxdb.BucketFilter{OrganizationID: &target})
		n := urmsOf(target)
		for _, b := range bs {
			n += urmsOf(b.ID)
		}
		txs, muts = len(bs)+1+n, 2*len(bs)+2+2*n
	case "DeleteBucket", "DeleteSystemBucket":
		n := urmsOf(target)
		txs, muts = 1+n, 2+2*n
	case "DeleteUser":
		ms, _, _ := w.ts.FindUserResourceMappings(ctx, influxdb.UserResourceMappingFilter{UserID: target})
		txs, muts = 1, 3+2*len(ms)
	}
	switch {
	case rg.Chance(1, 5):
		return gkvFault{CommitTx: 1 + rg.Intn(txs+1)}
	case rg.Chance(1, 6):
		return gkvFault{Mutation: 1 + rg.Intn(2), Only: vkit.Pick(rg, c30KVBuckets)}
	default:
		return gkvFault{Mutation: 1 + rg.Intn(muts+1)}
	}
}

// c30Resync brings the handles of the workload and the noted system buckets in line with what the
// services list after an operation that returned an error with a fault inside (it may have made
// partial progress: CreateOrganization and the deletes are several transactions).
func c30Resync(w *c30World, ev func(string)) {
	ctx := context.Background()
	has := func(ids []platform.ID, id platform.ID) bool {
		for _, x := range ids {
			if x == id {
				return true
			}
		}
		return false
	}
	resys := map[platform.ID]bool{}
	if w.lastKind == "DeleteOrganization" {
		resys[w.lastTarget] = true
	}
	orgs, _, err := w.ts.FindOrganizations(ctx, influxdb.OrganizationFilter{})
	if err != nil {
		return // the sweep reports it
	}
	for _, o := range orgs {
		if !has(w.orgs, o.ID) {
			w.orgs = append(w.orgs, o.ID)
			w.orgNames[o.ID] = o.Name
			resys[o.ID] = true
			ev("resync_org_left_by_failed_create")
		}
	}
	buckets, _, err := w.ts.FindBuckets(ctx, influxdb.BucketFilter{})
	if err != nil {
		return
	}
	for org := range resys {
		// the system buckets this organization has now; what a failed CreateOrganization /
		// DeleteOrganization leaves of them is not the statement's business
		delete(w.sysBuckets, org)
		for _, b := range buckets {
			if b.OrgID == org && b.Type == influxdb.BucketTypeSystem {
				w.sysBuckets[org] = append(w.sysBuckets[org], b.ID)
				w.sysNames[b.ID] = b.Name
			}
		}
		if w.lastKind == "CreateOrganization" && len(w.sysBuckets[org]) < 2 {
			ev("org_without_all_system_buckets_after_failed_create")
		}
	}
	for _, b := range buckets {
		if b.Type != influxdb.BucketTypeSystem && !has(w.buckets, b.ID) {
			w.buckets = append(w.buckets, b.ID)
			ev("resync_bucket_left_by_failed_op")
		}
	}
	users, _, err := w.ts.FindUsers(ctx, influxdb.UserFilter{})
	if err != nil {
		return
	}
	for _, u := range users {
		if !has(w.users, u.ID) {
			w.users = append(w.users, u.ID)
			ev("resync_user_left_by_failed_op")
		}
	}
	urms, _, err := w.ts.FindUserResourceMappings(ctx, influxdb.UserResourceMappingFilter{})
	if err != nil {
		return
	}
	known := map[[2]platform.ID]bool{}
	for _, p := range w.urms {
		known[p] = true
	}
	for _, m := range urms {
		if p := [2]platform.ID{m.ResourceID, m.UserID}; !known[p] {
			w.urms = append(w.urms, p)
			ev("resync_membership_left_by_failed_op")
		}
	}
}

// c30DanglingURMs lists the memberships whose organization (orgs=true) / bucket does not exist and
// that are not marked yet.
func c30DanglingURMs(w *c30World, orgs bool) (out [][2]platform.ID) {
	ctx := context.Background()
	urms, _, err := w.ts.FindUserResourceMappings(ctx, influxdb.UserResourceMappingFilter{})
	if err != nil {
		return nil
	}
	for _, m := range urms {
		p := [2]platform.ID{m.ResourceID, m.UserID}
		if w.tolerated[p] {
			continue
		}
		switch {
		case orgs && m.ResourceType == influxdb.OrgsResourceType:
			if _, err := w.ts.FindOrganizationByID(ctx, m.ResourceID); err != nil {
				out = append(out, p)
			}
		case !orgs && m.ResourceType == influxdb.BucketsResourceType:
			if _, err := w.ts.FindBucketByID(ctx, m.ResourceID); err != nil {
				out = append(out, p)
			}
		}
	}
	return
}

// c30InvName names the broken invariant of a sweep violation for the `invariant` feature.
func c30InvName(v c30Viol) string {
	switch v.class {
	case "bucket_without_org", "bucket_survived_org_delete":
		return "bucket_without_org"
	case "membership_survived_delete":
		if v.feat["resource"] == "org" {
			return "membership_without_org"
		}
		return "membership_without_bucket"
	}
	return v.class
}

// c30Fixture populates a new world (without faults) so that the deletes of a faulted history have
// something to cascade over: 1–2 organizations with 0–2 user buckets, 1–3 users, memberships of
// users in organizations and buckets. Names come from the pools of the workload (collisions with
// what the history creates later are wanted).
func c30Fixture(w *c30World, rg *vkit.Rand) (hist []string) {
	ctx := context.Background()
	fail := func(what string, err error) {
		if err != nil {
			w.t.Fatalf("C30 fixture %s: %v", what, err)
		}
	}
	var users []platform.ID
	for i, nu := 0, rg.Range(1, 3); i < nu; i++ {
		u := &influxdb.User{Name: c30UserNames[i], Status: influxdb.Active}
		fail("user", w.ts.CreateUser(ctx, u))
		users = append(users, u.ID)
		w.users = append(w.users, u.ID)
	}
	member := func(rt influxdb.ResourceType, res platform.ID) {
		for _, u := range users {
			if !rg.Chance(1, 2) {
				continue
			}
			m := &influxdb.UserResourceMapping{UserID: u, UserType: vkit.Pick(rg, []influxdb.UserType{influxdb.Owner, influxdb.Member}), MappingType: influxdb.UserMappingType, ResourceType: rt, ResourceID: res}
			fail("membership", w.ts.CreateUserResourceMapping(ctx, m))
			w.urms = append(w.urms, [2]platform.ID{res, u})
			hist = append(hist, fmt.Sprintf("fixture: user %s is %s of %s %s", u, m.UserType, rt, res))
		}
	}
	for i, no := 0, rg.Range(1, 2); i < no; i++ {
		o := &influxdb.Organization{Name: c30OrgNames[i]}
		fail("organization", w.ts.CreateOrganization(ctx, o))
		w.orgs = append(w.orgs, o.ID)
		w.orgNames[o.ID] = o.Name
		bs, _, err := w.ts.FindBuckets(ctx, influxdb.BucketFilter{OrganizationID: &o.ID})
		fail("system buckets", err)
		for _, b := range bs {
			if b.Type == influxdb.BucketTypeSystem {
				w.sysBuckets[o.ID] = append(w.sysBuckets[o.ID], b.ID)
				w.sysNames[b.ID] = b.Name
			}
		}
		hist = append(hist, fmt.Sprintf("fixture: organization %q %s, users %v", o.Name, o.ID, users))
		member(influxdb.OrgsResourceType, o.ID)
		for j, nb := 0, rg.Intn(3); j < nb; j++ {
			b := &influxdb.Bucket{OrgID: o.ID, Name: c30BucketNames[j]}
			fail("bucket", w.ts.CreateBucket(ctx, b))
			w.buckets = append(w.buckets, b.ID)
			hist = append(hist, fmt.Sprintf("fixture: bucket %q %s of %s", b.Name, b.ID, o.ID))
			member(influxdb.BucketsResourceType, b.ID)
		}
	}
	return
}

type c30FaultWit struct {
	History []string `json:"history"`
	Message string   `json:"message"`
	Plan    string   `json:"fault_plan"`
	Trace   []string `json:"mutations_of_the_faulted_operation"`
	Retry   string   `json:"retry,omitempty"`
}

func c30FaultedHistories(r *vkit.Run, t *testing.T, ev func(string)) {
	ctx := context.Background()
	t0 := time.Now()
	defer func() { r.Extra("faulted_stream_wall_s", time.Since(t0).Seconds()) }()
	n := r.N(200, 3000)
	cover := map[string]map[string]int{}
	reported := map[string]int{}
	for h := 0; h < n; h++ {
		rg := r.SubRand("faulted", h)
		frg := r.SubRand("faulted-arm", h)
		w := c30NewBoltWorld(t)
		steps := rg.Range(8, 30)
		hist := c30Fixture(w, rg)
		okOps, fired := 0, 0
		seenSig := map[string]bool{}
		for s := 0; s < steps; s++ {
			armed := false
			var plan gkvFault
			faultThis := frg.Chance(1, 2)
			w.pre = func(kind string, target platform.ID) {
				if !faultThis {
					return
				}
				plan = c30FaultPlan(w, frg, kind, target)
				w.fs.Arm(plan)
				armed = true
			}
			desc, vs := c30Step(w, rg, ev)
			var fi gkvFired
			if armed {
				fi = w.fs.Disarm()
				if !fi.Fired {
					ev("fault_armed_not_reached")
				}
			}
			if strings.Contains(desc, "→ ok") {
				okOps++
			}
			if !fi.Fired {
				// ---- an ordinary operation on bolt: the oracle of the sequential histories ----
				hist = append(hist, desc)
				vs = append(vs, c30Sweep(w, ev)...)
				var fresh []c30Viol
				for _, v := range vs {
					sig := v.class + fmt.Sprint(v.feat)
					if !seenSig[sig] {
						seenSig[sig] = true
						fresh = append(fresh, v)
					}
				}
				if len(fresh) > 0 {
					c30Report(r, w, append([]string(nil), hist...), fresh, "bolt_sequential")
				}
				continue
			}

			// ---- the fault fired inside this operation -----------------------------------------
			fired++
			kind, target := w.lastKind, w.lastTarget
			hist = append(hist, fmt.Sprintf("%s   [fault at %s: %s %s]", desc, fi.At(), fi.Op, fi.Bucket))
			ev("fault_fired_" + kind)
			if cover[kind] == nil {
				cover[kind] = map[string]int{}
			}
			cover[kind][fi.At()]++
			outcome := "nil"
			if w.lastErr != nil {
				outcome = "error"
				if !gkvIsInjected(w.lastErr) {
					ev("faulted_op_returned_another_error")
				}
				c30Resync(w, ev)
				// memberships of a *bucket* that a failed delete removed: the statement speaks of the
				// memberships of a deleted organization; these are counted, not judged
				if kind == "DeleteBucket" || kind == "DeleteSystemBucket" || kind == "DeleteOrganization" {
					for _, p := range c30DanglingURMs(w, false) {
						w.tolerated[p] = true
						ev("membership_of_missing_bucket_left_by_failed_delete")
					}
				}
			} else {
				// the operation reported success although a write inside it failed: it must have
				// taken full effect (c30Step updated the model as for any success)
				ev("fault_swallowed_" + kind)
			}
			type fv struct {
				v           c30Viol
				when, retry string
			}
			var found []fv
			for _, v := range append(vs, c30Sweep(w, ev)...) {
				found = append(found, fv{v, "after_op", ""})
			}
			ev("sweep_after_faulted_op_" + outcome)

			// a failed DeleteOrganization is repeated without a fault: it must complete (or say
			// not-found because there is nothing left to do), and then the organization, its
			// buckets and its memberships are gone
			retryDesc := ""
			if kind == "DeleteOrganization" && outcome == "error" {
				rerr := w.ts.DeleteOrganization(ctx, target)
				retry := "ok"
				switch {
				case rerr == nil:
				case errors2.ErrorCode(rerr) == errors2.ENotFound || strings.Contains(rerr.Error(), "not found"):
					retry = "not_found"
				default:
					retry = "error"
				}
				retryDesc = fmt.Sprintf("retry DeleteOrganization(%s) without fault → %s", target, c30Err(rerr))
				hist = append(hist, retryDesc)
				ev("retry_delete_org_" + retry)
				if retry == "error" {
					found = append(found, fv{c30Viol{"retry_failed", map[string]string{"kind": "org"}, fmt.Sprintf("DeleteOrganization(%s) failed with an injected fault at %s; the repeated call without a fault fails too: %v", target, fi.At(), rerr)}, "after_retry", retry})
				} else {
					w.deletedOrgs[target] = w.lastBefore
					after := c30Sweep(w, ev)
					// what is still broken after the retry supersedes the same finding before it
					still := map[string]bool{}
					for _, v := range after {
						still[c30InvName(v)] = true
					}
					var keep []fv
					for _, f := range found {
						if !still[c30InvName(f.v)] {
							keep = append(keep, f)
						}
					}
					found = keep
					for _, v := range after {
						found = append(found, fv{v, "after_retry", retry})
					}
					ev("sweep_after_retry")
				}
			}

			stop := false
			seenInv := map[string]bool{}
			for _, f := range found {
				inv := c30InvName(f.v)
				if seenInv[inv+f.when] {
					continue
				}
				seenInv[inv+f.when] = true
				if inv != "membership_without_org" {
					stop = true // the state is broken; what follows would only re-observe it
				}
				feat := map[string]string{"op": kind, "fault_at": fi.At(), "fault_op": fi.Op, "fault_bucket": fi.Bucket, "outcome": outcome, "invariant": inv, "when": f.when, "mode": "bolt_faulted"}
				if fi.Bucket == "" {
					feat["fault_bucket"] = "-"
				}
				if f.retry != "" {
					feat["retry"] = f.retry
				}
				if k := f.v.feat["kind"]; k != "" {
					feat["kind"] = k
				}
				sig := kind + "|" + inv + "|" + outcome + "|" + f.when + "|" + f.retry
				reported[sig]++
				if reported[sig] > 3 {
					ev("further_witness_not_printed")
					continue
				}
				r.Violation("invariant_broken_after_faulted_op", feat, c30FaultWit{History: append([]string(nil), hist...), Message: f.v.msg, Plan: fmt.Sprintf("%+v", plan), Trace: fi.Trace, Retry: retryDesc})
			}
			// memberships of an organization that is gone were reported; do not re-report them after
			// every later operation of this history
			for _, p := range c30DanglingURMs(w, true) {
				w.tolerated[p] = true
			}
			if stop {
				break
			}
		}
		w.close()
		r.Case("faulted|"+strings.Join(hist, "\n"), fired >= 1 && okOps >= 3)
		if h == 5 || h == 42 {
			r.Sample(map[string]any{"faulted_history": hist})
		}
	}
	// which positions of which operation were hit by a fault over the run
	flat := map[string]string{}
	for kind, m := range cover {
		var ks []string
		for k := range m {
			ks = append(ks, k)
		}
		sort.Strings(ks)
		var parts []string
		for _, k := range ks {
			parts = append(parts, fmt.Sprintf("%s×%d", k, m[k]))
		}
		flat[kind] = strings.Join(parts, " ")
	}
	r.Extra("faulted_positions_hit", flat)
}
