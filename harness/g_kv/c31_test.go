package g_kv

import (
	"encoding/json"
	"fmt"
	"math"
	"strings"
	"sync"
	"testing"

	"github.com/influxdata/influxdb/v2/kit/platform"
	pkgsnowflake "github.com/influxdata/influxdb/v2/pkg/snowflake"
	irand "github.com/influxdata/influxdb/v2/rand"
	"github.com/influxdata/influxdb/v2/snowflake"

	"verifharness/vkit"
)

type c31Wit struct {
	ID      string `json:"id,omitempty"`
	Input   string `json:"input,omitempty"`
	InputQ  string `json:"input_quoted,omitempty"`
	API     string `json:"api"`
	Want    string `json:"want"`
	Got     string `json:"got"`
	Mutator string `json:"mutator,omitempty"`
}

// reference: the canonical text of a valid id is exactly 16 characters of [0-9a-f], not all '0'
func c31Canonical(s string) (uint64, bool) {
	if len(s) != 16 {
		return 0, false
	}
	var v uint64
	for i := 0; i < 16; i++ {
		c := s[i]
		switch {
		case c >= '0' && c <= '9':
			v = v<<4 | uint64(c-'0')
		case c >= 'a' && c <= 'f':
			v = v<<4 | uint64(c-'a'+10)
		default:
			return 0, false
		}
	}
	return v, v != 0
}

func c31RefEncode(v uint64) string {
	const hexd = "0123456789abcdef"
	var b [16]byte
	for i := 15; i >= 0; i-- {
		b[i] = hexd[v&0xf]
		v >>= 4
	}
	return string(b[:])
}

// every decode entry point of platform.ID
func c31DecodeAll(s string) map[string]struct {
	id  platform.ID
	err error
} {
	out := map[string]struct {
		id  platform.ID
		err error
	}{}
	var a, b, c platform.ID
	ea := a.Decode([]byte(s))
	out["ID.Decode"] = struct {
		id  platform.ID
		err error
	}{a, ea}
	eb := b.DecodeFromString(s)
	out["ID.DecodeFromString"] = struct {
		id  platform.ID
		err error
	}{b, eb}
	ec := c.UnmarshalText([]byte(s))
	out["ID.UnmarshalText"] = struct {
		id  platform.ID
		err error
	}{c, ec}
	p, ed := platform.IDFromString(s)
	var d platform.ID
	if p != nil {
		d = *p
	}
	out["IDFromString"] = struct {
		id  platform.ID
		err error
	}{d, ed}
	return out
}

var c31Boundary = []uint64{1, 2, 9, 10, 15, 16, 0xff, 0x100, 0xabcdef, 1 << 31, 1<<32 - 1, 1 << 32, 1<<53 + 1, math.MaxInt64 - 1, math.MaxInt64,
	1 << 63, 1<<63 + 1, math.MaxUint64 - 1, math.MaxUint64, 0x0a0b0c0d0e0f0a0b, 0xaaaaaaaaaaaaaaaa, 0xffffffff00000000, 0x00000000ffffffff,
	0x5c2c205c2c205c2c /* bytes the org/bucket generator avoids */, 0x1000000000000000, 0x0fffffffffffffff}

func c31CheckValid(r *vkit.Run, v uint64, src string) {
	id := platform.ID(v)
	want := c31RefEncode(v)
	fail := func(api, w, g string) {
		r.Violation("roundtrip_mismatch", map[string]string{"api": api, "source": src}, c31Wit{ID: fmt.Sprintf("%#x", v), API: api, Want: w, Got: g})
	}
	enc, err := id.Encode()
	if err != nil || string(enc) != want {
		fail("ID.Encode", want, fmt.Sprintf("%q err=%v", enc, err))
		return
	}
	if s := id.String(); s != want {
		fail("ID.String", want, s)
	}
	if mt, err := id.MarshalText(); err != nil || string(mt) != want {
		fail("ID.MarshalText", want, fmt.Sprintf("%q err=%v", mt, err))
	}
	if !id.Valid() {
		fail("ID.Valid", "true", "false")
	}
	for api, res := range c31DecodeAll(want) {
		if res.err != nil || res.id != id {
			fail(api, fmt.Sprintf("%#x", v), fmt.Sprintf("%#x err=%v", uint64(res.id), res.err))
		}
	}
	r.Event("valid_ids_roundtripped", 1)
}

// c31Mutate turns the canonical text of a valid id into a string that is NOT the canonical
// text of any valid id; returns the mutator name.
func c31Mutate(rg *vkit.Rand, canon string) (string, string) {
	b := []byte(canon)
	switch rg.Intn(16) {
	case 0: // upper-case every letter (needs a letter)
		u := strings.ToUpper(canon)
		if u != canon {
			return u, "uppercase_all"
		}
		b[rg.Intn(16)] = 'A' + byte(rg.Intn(6))
		return string(b), "uppercase_one"
	case 1: // upper-case one letter
		for _, i := range rg.Perm(16) {
			if b[i] >= 'a' && b[i] <= 'f' {
				b[i] -= 32
				return string(b), "uppercase_one"
			}
		}
		b[rg.Intn(16)] = 'A' + byte(rg.Intn(6))
		return string(b), "uppercase_one"
	case 2:
		return canon[:rg.Intn(16)], "too_short"
	case 3:
		return canon + canon[:1+rg.Intn(16)], "too_long"
	case 4:
		b[rg.Intn(16)] = "ghzGZ xX_-+.,:/\\"[rg.Intn(16)]
		return string(b), "non_hex_char"
	case 5:
		b[0] = '+'
		return string(b), "plus_sign"
	case 6:
		b[0] = '-'
		return string(b), "minus_sign"
	case 7:
		b[0], b[1] = '0', 'x'
		return string(b), "0x_prefix"
	case 8:
		b[1+rg.Intn(14)] = '_'
		return string(b), "underscore"
	case 9:
		if rg.Bool() {
			return " " + canon[1:], "leading_space"
		}
		return canon[:15] + " ", "trailing_space"
	case 10:
		b[rg.Intn(16)] = 0
		return string(b), "nul_byte"
	case 11:
		return "0000000000000000", "zero_id"
	case 12: // 16 *bytes* with a multi-byte rune, and 16 runes that are more bytes
		if rg.Bool() {
			return canon[:14] + "é", "multibyte_16_bytes"
		}
		return canon[:15] + "١", "unicode_digit"
	case 13:
		return "", "empty"
	case 14:
		return string(rg.Bytes(16)), "random_bytes"
	default:
		return canon + "\n", "trailing_newline"
	}
}

var c31Reported = map[string]int{}

func c31CheckRejected(r *vkit.Run, s, mut string) {
	if _, ok := c31Canonical(s); ok {
		return // the mutation happened to produce a canonical id; not a rejection case
	}
	r.Event("noncanonical_"+mut, 1)
	for api, res := range c31DecodeAll(s) {
		if res.err == nil {
			// one witness per (entry point, mutator) is enough; the rest is counted
			r.Event("accepted_noncanonical_"+mut, 1)
			if c31Reported[api+"|"+mut]++; c31Reported[api+"|"+mut] > 1 {
				continue
			}
			r.Violation("noncanonical_accepted", map[string]string{"api": api, "mutator": mut},
				c31Wit{Input: s, InputQ: fmt.Sprintf("%q", s), API: api, Mutator: mut, Want: "error", Got: fmt.Sprintf("id %#x, nil error", uint64(res.id))})
		}
	}
}

func TestC31(t *testing.T) {
	r := vkit.Start(t, "C31", "exploration")
	defer r.Finish()
	r.Rule("part 1: ids = boundary values + random uint64 (all bit widths) + ids produced by the generators; each must encode to the reference 16-char lowercase hex text and decode back through Decode/DecodeFromString/UnmarshalText/IDFromString/JSON; each canonical text is mutated (upper-case, length, sign, 0x, underscore, space, NUL, unicode, zero id, random bytes) into a non-canonical string that every decode entry point must reject; non-trivial = every case; distinct = the id / the string. part 2: G goroutines × M ids on one shared generator (pkg/snowflake.Generator, snowflake.IDGenerator incl. default, rand.OrgBucketID), set-uniqueness and non-zero, under the race detector")
	nIDs := r.N(100000, 3000000)

	// ---- zero id ----------------------------------------------------------------------------
	if enc, err := platform.ID(0).Encode(); err == nil {
		r.Violation("zero_id_encoded", map[string]string{"api": "ID.Encode"}, c31Wit{ID: "0", API: "ID.Encode", Want: "error", Got: string(enc)})
	}
	if s := platform.ID(0).String(); s != "" {
		r.Violation("zero_id_encoded", map[string]string{"api": "ID.String"}, c31Wit{ID: "0", API: "ID.String", Want: `""`, Got: s})
	}
	if platform.InvalidID().Valid() {
		r.Violation("zero_id_encoded", map[string]string{"api": "ID.Valid"}, c31Wit{ID: "0", API: "ID.Valid", Want: "false", Got: "true"})
	}
	r.Case("zero", true)

	// ---- part 1 -------------------------------------------------------------------------------
	for i := 0; i < nIDs; i++ {
		rg := r.Rand(i)
		var v uint64
		src := "random"
		switch {
		case i < len(c31Boundary):
			v, src = c31Boundary[i], "boundary"
		case i%4 == 0:
			v = rg.Uint64() >> uint(rg.Intn(64)) // every bit width: leading zeros matter for the fixed width
		case i%4 == 1:
			v = vkit.Pick(rg, c31Boundary) ^ (1 << uint(rg.Intn(64)))
		default:
			v = rg.Uint64()
		}
		if v == 0 {
			v = 1
		}
		c31CheckValid(r, v, src)
		canon := c31RefEncode(v)
		if i%3 == 0 {
			s, mut := c31Mutate(rg, canon)
			c31CheckRejected(r, s, mut)
			r.Case("rej|"+s, true)
			if i%30011 == 0 {
				r.Sample(map[string]any{"id": fmt.Sprintf("%#x", v), "canonical": canon, "noncanonical_input": fmt.Sprintf("%q", s), "mutator": mut})
			}
		}
		if i%5000 == 0 { // JSON: as a value and as a map key
			type box struct {
				ID platform.ID            `json:"id"`
				M  map[platform.ID]string `json:"m"`
			}
			in := box{ID: platform.ID(v), M: map[platform.ID]string{platform.ID(v): "x"}}
			b, err := json.Marshal(in)
			var out box
			if err == nil {
				err = json.Unmarshal(b, &out)
			}
			if err != nil || out.ID != in.ID || out.M[in.ID] != "x" || !strings.Contains(string(b), `"`+canon+`"`) {
				r.Violation("roundtrip_mismatch", map[string]string{"api": "json", "source": src}, c31Wit{ID: fmt.Sprintf("%#x", v), API: "json", Want: canon, Got: fmt.Sprintf("%s err=%v", b, err)})
			}
			r.Event("json_roundtrips", 1)
		}
		r.Case(fmt.Sprint("id|", v), true)
	}

	// ---- part 2: generators under concurrency -----------------------------------------------
	G := r.N(8, 16)
	M := r.N(10000, 500000)
	type genCfg struct {
		name string
		next func() uint64
		uniq bool // uniqueness is promised (snowflake); the random org/bucket generator only promises non-zero
	}
	mk := func() []genCfg {
		var cfgs []genCfg
		for _, m := range []int{1023, 1, 0, 682} {
			g := pkgsnowflake.New(m)
			cfgs = append(cfgs, genCfg{fmt.Sprintf("pkg/snowflake.Generator(machine=%d)", m), g.Next, true})
		}
		// generator positioned ten years ahead of the clock (verif export): every call takes the
		// sequence-increment path, the sequence rolls over every 4096 calls whatever the speed of
		// this machine or of the race detector
		for _, m := range []int{1023, 1, 0} {
			g := pkgsnowflake.New(m)
			g.VerifSetState(pkgsnowflake.VerifNowMs()+10*365*86400*1000, 4000)
			cfgs = append(cfgs, genCfg{fmt.Sprintf("pkg/snowflake.Generator(machine=%d,clock=ahead)", m), g.Next, true})
		}
		ig := snowflake.NewIDGenerator(snowflake.WithMachineID(513))
		cfgs = append(cfgs, genCfg{"snowflake.IDGenerator(machine=513)", func() uint64 { return uint64(ig.ID()) }, true})
		dg := snowflake.NewDefaultIDGenerator()
		cfgs = append(cfgs, genCfg{"snowflake.NewDefaultIDGenerator", func() uint64 { return uint64(dg.ID()) }, true})
		ng := snowflake.NewIDGenerator()
		cfgs = append(cfgs, genCfg{"snowflake.NewIDGenerator", func() uint64 { return uint64(ng.ID()) }, true})
		ob := irand.NewOrgBucketID(int64(r.Seed))
		cfgs = append(cfgs, genCfg{"rand.OrgBucketID", func() uint64 { return uint64(ob.ID()) }, false})
		return cfgs
	}
	for ci, cfg := range mk() {
		per := M
		if !cfg.uniq {
			per = M / 10
		}
		outs := make([][]uint64, G)
		var wg sync.WaitGroup
		start := make(chan struct{})
		for g := 0; g < G; g++ {
			wg.Add(1)
			go func(g int) {
				defer wg.Done()
				buf := make([]uint64, per)
				<-start
				for k := range buf {
					buf[k] = cfg.next()
				}
				outs[g] = buf
			}(g)
		}
		close(start)
		wg.Wait()
		seen := make(map[uint64]int32, G*per)
		dups, zeros, seqMax := 0, 0, 0
		for g, buf := range outs {
			for k, v := range buf {
				if v == 0 {
					zeros++
					r.Violation("generated_zero_id", map[string]string{"generator": cfg.name}, c31Wit{API: cfg.name, Want: "non-zero", Got: fmt.Sprintf("0 (goroutine %d, call %d)", g, k)})
					continue
				}
				if v&0xfff == 0xfff {
					seqMax++
				}
				if prev, ok := seen[v]; ok {
					dups++
					if cfg.uniq && dups <= 3 {
						r.Violation("duplicate_generated_id", map[string]string{"generator": strings.SplitN(cfg.name, "(", 2)[0], "mode": "concurrent"},
							c31Wit{ID: fmt.Sprintf("%#x", v), API: cfg.name, Want: "pairwise distinct ids", Got: fmt.Sprintf("id handed out to goroutine %d and again to goroutine %d (call %d); G=%d M=%d", prev, g, k, G, per)})
					}
					continue
				}
				seen[v] = int32(g)
			}
		}
		r.Event("generated_ids", int64(G*per))
		if cfg.uniq {
			r.Event("snowflake_sequence_max_seen", int64(seqMax))
		} else {
			r.Event("orgbucket_random_duplicates", int64(dups))
		}
		// every generated id is a valid id that round-trips (a sample of them)
		step := len(seen)/2000 + 1
		n := 0
		for v := range seen {
			if n%step == 0 {
				c31CheckValid(r, v, "generated")
			}
			n++
		}
		r.Case(fmt.Sprintf("gen|%s|G=%d|M=%d|distinct=%d", cfg.name, G, per, len(seen)), true)
		if ci < 2 {
			var first []string
			for _, v := range outs[0][:3] {
				first = append(first, c31RefEncode(v))
			}
			r.Sample(map[string]any{"generator": cfg.name, "goroutines": G, "ids_per_goroutine": per, "distinct": len(seen), "duplicates": dups, "first_ids": first})
		}
	}

	// sequential single-caller burst: more than 4096 ids per millisecond forces the sequence roll-over path
	{
		g := pkgsnowflake.New(1023)
		n := r.N(200000, 4000000)
		seen := make(map[uint64]struct{}, n)
		var last uint64
		for k := 0; k < n; k++ {
			v := g.Next()
			if _, ok := seen[v]; ok || v == 0 {
				r.Violation("duplicate_generated_id", map[string]string{"generator": "pkg/snowflake.Generator", "mode": "sequential"},
					c31Wit{ID: fmt.Sprintf("%#x", v), API: "pkg/snowflake.Generator(machine=1023)", Want: "pairwise distinct non-zero ids", Got: fmt.Sprintf("repeated at call %d (previous id %#x)", k, last)})
				break
			}
			seen[v] = struct{}{}
			last = v
		}
		r.Event("generated_ids", int64(n))
		r.Case(fmt.Sprintf("gen|sequential|%d", n), true)
	}
}
