package g_kv

import (
	"context"
	"testing"

	"github.com/influxdata/influxdb/v2/authorization"
	"github.com/influxdata/influxdb/v2/dbrp"
	ihttp "github.com/influxdata/influxdb/v2/http"
	"github.com/influxdata/influxdb/v2/inmem"
	"github.com/influxdata/influxdb/v2/kv/migration/all"
	"github.com/influxdata/influxdb/v2/session"
	"github.com/influxdata/influxdb/v2/tenant"
	"go.uber.org/zap"
)

func TestSmoke(t *testing.T) {
	ctx := context.Background()
	st := inmem.NewKVStore()
	if err := all.Up(ctx, zap.NewNop(), st); err != nil {
		t.Fatal(err)
	}
	ts := tenant.NewService(tenant.NewStore(st))
	as, err := authorization.NewStore(ctx, st, true)
	if err != nil {
		t.Fatal(err)
	}
	asvc := authorization.NewService(as, ts)
	d := dbrp.NewService(ctx, ts, st)
	ss := session.NewService(session.NewStorage(inmem.NewSessionStore()), ts, ts, asvc)
	h := ihttp.NewAuthenticationHandler(zap.NewNop(), nil)
	_, _, _ = d, ss, h
	t.Log("buckets", len(st.Buckets(ctx)))
}
