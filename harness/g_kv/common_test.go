package g_kv

import (
	"bytes"
	"context"
	"crypto/sha256"
	"encoding/hex"
	"fmt"
	"os"
	"sort"
	"testing"

	"github.com/influxdata/influxdb/v2"
	"github.com/influxdata/influxdb/v2/inmem"
	"github.com/influxdata/influxdb/v2/kit/platform"
	"github.com/influxdata/influxdb/v2/kv"
	"github.com/influxdata/influxdb/v2/kv/migration/all"
	"github.com/influxdata/influxdb/v2/task/taskmodel"
	"go.uber.org/zap"
)

// ---- shared helpers of group g_kv (prefix gkv) ---------------------------------------------

// gkvNewStore returns an in-memory KV store with every kv migration applied (what influxd does
// at start-up before it builds the tenant / authorization / dbrp services).
func gkvNewStore(t testing.TB) *inmem.KVStore {
	st := inmem.NewKVStore()
	if err := all.Up(context.Background(), zap.NewNop(), st); err != nil {
		t.Fatalf("kv migrations: %v", err)
	}
	return st
}

// gkvDump is the full, ordered content of the KV store.
type gkvDump struct {
	buckets []string
	kvs     map[string][][2][]byte
}

func gkvDumpStore(t testing.TB, st *inmem.KVStore) *gkvDump {
	ctx := context.Background()
	d := &gkvDump{kvs: map[string][][2][]byte{}}
	for _, b := range st.Buckets(ctx) {
		d.buckets = append(d.buckets, string(b))
	}
	sort.Strings(d.buckets)
	err := st.View(ctx, func(tx kv.Tx) error {
		for _, name := range d.buckets {
			b, err := tx.Bucket([]byte(name))
			if err != nil {
				return err
			}
			cur, err := b.ForwardCursor(nil)
			if err != nil {
				return err
			}
			for k, v := cur.Next(); k != nil; k, v = cur.Next() {
				d.kvs[name] = append(d.kvs[name], [2][]byte{append([]byte(nil), k...), append([]byte(nil), v...)})
			}
			if err := cur.Close(); err != nil {
				return err
			}
		}
		return nil
	})
	if err != nil {
		t.Fatalf("dump store: %v", err)
	}
	return d
}

func (d *gkvDump) hash() string {
	h := sha256.New()
	for _, b := range d.buckets {
		fmt.Fprintf(h, "B%d:%s\n", len(b), b)
		for _, kvp := range d.kvs[b] {
			fmt.Fprintf(h, "k%d:%x v%d:%x\n", len(kvp[0]), kvp[0], len(kvp[1]), kvp[1])
		}
	}
	return hex.EncodeToString(h.Sum(nil)[:12])
}

// diff lists up to max differences between two dumps, for witnesses.
func (d *gkvDump) diff(o *gkvDump, max int) []string {
	var out []string
	names := map[string]bool{}
	for _, b := range d.buckets {
		names[b] = true
	}
	for _, b := range o.buckets {
		names[b] = true
	}
	var all []string
	for b := range names {
		all = append(all, b)
	}
	sort.Strings(all)
	for _, b := range all {
		am := map[string][]byte{}
		for _, p := range d.kvs[b] {
			am[string(p[0])] = p[1]
		}
		bm := map[string][]byte{}
		for _, p := range o.kvs[b] {
			bm[string(p[0])] = p[1]
		}
		for k, v := range am {
			if w, ok := bm[k]; !ok {
				out = append(out, fmt.Sprintf("%s: key %q removed (was %s)", b, k, gkvTrunc(v)))
			} else if !bytes.Equal(v, w) {
				out = append(out, fmt.Sprintf("%s: key %q changed %s -> %s", b, k, gkvTrunc(v), gkvTrunc(w)))
			}
		}
		for k, w := range bm {
			if _, ok := am[k]; !ok {
				out = append(out, fmt.Sprintf("%s: key %q added (%s)", b, k, gkvTrunc(w)))
			}
		}
	}
	sort.Strings(out)
	if len(out) > max {
		out = append(out[:max], fmt.Sprintf("… %d more", len(out)-max))
	}
	return out
}

func gkvTrunc(b []byte) string {
	s := fmt.Sprintf("%q", b)
	if len(s) > 160 {
		s = s[:160] + "…"
	}
	return s
}

// gkvNoTasks is the TaskService the tenant service needs for DeleteOrganization: no tasks exist.
type gkvNoTasks struct{ taskmodel.TaskService }

func (gkvNoTasks) FindTasks(context.Context, taskmodel.TaskFilter) ([]*taskmodel.Task, int, error) {
	return nil, 0, nil
}
func (gkvNoTasks) DeleteTask(context.Context, platform.ID) error { return nil }

// gkvQuiet runs f with os.Stdout pointing at /dev/null: Permission.matchesV1 prints a diagnostic
// without a trailing newline ("v1: old match used") which would glue itself to the harness'
// own report lines.
var gkvDevNull *os.File

func gkvQuiet(f func()) {
	if gkvDevNull == nil {
		gkvDevNull, _ = os.OpenFile(os.DevNull, os.O_WRONLY, 0)
	}
	old := os.Stdout
	if gkvDevNull != nil {
		os.Stdout = gkvDevNull
	}
	defer func() { os.Stdout = old }()
	f()
}

// gkvMute silences os.Stdout until the returned function is called; gkvLoud runs f with the real
// stdout in between (for the harness' own report lines).
var gkvRealStdout *os.File

func gkvMute() (restore func()) {
	if gkvDevNull == nil {
		gkvDevNull, _ = os.OpenFile(os.DevNull, os.O_WRONLY, 0)
	}
	if gkvRealStdout != nil || gkvDevNull == nil {
		return func() {}
	}
	gkvRealStdout = os.Stdout
	os.Stdout = gkvDevNull
	return func() { os.Stdout = gkvRealStdout; gkvRealStdout = nil }
}

func gkvLoud(f func()) {
	if gkvRealStdout == nil {
		f()
		return
	}
	cur := os.Stdout
	os.Stdout = gkvRealStdout
	defer func() { os.Stdout = cur }()
	f()
}

func gkvIDp(id platform.ID) *platform.ID { return &id }

func gkvPermStr(p influxdb.Permission) string {
	o, i := "-", "-"
	if p.Resource.OrgID != nil {
		o = fmt.Sprintf("%d", uint64(*p.Resource.OrgID))
	}
	if p.Resource.ID != nil {
		i = fmt.Sprintf("%d", uint64(*p.Resource.ID))
	}
	return fmt.Sprintf("%s:%s[org=%s,id=%s]", p.Action, p.Resource.Type, o, i)
}
