package g_kv

import (
	"bytes"
	"context"
	"crypto/sha256"
	"encoding/hex"
	"errors"
	"fmt"
	"os"
	"path/filepath"
	"sort"
	"strings"
	"sync"
	"testing"

	"github.com/influxdata/influxdb/v2"
	"github.com/influxdata/influxdb/v2/bolt"
	"github.com/influxdata/influxdb/v2/inmem"
	"github.com/influxdata/influxdb/v2/kit/platform"
	"github.com/influxdata/influxdb/v2/kv"
	"github.com/influxdata/influxdb/v2/kv/migration/all"
	"github.com/influxdata/influxdb/v2/task/taskmodel"
	"go.uber.org/zap"
)

// ---- shared helpers of group g_kv (prefix gkv) ---------------------------------------------

// gkvNewStore returns an in-memory KV store with every kv migration applied (what influxd does
// at start-up before it builds the tenant / authorization / dbrp services).
func gkvNewStore(t testing.TB) *inmem.KVStore {
	st := inmem.NewKVStore()
	if err := all.Up(context.Background(), zap.NewNop(), st); err != nil {
		t.Fatalf("kv migrations: %v", err)
	}
	return st
}

// gkvDump is the full, ordered content of the KV store.
type gkvDump struct {
	buckets []string
	kvs     map[string][][2][]byte
}

func gkvDumpStore(t testing.TB, st *inmem.KVStore) *gkvDump {
	ctx := context.Background()
	d := &gkvDump{kvs: map[string][][2][]byte{}}
	for _, b := range st.Buckets(ctx) {
		d.buckets = append(d.buckets, string(b))
	}
	sort.Strings(d.buckets)
	err := st.View(ctx, func(tx kv.Tx) error {
		for _, name := range d.buckets {
			b, err := tx.Bucket([]byte(name))
			if err != nil {
				return err
			}
			cur, err := b.ForwardCursor(nil)
			if err != nil {
				return err
			}
			for k, v := cur.Next(); k != nil; k, v = cur.Next() {
				d.kvs[name] = append(d.kvs[name], [2][]byte{append([]byte(nil), k...), append([]byte(nil), v...)})
			}
			if err := cur.Close(); err != nil {
				return err
			}
		}
		return nil
	})
	if err != nil {
		t.Fatalf("dump store: %v", err)
	}
	return d
}

func (d *gkvDump) hash() string {
	h := sha256.New()
	for _, b := range d.buckets {
		fmt.Fprintf(h, "B%d:%s\n", len(b), b)
		for _, kvp := range d.kvs[b] {
			fmt.Fprintf(h, "k%d:%x v%d:%x\n", len(kvp[0]), kvp[0], len(kvp[1]), kvp[1])
		}
	}
	return hex.EncodeToString(h.Sum(nil)[:12])
}

// diff lists up to max differences between two dumps, for witnesses.
func (d *gkvDump) diff(o *gkvDump, max int) []string {
	var out []string
	names := map[string]bool{}
	for _, b := range d.buckets {
		names[b] = true
	}
	for _, b := range o.buckets {
		names[b] = true
	}
	var all []string
	for b := range names {
		all = append(all, b)
	}
	sort.Strings(all)
	for _, b := range all {
		am := map[string][]byte{}
		for _, p := range d.kvs[b] {
			am[string(p[0])] = p[1]
		}
		bm := map[string][]byte{}
		for _, p := range o.kvs[b] {
			bm[string(p[0])] = p[1]
		}
		for k, v := range am {
			if w, ok := bm[k]; !ok {
				out = append(out, fmt.Sprintf("%s: key %q removed (was %s)", b, k, gkvTrunc(v)))
			} else if !bytes.Equal(v, w) {
				out = append(out, fmt.Sprintf("%s: key %q changed %s -> %s", b, k, gkvTrunc(v), gkvTrunc(w)))
			}
		}
		for k, w := range bm {
			if _, ok := am[k]; !ok {
				out = append(out, fmt.Sprintf("%s: key %q added (%s)", b, k, gkvTrunc(w)))
			}
		}
	}
	sort.Strings(out)
	if len(out) > max {
		out = append(out[:max], fmt.Sprintf("… %d more", len(out)-max))
	}
	return out
}

func gkvTrunc(b []byte) string {
	s := fmt.Sprintf("%q", b)
	if len(s) > 160 {
		s = s[:160] + "…"
	}
	return s
}

// gkvNoTasks is the TaskService the tenant service needs for DeleteOrganization: no tasks exist.
type gkvNoTasks struct{ taskmodel.TaskService }

func (gkvNoTasks) FindTasks(context.Context, taskmodel.TaskFilter) ([]*taskmodel.Task, int, error) {
	return nil, 0, nil
}
func (gkvNoTasks) DeleteTask(context.Context, platform.ID) error { return nil }

// gkvQuiet runs f with os.Stdout pointing at /dev/null: Permission.matchesV1 prints a diagnostic
// without a trailing newline ("v1: old match used") which would glue itself to the harness'
// own report lines.
var gkvDevNull *os.File

func gkvQuiet(f func()) {
	if gkvDevNull == nil {
		gkvDevNull, _ = os.OpenFile(os.DevNull, os.O_WRONLY, 0)
	}
	old := os.Stdout
	if gkvDevNull != nil {
		os.Stdout = gkvDevNull
	}
	defer func() { os.Stdout = old }()
	f()
}

// gkvMute silences os.Stdout until the returned function is called; gkvLoud runs f with the real
// stdout in between (for the harness' own report lines).
var gkvRealStdout *os.File

func gkvMute() (restore func()) {
	if gkvDevNull == nil {
		gkvDevNull, _ = os.OpenFile(os.DevNull, os.O_WRONLY, 0)
	}
	if gkvRealStdout != nil || gkvDevNull == nil {
		return func() {}
	}
	gkvRealStdout = os.Stdout
	os.Stdout = gkvDevNull
	return func() { os.Stdout = gkvRealStdout; gkvRealStdout = nil }
}

func gkvLoud(f func()) {
	if gkvRealStdout == nil {
		f()
		return
	}
	cur := os.Stdout
	os.Stdout = gkvRealStdout
	defer func() { os.Stdout = cur }()
	f()
}

func gkvIDp(id platform.ID) *platform.ID { return &id }

func gkvPermStr(p influxdb.Permission) string {
	o, i := "-", "-"
	if p.Resource.OrgID != nil {
		o = fmt.Sprintf("%d", uint64(*p.Resource.OrgID))
	}
	if p.Resource.ID != nil {
		i = fmt.Sprintf("%d", uint64(*p.Resource.ID))
	}
	return fmt.Sprintf("%s:%s[org=%s,id=%s]", p.Action, p.Resource.Type, o, i)
}

// ---- real bolt store (the product's KV store: transactional, a failed Update rolls back) ------

var (
	gkvBoltTemplateOnce sync.Once
	gkvBoltTemplate     []byte
	gkvBoltTemplateErr  error
)

// gkvNewBoltStore opens a fresh bolt-backed KV store with every kv migration applied, in a file
// below TMPDIR. The migrated (empty) database is built once per process and copied for every new
// store. done() closes the store and removes its directory.
func gkvNewBoltStore(t testing.TB) (st *bolt.KVStore, done func()) {
	ctx := context.Background()
	gkvBoltTemplateOnce.Do(func() {
		dir, err := os.MkdirTemp("", "gkv-bolt-template-")
		if err != nil {
			gkvBoltTemplateErr = err
			return
		}
		defer os.RemoveAll(dir)
		p := filepath.Join(dir, "influxd.bolt")
		s := bolt.NewKVStore(zap.NewNop(), p, bolt.WithNoSync)
		if err := s.Open(ctx); err != nil {
			gkvBoltTemplateErr = err
			return
		}
		if err := all.Up(ctx, zap.NewNop(), s); err != nil {
			s.Close()
			gkvBoltTemplateErr = err
			return
		}
		if err := s.Close(); err != nil {
			gkvBoltTemplateErr = err
			return
		}
		gkvBoltTemplate, gkvBoltTemplateErr = os.ReadFile(p)
	})
	if gkvBoltTemplateErr != nil {
		t.Fatalf("bolt template store: %v", gkvBoltTemplateErr)
	}
	dir, err := os.MkdirTemp("", "gkv-bolt-")
	if err != nil {
		t.Fatalf("bolt store dir: %v", err)
	}
	p := filepath.Join(dir, "influxd.bolt")
	if err := os.WriteFile(p, gkvBoltTemplate, 0o600); err != nil {
		os.RemoveAll(dir)
		t.Fatalf("bolt store file: %v", err)
	}
	st = bolt.NewKVStore(zap.NewNop(), p, bolt.WithNoSync)
	if err := st.Open(ctx); err != nil {
		os.RemoveAll(dir)
		t.Fatalf("bolt store open: %v", err)
	}
	return st, func() { st.Close(); os.RemoveAll(dir) }
}

// ---- fault-injecting store --------------------------------------------------------------------

// gkvErrInjected is what an injected fault returns (an I/O error of the KV store, as seen by the
// service). Services wrap it; recognise it with gkvIsInjected.
var gkvErrInjected = errors.New("gkv-injected-kv-store-fault: input/output error")

func gkvIsInjected(err error) bool {
	return err != nil && (errors.Is(err, gkvErrInjected) || strings.Contains(err.Error(), "gkv-injected-kv-store-fault"))
}

// gkvFault says where the next fault goes. Counting starts when the store is armed.
//
//	Mutation n > 0: the n-th Bucket.Put / Bucket.Delete issued inside Update transactions (only those
//	                on KV bucket Only, if Only != "") returns gkvErrInjected instead of being applied.
//	CommitTx k > 0: the k-th Update transaction fails at commit: its function ran to the end and
//	                returned nil, Update returns gkvErrInjected (the underlying store is given the
//	                error, so a transactional store rolls the transaction back).
//
// A fault fires once; after that (and when not armed) the store is transparent.
type gkvFault struct {
	Mutation int
	CommitTx int
	Only     string
}

// gkvFired reports what an armed fault did.
type gkvFired struct {
	Fired  bool
	Tx     int    // number of the Update transaction (since arming) the fault hit
	Mut    int    // number of the mutation inside that transaction (0 for a commit fault)
	Bucket string // KV bucket of the failed mutation (commit fault: of the last mutation of that transaction)
	Op     string // "put" | "delete" | "commit"
	Txs    int    // Update transactions started since arming
	Muts   int    // mutations seen since arming (all buckets)
	Trace  []string
}

// At is the position in the form tx<k>/mut<n> or tx<k>/commit.
func (f gkvFired) At() string {
	if !f.Fired {
		return "not_reached"
	}
	if f.Op == "commit" {
		return fmt.Sprintf("tx%d/commit", f.Tx)
	}
	return fmt.Sprintf("tx%d/mut%d", f.Tx, f.Mut)
}

// gkvFaultStore wraps a kv.SchemaStore (inmem.KVStore and bolt.KVStore both are one; the tenant,
// dbrp and authorization services take a kv.Store, the migrations a kv.SchemaStore) and passes
// everything through. View transactions are never touched.
type gkvFaultStore struct {
	kv.SchemaStore

	mu    sync.Mutex
	armed bool
	plan  gkvFault
	match int // matching mutations seen since arming
	info  gkvFired
}

func gkvNewFaultStore(inner kv.SchemaStore) *gkvFaultStore { return &gkvFaultStore{SchemaStore: inner} }

func (s *gkvFaultStore) Arm(f gkvFault) {
	s.mu.Lock()
	s.armed, s.plan, s.match, s.info = true, f, 0, gkvFired{}
	s.mu.Unlock()
}

// Disarm makes the store transparent again and reports what happened since Arm.
func (s *gkvFaultStore) Disarm() gkvFired {
	s.mu.Lock()
	defer s.mu.Unlock()
	s.armed = false
	out := s.info
	s.info = gkvFired{}
	return out
}

func (s *gkvFaultStore) Update(ctx context.Context, fn func(kv.Tx) error) error {
	s.mu.Lock()
	txNo := 0
	if s.armed {
		s.info.Txs++
		txNo = s.info.Txs
	}
	s.mu.Unlock()
	return s.SchemaStore.Update(ctx, func(tx kv.Tx) error {
		wtx := &gkvFaultTx{Tx: tx, s: s, txNo: txNo}
		if err := fn(wtx); err != nil {
			return err
		}
		if txNo > 0 && s.commitFault(txNo, wtx.last) {
			return gkvErrInjected
		}
		return nil
	})
}

func (s *gkvFaultStore) commitFault(txNo int, lastBucket string) bool {
	s.mu.Lock()
	defer s.mu.Unlock()
	if !s.armed || s.info.Fired || s.plan.CommitTx != txNo {
		return false
	}
	s.info.Fired, s.info.Tx, s.info.Op, s.info.Bucket = true, txNo, "commit", lastBucket
	s.info.Trace = append(s.info.Trace, fmt.Sprintf("tx%d commit FAULT", txNo))
	return true
}

// mutation is called for every Put/Delete of an Update transaction; true = inject the fault.
func (s *gkvFaultStore) mutation(txNo, mutNo int, bucket, op string) bool {
	s.mu.Lock()
	defer s.mu.Unlock()
	if !s.armed || txNo == 0 {
		return false
	}
	s.info.Muts++
	hit := false
	if !s.info.Fired && s.plan.Mutation > 0 && (s.plan.Only == "" || s.plan.Only == bucket) {
		s.match++
		hit = s.match == s.plan.Mutation
	}
	if len(s.info.Trace) < 64 {
		e := fmt.Sprintf("tx%d/mut%d %s %s", txNo, mutNo, op, bucket)
		if hit {
			e += " FAULT"
		}
		s.info.Trace = append(s.info.Trace, e)
	}
	if hit {
		s.info.Fired, s.info.Tx, s.info.Mut, s.info.Bucket, s.info.Op = true, txNo, mutNo, bucket, op
	}
	return hit
}

type gkvFaultTx struct {
	kv.Tx
	s    *gkvFaultStore
	txNo int
	muts int
	last string // KV bucket of the last mutation
}

func (tx *gkvFaultTx) Bucket(name []byte) (kv.Bucket, error) {
	b, err := tx.Tx.Bucket(name)
	if err != nil {
		return nil, err
	}
	return &gkvFaultBucket{Bucket: b, tx: tx, name: string(name)}, nil
}

type gkvFaultBucket struct {
	kv.Bucket
	tx   *gkvFaultTx
	name string
}

func (b *gkvFaultBucket) Put(k, v []byte) error {
	b.tx.muts++
	b.tx.last = b.name
	if b.tx.s.mutation(b.tx.txNo, b.tx.muts, b.name, "put") {
		return gkvErrInjected
	}
	return b.Bucket.Put(k, v)
}

func (b *gkvFaultBucket) Delete(k []byte) error {
	b.tx.muts++
	b.tx.last = b.name
	if b.tx.s.mutation(b.tx.txNo, b.tx.muts, b.name, "delete") {
		return gkvErrInjected
	}
	return b.Bucket.Delete(k)
}
