package g_kv

import (
	"context"
	"fmt"
	"testing"

	"github.com/influxdata/influxdb/v2"
	"github.com/influxdata/influxdb/v2/authorizer"
	icontext "github.com/influxdata/influxdb/v2/context"
	"github.com/influxdata/influxdb/v2/kit/platform"

	"verifharness/vkit"
)

// ---- reference predicate (written from the property text, not from authz.go) ----------------
//
// "A permission grants a request only if the actions are equal and the permission is
//  instance-wide, or has the same resource type and is either type-wide, scoped to the request's
//  organization, or names the requested resource ID."
//
// A permission is exactly one of: instance-wide (type "instance"), type-wide (no org, no id),
// organization-scoped (org, no id), resource-scoped (id, with or without org).
//
// either: the one corner on which the text does not decide — a resource-scoped permission that
// also carries an organization, asked about the *same resource id under a different
// organization*. "names the requested resource ID" says grant, "an organization-scoped
// permission never grants access to another organization's resources" says deny; resource ids
// are unique across organizations in a real instance, so the case cannot arise from stored data.
// The oracle accepts both answers there and counts how often the subject granted.

type c28Verdict struct {
	grant  bool
	either bool
	why    string
	scope  string
}

func c28Scope(p influxdb.Permission) string {
	switch {
	case p.Resource.Type == influxdb.InstanceResourceType:
		return "instance"
	case p.Resource.OrgID == nil && p.Resource.ID == nil:
		return "type"
	case p.Resource.ID == nil:
		return "org"
	case p.Resource.OrgID == nil:
		return "id"
	default:
		return "org+id"
	}
}

func c28Ref(p, q influxdb.Permission) c28Verdict {
	v := c28Verdict{scope: c28Scope(p)}
	if p.Action != q.Action {
		v.why = "action_differs"
		return v
	}
	if v.scope == "instance" {
		v.grant, v.why = true, "instance_wide"
		return v
	}
	if p.Resource.Type != q.Resource.Type {
		v.why = "type_differs"
		return v
	}
	switch v.scope {
	case "type":
		v.grant, v.why = true, "type_wide"
	case "org":
		if q.Resource.OrgID != nil && *q.Resource.OrgID == *p.Resource.OrgID {
			v.grant, v.why = true, "same_org"
		} else if q.Resource.OrgID == nil {
			v.why = "request_has_no_org"
		} else {
			v.why = "org_differs"
		}
	case "id", "org+id":
		if q.Resource.ID != nil && *q.Resource.ID == *p.Resource.ID {
			v.grant, v.why = true, "same_id"
			if p.Resource.OrgID != nil && q.Resource.OrgID != nil && *p.Resource.OrgID != *q.Resource.OrgID {
				v.either, v.why = true, "same_id_other_org"
			}
		} else if q.Resource.ID == nil {
			v.why = "request_has_no_id"
		} else {
			v.why = "id_differs"
		}
	}
	return v
}

// c28RefSet: must = some permission certainly grants; may = some permission grants or is "either".
func c28RefSet(ps []influxdb.Permission, q influxdb.Permission) (must, may bool) {
	for _, p := range ps {
		v := c28Ref(p, q)
		if v.grant {
			may = true
			if !v.either {
				must = true
			}
		}
	}
	return
}

// ---- domain ---------------------------------------------------------------------------------

var c28Actions = []influxdb.Action{influxdb.ReadAction, influxdb.WriteAction, influxdb.Action("delete")}

// ids and orgs share the values 1 and 2 on purpose (an org id used as a resource id and vice versa)
var c28IDs = []*platform.ID{nil, gkvIDp(1), gkvIDp(2)}

func c28Domain() []influxdb.Permission {
	var out []influxdb.Permission
	for _, a := range c28Actions {
		for _, rt := range influxdb.AllResourceTypes {
			for _, o := range c28IDs {
				for _, i := range c28IDs {
					out = append(out, influxdb.Permission{Action: a, Resource: influxdb.Resource{Type: rt, OrgID: o, ID: i}})
				}
			}
		}
	}
	return out
}

type c28Wit struct {
	API        string   `json:"api"`
	Permission string   `json:"permission,omitempty"`
	Set        []string `json:"permission_set,omitempty"`
	Request    string   `json:"request"`
	Requests   []string `json:"requests,omitempty"`
	Expected   string   `json:"expected"`
	Got        string   `json:"got"`
	Why        string   `json:"why"`
}

func c28Strs(ps []influxdb.Permission) []string {
	out := make([]string, len(ps))
	for i, p := range ps {
		out[i] = gkvPermStr(p)
	}
	return out
}

func c28Dir(got bool) string {
	if got {
		return "granted_without_basis"
	}
	return "denied_despite_match"
}

func TestC28(t *testing.T) {
	r := vkit.Start(t, "C28", "exploration")
	defer r.Finish()
	r.Rule("part 1 (exhaustive): every ordered pair (permission, request) over {read, write, one unknown action} × all 23 resource types × org∈{nil,1,2} × id∈{nil,1,2} (ids and orgs share values); Permission.Matches compared with the reference predicate in both directions; non-trivial = equal actions (the answer depends on type and scope); distinct = the pair. part 2: random permission sets × every request through PermissionSet.Allowed / PermissionAllowed / authorizer.IsAllowed*, Authorize* helpers (∃-semantics, inactive token, missing authorizer)")
	r.Exhaustive(true)
	r.Assume("resource-scoped permission carrying org A asked about the same id under org B: either answer accepted (statement self-contradictory there; ids are globally unique in stored data)")
	dom := c28Domain()
	r.Extra("domain_permissions", len(dom))

	// ---- part 1: all pairs --------------------------------------------------------------
	for pi, p := range dom {
		for qi, q := range dom {
			want := c28Ref(p, q)
			var got bool
			gkvQuiet(func() { got = p.Matches(q) })
			r.Case(fmt.Sprintf("m|%d|%d", pi, qi), p.Action == q.Action)
			if want.either {
				r.Event("either_same_id_other_org", 1)
				if got {
					r.Event("either_granted_by_subject", 1)
				}
				continue
			}
			if got {
				r.Event("granted", 1)
			} else {
				r.Event("denied_"+want.why, 1)
			}
			if got != want.grant {
				r.Violation("grant_mismatch", map[string]string{"api": "Permission.Matches", "direction": c28Dir(got), "perm_scope": want.scope, "why": want.why},
					c28Wit{API: "Permission.Matches", Permission: gkvPermStr(p), Request: gkvPermStr(q), Expected: fmt.Sprint(want.grant), Got: fmt.Sprint(got), Why: want.why})
			}
			if (pi*len(dom)+qi)%120011 == 17 {
				r.Sample(map[string]any{"permission": gkvPermStr(p), "request": gkvPermStr(q), "reference": want.grant, "why": want.why, "subject": got})
			}
		}
	}

	// ---- part 2: sets ---------------------------------------------------------------------
	nSets := r.N(400, 20000)
	ctxBare := context.Background()
	for s := 0; s < nSets; s++ {
		rg := r.Rand(s)
		// a set built around one resource type so that members interact with the requests
		rt := vkit.Pick(rg, influxdb.AllResourceTypes)
		size := rg.Intn(5)
		set := make([]influxdb.Permission, 0, size)
		for k := 0; k < size; k++ {
			p := vkit.Pick(rg, dom)
			if rg.Chance(3, 4) {
				p.Resource.Type = rt
			}
			if rg.Chance(1, 12) {
				p.Resource.Type = influxdb.InstanceResourceType
			}
			set = append(set, p)
		}
		pset := influxdb.PermissionSet(set)
		grants, denies := 0, 0
		for _, q := range dom {
			must, may := c28RefSet(set, q)
			var got, got2 bool
			gkvQuiet(func() { got = pset.Allowed(q); got2 = influxdb.PermissionAllowed(q, set) })
			r.Event("set_requests", 1)
			if got {
				grants++
			} else {
				denies++
			}
			for _, g := range []struct {
				api string
				v   bool
			}{{"PermissionSet.Allowed", got}, {"PermissionAllowed", got2}} {
				if (g.v && !may) || (!g.v && must) {
					r.Violation("grant_mismatch", map[string]string{"api": g.api, "direction": c28Dir(g.v), "set_size": fmt.Sprint(len(set))},
						c28Wit{API: g.api, Set: c28Strs(set), Request: gkvPermStr(q), Expected: fmt.Sprintf("must=%v may=%v", must, may), Got: fmt.Sprint(g.v), Why: "∃-semantics over the set"})
				}
			}
		}
		r.Case(fmt.Sprint("set|", c28Strs(set)), grants > 0 && denies > 0)

		// through the authorizer package: context → Authorizer → PermissionSet → Allowed
		active := !rg.Chance(1, 6)
		status := influxdb.Active
		if !active {
			status = influxdb.Inactive
		}
		auth := &influxdb.Authorization{ID: 77, Status: status, UserID: 5, OrgID: 1, Permissions: set}
		ctx := icontext.SetAuthorizer(ctxBare, auth)
		expect := func(api string, err error, must, may bool, reqs ...influxdb.Permission) {
			r.Event("authorizer_calls", 1)
			got := err == nil
			if !active {
				must, may = false, false
			}
			if (got && !may) || (!got && must) {
				feat := map[string]string{"api": api, "direction": c28Dir(got)}
				if !active {
					feat["token"] = "inactive"
				}
				r.Violation("grant_mismatch", feat, c28Wit{API: api, Set: c28Strs(set), Request: gkvPermStr(reqs[0]), Requests: c28Strs(reqs),
					Expected: fmt.Sprintf("must=%v may=%v active=%v", must, may, active), Got: fmt.Sprintf("err=%v", err), Why: "authorizer helper"})
			}
		}
		for k := 0; k < 12; k++ {
			q := vkit.Pick(rg, dom)
			if rg.Chance(2, 3) {
				q.Resource.Type = rt
			}
			must, may := c28RefSet(set, q)
			var err error
			gkvQuiet(func() { err = authorizer.IsAllowed(ctx, q) })
			expect("authorizer.IsAllowed", err, must, may, q)

			q2 := vkit.Pick(rg, dom)
			q2.Resource.Type = rt
			must2, may2 := c28RefSet(set, q2)
			gkvQuiet(func() { err = authorizer.IsAllowedAll(ctx, []influxdb.Permission{q, q2}) })
			expect("authorizer.IsAllowedAll", err, must && must2, may && may2, q, q2)
			gkvQuiet(func() { err = authorizer.IsAllowedAny(ctx, []influxdb.Permission{q, q2}) })
			expect("authorizer.IsAllowedAny", err, must || must2, may || may2, q, q2)
		}
		// Authorize* helpers build the request from (type, id, org); ids must be valid there
		ids := []platform.ID{1, 2}
		for k := 0; k < 6; k++ {
			id, org := vkit.Pick(rg, ids), vkit.Pick(rg, ids)
			typ := rt
			if typ == influxdb.InstanceResourceType || rg.Chance(1, 5) {
				typ = influxdb.BucketsResourceType
			}
			mk := func(a influxdb.Action, t influxdb.ResourceType, i, o *platform.ID) influxdb.Permission {
				return influxdb.Permission{Action: a, Resource: influxdb.Resource{Type: t, ID: i, OrgID: o}}
			}
			type call struct {
				api string
				q   influxdb.Permission
				f   func() error
			}
			calls := []call{
				{"authorizer.AuthorizeRead", mk(influxdb.ReadAction, typ, &id, &org), func() error { _, _, e := authorizer.AuthorizeRead(ctx, typ, id, org); return e }},
				{"authorizer.AuthorizeWrite", mk(influxdb.WriteAction, typ, &id, &org), func() error { _, _, e := authorizer.AuthorizeWrite(ctx, typ, id, org); return e }},
				{"authorizer.AuthorizeReadResource", mk(influxdb.ReadAction, typ, &id, nil), func() error { _, _, e := authorizer.AuthorizeReadResource(ctx, typ, id); return e }},
				{"authorizer.AuthorizeWriteResource", mk(influxdb.WriteAction, typ, &id, nil), func() error { _, _, e := authorizer.AuthorizeWriteResource(ctx, typ, id); return e }},
				{"authorizer.AuthorizeOrgReadResource", mk(influxdb.ReadAction, typ, nil, &org), func() error { _, _, e := authorizer.AuthorizeOrgReadResource(ctx, typ, org); return e }},
				{"authorizer.AuthorizeOrgWriteResource", mk(influxdb.WriteAction, typ, nil, &org), func() error { _, _, e := authorizer.AuthorizeOrgWriteResource(ctx, typ, org); return e }},
				{"authorizer.AuthorizeCreate", mk(influxdb.WriteAction, typ, nil, &org), func() error { _, _, e := authorizer.AuthorizeCreate(ctx, typ, org); return e }},
				{"authorizer.AuthorizeReadOrg", mk(influxdb.ReadAction, influxdb.OrgsResourceType, &org, nil), func() error { _, _, e := authorizer.AuthorizeReadOrg(ctx, org); return e }},
				{"authorizer.AuthorizeWriteOrg", mk(influxdb.WriteAction, influxdb.OrgsResourceType, &org, nil), func() error { _, _, e := authorizer.AuthorizeWriteOrg(ctx, org); return e }},
				{"authorizer.AuthorizeReadGlobal", mk(influxdb.ReadAction, typ, nil, nil), func() error { _, _, e := authorizer.AuthorizeReadGlobal(ctx, typ); return e }},
				{"authorizer.AuthorizeWriteGlobal", mk(influxdb.WriteAction, typ, nil, nil), func() error { _, _, e := authorizer.AuthorizeWriteGlobal(ctx, typ); return e }},
				{"authorizer.AuthorizeReadBucket(user)", mk(influxdb.ReadAction, influxdb.BucketsResourceType, &id, &org), func() error {
					_, _, e := authorizer.AuthorizeReadBucket(ctx, influxdb.BucketTypeUser, id, org)
					return e
				}},
				// documented special case: a system bucket is readable by whoever may read its organization
				{"authorizer.AuthorizeReadBucket(system)", mk(influxdb.ReadAction, influxdb.OrgsResourceType, &org, nil), func() error {
					_, _, e := authorizer.AuthorizeReadBucket(ctx, influxdb.BucketTypeSystem, id, org)
					return e
				}},
			}
			for _, c := range calls {
				must, may := c28RefSet(set, c.q)
				var err error
				gkvQuiet(func() { err = c.f() })
				expect(c.api, err, must, may, c.q)
			}
		}
		// no authorizer on the context: nothing is allowed
		if s%16 == 0 {
			q := vkit.Pick(rg, dom)
			if err := authorizer.IsAllowed(ctxBare, q); err == nil {
				r.Violation("grant_mismatch", map[string]string{"api": "authorizer.IsAllowed", "direction": "granted_without_basis", "token": "absent"},
					c28Wit{API: "authorizer.IsAllowed", Request: gkvPermStr(q), Expected: "error (no authorizer on context)", Got: "nil"})
			}
			r.Event("no_authorizer_calls", 1)
		}
		if r.WantSample() && s%97 == 3 {
			r.Sample(map[string]any{"permission_set": c28Strs(set), "token_active": active, "requests_granted": grants, "requests_denied": denies})
		}
	}
}
