package g_kv

import (
	"context"
	"fmt"
	"sort"
	"strings"
	"testing"

	"github.com/influxdata/influxdb/v2"
	"github.com/influxdata/influxdb/v2/dbrp"
	"github.com/influxdata/influxdb/v2/kit/platform"
	"github.com/influxdata/influxdb/v2/kv"
	"github.com/influxdata/influxdb/v2/tenant"

	"verifharness/vkit"
)

// ---- world: real tenant + dbrp services on one in-memory KV store ---------------------------

var (
	c43DBs = []string{"d0", "d1"}
	c43RPs = []string{"autogen", "r1", "r2"}
	// buckets of every organization. "d0" is the virtual mapping d0/autogen (default), "d0/r1" the
	// virtual d0/r1, "d1/r2" the virtual d1/r2 (a database that only has a non-default virtual
	// mapping); t0..t2 are the targets of physical mappings (t<i> for retention policy i).
	c43BucketNames = []string{"d0", "d0/r1", "d1/r2", "t0", "t1", "t2"}
	// the four kv buckets of dbrp/service.go (persisted schema names)
	c43KVBuckets = []string{"dbrpv1", "dbrpbyorganddbindexv1", "dbrpbyorgv1", "dbrpdefaultv1"}
	// id order of the six (db,rp) slots inside an organization: for d0 r1 < autogen < r2, for d1
	// r2 < autogen < r1 — the index walks in id order, so "first other mapping" differs per slot
	c43SlotOrder = [2][3]int{{1, 0, 2}, {4, 5, 3}}
)

type c43World struct {
	t   testing.TB
	st  kv.Store // inmem, or the fault store over bolt (faulted histories)
	fs  *gkvFaultStore
	svc influxdb.DBRPMappingService
	// error of the last Create / Update / Delete issued by c43Apply
	lastErr error
	orgs [2]platform.ID
	bkt  [2]map[string]platform.ID
	bktN [2]map[platform.ID]string
}

func c43NewWorld(t testing.TB) *c43World { return c43NewWorldOn(t, gkvNewStore(t), c43BucketNames) }

// c43NewWorldOn builds the fixture (2 organizations with the given buckets) and the services on st.
func c43NewWorldOn(t testing.TB, st kv.Store, bucketNames []string) *c43World {
	ctx := context.Background()
	w := &c43World{t: t, st: st}
	ts := tenant.NewService(tenant.NewStore(w.st))
	for o := 0; o < 2; o++ {
		org := &influxdb.Organization{Name: fmt.Sprintf("org%d", o)}
		if err := ts.CreateOrganization(ctx, org); err != nil {
			t.Fatalf("fixture org: %v", err)
		}
		w.orgs[o] = org.ID
		w.bkt[o] = map[string]platform.ID{}
		w.bktN[o] = map[platform.ID]string{}
		for _, n := range bucketNames {
			b := &influxdb.Bucket{OrgID: org.ID, Name: n}
			if err := ts.CreateBucket(ctx, b); err != nil {
				t.Fatalf("fixture bucket: %v", err)
			}
			w.bkt[o][n] = b.ID
			w.bktN[o][b.ID] = n
		}
	}
	w.svc = dbrp.NewService(ctx, ts.BucketService, w.st)
	return w
}

type c43KVState [][3]string // bucket, key, value

func (w *c43World) dump() c43KVState {
	var out c43KVState
	err := w.st.View(context.Background(), func(tx kv.Tx) error {
		for _, name := range c43KVBuckets {
			b, err := tx.Bucket([]byte(name))
			if err != nil {
				return err
			}
			cur, err := b.ForwardCursor(nil)
			if err != nil {
				return err
			}
			for k, v := cur.Next(); k != nil; k, v = cur.Next() {
				out = append(out, [3]string{name, string(k), string(v)})
			}
			cur.Close()
		}
		return nil
	})
	if err != nil {
		w.t.Fatalf("dump dbrp buckets: %v", err)
	}
	return out
}

func (s c43KVState) key() string {
	var sb strings.Builder
	for _, e := range s {
		fmt.Fprintf(&sb, "%s|%d:%s|%d:%s\n", e[0], len(e[1]), e[1], len(e[2]), e[2])
	}
	return sb.String()
}

func (w *c43World) load(s c43KVState) {
	cur := w.dump()
	err := w.st.Update(context.Background(), func(tx kv.Tx) error {
		for _, e := range cur {
			b, err := tx.Bucket([]byte(e[0]))
			if err != nil {
				return err
			}
			if err := b.Delete([]byte(e[1])); err != nil {
				return err
			}
		}
		for _, e := range s {
			b, err := tx.Bucket([]byte(e[0]))
			if err != nil {
				return err
			}
			if err := b.Put([]byte(e[1]), []byte(e[2])); err != nil {
				return err
			}
		}
		return nil
	})
	if err != nil {
		w.t.Fatalf("load dbrp buckets: %v", err)
	}
}

// ---- model ----------------------------------------------------------------------------------

type c43Map struct {
	ID     platform.ID
	Org    int
	DB, RP int
	Bucket platform.ID
}

type c43Model struct {
	maps    []c43Map                 // physical mappings, sorted by id
	def     map[[2]int]platform.ID   // (org, db) → default mapping (after the last sweep)
	pending map[[2]int][]platform.ID // (org, db) → mappings the code may have picked as the new default; empty slice = "no default"
	tainted [2]bool                  // an operation addressed a virtual mapping id in this organization
}

func c43NewModel() *c43Model {
	return &c43Model{def: map[[2]int]platform.ID{}, pending: map[[2]int][]platform.ID{}}
}

func (m *c43Model) clone() *c43Model {
	n := c43NewModel()
	n.maps = append([]c43Map(nil), m.maps...)
	for k, v := range m.def {
		n.def[k] = v
	}
	for k, v := range m.pending {
		n.pending[k] = append([]platform.ID(nil), v...)
	}
	n.tainted = m.tainted
	return n
}

func (m *c43Model) find(org, db, rp int) *c43Map {
	for i := range m.maps {
		if m.maps[i].Org == org && m.maps[i].DB == db && m.maps[i].RP == rp {
			return &m.maps[i]
		}
	}
	return nil
}

func (m *c43Model) byID(id platform.ID) *c43Map {
	for i := range m.maps {
		if m.maps[i].ID == id {
			return &m.maps[i]
		}
	}
	return nil
}

func (m *c43Model) ofDB(org, db int, except platform.ID) []platform.ID {
	var out []platform.ID
	for _, x := range m.maps {
		if x.Org == org && x.DB == db && x.ID != except {
			out = append(out, x.ID)
		}
	}
	return out
}

func (m *c43Model) remove(id platform.ID) {
	for i := range m.maps {
		if m.maps[i].ID == id {
			m.maps = append(m.maps[:i:i], m.maps[i+1:]...)
			return
		}
	}
}

func (m *c43Model) add(x c43Map) {
	m.maps = append(m.maps, x)
	sort.Slice(m.maps, func(i, j int) bool { return m.maps[i].ID < m.maps[j].ID })
}

func (m *c43Model) physKey() string {
	var sb strings.Builder
	for _, x := range m.maps {
		fmt.Fprintf(&sb, "%d:%d/%d/%d>%d;", uint64(x.ID), x.Org, x.DB, x.RP, uint64(x.Bucket))
	}
	return sb.String()
}

// ---- operations -----------------------------------------------------------------------------

type c43Op struct {
	Kind  string `json:"kind"` // create | setdef | setrp | delete | vupdate | vdelete
	Org   int    `json:"org"`
	DB    int    `json:"db"`
	RP    int    `json:"rp"`
	Def   bool   `json:"default,omitempty"`
	NewRP int    `json:"new_rp,omitempty"`
	Virt  string `json:"virtual_bucket,omitempty"`
}

func (o c43Op) String() string {
	switch o.Kind {
	case "create":
		return fmt.Sprintf("create(org%d,%s,%s,default=%v)", o.Org, c43DBs[o.DB], c43RPs[o.RP], o.Def)
	case "setdef":
		return fmt.Sprintf("update(org%d,%s,%s,default:=%v)", o.Org, c43DBs[o.DB], c43RPs[o.RP], o.Def)
	case "setrp":
		return fmt.Sprintf("update(org%d,%s,%s,rp:=%s)", o.Org, c43DBs[o.DB], c43RPs[o.RP], c43RPs[o.NewRP])
	case "delete":
		return fmt.Sprintf("delete(org%d,%s,%s)", o.Org, c43DBs[o.DB], c43RPs[o.RP])
	case "vupdate":
		return fmt.Sprintf("update(org%d,virtual:%q,default:=%v,rp:=%s)", o.Org, o.Virt, o.Def, c43RPs[o.NewRP])
	default:
		return fmt.Sprintf("delete(org%d,virtual:%q)", o.Org, o.Virt)
	}
}

func c43Alphabet() []c43Op {
	var ops []c43Op
	for org := 0; org < 2; org++ {
		for db := 0; db < 2; db++ {
			for rp := 0; rp < 3; rp++ {
				ops = append(ops, c43Op{Kind: "create", Org: org, DB: db, RP: rp, Def: false}, c43Op{Kind: "create", Org: org, DB: db, RP: rp, Def: true},
					c43Op{Kind: "setdef", Org: org, DB: db, RP: rp, Def: true}, c43Op{Kind: "setdef", Org: org, DB: db, RP: rp, Def: false},
					c43Op{Kind: "setrp", Org: org, DB: db, RP: rp, NewRP: (rp + 1) % 3}, c43Op{Kind: "setrp", Org: org, DB: db, RP: rp, NewRP: (rp + 2) % 3},
					c43Op{Kind: "delete", Org: org, DB: db, RP: rp})
			}
		}
	}
	return ops
}

// fresh id for a new mapping in slot (org,db,rp): a function of the current model only
func c43FreshID(m *c43Model, org, db, rp int) platform.ID {
	base := uint64(0x1000*(org+1) + 0x40*c43SlotOrder[db][rp])
	for j := uint64(0); ; j++ {
		id := platform.ID(base + j)
		if m.byID(id) == nil {
			return id
		}
	}
}

const c43MissingID = platform.ID(0x7777)

type c43Viol struct {
	class string
	feat  map[string]string
	msg   string
}

// c43Apply runs op against the real service and the model. It returns what the oracle found
// wrong with the *outcome* (error / no error, panics); state is judged by c43Sweep afterwards.
func c43Apply(w *c43World, m *c43Model, op c43Op) (viol []c43Viol, outcome string) {
	ctx := context.Background()
	orgID := w.orgs[op.Org]
	defer func() {
		if p := recover(); p != nil {
			viol = append(viol, c43Viol{"panic", map[string]string{"op": op.Kind, "where": "operation"}, fmt.Sprintf("%s panicked: %v", op, p)})
			outcome = "panic"
		}
	}()
	bad := func(class, msg string) {
		viol = append(viol, c43Viol{class, map[string]string{"op": op.Kind}, msg})
	}
	dk := [2]int{op.Org, op.DB}
	w.lastErr = nil
	switch op.Kind {
	case "create":
		exists := m.find(op.Org, op.DB, op.RP) != nil
		id := c43FreshID(m, op.Org, op.DB, op.RP)
		bucket := w.bkt[op.Org][fmt.Sprintf("t%d", op.RP)]
		err := w.svc.Create(ctx, &influxdb.DBRPMapping{ID: id, Database: c43DBs[op.DB], RetentionPolicy: c43RPs[op.RP], Default: op.Def, OrganizationID: orgID, BucketID: bucket})
		w.lastErr = err
		switch {
		case exists && err == nil:
			bad("duplicate_dbrp_created", fmt.Sprintf("%s succeeded although a mapping for that (org, db, rp) exists", op))
			m.add(c43Map{ID: id, Org: op.Org, DB: op.DB, RP: op.RP, Bucket: bucket}) // keep following the real state
		case exists:
			outcome = "rejected_duplicate"
		case err != nil:
			bad("create_rejected", fmt.Sprintf("%s failed: %v", op, err))
			outcome = "error"
		default:
			first := len(m.ofDB(op.Org, op.DB, 0)) == 0
			m.add(c43Map{ID: id, Org: op.Org, DB: op.DB, RP: op.RP, Bucket: bucket})
			if first || op.Def {
				m.def[dk] = id
			}
			outcome = "created"
		}
	case "setdef", "setrp":
		tgt := m.find(op.Org, op.DB, op.RP)
		if tgt == nil {
			err := w.svc.Update(ctx, &influxdb.DBRPMapping{ID: c43MissingID, Database: c43DBs[op.DB], RetentionPolicy: c43RPs[op.RP], Default: op.Def, OrganizationID: orgID, BucketID: w.bkt[op.Org]["t0"]})
			if err == nil {
				bad("update_of_missing_succeeded", fmt.Sprintf("%s on a mapping id that does not exist returned nil", op))
			}
			outcome = "missing"
			return
		}
		// what the HTTP PATCH handler does: FindByID, change the field, Update
		cur, err := w.svc.FindByID(ctx, orgID, tgt.ID)
		if err != nil {
			bad("mapping_lost", fmt.Sprintf("FindByID(%d) before %s: %v", uint64(tgt.ID), op, err))
			outcome = "error"
			return
		}
		if op.Kind == "setdef" {
			cur.Default = op.Def
			err = w.svc.Update(ctx, cur)
			w.lastErr = err
			if err != nil {
				bad("update_rejected", fmt.Sprintf("%s failed: %v", op, err))
				outcome = "error"
				return
			}
			if op.Def {
				m.def[dk] = tgt.ID
				outcome = "default_set"
			} else if m.def[dk] == tgt.ID {
				if others := m.ofDB(op.Org, op.DB, tgt.ID); len(others) > 0 {
					m.pending[dk] = others
					outcome = "default_unset_promote"
				} else {
					outcome = "default_unset_only_mapping"
				}
			} else {
				outcome = "default_unset_noop"
			}
			return
		}
		cur.RetentionPolicy = c43RPs[op.NewRP]
		clash := m.find(op.Org, op.DB, op.NewRP) != nil
		err = w.svc.Update(ctx, cur)
		w.lastErr = err
		switch {
		case clash && err == nil:
			bad("duplicate_dbrp_created", fmt.Sprintf("%s succeeded although another mapping already has that (org, db, rp)", op))
			tgt.RP = op.NewRP
		case clash:
			outcome = "rejected_duplicate"
		case err != nil:
			bad("update_rejected", fmt.Sprintf("%s failed: %v", op, err))
			outcome = "error"
		default:
			tgt.RP = op.NewRP
			outcome = "rp_changed"
		}
	case "delete":
		tgt := m.find(op.Org, op.DB, op.RP)
		id := c43MissingID
		if tgt != nil {
			id = tgt.ID
		}
		if err := w.svc.Delete(ctx, orgID, id); err != nil {
			w.lastErr = err
			bad("delete_rejected", fmt.Sprintf("%s failed: %v", op, err))
			outcome = "error"
			return
		}
		if tgt == nil {
			outcome = "missing"
			return
		}
		wasDef := m.def[dk] == id
		m.remove(id)
		if wasDef {
			delete(m.def, dk)
			m.pending[dk] = m.ofDB(op.Org, op.DB, 0) // empty: no default any more
			outcome = "deleted_default"
		} else {
			outcome = "deleted"
		}
	case "vupdate":
		// PATCH on the id of a virtual mapping (= the bucket id): FindByID, change, Update.
		// The outcome is not specified; the invariants must survive it.
		m.tainted[op.Org] = true
		cur, err := w.svc.FindByID(ctx, orgID, w.bkt[op.Org][op.Virt])
		if err != nil {
			outcome = "virtual_not_found"
			return
		}
		cur.Default = op.Def
		cur.RetentionPolicy = c43RPs[op.NewRP]
		if err := w.svc.Update(ctx, cur); err != nil {
			outcome = "virtual_update_rejected"
		} else {
			outcome = "virtual_update_accepted"
		}
	case "vdelete":
		m.tainted[op.Org] = true
		if err := w.svc.Delete(ctx, orgID, w.bkt[op.Org][op.Virt]); err != nil {
			outcome = "virtual_delete_rejected"
		} else {
			outcome = "virtual_delete_accepted"
		}
	}
	return
}

// ---- sweep: the invariants of the statement, observed through FindMany / FindByID ----------

func c43Str(w *c43World, org int, x *influxdb.DBRPMapping) string {
	name := w.bktN[org][x.BucketID]
	if name == "" {
		name = fmt.Sprintf("%d", uint64(x.BucketID))
	}
	kind := "phys"
	if x.Virtual {
		kind = "virt"
	}
	d := ""
	if x.Default {
		d = ",default"
	}
	return fmt.Sprintf("%s{id=%x,%s/%s->%s%s}", kind, uint64(x.ID), x.Database, x.RetentionPolicy, name, d)
}

func c43Strs(w *c43World, org int, xs []*influxdb.DBRPMapping) []string {
	out := make([]string, len(xs))
	for i, x := range xs {
		out[i] = c43Str(w, org, x)
	}
	return out
}

func c43In(ids []platform.ID, id platform.ID) bool {
	for _, x := range ids {
		if x == id {
			return true
		}
	}
	return false
}

// c43Sweep checks one organization. It validates pending default choices and records the
// observed default in the model. ev counts what was compared.
func c43Sweep(w *c43World, m *c43Model, org int, trigger string, ev func(string)) (viol []c43Viol) {
	ctx := context.Background()
	orgID := w.orgs[org]
	add := func(class string, feat map[string]string, msg string) {
		feat["trigger"] = trigger
		viol = append(viol, c43Viol{class, feat, msg})
	}
	find := func(name string, f influxdb.DBRPMappingFilter) (res []*influxdb.DBRPMapping, ok bool) {
		defer func() {
			if p := recover(); p != nil {
				add("panic", map[string]string{"where": "FindMany", "filter": name}, fmt.Sprintf("FindMany(%s) panicked: %v", name, p))
				ok = false
			}
		}()
		res, _, err := w.svc.FindMany(ctx, f)
		if err != nil {
			add("lookup_error", map[string]string{"filter": name}, fmt.Sprintf("FindMany(%s): %v", name, err))
			return nil, false
		}
		ev("findmany_" + name)
		return res, true
	}
	// uniqueness of (db, rp) → bucket in one listing
	uniq := func(name string, list []*influxdb.DBRPMapping) {
		seen := map[string]*influxdb.DBRPMapping{}
		for _, x := range list {
			if x.OrganizationID != orgID {
				continue
			}
			k := x.Database + "\x00" + x.RetentionPolicy
			if p, ok := seen[k]; ok {
				if p.BucketID != x.BucketID {
					cause := "other"
					if p.Virtual != x.Virtual {
						cause = "virtual_next_to_physical"
					} else if p.Virtual {
						cause = "two_virtual"
					} else {
						cause = "two_physical"
					}
					add("dbrp_resolves_to_two_buckets", map[string]string{"filter": name, "cause": cause},
						fmt.Sprintf("FindMany(%s) of org%d lists (%s, %s) twice with different buckets: %s and %s", name, org, x.Database, x.RetentionPolicy, c43Str(w, org, p), c43Str(w, org, x)))
				}
				continue
			}
			seen[k] = x
		}
	}

	all, ok := find("org", influxdb.DBRPMappingFilter{OrgID: &orgID})
	if !ok {
		return
	}
	uniq("org", all)
	for _, x := range all {
		if x.OrganizationID != orgID {
			add("foreign_mapping_listed", map[string]string{"filter": "org"}, fmt.Sprintf("FindMany(org%d) returned a mapping of another organization: %s", org, c43Str(w, org, x)))
		}
	}
	// physical mappings listed = physical mappings of the model
	if !m.tainted[org] {
		listed := map[platform.ID]*influxdb.DBRPMapping{}
		for _, x := range all {
			if !x.Virtual {
				listed[x.ID] = x
			}
		}
		for _, mm := range m.maps {
			if mm.Org != org {
				continue
			}
			x, ok := listed[mm.ID]
			if !ok {
				add("mapping_lost", map[string]string{"filter": "org"}, fmt.Sprintf("mapping %x (%s/%s) of org%d is not listed; listed: %v", uint64(mm.ID), c43DBs[mm.DB], c43RPs[mm.RP], org, c43Strs(w, org, all)))
				continue
			}
			if x.Database != c43DBs[mm.DB] || x.RetentionPolicy != c43RPs[mm.RP] || x.BucketID != mm.Bucket {
				add("mapping_changed", map[string]string{"filter": "org"}, fmt.Sprintf("mapping %x expected %s/%s->%d, listed as %s", uint64(mm.ID), c43DBs[mm.DB], c43RPs[mm.RP], uint64(mm.Bucket), c43Str(w, org, x)))
			}
			delete(listed, mm.ID)
			ev("physical_mapping_compared")
		}
		for _, x := range listed {
			add("unexpected_mapping", map[string]string{"filter": "org"}, fmt.Sprintf("org%d lists a physical mapping nobody created (or that was deleted): %s", org, c43Str(w, org, x)))
		}
	}

	for db, dbName := range c43DBs {
		dk := [2]int{org, db}
		phys := m.ofDB(org, db, 0)
		byDB, ok := find("org+db", influxdb.DBRPMappingFilter{OrgID: &orgID, Database: &dbName})
		if !ok {
			continue
		}
		uniq("org+db", byDB)
		var defs []*influxdb.DBRPMapping
		for _, x := range byDB {
			if x.Database != dbName {
				add("filter_ignored", map[string]string{"filter": "org+db"}, fmt.Sprintf("FindMany(org%d,%s) returned %s", org, dbName, c43Str(w, org, x)))
			}
			if x.Default {
				defs = append(defs, x)
			}
		}
		switch {
		case len(phys) > 0 && len(defs) != 1:
			add("default_count", map[string]string{"filter": "org+db", "count": fmt.Sprint(len(defs))},
				fmt.Sprintf("database %s of org%d has %d physical mapping(s) but %d default mapping(s): %v", dbName, org, len(phys), len(defs), c43Strs(w, org, byDB)))
		case len(defs) > 1:
			add("default_count", map[string]string{"filter": "org+db", "count": fmt.Sprint(len(defs))},
				fmt.Sprintf("database %s of org%d lists %d default mappings: %v", dbName, org, len(defs), c43Strs(w, org, byDB)))
		}
		ev("default_count_checked")
		yes := true
		lookup, ok := find("org+db+default", influxdb.DBRPMappingFilter{OrgID: &orgID, Database: &dbName, Default: &yes})
		if !ok {
			continue
		}
		// a lookup with an empty retention policy returns that default
		switch {
		case len(defs) == 1 && len(lookup) != 1:
			add("default_lookup", map[string]string{"filter": "org+db+default", "count": fmt.Sprint(len(lookup))},
				fmt.Sprintf("default of %s in org%d is %s but the empty-rp lookup returned %v", dbName, org, c43Str(w, org, defs[0]), c43Strs(w, org, lookup)))
		case len(defs) == 1 && (lookup[0].RetentionPolicy != defs[0].RetentionPolicy || lookup[0].BucketID != defs[0].BucketID || !lookup[0].Default):
			add("default_lookup", map[string]string{"filter": "org+db+default", "count": "1"},
				fmt.Sprintf("default of %s in org%d is %s but the empty-rp lookup returned %s", dbName, org, c43Str(w, org, defs[0]), c43Str(w, org, lookup[0])))
		case len(defs) == 0 && len(lookup) > 0:
			add("default_lookup", map[string]string{"filter": "org+db+default", "count": fmt.Sprint(len(lookup))},
				fmt.Sprintf("no default listed for %s in org%d but the empty-rp lookup returned %v", dbName, org, c43Strs(w, org, lookup)))
		}
		ev("default_lookup_checked")
		// which mapping is the default: set by the last operation, or one of the allowed promotions
		if !m.tainted[org] && len(phys) > 0 && len(defs) == 1 {
			got := defs[0]
			if allowed, pend := m.pending[dk]; pend {
				if got.Virtual || !c43In(allowed, got.ID) {
					add("default_promotion", map[string]string{"filter": "org+db"}, fmt.Sprintf("after %s the default of %s in org%d must be one of %x, got %s", trigger, dbName, org, allowed, c43Str(w, org, got)))
				} else {
					ev("default_promotion_checked")
				}
				if !got.Virtual {
					m.def[dk] = got.ID
				}
			} else if got.Virtual || got.ID != m.def[dk] {
				add("default_wrong", map[string]string{"filter": "org+db"}, fmt.Sprintf("default of %s in org%d must be mapping %x, got %s", dbName, org, uint64(m.def[dk]), c43Str(w, org, got)))
			} else {
				ev("default_identity_checked")
			}
		}
		delete(m.pending, dk)

		for rp, rpName := range c43RPs {
			res, ok := find("org+db+rp", influxdb.DBRPMappingFilter{OrgID: &orgID, Database: &dbName, RetentionPolicy: &rpName})
			if !ok {
				continue
			}
			bk := map[platform.ID]bool{}
			for _, x := range res {
				bk[x.BucketID] = true
			}
			if len(bk) > 1 || len(res) > 1 {
				add("dbrp_resolves_to_two_buckets", map[string]string{"filter": "org+db+rp", "cause": "resolution"},
					fmt.Sprintf("(%s, %s) of org%d resolves to %d mappings: %v", dbName, rpName, org, len(res), c43Strs(w, org, res)))
			}
			ev("resolution_checked")
			if mm := m.find(org, db, rp); mm != nil && !m.tainted[org] {
				if len(res) == 0 || res[0].ID != mm.ID || res[0].BucketID != mm.Bucket || res[0].Virtual {
					add("resolution_wrong", map[string]string{"filter": "org+db+rp"}, fmt.Sprintf("(%s, %s) of org%d must resolve to mapping %x -> bucket %s, got %v", dbName, rpName, org, uint64(mm.ID), w.bktN[org][mm.Bucket], c43Strs(w, org, res)))
				}
			} else if mm == nil && len(res) == 1 && !res[0].Virtual && !m.tainted[org] {
				add("unexpected_mapping", map[string]string{"filter": "org+db+rp"}, fmt.Sprintf("(%s, %s) of org%d resolves to a physical mapping that should not exist: %s", dbName, rpName, org, c43Str(w, org, res[0])))
			} else if len(res) == 1 && res[0].Virtual {
				ev("virtual_resolution_seen")
			}
		}
	}
	// FindByID agrees
	if !m.tainted[org] {
		for _, mm := range m.maps {
			if mm.Org != org {
				continue
			}
			x, err := w.svc.FindByID(ctx, orgID, mm.ID)
			if err != nil || x.Database != c43DBs[mm.DB] || x.RetentionPolicy != c43RPs[mm.RP] || x.BucketID != mm.Bucket || x.Default != (m.def[[2]int{org, mm.DB}] == mm.ID) {
				got := fmt.Sprint(err)
				if err == nil {
					got = c43Str(w, org, x)
				}
				add("find_by_id_disagrees", map[string]string{"filter": "id"}, fmt.Sprintf("FindByID(org%d, %x): expected %s/%s default=%v, got %s", org, uint64(mm.ID), c43DBs[mm.DB], c43RPs[mm.RP], m.def[[2]int{org, mm.DB}] == mm.ID, got))
			}
			ev("find_by_id_checked")
		}
	}
	return
}

// unfiltered listing (what Flux databases() and the upgrade dump use): still ≤ 1 bucket per (org, db, rp), no panic
func c43SweepAll(w *c43World, trigger string, ev func(string)) (viol []c43Viol) {
	defer func() {
		if p := recover(); p != nil {
			viol = append(viol, c43Viol{"panic", map[string]string{"where": "FindMany", "filter": "none", "trigger": trigger}, fmt.Sprintf("FindMany({}) panicked: %v", p)})
		}
	}()
	res, _, err := w.svc.FindMany(context.Background(), influxdb.DBRPMappingFilter{})
	if err != nil {
		return []c43Viol{{"lookup_error", map[string]string{"filter": "none", "trigger": trigger}, err.Error()}}
	}
	ev("findmany_none")
	seen := map[string]*influxdb.DBRPMapping{}
	for _, x := range res {
		k := fmt.Sprintf("%d\x00%s\x00%s", uint64(x.OrganizationID), x.Database, x.RetentionPolicy)
		if p, ok := seen[k]; ok && p.BucketID != x.BucketID {
			cause := "two_physical"
			if p.Virtual != x.Virtual {
				cause = "virtual_next_to_physical"
			} else if p.Virtual {
				cause = "two_virtual"
			}
			org := 0
			if x.OrganizationID == w.orgs[1] {
				org = 1
			}
			viol = append(viol, c43Viol{"dbrp_resolves_to_two_buckets", map[string]string{"filter": "none", "cause": cause, "trigger": trigger},
				fmt.Sprintf("FindMany({}) lists (%s, %s) of org%d twice with different buckets: %s and %s", x.Database, x.RetentionPolicy, org, c43Str(w, org, p), c43Str(w, org, x))})
			continue
		}
		seen[k] = x
	}
	return
}

type c43Wit struct {
	History []string `json:"history"`
	After   string   `json:"after_operation"`
	Message string   `json:"message"`
	Store   []string `json:"dbrp_kv_buckets,omitempty"`
}

func c43Report(r *vkit.Run, w *c43World, hist []string, after string, vs []c43Viol) {
	// histories that addressed the id of a virtual mapping (PATCH/DELETE on a bucket id) are
	// marked: what such an operation should do is unspecified, only the invariants are checked
	kind := "physical_ids_only"
	for _, h := range hist {
		if strings.Contains(h, "virtual:") {
			kind = "touched_virtual_id"
		}
	}
	for _, v := range vs {
		v.feat["history"] = kind
		var kvs []string
		for _, e := range w.dump() {
			kvs = append(kvs, fmt.Sprintf("%s %q = %q", e[0], e[1], e[2]))
		}
		r.Violation(v.class, v.feat, c43Wit{History: hist, After: after, Message: v.msg, Store: kvs})
	}
}

func TestC43(t *testing.T) {
	r := vkit.Start(t, "C43", "exploration")
	defer r.Finish()
	r.Rule("real dbrp.Service over real tenant buckets (2 orgs × buckets d0, d0/r1, d1/r2, t0..t2) on the in-memory KV store; operations create(default?)/update(default:=true|false)/update(rp:=other)/delete over 2 orgs × {d0,d1} × {autogen,r1,r2} (84 operations), addressed by (org,db,rp) slot incl. slots that hold no mapping; after every operation a sweep through FindMany (org, org+db, org+db+default, org+db+rp, unfiltered) and FindByID checks: ≤1 bucket per (db,rp), exactly one default per database with a physical mapping, empty-rp lookup = that default, promotion after delete/unset ∈ remaining mappings, mappings of the model present and unchanged. quick: random histories (plus operations addressed at virtual mapping ids); thorough: every history of length ≤5 over the 84 operations, explored as the graph of distinct KV states (a state is expanded once; histories that reach byte-identical dbrp buckets share their continuation). non-trivial = the operation changed the store; distinct = (state, operation) resp. the history. faulted histories (both tiers): the same operations and model on a real bolt store behind a fault-injecting kv.Store wrapper (organizations with buckets t0..t2 only, so all mappings of d0/d1 are physical); 3 of 4 operations are first attempted with a fault inside — the commit, then the 1st, 2nd, … Put/Delete of the transaction (any KV bucket, or only dbrpdefaultv1 / one of the other dbrp buckets) returns an I/O error, one position per attempt, until an attempt passes the last position and the operation goes through; an attempt that returned an error must leave the four dbrp KV buckets byte-identical and the sweep intact; an attempt that returned nil although the fault fired is taken at its word (model advances, sweep judges: exactly one default, empty-rp lookup returns it); non-trivial = ≥1 fault fired and ≥2 store-changing operations")
	alphabet := c43Alphabet()
	w := c43NewWorld(t)
	ev := func(n string) { r.Event(n, 1) }

	c43FaultedHistories(r, t, ev)

	if !r.Quick() {
		c43Exhaustive(r, w, alphabet, 5)
	}

	// ---- random histories (both tiers) ---------------------------------------------------
	n := r.N(2000, 6000)
	empty := c43KVState{}
	for h := 0; h < n; h++ {
		rg := r.Rand(h)
		w.load(empty)
		m := c43NewModel()
		length := rg.Range(3, 10)
		virt := rg.Chance(1, 4) // this history also pokes at virtual mapping ids
		focusOrg, focusDB := rg.Intn(2), rg.Intn(2)
		var hist []string
		changed := 0
		seenSig := map[string]bool{}
		for s := 0; s < length; s++ {
			var op c43Op
			if virt && rg.Chance(1, 4) {
				op = c43Op{Kind: vkit.Pick(rg, []string{"vupdate", "vupdate", "vdelete"}), Org: rg.Intn(2), Virt: vkit.Pick(rg, []string{"d0", "d0/r1", "d1/r2", "t0"}), Def: rg.Bool(), NewRP: rg.Intn(3)}
			} else {
				op = vkit.Pick(rg, alphabet)
				if rg.Chance(2, 3) { // collisions: stay on one organization / database most of the time
					op.Org, op.DB = focusOrg, focusDB
				}
				// prefer operations that apply: creates on free slots, the rest on occupied ones
				if ex := m.find(op.Org, op.DB, op.RP) != nil; (op.Kind == "create") == ex && rg.Chance(2, 3) {
					op.RP = (op.RP + 1) % 3
				}
				if op.Kind == "setrp" && op.NewRP == op.RP {
					op.NewRP = (op.RP + 1) % 3
				}
			}
			before := w.dump().key()
			vs, outcome := c43Apply(w, m, op)
			hist = append(hist, op.String()+" → "+outcome)
			r.Event("op_"+op.Kind+"_"+outcome, 1)
			if w.dump().key() != before {
				changed++
			}
			for org := 0; org < 2; org++ {
				vs = append(vs, c43Sweep(w, m, org, op.Kind, ev)...)
			}
			vs = append(vs, c43SweepAll(w, op.Kind, ev)...)
			// each kind of violation once per history; the history goes on
			var fresh []c43Viol
			for _, v := range vs {
				delete(v.feat, "trigger") // the same broken state is re-observed after every later operation
				sig := v.class + fmt.Sprint(v.feat)
				if !seenSig[sig] {
					seenSig[sig] = true
					v.feat["trigger"] = op.Kind
					fresh = append(fresh, v)
				}
			}
			if len(fresh) > 0 {
				c43Report(r, w, append([]string(nil), hist...), op.String(), fresh)
			}
		}
		r.Case(strings.Join(hist, ";"), changed >= 2)
		if h%97 == 5 {
			r.Sample(map[string]any{"history": hist, "store_changing_operations": changed})
		}
	}
}

// c43Exhaustive explores every history of length ≤ depth over the alphabet. The service keeps
// no state outside the KV store and ids are a function of the model, so two histories that
// produce byte-identical dbrp buckets behave identically from there on: each distinct state is
// expanded once (all 84 operations) at the smallest depth at which it is reachable.
func c43Exhaustive(r *vkit.Run, w *c43World, alphabet []c43Op, depth int) {
	type node struct {
		kv    c43KVState
		model *c43Model
		hist  []string
	}
	ev := func(n string) { r.Event(n, 1) }
	w.load(c43KVState{})
	root := &node{kv: c43KVState{}, model: c43NewModel()}
	known := map[string]*node{root.kv.key(): root}
	frontier := []*node{root}
	transitions := 0
	reported := 0
	for d := 0; d < depth && len(frontier) > 0; d++ {
		var next []*node
		for _, nd := range frontier {
			srcKey := nd.kv.key()
			for oi, op := range alphabet {
				w.load(nd.kv)
				m := nd.model.clone()
				vs, outcome := c43Apply(w, m, op)
				transitions++
				after := w.dump()
				key := after.key()
				r.Event("op_"+op.Kind+"_"+outcome, 1)
				r.Case(fmt.Sprintf("x|%s|%d", srcKey, oi), key != srcKey)
				hist := append(append([]string(nil), nd.hist...), op.String()+" → "+outcome)
				if old, ok := known[key]; ok {
					// same concrete state: the model reached now must agree with the model that was
					// validated against this state
					if old.model.physKey() != m.physKey() {
						vs = append(vs, c43Viol{"state_model_mismatch", map[string]string{"op": op.Kind}, fmt.Sprintf("store equals the state after %v whose mappings are %s, but this history expects %s", old.hist, old.model.physKey(), m.physKey())})
					}
					for dk, allowed := range m.pending {
						got, has := old.model.def[dk]
						if (len(allowed) == 0 && has) || (len(allowed) > 0 && !c43In(allowed, got)) {
							vs = append(vs, c43Viol{"default_promotion", map[string]string{"filter": "state", "trigger": op.Kind}, fmt.Sprintf("after %s the default of %s in org%d must be one of %x, the store holds %x", op, c43DBs[dk[1]], dk[0], allowed, uint64(got))})
						}
					}
					for dk, id := range m.def {
						if _, pend := m.pending[dk]; !pend && old.model.def[dk] != id {
							vs = append(vs, c43Viol{"default_wrong", map[string]string{"filter": "state", "trigger": op.Kind}, fmt.Sprintf("after %s the default of %s in org%d must be %x, the store holds %x", op, c43DBs[dk[1]], dk[0], uint64(id), uint64(old.model.def[dk]))})
						}
					}
					r.Event("transition_to_known_state", 1)
				} else {
					for org := 0; org < 2; org++ {
						vs = append(vs, c43Sweep(w, m, org, op.Kind, ev)...)
					}
					vs = append(vs, c43SweepAll(w, op.Kind, ev)...)
					nn := &node{kv: after, model: m, hist: hist}
					known[key] = nn
					next = append(next, nn)
					r.Event("distinct_states_swept", 1)
					if len(known)%4001 == 7 {
						r.Sample(map[string]any{"history": hist, "mappings": m.physKey()})
					}
				}
				if len(vs) > 0 && reported < 40 {
					reported++
					c43Report(r, w, hist, op.String(), vs)
				}
			}
		}
		r.Extra(fmt.Sprintf("states_first_reached_at_depth_%d", d+1), len(next))
		frontier = next
	}
	total := 0
	p := 1
	for k := 0; k <= depth; k++ {
		total += p
		p *= len(alphabet)
	}
	r.Exhaustive(true)
	r.Extra("exhaustive_histories_covered", total)
	r.Extra("exhaustive_alphabet", len(alphabet))
	r.Extra("exhaustive_depth", depth)
	r.Extra("exhaustive_distinct_states", len(known))
	r.Extra("exhaustive_transitions_executed", transitions)
}
