package g_kv

import (
	"context"
	"fmt"
	"sort"
	"strings"
	"sync"
	"testing"
	"time"

	"github.com/influxdata/influxdb/v2"
	"github.com/influxdata/influxdb/v2/kit/platform"
	"github.com/influxdata/influxdb/v2/kv"
	"github.com/influxdata/influxdb/v2/tenant"
	"github.com/influxdata/influxdb/v2/tenant/index"

	"verifharness/vkit"
)

// ---- world ------------------------------------------------------------------------------------

type c30World struct {
	t  testing.TB
	st kv.Store // what the sweep reads the raw indexes from (inmem, or the fault store over bolt)
	ts *tenant.Service

	// faulted histories only: the fault-injecting wrapper over a real bolt store
	fs    *gkvFaultStore
	close func()
	// pre is called right before the service call of an operation (after the step has looked its
	// target up): the faulted histories arm the store there
	pre func(kind string, target platform.ID)
	// what the last step did
	lastKind   string
	lastTarget platform.ID
	lastErr    error
	lastRan    bool
	lastBefore []platform.ID // DeleteOrganization: the buckets the organization had before the call
	lastNew    platform.ID   // CreateOrganization: the id the service assigned (also when it then failed)
	// memberships a *failed* delete left behind and that were reported / counted already
	tolerated map[[2]platform.ID]bool

	// handles the workload picks its targets from (alive or not)
	orgs    []platform.ID
	buckets []platform.ID
	users   []platform.ID
	urms    [][2]platform.ID // resource, user

	// facts the oracle tracks
	sysBuckets  map[platform.ID][]platform.ID // org → its system buckets (noted right after creation)
	sysNames    map[platform.ID]string        // system bucket → name
	deletedOrgs map[platform.ID][]platform.ID // org whose delete returned nil → buckets it had at that moment
	orgNames    map[platform.ID]string        // last name an organization was given (also after its deletion)
}

func (w *c30World) begin(kind string, target platform.ID) {
	w.lastKind, w.lastTarget, w.lastRan, w.lastErr = kind, target, true, nil
	if w.pre != nil {
		w.pre(kind, target)
	}
}

// c30NewBoltWorld: the same services over a real bolt store behind the fault-injecting wrapper.
func c30NewBoltWorld(t testing.TB) *c30World {
	st, done := gkvNewBoltStore(t)
	fs := gkvNewFaultStore(st)
	w := &c30World{t: t, st: fs, fs: fs, close: done, sysBuckets: map[platform.ID][]platform.ID{}, sysNames: map[platform.ID]string{}, deletedOrgs: map[platform.ID][]platform.ID{}, orgNames: map[platform.ID]string{}, tolerated: map[[2]platform.ID]bool{}}
	w.ts = tenant.NewService(tenant.NewStore(fs))
	w.ts.Apply(tenant.WithTaskService(gkvNoTasks{}))
	return w
}

func c30NewWorld(t testing.TB) *c30World {
	w := &c30World{t: t, st: gkvNewStore(t), sysBuckets: map[platform.ID][]platform.ID{}, sysNames: map[platform.ID]string{}, deletedOrgs: map[platform.ID][]platform.ID{}, orgNames: map[platform.ID]string{}}
	w.ts = tenant.NewService(tenant.NewStore(w.st))
	w.ts.Apply(tenant.WithTaskService(gkvNoTasks{}))
	return w
}

type c30Viol struct {
	class string
	feat  map[string]string
	msg   string
}

func c30RawBucket(st kv.Store, name string) (out [][2]string, err error) {
	err = st.View(context.Background(), func(tx kv.Tx) error {
		b, err := tx.Bucket([]byte(name))
		if err != nil {
			return err
		}
		cur, err := b.ForwardCursor(nil)
		if err != nil {
			return err
		}
		defer cur.Close()
		for k, v := cur.Next(); k != nil; k, v = cur.Next() {
			out = append(out, [2]string{string(k), string(v)})
		}
		return nil
	})
	return
}

// c30Sweep: the invariants of the statement, through the service API and the raw KV indexes.
func c30Sweep(w *c30World, ev func(string)) (viol []c30Viol) {
	ctx := context.Background()
	add := func(class string, feat map[string]string, format string, a ...any) {
		viol = append(viol, c30Viol{class, feat, fmt.Sprintf(format, a...)})
	}
	f := func(kv ...string) map[string]string {
		m := map[string]string{}
		for i := 0; i+1 < len(kv); i += 2 {
			m[kv[i]] = kv[i+1]
		}
		return m
	}

	// ---- organizations ----
	orgs, _, err := w.ts.FindOrganizations(ctx, influxdb.OrganizationFilter{})
	if err != nil {
		add("sweep_error", f("what", "FindOrganizations"), "%v", err)
		return
	}
	orgByID := map[platform.ID]*influxdb.Organization{}
	byName := map[string]platform.ID{}
	for _, o := range orgs {
		orgByID[o.ID] = o
		if prev, dup := byName[o.Name]; dup {
			add("duplicate_name", f("kind", "org"), "organizations %s and %s are both named %q", prev, o.ID, o.Name)
		}
		byName[o.Name] = o.ID
		n := o.Name
		got, err := w.ts.FindOrganization(ctx, influxdb.OrganizationFilter{Name: &n})
		if err != nil || got.ID != o.ID {
			add("name_lookup_disagrees", f("kind", "org", "via", "service"), "FindOrganization(name=%q) of organization %s returned %v / %v", o.Name, o.ID, c30OrgStr(got), err)
		}
		ev("org_name_lookup")
	}
	rawIdx, err := c30RawBucket(w.st, "organizationindexv1")
	if err != nil {
		add("sweep_error", f("what", "organizationindexv1"), "%v", err)
	}
	for _, e := range rawIdx {
		var id platform.ID
		if err := id.Decode([]byte(e[1])); err != nil {
			add("index_entry_corrupt", f("kind", "org"), "organization index %q -> %q", e[0], e[1])
			continue
		}
		o, ok := orgByID[id]
		switch {
		case !ok:
			shape := "plain"
			if n, ok := w.orgNames[id]; ok && strings.TrimSpace(n) != n {
				shape = "whitespace_padded"
			}
			add("dangling_index_entry", f("kind", "org", "name", shape), "organization name index has %q -> %s but no such organization exists (a lookup of that name fails, and the name can never be used again)", e[0], id)
		case o.Name != e[0] && strings.TrimSpace(o.Name) != e[0]:
			add("index_entry_stale", f("kind", "org"), "organization name index has %q -> %s but that organization is named %q", e[0], id, o.Name)
		}
		ev("org_index_entry")
	}

	// ---- users ----
	users, _, err := w.ts.FindUsers(ctx, influxdb.UserFilter{})
	if err != nil {
		add("sweep_error", f("what", "FindUsers"), "%v", err)
		return
	}
	userByID := map[platform.ID]*influxdb.User{}
	uByName := map[string]platform.ID{}
	for _, u := range users {
		userByID[u.ID] = u
		if prev, dup := uByName[u.Name]; dup {
			add("duplicate_name", f("kind", "user"), "users %s and %s are both named %q", prev, u.ID, u.Name)
		}
		uByName[u.Name] = u.ID
		n := u.Name
		got, err := w.ts.FindUser(ctx, influxdb.UserFilter{Name: &n})
		if err != nil || got.ID != u.ID {
			add("name_lookup_disagrees", f("kind", "user", "via", "service"), "FindUser(name=%q) of user %s returned %v / %v", u.Name, u.ID, got, err)
		}
		ev("user_name_lookup")
	}
	rawU, err := c30RawBucket(w.st, "userindexv1")
	if err != nil {
		add("sweep_error", f("what", "userindexv1"), "%v", err)
	}
	for _, e := range rawU {
		var id platform.ID
		if err := id.Decode([]byte(e[1])); err != nil {
			add("index_entry_corrupt", f("kind", "user"), "user index %q -> %q", e[0], e[1])
			continue
		}
		u, ok := userByID[id]
		switch {
		case !ok:
			add("dangling_index_entry", f("kind", "user"), "user name index has %q -> %s but no such user exists", e[0], id)
		case u.Name != e[0]:
			add("index_entry_stale", f("kind", "user"), "user name index has %q -> %s but that user is named %q", e[0], id, u.Name)
		}
		ev("user_index_entry")
	}

	// ---- buckets ----
	buckets, _, err := w.ts.FindBuckets(ctx, influxdb.BucketFilter{})
	if err != nil {
		add("sweep_error", f("what", "FindBuckets"), "%v", err)
		return
	}
	bktByID := map[platform.ID]*influxdb.Bucket{}
	bByName := map[string]platform.ID{}
	for _, b := range buckets {
		bktByID[b.ID] = b
		k := b.OrgID.String() + "\x00" + b.Name
		if prev, dup := bByName[k]; dup {
			add("duplicate_name", f("kind", "bucket"), "buckets %s and %s of organization %s are both named %q", prev, b.ID, b.OrgID, b.Name)
		}
		bByName[k] = b.ID
		if _, ok := orgByID[b.OrgID]; !ok {
			cls := "bucket_without_org"
			if _, del := w.deletedOrgs[b.OrgID]; del {
				cls = "bucket_survived_org_delete"
			}
			add(cls, f("kind", "bucket", "type", b.Type.String()), "bucket %s %q belongs to organization %s which does not exist", b.ID, b.Name, b.OrgID)
		}
		got, err := w.ts.FindBucketByName(ctx, b.OrgID, b.Name)
		if err != nil || got.ID != b.ID {
			add("name_lookup_disagrees", f("kind", "bucket", "via", "service"), "FindBucketByName(%s, %q) of bucket %s returned %v / %v", b.OrgID, b.Name, b.ID, got, err)
		}
		ev("bucket_name_lookup")
	}
	rawB, err := c30RawBucket(w.st, "bucketindexv1")
	if err != nil {
		add("sweep_error", f("what", "bucketindexv1"), "%v", err)
	}
	for _, e := range rawB {
		var id platform.ID
		if err := id.Decode([]byte(e[1])); err != nil || len(e[0]) < platform.IDLength {
			add("index_entry_corrupt", f("kind", "bucket"), "bucket index %q -> %q", e[0], e[1])
			continue
		}
		b, ok := bktByID[id]
		switch {
		case !ok:
			add("dangling_index_entry", f("kind", "bucket"), "bucket name index has %q -> %s but no such bucket exists", e[0], id)
		case b.OrgID.String()+b.Name != e[0]:
			add("index_entry_stale", f("kind", "bucket"), "bucket name index has %q -> %s but that bucket is %s/%q", e[0], id, b.OrgID, b.Name)
		}
		ev("bucket_index_entry")
	}

	// ---- system buckets of living organizations are still there, under their names ----
	for org, ids := range w.sysBuckets {
		if _, alive := orgByID[org]; !alive {
			continue
		}
		for _, id := range ids {
			b, ok := bktByID[id]
			switch {
			case !ok:
				add("system_bucket_deleted", f("kind", "bucket"), "system bucket %s %q of living organization %s is gone", id, w.sysNames[id], org)
			case b.Name != w.sysNames[id]:
				add("system_bucket_renamed", f("kind", "bucket"), "system bucket %s of organization %s was %q and is now %q", id, org, w.sysNames[id], b.Name)
			}
			ev("system_bucket_checked")
		}
	}
	// ---- deleted organizations are gone with their buckets ----
	for org, bs := range w.deletedOrgs {
		if _, alive := orgByID[org]; alive {
			add("org_survived_delete", f("kind", "org"), "organization %s was deleted (nil error) and is still listed", org)
		}
		for _, b := range bs {
			if _, ok := bktByID[b]; ok {
				add("bucket_survived_org_delete", f("kind", "bucket", "type", bktByID[b].Type.String()), "bucket %s of deleted organization %s still exists", b, org)
			}
		}
		ev("deleted_org_checked")
	}

	// ---- memberships ----
	urms, _, err := w.ts.FindUserResourceMappings(ctx, influxdb.UserResourceMappingFilter{})
	if err != nil {
		add("sweep_error", f("what", "FindUserResourceMappings"), "%v", err)
		return
	}
	perUser := map[platform.ID][]string{}
	for _, m := range urms {
		if _, ok := userByID[m.UserID]; !ok {
			add("membership_of_missing_user", f("kind", "urm"), "mapping resource=%s user=%s: the user does not exist", m.ResourceID, m.UserID)
		}
		switch m.ResourceType {
		case influxdb.OrgsResourceType:
			if _, ok := orgByID[m.ResourceID]; !ok && w.tolerated[[2]platform.ID{m.ResourceID, m.UserID}] {
				ev("reported_membership_of_missing_org_seen")
			} else if !ok {
				add("membership_survived_delete", f("kind", "urm", "resource", "org"), "mapping of user %s to organization %s: the organization does not exist", m.UserID, m.ResourceID)
			}
		case influxdb.BucketsResourceType:
			if _, ok := bktByID[m.ResourceID]; !ok && w.tolerated[[2]platform.ID{m.ResourceID, m.UserID}] {
				ev("tolerated_membership_of_missing_bucket_seen")
			} else if !ok {
				add("membership_survived_delete", f("kind", "urm", "resource", "bucket"), "mapping of user %s to bucket %s: the bucket does not exist", m.UserID, m.ResourceID)
			}
		}
		perUser[m.UserID] = append(perUser[m.UserID], m.ResourceID.String())
		ev("membership_checked")
	}
	// lookup by user (index path) agrees with the full listing
	for _, u := range users {
		got, _, err := w.ts.FindUserResourceMappings(ctx, influxdb.UserResourceMappingFilter{UserID: u.ID})
		var ids []string
		for _, m := range got {
			ids = append(ids, m.ResourceID.String())
			if m.UserID != u.ID {
				add("name_lookup_disagrees", f("kind", "urm", "via", "by_user_index"), "mappings of user %s contain a mapping of user %s", u.ID, m.UserID)
			}
		}
		want := perUser[u.ID]
		sort.Strings(ids)
		sort.Strings(want)
		if err != nil || strings.Join(ids, ",") != strings.Join(want, ",") {
			add("name_lookup_disagrees", f("kind", "urm", "via", "by_user_index"), "mappings of user %s by index: %v (err %v), by scan: %v", u.ID, ids, err, want)
		}
		ev("urm_by_user_lookup")
	}
	if diff, err := kv.NewIndex(index.URMByUserIndexMapping, kv.WithIndexReadPathEnabled).Verify(ctx, w.st); err != nil {
		add("sweep_error", f("what", "urm index verify"), "%v", err)
	} else if len(diff.MissingFromIndex) > 0 || len(diff.MissingFromSource) > 0 {
		add("dangling_index_entry", f("kind", "urm"), "urm-by-user index: missing from index %v, missing from source %v", diff.MissingFromIndex, diff.MissingFromSource)
	}
	return
}

func c30OrgStr(o *influxdb.Organization) string {
	if o == nil {
		return "<nil>"
	}
	return fmt.Sprintf("org{%s %q}", o.ID, o.Name)
}

// ---- workload ---------------------------------------------------------------------------------

var (
	c30OrgNames    = []string{"o1", "o2", "o3", "o1 ", " o2", "O1", "o 1", "", " "}
	c30BucketNames = []string{"b1", "b2", "b3", "b1 ", "B1", "_tasks", "_x", "b/1", "b\"q", ""}
	c30UserNames   = []string{"u1", "u2", "u3", "u1 ", "U1", "u/1"}
)

// c30Pick picks a target handle: mostly one that is still alive, sometimes a deleted or a
// never-existing one.
func c30Pick(rg *vkit.Rand, ids []platform.ID, alive func(platform.ID) bool) platform.ID {
	if len(ids) == 0 || rg.Chance(1, 16) {
		return platform.ID(0x4242) // never existed
	}
	id := vkit.Pick(rg, ids)
	if rg.Chance(1, 6) {
		return id
	}
	for try := 0; try < 6 && !alive(id); try++ {
		id = vkit.Pick(rg, ids)
	}
	return id
}

func c30Err(err error) string {
	if err == nil {
		return "ok"
	}
	s := err.Error()
	if len(s) > 60 {
		s = s[:60]
	}
	return "err(" + s + ")"
}

// c30Step performs one random operation; returns its description and outcome-level violations.
func c30Step(w *c30World, rg *vkit.Rand, ev func(string)) (desc string, viol []c30Viol) {
	ctx := context.Background()
	w.lastKind, w.lastTarget, w.lastErr, w.lastRan, w.lastBefore, w.lastNew = "", 0, nil, false, nil, 0
	add := func(class string, feat map[string]string, format string, a ...any) {
		viol = append(viol, c30Viol{class, feat, fmt.Sprintf(format, a...)})
	}
	noteOrg := func(o *influxdb.Organization) {
		w.orgs = append(w.orgs, o.ID)
		w.orgNames[o.ID] = o.Name
		bs, _, err := w.ts.FindBuckets(ctx, influxdb.BucketFilter{OrganizationID: &o.ID})
		if err != nil {
			add("sweep_error", map[string]string{"what": "system buckets"}, "%v", err)
			return
		}
		names := map[string]bool{}
		for _, b := range bs {
			if b.Type == influxdb.BucketTypeSystem {
				w.sysBuckets[o.ID] = append(w.sysBuckets[o.ID], b.ID)
				w.sysNames[b.ID] = b.Name
				names[b.Name] = true
			}
		}
		if !names[influxdb.TasksSystemBucketName] || !names[influxdb.MonitoringSystemBucketName] {
			add("system_bucket_missing", map[string]string{"kind": "bucket"}, "new organization %s has system buckets %v", o.ID, names)
		}
	}
	orgAlive := func(id platform.ID) bool { _, err := w.ts.FindOrganizationByID(ctx, id); return err == nil }
	bktAlive := func(id platform.ID) bool { _, err := w.ts.FindBucketByID(ctx, id); return err == nil }
	userAlive := func(id platform.ID) bool { _, err := w.ts.FindUserByID(ctx, id); return err == nil }
	name := func(pool []string) string { // the first three names of a pool are the plain, valid ones
		if rg.Chance(3, 5) {
			return pool[rg.Intn(3)]
		}
		return vkit.Pick(rg, pool)
	}
	switch k := rg.Intn(40); {
	case k < 4:
		o := &influxdb.Organization{Name: name(c30OrgNames)}
		w.begin("CreateOrganization", 0)
		err := w.ts.CreateOrganization(ctx, o)
		w.lastErr, w.lastNew = err, o.ID
		if err == nil {
			noteOrg(o)
		}
		desc = fmt.Sprintf("CreateOrganization(%q) → %s %s", o.Name, c30Err(err), o.ID)
		ev("op_org_create_" + c30OK(err))
	case k < 8:
		id, n := c30Pick(rg, w.orgs, orgAlive), name(c30OrgNames)
		w.begin("RenameOrganization", id)
		_, err := w.ts.UpdateOrganization(ctx, id, influxdb.OrganizationUpdate{Name: &n})
		w.lastErr = err
		if err == nil {
			w.orgNames[id] = n
		}
		desc = fmt.Sprintf("UpdateOrganization(%s, name=%q) → %s", id, n, c30Err(err))
		ev("op_org_rename_" + c30OK(err))
	case k < 9:
		id, d := c30Pick(rg, w.orgs, orgAlive), "desc"
		w.begin("DescribeOrganization", id)
		_, err := w.ts.UpdateOrganization(ctx, id, influxdb.OrganizationUpdate{Description: &d})
		w.lastErr = err
		desc = fmt.Sprintf("UpdateOrganization(%s, description) → %s", id, c30Err(err))
		ev("op_org_describe_" + c30OK(err))
	case k < 12:
		id := c30Pick(rg, w.orgs, orgAlive)
		before, _, _ := w.ts.FindBuckets(ctx, influxdb.BucketFilter{OrganizationID: &id})
		var bs []platform.ID
		for _, b := range before {
			bs = append(bs, b.ID)
		}
		w.begin("DeleteOrganization", id)
		err := w.ts.DeleteOrganization(ctx, id)
		w.lastErr, w.lastBefore = err, bs
		if err == nil {
			w.deletedOrgs[id] = bs
		}
		desc = fmt.Sprintf("DeleteOrganization(%s) → %s", id, c30Err(err))
		ev("op_org_delete_" + c30OK(err))
	case k < 17:
		b := &influxdb.Bucket{OrgID: c30Pick(rg, w.orgs, orgAlive), Name: name(c30BucketNames), RetentionPeriod: time.Hour}
		w.begin("CreateBucket", b.OrgID)
		err := w.ts.CreateBucket(ctx, b)
		w.lastErr = err
		if err == nil {
			w.buckets = append(w.buckets, b.ID)
		}
		desc = fmt.Sprintf("CreateBucket(org=%s, %q) → %s %s", b.OrgID, b.Name, c30Err(err), b.ID)
		ev("op_bucket_create_" + c30OK(err))
	case k < 21:
		id, n := c30Pick(rg, w.buckets, bktAlive), name(c30BucketNames)
		w.begin("RenameBucket", id)
		_, err := w.ts.UpdateBucket(ctx, id, influxdb.BucketUpdate{Name: &n})
		w.lastErr = err
		desc = fmt.Sprintf("UpdateBucket(%s, name=%q) → %s", id, n, c30Err(err))
		ev("op_bucket_rename_" + c30OK(err))
	case k < 24:
		id := c30Pick(rg, w.buckets, bktAlive)
		w.begin("DeleteBucket", id)
		err := w.ts.DeleteBucket(ctx, id)
		w.lastErr = err
		desc = fmt.Sprintf("DeleteBucket(%s) → %s", id, c30Err(err))
		ev("op_bucket_delete_" + c30OK(err))
	case k < 27: // system buckets: rename / delete must be refused; other updates are allowed
		var sys []platform.ID
		for _, ids := range w.sysBuckets {
			sys = append(sys, ids...)
		}
		sort.Slice(sys, func(i, j int) bool { return sys[i] < sys[j] })
		if len(sys) == 0 {
			desc = "system bucket op skipped (no organization yet)"
			break
		}
		id := vkit.Pick(rg, sys)
		_, ferr := w.ts.FindBucketByID(ctx, id)
		switch rg.Intn(3) {
		case 0:
			n := vkit.Pick(rg, []string{"b1", "_renamed", "_monitoring", "_tasks"})
			w.begin("RenameSystemBucket", id)
			_, err := w.ts.UpdateBucket(ctx, id, influxdb.BucketUpdate{Name: &n})
			w.lastErr = err
			if err == nil && ferr == nil && n != w.sysNames[id] {
				add("system_bucket_renamed", map[string]string{"kind": "bucket", "via": "return_value"}, "UpdateBucket(system bucket %s %q, name=%q) returned nil", id, w.sysNames[id], n)
			}
			desc = fmt.Sprintf("UpdateBucket(system %s %q, name=%q) → %s", id, w.sysNames[id], n, c30Err(err))
			ev("op_sysbucket_rename_" + c30OK(err))
		case 1:
			w.begin("DeleteSystemBucket", id)
			err := w.ts.DeleteBucket(ctx, id)
			w.lastErr = err
			if err == nil && ferr == nil {
				add("system_bucket_deleted", map[string]string{"kind": "bucket", "via": "return_value"}, "DeleteBucket(system bucket %s %q) returned nil", id, w.sysNames[id])
			}
			desc = fmt.Sprintf("DeleteBucket(system %s %q) → %s", id, w.sysNames[id], c30Err(err))
			ev("op_sysbucket_delete_" + c30OK(err))
		default:
			d := "d"
			w.begin("DescribeSystemBucket", id)
			_, err := w.ts.UpdateBucket(ctx, id, influxdb.BucketUpdate{Description: &d})
			w.lastErr = err
			desc = fmt.Sprintf("UpdateBucket(system %s, description) → %s", id, c30Err(err))
			ev("op_sysbucket_describe_" + c30OK(err))
		}
	case k < 29:
		u := &influxdb.User{Name: name(c30UserNames), Status: influxdb.Active}
		w.begin("CreateUser", 0)
		err := w.ts.CreateUser(ctx, u)
		w.lastErr = err
		if err == nil {
			w.users = append(w.users, u.ID)
		}
		desc = fmt.Sprintf("CreateUser(%q) → %s %s", u.Name, c30Err(err), u.ID)
		ev("op_user_create_" + c30OK(err))
	case k < 31:
		id, n := c30Pick(rg, w.users, userAlive), name(c30UserNames)
		w.begin("RenameUser", id)
		_, err := w.ts.UpdateUser(ctx, id, influxdb.UserUpdate{Name: &n})
		w.lastErr = err
		desc = fmt.Sprintf("UpdateUser(%s, name=%q) → %s", id, n, c30Err(err))
		ev("op_user_rename_" + c30OK(err))
	case k < 33:
		id := c30Pick(rg, w.users, userAlive)
		w.begin("DeleteUser", id)
		err := w.ts.DeleteUser(ctx, id)
		w.lastErr = err
		desc = fmt.Sprintf("DeleteUser(%s) → %s", id, c30Err(err))
		ev("op_user_delete_" + c30OK(err))
	case k < 38: // membership on a resource that exists right now
		var res platform.ID
		rt := influxdb.OrgsResourceType
		if rg.Bool() {
			res = c30Pick(rg, w.orgs, orgAlive)
			if _, err := w.ts.FindOrganizationByID(ctx, res); err != nil {
				desc = "CreateUserResourceMapping skipped (organization gone)"
				break
			}
		} else {
			res, rt = c30Pick(rg, w.buckets, bktAlive), influxdb.BucketsResourceType
			if _, err := w.ts.FindBucketByID(ctx, res); err != nil {
				desc = "CreateUserResourceMapping skipped (bucket gone)"
				break
			}
		}
		m := &influxdb.UserResourceMapping{UserID: c30Pick(rg, w.users, userAlive), UserType: vkit.Pick(rg, []influxdb.UserType{influxdb.Owner, influxdb.Member}), MappingType: influxdb.UserMappingType, ResourceType: rt, ResourceID: res}
		w.begin("CreateUserResourceMapping", res)
		err := w.ts.CreateUserResourceMapping(ctx, m)
		w.lastErr = err
		if err == nil {
			w.urms = append(w.urms, [2]platform.ID{m.ResourceID, m.UserID})
		}
		desc = fmt.Sprintf("CreateUserResourceMapping(%s %s, user=%s, %s) → %s", rt, res, m.UserID, m.UserType, c30Err(err))
		ev("op_urm_create_" + c30OK(err))
	default:
		if len(w.urms) == 0 {
			desc = "DeleteUserResourceMapping skipped (none yet)"
			break
		}
		p := vkit.Pick(rg, w.urms)
		w.begin("DeleteUserResourceMapping", p[0])
		err := w.ts.DeleteUserResourceMapping(ctx, p[0], p[1])
		w.lastErr = err
		desc = fmt.Sprintf("DeleteUserResourceMapping(%s, %s) → %s", p[0], p[1], c30Err(err))
		ev("op_urm_delete_" + c30OK(err))
	}
	return
}

func c30OK(err error) string {
	if err == nil {
		return "ok"
	}
	return "refused"
}

type c30Wit struct {
	History []string `json:"history"`
	Message string   `json:"message"`
	Orgs    []string `json:"organizations,omitempty"`
	Index   []string `json:"organization_name_index,omitempty"`
}

func c30Report(r *vkit.Run, w *c30World, hist []string, vs []c30Viol, mode string) {
	seen := map[string]bool{}
	for _, v := range vs {
		k := v.class + fmt.Sprint(v.feat)
		if seen[k] {
			continue
		}
		seen[k] = true
		v.feat["mode"] = mode
		wit := c30Wit{History: hist, Message: v.msg}
		if v.feat["kind"] == "org" {
			orgs, _, _ := w.ts.FindOrganizations(context.Background(), influxdb.OrganizationFilter{})
			for _, o := range orgs {
				wit.Orgs = append(wit.Orgs, c30OrgStr(o))
			}
			raw, _ := c30RawBucket(w.st, "organizationindexv1")
			for _, e := range raw {
				wit.Index = append(wit.Index, fmt.Sprintf("%q -> %s", e[0], e[1]))
			}
		}
		r.Violation(v.class, v.feat, wit)
	}
}

func TestC30(t *testing.T) {
	r := vkit.Start(t, "C30", "exploration")
	defer r.Finish()
	r.Rule("histories of 8–30 random organization/bucket/user/membership operations (create, rename, delete, describe; names from pools of 6–10 with collisions, case and whitespace variants, reserved and empty names; targets incl. deleted and never-existing ids; rename/delete attempts on system buckets) against the real tenant.Service on the in-memory KV store; after every operation a sweep through the service API and the raw name indexes: names unique, every name lookup returns the record, every index entry points to a record of that name, no bucket or membership of a deleted organization/bucket/user, system buckets of living organizations present under their names, by-user membership index = scan; non-trivial = ≥5 operations succeeded incl. a rename or delete; distinct = the history. concurrent part: G goroutines create / rename to the same name at once, then the same sweep, under the race detector. faulted histories: the same operation mix (after a fixture of 1–2 organizations with user buckets, users and memberships) on a real bolt store behind a fault-injecting kv.Store wrapper; about every second operation runs with one fault armed — the N-th Put/Delete of the operation (N up to one past its last mutation, optionally only mutations on one tenant KV bucket) or the commit of its k-th transaction returns an I/O error, once; after an operation with a fault inside: returned nil → judged like any successful operation; returned an error → handles re-synchronised from what the services list, then the same sweep (unique names, index entries agree with records, no bucket or membership of an organization that does not exist); a failed DeleteOrganization is repeated without a fault and must succeed or say not-found, after which organization, buckets and memberships must be gone; non-trivial = ≥1 fault fired and ≥3 operations succeeded")
	ev := func(n string) { r.Event(n, 1) }
	c30FaultedHistories(r, t, ev)
	n := r.N(1200, 12000)
	for h := 0; h < n; h++ {
		rg := r.Rand(h)
		w := c30NewWorld(t)
		steps := rg.Range(8, 30)
		var hist []string
		okOps, structural := 0, 0
		seenSig := map[string]bool{}
		for s := 0; s < steps; s++ {
			desc, vs := c30Step(w, rg, ev)
			hist = append(hist, desc)
			if strings.Contains(desc, "→ ok") {
				okOps++
				if strings.HasPrefix(desc, "Delete") || strings.Contains(desc, "name=") {
					structural++
				}
			}
			vs = append(vs, c30Sweep(w, ev)...)
			// report each kind of violation once per history and keep going: a state that is
			// already broken in one respect must not hide what the rest of the history does
			var fresh []c30Viol
			for _, v := range vs {
				sig := v.class + fmt.Sprint(v.feat)
				if !seenSig[sig] {
					seenSig[sig] = true
					fresh = append(fresh, v)
				}
			}
			if len(fresh) > 0 {
				c30Report(r, w, append([]string(nil), hist...), fresh, "sequential")
			}
		}
		r.Case(strings.Join(hist, "\n"), okOps >= 5 && structural >= 1)
		if h%61 == 7 {
			r.Sample(map[string]any{"history": hist})
		}
	}

	// ---- concurrent creators / renamers with the same name ----------------------------------
	rounds := r.N(12, 400)
	G := 8
	ctx := context.Background()
	for round := 0; round < rounds; round++ {
		rg := r.SubRand("concurrent", round)
		w := c30NewWorld(t)
		var hist []string
		run := func(what string, f func(g int) error) (ok int) {
			var wg sync.WaitGroup
			var mu sync.Mutex
			start := make(chan struct{})
			for g := 0; g < G; g++ {
				wg.Add(1)
				go func(g int) {
					defer wg.Done()
					<-start
					if err := f(g); err == nil {
						mu.Lock()
						ok++
						mu.Unlock()
					}
				}(g)
			}
			close(start)
			wg.Wait()
			hist = append(hist, fmt.Sprintf("%d goroutines: %s → %d succeeded", G, what, ok))
			r.Event("concurrent_batches", 1)
			return ok
		}
		name := vkit.Pick(rg, []string{"dup", "dup ", "o1"})
		// organizations
		var mu sync.Mutex
		var created []*influxdb.Organization
		okN := run(fmt.Sprintf("CreateOrganization(%q)", name), func(g int) error {
			o := &influxdb.Organization{Name: name}
			err := w.ts.CreateOrganization(ctx, o)
			if err == nil {
				mu.Lock()
				created = append(created, o)
				mu.Unlock()
			}
			return err
		})
		var vs []c30Viol
		if okN > 1 {
			vs = append(vs, c30Viol{"duplicate_name", map[string]string{"kind": "org", "via": "return_value"}, fmt.Sprintf("%d concurrent CreateOrganization(%q) calls succeeded", okN, name)})
		}
		for _, o := range created {
			w.orgs = append(w.orgs, o.ID)
		}
		// distinct organizations, then all renamed to one name at once
		var others []*influxdb.Organization
		for g := 0; g < G; g++ {
			o := &influxdb.Organization{Name: fmt.Sprintf("org-%d", g)}
			if err := w.ts.CreateOrganization(ctx, o); err != nil {
				t.Fatalf("fixture: %v", err)
			}
			others = append(others, o)
			w.orgs = append(w.orgs, o.ID)
		}
		target := vkit.Pick(rg, []string{"same", name, "org-3"})
		okN = run(fmt.Sprintf("UpdateOrganization(org-g, name=%q)", target), func(g int) error {
			_, err := w.ts.UpdateOrganization(ctx, others[g].ID, influxdb.OrganizationUpdate{Name: &target})
			return err
		})
		if okN > 1 {
			vs = append(vs, c30Viol{"duplicate_name", map[string]string{"kind": "org", "via": "return_value"}, fmt.Sprintf("%d concurrent renames to %q succeeded", okN, target)})
		}
		// users
		okN = run(`CreateUser("dup")`, func(g int) error {
			return w.ts.CreateUser(ctx, &influxdb.User{Name: "dup", Status: influxdb.Active})
		})
		if okN > 1 {
			vs = append(vs, c30Viol{"duplicate_name", map[string]string{"kind": "user", "via": "return_value"}, fmt.Sprintf("%d concurrent CreateUser(dup) calls succeeded", okN)})
		}
		// buckets in one organization; and the same name in different organizations must all succeed or fail independently
		org := others[0].ID
		okN = run(`CreateBucket(org-0, "dup")`, func(g int) error {
			return w.ts.CreateBucket(ctx, &influxdb.Bucket{OrgID: org, Name: "dup"})
		})
		if okN > 1 {
			vs = append(vs, c30Viol{"duplicate_name", map[string]string{"kind": "bucket", "via": "return_value"}, fmt.Sprintf("%d concurrent CreateBucket(dup) calls in one organization succeeded", okN)})
		}
		run(`CreateBucket(org-g, "shared")`, func(g int) error {
			return w.ts.CreateBucket(ctx, &influxdb.Bucket{OrgID: others[g].ID, Name: "shared"})
		})
		// concurrent delete of an organization and bucket creation inside it
		victim := others[G-1].ID
		run("DeleteOrganization(org-7) ‖ CreateBucket(org-7, b<g>)", func(g int) error {
			if g == 0 {
				before, _, _ := w.ts.FindBuckets(ctx, influxdb.BucketFilter{OrganizationID: &victim})
				err := w.ts.DeleteOrganization(ctx, victim)
				if err == nil {
					var bs []platform.ID
					for _, b := range before {
						bs = append(bs, b.ID)
					}
					mu.Lock()
					w.deletedOrgs[victim] = bs
					mu.Unlock()
				}
				return err
			}
			return w.ts.CreateBucket(ctx, &influxdb.Bucket{OrgID: victim, Name: fmt.Sprintf("b%d", g)})
		})
		sw := c30Sweep(w, ev)
		// a bucket created while its organization was being deleted is a transient the statement
		// does not rule out (no transaction spans the cascade): not asserted
		for _, v := range sw {
			if v.class == "bucket_without_org" || v.class == "bucket_survived_org_delete" || v.class == "membership_survived_delete" {
				r.Event("concurrent_delete_create_leftover_"+v.class, 1)
				continue
			}
			vs = append(vs, v)
		}
		if len(vs) > 0 {
			c30Report(r, w, hist, vs, "concurrent")
		}
		r.Case(fmt.Sprint("conc|", round, "|", name, "|", target), true)
		if round == 0 {
			r.Sample(map[string]any{"concurrent_round": hist})
		}
	}
}
