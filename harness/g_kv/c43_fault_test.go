package g_kv

import (
	"fmt"
	"sort"
	"strings"
	"testing"
	"time"

	"verifharness/vkit"
)

// ---- C43, faulted histories ---------------------------------------------------------------------
//
// The same operations and model as the random histories, on a real bolt store (a failed Update
// rolls back) behind gkvFaultStore; the organizations only have the buckets t0..t2, so every
// mapping of d0/d1 is a physical one. Most operations are first attempted with a fault inside:
// the commit of the transaction, then its 1st, 2nd, … Put/Delete (all KV buckets, or only those
// on one of the four dbrp buckets, mostly dbrpdefaultv1) fail with an I/O error, one position per
// attempt, until an attempt runs past the last position and the operation goes through.
//
//   - attempt returned an error: the four dbrp KV buckets are byte-identical to before (the store
//     is transactional), the model is unchanged, the sweep still holds;
//   - attempt returned nil although the fault fired: the operation claims success, so it must have
//     taken full effect: the model advances and the sweep judges the state;
//   - the final, unfaulted attempt: the oracle of the random histories.

func c43InvName(v c43Viol) string {
	switch v.class {
	case "default_count":
		if v.feat["count"] == "0" {
			return "no_default"
		}
		return "several_defaults"
	case "default_lookup":
		return "empty_rp_lookup"
	case "lookup_error":
		if v.feat["filter"] == "org+db+default" {
			return "empty_rp_lookup_error"
		}
	}
	return v.class
}

type c43FaultWit struct {
	History []string `json:"history"`
	Attempt string   `json:"attempt"`
	Message string   `json:"message"`
	Plan    string   `json:"fault_plan"`
	Trace   []string `json:"mutations_of_the_faulted_attempt"`
	Diff    []string `json:"dbrp_kv_buckets_diff,omitempty"`
	Store   []string `json:"dbrp_kv_buckets,omitempty"`
}

func c43DumpDiff(a, b c43KVState) (out []string) {
	am, bm := map[string]string{}, map[string]string{}
	for _, e := range a {
		am[e[0]+" "+fmt.Sprintf("%q", e[1])] = e[2]
	}
	for _, e := range b {
		bm[e[0]+" "+fmt.Sprintf("%q", e[1])] = e[2]
	}
	for k, v := range am {
		if w, ok := bm[k]; !ok {
			out = append(out, fmt.Sprintf("removed %s = %q", k, v))
		} else if w != v {
			out = append(out, fmt.Sprintf("changed %s: %q -> %q", k, v, w))
		}
	}
	for k, v := range bm {
		if _, ok := am[k]; !ok {
			out = append(out, fmt.Sprintf("added %s = %q", k, v))
		}
	}
	sort.Strings(out)
	return
}

func c43FaultedHistories(r *vkit.Run, t *testing.T, ev func(string)) {
	t0 := time.Now()
	defer func() { r.Extra("faulted_stream_wall_s", time.Since(t0).Seconds()) }()
	st, done := gkvNewBoltStore(t)
	defer done()
	fs := gkvNewFaultStore(st)
	w := c43NewWorldOn(t, fs, []string{"t0", "t1", "t2"})
	w.fs = fs
	n := r.N(400, 6000)
	cover := map[string]map[string]int{}
	reported := map[string]int{}
	empty := c43KVState{}
	for h := 0; h < n; h++ {
		rg := r.SubRand("faulted", h)
		w.load(empty)
		m := c43NewModel()
		length := rg.Range(4, 12)
		focusOrg, focusDB := rg.Intn(2), rg.Intn(2)
		var hist []string
		changed, firedN := 0, 0
		broken := false
		storeDump := func() (out []string) {
			for _, e := range w.dump() {
				out = append(out, fmt.Sprintf("%s %q = %q", e[0], e[1], e[2]))
			}
			return
		}
		for s := 0; s < length && !broken; s++ {
			// operation: kinds weighted towards the ones with default bookkeeping; creates mostly on
			// free slots, the others mostly on mappings that exist (in the focus database first)
			op := c43Op{Kind: vkit.Pick(rg, []string{"create", "create", "create", "setdef", "setdef", "setrp", "delete", "delete", "delete"}), Org: rg.Intn(2), DB: rg.Intn(2), RP: rg.Intn(3), Def: rg.Bool()}
			if rg.Chance(3, 4) {
				op.Org, op.DB = focusOrg, focusDB
			}
			if op.Kind == "create" {
				for try := 0; try < 3 && m.find(op.Org, op.DB, op.RP) != nil && rg.Chance(5, 6); try++ {
					op.RP = (op.RP + 1) % 3
				}
			} else if !rg.Chance(1, 10) {
				if ids := m.ofDB(op.Org, op.DB, 0); len(ids) > 0 {
					op.RP = m.byID(vkit.Pick(rg, ids)).RP
				} else if len(m.maps) > 0 {
					mm := vkit.Pick(rg, m.maps)
					op.Org, op.DB, op.RP = mm.Org, mm.DB, mm.RP
				} else {
					op.Kind = "create"
				}
				// the default itself: delete it / unset it more often than chance would
				if id, ok := m.def[[2]int{op.Org, op.DB}]; ok && op.Kind != "create" && rg.Chance(1, 3) {
					if mm := m.byID(id); mm != nil {
						op.RP = mm.RP
					}
				}
			}
			op.NewRP = (op.RP + 1 + rg.Intn(2)) % 3
			// the fault positions this operation is attempted with before it is let through
			var plans []gkvFault
			only := ""
			switch k := rg.Intn(8); {
			case k < 2: // no fault
			case k < 6:
				if rg.Bool() {
					plans = append(plans, gkvFault{CommitTx: 1})
				}
				plans = append(plans, gkvFault{Mutation: 1})
			default:
				only = "dbrpdefaultv1"
				if rg.Chance(1, 3) {
					only = vkit.Pick(rg, c43KVBuckets)
				}
				plans = append(plans, gkvFault{Mutation: 1, Only: only})
			}
			for a := 0; ; a++ {
				var plan gkvFault
				faulted := a < len(plans) && a < 16
				before := w.dump()
				if faulted {
					plan = plans[a]
					fs.Arm(plan)
				}
				vs, outcome := c43Apply(w, m, op)
				var fi gkvFired
				if faulted {
					fi = fs.Disarm()
				}
				after := w.dump()
				if after.key() != before.key() {
					changed++
				}
				conv := func(v c43Viol) (string, map[string]string) {
					return "invariant_broken_after_faulted_op", map[string]string{"op": op.Kind, "effect": outcome, "fault_at": fi.At(), "fault_op": fi.Op, "fault_bucket": fi.Bucket, "restricted_to": only, "outcome": "nil", "invariant": c43InvName(v), "store": "bolt"}
				}
				report := func(class string, feat map[string]string, msg string, diff []string) {
					for k, v := range feat {
						if v == "" {
							feat[k] = "-"
						}
					}
					sig := class + "|" + feat["op"] + "|" + feat["effect"] + "|" + feat["invariant"] + "|" + feat["fault_bucket"]
					reported[sig]++
					if reported[sig] > 3 {
						ev("further_witness_not_printed")
						return
					}
					r.Violation(class, feat, c43FaultWit{History: append([]string(nil), hist...), Attempt: op.String() + " → " + outcome, Message: msg, Plan: fmt.Sprintf("%+v", plan), Trace: fi.Trace, Diff: diff, Store: storeDump()})
				}
				sweep := func(trigger string) (out []c43Viol) {
					for org := 0; org < 2; org++ {
						out = append(out, c43Sweep(w, m, org, trigger, ev)...)
					}
					return append(out, c43SweepAll(w, trigger, ev)...)
				}

				if !fi.Fired {
					// ---- the operation itself (no fault inside) ---------------------------------
					if faulted {
						ev("fault_armed_not_reached")
					}
					hist = append(hist, op.String()+" → "+outcome)
					r.Event("bolt_op_"+op.Kind+"_"+outcome, 1)
					vs = append(vs, sweep(op.Kind)...)
					seen := map[string]bool{}
					for _, v := range vs {
						delete(v.feat, "trigger")
						sig := v.class + fmt.Sprint(v.feat)
						if seen[sig] {
							continue
						}
						seen[sig] = true
						v.feat["trigger"], v.feat["stream"] = op.Kind, "bolt_faulted_history"
						report(v.class, v.feat, v.msg, nil)
						broken = true
					}
					break
				}

				// ---- the fault fired inside this attempt ----------------------------------------
				firedN++
				ev("fault_fired_" + op.Kind)
				ck := op.Kind
				if cover[ck] == nil {
					cover[ck] = map[string]int{}
				}
				cover[ck][fi.At()+" "+fi.Op+" "+fi.Bucket]++
				if w.lastErr != nil {
					hist = append(hist, fmt.Sprintf("%s ✗ %s   [fault at %s: %s %s]", op, c30Err(w.lastErr), fi.At(), fi.Op, fi.Bucket))
					if !gkvIsInjected(w.lastErr) {
						ev("faulted_attempt_returned_another_error")
					}
					// c43Apply did not touch the model; its "…_rejected" complaint is the injected error
					if d := c43DumpDiff(before, after); len(d) > 0 {
						report("state_changed_by_failed_op", map[string]string{"op": op.Kind, "fault_at": fi.At(), "fault_op": fi.Op, "fault_bucket": fi.Bucket, "restricted_to": only, "store": "bolt"},
							fmt.Sprintf("%s returned %v (fault at %s) and changed the dbrp KV buckets", op, w.lastErr, fi.At()), d)
						broken = true
						break
					}
					ev("failed_attempt_left_store_unchanged")
					var other []c43Viol
					for _, v := range vs {
						if !strings.HasSuffix(v.class, "_rejected") {
							other = append(other, v)
						}
					}
					for _, v := range append(other, sweep(op.Kind)...) {
						class, feat := conv(v)
						feat["outcome"] = "error"
						report(class, feat, v.msg, nil)
						broken = true
					}
					if broken {
						break
					}
					// next position of the same kind
					switch {
					case plan.CommitTx > 0:
					case a+1 == len(plans):
						plans = append(plans, gkvFault{Mutation: plan.Mutation + 1, Only: plan.Only})
					}
					continue
				}
				// the attempt reported success although a write (or the commit) inside it failed
				ev("fault_swallowed_" + op.Kind)
				hist = append(hist, fmt.Sprintf("%s → %s   [fault at %s: %s %s — not reported by the operation]", op, outcome, fi.At(), fi.Op, fi.Bucket))
				seen := map[string]bool{}
				for _, v := range append(vs, sweep(op.Kind)...) {
					class, feat := conv(v)
					if seen[feat["invariant"]] {
						continue
					}
					seen[feat["invariant"]] = true
					report(class, feat, v.msg, c43DumpDiff(before, after))
					broken = true
				}
				break
			}
		}
		r.Case("faulted|"+strings.Join(hist, ";"), firedN >= 1 && changed >= 2)
		if h == 3 || h == 77 {
			r.Sample(map[string]any{"faulted_history": hist, "faulted_attempts": firedN})
		}
	}
	flat := map[string]string{}
	for kind, mm := range cover {
		var ks []string
		for k := range mm {
			ks = append(ks, k)
		}
		sort.Strings(ks)
		var parts []string
		for _, k := range ks {
			parts = append(parts, fmt.Sprintf("%s ×%d", k, mm[k]))
		}
		flat[kind] = strings.Join(parts, "; ")
	}
	r.Extra("faulted_positions_hit", flat)
}
