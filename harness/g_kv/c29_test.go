package g_kv

import (
	"context"
	"fmt"
	"strings"
	"testing"

	"github.com/influxdata/influxdb/v2"
	"github.com/influxdata/influxdb/v2/authorization"
	"github.com/influxdata/influxdb/v2/authorizer"
	icontext "github.com/influxdata/influxdb/v2/context"
	"github.com/influxdata/influxdb/v2/inmem"
	"github.com/influxdata/influxdb/v2/kit/platform"
	"github.com/influxdata/influxdb/v2/kit/platform/errors"
	"github.com/influxdata/influxdb/v2/tenant"

	"verifharness/vkit"
)

// ---- world: raw services (ground truth) and the authorizing wrappers around them -------------

type c29World struct {
	t      testing.TB
	st     *inmem.KVStore
	ts     *tenant.Service
	auth   influxdb.AuthorizationService // unwrapped
	family string

	wb influxdb.BucketService
	wo influxdb.OrganizationService
	wu influxdb.UserService
	wa influxdb.AuthorizationService

	orgs, buckets, users, auths []platform.ID
	orgNames                    map[platform.ID]string
	bucketNames                 map[platform.ID]string
	userNames                   map[platform.ID]string
	tokens                      map[platform.ID]string
}

func c29NewWorld(t testing.TB, rg *vkit.Rand) *c29World {
	ctx := context.Background()
	w := &c29World{t: t, st: gkvNewStore(t), orgNames: map[platform.ID]string{}, bucketNames: map[platform.ID]string{}, userNames: map[platform.ID]string{}, tokens: map[platform.ID]string{}}
	w.ts = tenant.NewService(tenant.NewStore(w.st))
	w.ts.Apply(tenant.WithTaskService(gkvNoTasks{}))
	as, err := authorization.NewStore(ctx, w.st, rg.Bool())
	if err != nil {
		t.Fatalf("authorization store: %v", err)
	}
	w.auth = authorization.NewService(as, w.ts)
	if rg.Bool() {
		w.family = "authorizer"
		w.wb, w.wo, w.wu = authorizer.NewBucketService(w.ts), authorizer.NewOrgService(w.ts), authorizer.NewUserService(w.ts)
		w.wa = authorizer.NewAuthorizationService(w.auth)
	} else {
		w.family = "tenant/authorization middleware"
		w.wb, w.wo, w.wu = tenant.NewAuthedBucketService(w.ts), tenant.NewAuthedOrgService(w.ts), tenant.NewAuthedUserService(w.ts)
		w.wa = authorization.NewAuthedAuthorizationService(w.auth, w.ts)
	}
	for i := 0; i < 3; i++ {
		u := &influxdb.User{Name: fmt.Sprintf("user%d", i), Status: influxdb.Active}
		if err := w.ts.CreateUser(ctx, u); err != nil {
			t.Fatalf("fixture user: %v", err)
		}
		w.users = append(w.users, u.ID)
		w.userNames[u.ID] = u.Name
	}
	for i := 0; i < 3; i++ {
		o := &influxdb.Organization{Name: fmt.Sprintf("org%d", i)}
		if err := w.ts.CreateOrganization(ctx, o); err != nil {
			t.Fatalf("fixture org: %v", err)
		}
		w.orgs = append(w.orgs, o.ID)
		w.orgNames[o.ID] = o.Name
		for j := 0; j < 2; j++ {
			b := &influxdb.Bucket{OrgID: o.ID, Name: fmt.Sprintf("bucket%d", j)} // same names in every organization
			if err := w.ts.CreateBucket(ctx, b); err != nil {
				t.Fatalf("fixture bucket: %v", err)
			}
			w.buckets = append(w.buckets, b.ID)
			w.bucketNames[b.ID] = b.Name
		}
		// system buckets are targets too
		bs, _, _ := w.ts.FindBuckets(ctx, influxdb.BucketFilter{OrganizationID: &o.ID})
		for _, b := range bs {
			if b.Type == influxdb.BucketTypeSystem {
				w.buckets = append(w.buckets, b.ID)
				w.bucketNames[b.ID] = b.Name
			}
		}
		for j := 0; j < 2; j++ {
			a := &influxdb.Authorization{OrgID: o.ID, UserID: w.users[(i+j)%3], Token: fmt.Sprintf("tok-%d-%d-%d", i, j, rg.Intn(1<<30)), Status: influxdb.Active,
				Permissions: []influxdb.Permission{{Action: influxdb.ReadAction, Resource: influxdb.Resource{Type: influxdb.BucketsResourceType, OrgID: &o.ID}}}}
			if err := w.auth.CreateAuthorization(ctx, a); err != nil {
				t.Fatalf("fixture authorization: %v", err)
			}
			w.auths = append(w.auths, a.ID)
			w.tokens[a.ID] = a.Token
		}
	}
	return w
}

// ---- caller -----------------------------------------------------------------------------------

type c29Caller struct {
	perms  []influxdb.Permission
	active bool
	absent bool // no authorizer on the context at all
	userID platform.ID
}

func (c *c29Caller) may(q influxdb.Permission) (must, may bool) {
	if !c.active || c.absent {
		return false, false
	}
	return c28RefSet(c.perms, q)
}

func c29Q(a influxdb.Action, rt influxdb.ResourceType, id, org *platform.ID) influxdb.Permission {
	return influxdb.Permission{Action: a, Resource: influxdb.Resource{Type: rt, ID: id, OrgID: org}}
}

func c29And(xs ...[2]bool) (must, may bool) {
	must, may = true, true
	for _, x := range xs {
		must = must && x[0]
		may = may && x[1]
	}
	return
}

// c29Profile: caller permission sets shaped like the ones InfluxDB hands out (owner, member,
// operator, "token manager") next to arbitrary ones, so that a good share of calls is permitted
// and the deciding check is often the last one (e.g. the granted permissions of a new token).
func c29Profile(rg *vkit.Rand, w *c29World, user platform.ID) ([]influxdb.Permission, string) {
	org := vkit.Pick(rg, w.orgs)
	switch k := rg.Intn(20); {
	case k < 6:
		return c29GenPerms(rg, w), "arbitrary"
	case k < 10:
		ps := append(influxdb.OwnerPermissions(org), influxdb.MePermissions(user)...)
		if rg.Bool() {
			ps = append(ps, c29Q(influxdb.WriteAction, influxdb.UsersResourceType, gkvIDp(vkit.Pick(rg, w.users)), nil))
		}
		return ps, "org_owner"
	case k < 12:
		return append(influxdb.MemberPermissions(org), influxdb.MePermissions(user)...), "org_member"
	case k < 13:
		return influxdb.OperPermissions(), "operator"
	case k < 17: // may create tokens in one org for one or all users; holds a few resource permissions
		ps := []influxdb.Permission{c29Q(influxdb.WriteAction, influxdb.AuthorizationsResourceType, nil, &org), c29Q(influxdb.ReadAction, influxdb.AuthorizationsResourceType, nil, &org)}
		if rg.Bool() {
			ps = append(ps, c29Q(influxdb.WriteAction, influxdb.UsersResourceType, nil, nil), c29Q(influxdb.ReadAction, influxdb.UsersResourceType, nil, nil))
		} else {
			u := vkit.Pick(rg, w.users)
			ps = append(ps, c29Q(influxdb.WriteAction, influxdb.UsersResourceType, &u, nil), c29Q(influxdb.ReadAction, influxdb.UsersResourceType, &u, nil))
		}
		return append(ps, c29GenPerms(rg, w)...), "token_manager"
	default: // writer on users and on a couple of buckets / orgs by id
		ps := []influxdb.Permission{c29Q(influxdb.WriteAction, influxdb.UsersResourceType, nil, nil), c29Q(influxdb.WriteAction, influxdb.OrgsResourceType, nil, nil)}
		for i := 0; i < 3; i++ {
			b := vkit.Pick(rg, w.buckets)
			ps = append(ps, c29Q(vkit.Pick(rg, []influxdb.Action{influxdb.ReadAction, influxdb.WriteAction}), influxdb.BucketsResourceType, &b, nil))
		}
		return ps, "type_wide_writer"
	}
}

func c29GenPerms(rg *vkit.Rand, w *c29World) []influxdb.Permission {
	n := rg.Intn(7)
	readOnly := rg.Chance(1, 4)
	types := []influxdb.ResourceType{influxdb.BucketsResourceType, influxdb.OrgsResourceType, influxdb.UsersResourceType, influxdb.AuthorizationsResourceType}
	var ps []influxdb.Permission
	for i := 0; i < n; i++ {
		p := influxdb.Permission{Action: influxdb.WriteAction}
		if readOnly || rg.Bool() {
			p.Action = influxdb.ReadAction
		}
		p.Resource.Type = vkit.Pick(rg, types)
		switch {
		case rg.Chance(1, 40):
			p.Resource.Type = influxdb.InstanceResourceType
		case rg.Chance(1, 15):
			p.Resource.Type = influxdb.DashboardsResourceType
		}
		idsOf := func(t influxdb.ResourceType) []platform.ID {
			switch t {
			case influxdb.BucketsResourceType:
				return w.buckets
			case influxdb.OrgsResourceType:
				return w.orgs
			case influxdb.UsersResourceType:
				return w.users
			case influxdb.AuthorizationsResourceType:
				return w.auths
			}
			return w.orgs
		}
		switch k := rg.Intn(20); {
		case k < 3: // type-wide
		case k < 10: // organization-scoped
			p.Resource.OrgID = gkvIDp(vkit.Pick(rg, w.orgs))
		case k < 17: // resource-scoped; sometimes the id of a resource of another type
			ids := idsOf(p.Resource.Type)
			if rg.Chance(1, 8) {
				ids = idsOf(vkit.Pick(rg, types))
			}
			p.Resource.ID = gkvIDp(vkit.Pick(rg, ids))
		default: // org + id (NewPermissionAtID); the org may or may not be the resource's
			p.Resource.ID = gkvIDp(vkit.Pick(rg, idsOf(p.Resource.Type)))
			p.Resource.OrgID = gkvIDp(vkit.Pick(rg, w.orgs))
		}
		ps = append(ps, p)
	}
	return ps
}

type c29Wit struct {
	Wrapper  string   `json:"wrapper_family"`
	Caller   []string `json:"caller_permissions"`
	Token    string   `json:"caller_token"`
	History  []string `json:"history"`
	Call     string   `json:"call"`
	Message  string   `json:"message"`
	Required []string `json:"required,omitempty"`
	Diff     []string `json:"store_diff,omitempty"`
}

func c29Denied(err error) bool {
	c := errors.ErrorCode(err)
	return err != nil && (c == errors.EUnauthorized || c == errors.EForbidden)
}

func TestC29(t *testing.T) {
	r := vkit.Start(t, "C29", "exploration")
	defer r.Finish()
	r.Rule("each case: fresh in-memory KV with 3 orgs × (2 user + 2 system buckets, 2 tokens), 3 users; one wrapper family (authorizer.* or tenant.Authed*/authorization.Authed*) and one caller (0–6 permissions: type-wide, org-scoped, id-scoped, org+id, read-only sets, foreign-type ids, instance; 1 in 10 inactive token, 1 in 25 no authorizer); 16 wrapped calls over every Find*/Create/Update/Delete of bucket, org, user and authorization services with targets in all orgs; ground truth read through the unwrapped services, permission needed for each target evaluated with the C28 reference predicate; checks: every returned resource readable, mutation by a caller lacking the write permission (or, for tokens, any granted permission) fails, and a denied call leaves the full KV dump byte-identical; non-trivial = the history contains both a permitted result and a denial; distinct = (caller, calls)")
	ctxBare := context.Background()
	n := r.N(3000, 40000)
	for cno := 0; cno < n; cno++ {
		rg := r.Rand(cno)
		w := c29NewWorld(t, rg)
		caller := &c29Caller{active: !rg.Chance(1, 10), absent: rg.Chance(1, 25), userID: vkit.Pick(rg, w.users)}
		var profile string
		caller.perms, profile = c29Profile(rg, w, caller.userID)
		r.Event("caller_profile_"+profile, 1)
		status := influxdb.Active
		if !caller.active {
			status = influxdb.Inactive
		}
		ctx := ctxBare
		tokDesc := "active"
		if caller.absent {
			tokDesc = "no authorizer on context"
		} else {
			ctx = icontext.SetAuthorizer(ctxBare, &influxdb.Authorization{ID: 0xabc, Status: status, UserID: caller.userID, OrgID: w.orgs[0], Permissions: caller.perms})
			if !caller.active {
				tokDesc = "inactive"
			}
		}
		var hist []string
		permitted, denials := 0, 0
		fail := func(class string, feat map[string]string, call, msg string, req []influxdb.Permission, diff []string) {
			feat["wrapper"] = w.family
			feat["token"] = tokDesc
			gkvLoud(func() {
				r.Violation(class, feat, c29Wit{Wrapper: w.family, Caller: c28Strs(caller.perms), Token: tokDesc, History: append([]string(nil), hist...), Call: call, Message: msg, Required: c28Strs(req), Diff: diff})
			})
		}
		// --- read checks
		bucketReq := func(b *influxdb.Bucket) influxdb.Permission {
			if b.Type == influxdb.BucketTypeSystem { // documented: readable by whoever may read the organization
				return c29Q(influxdb.ReadAction, influxdb.OrgsResourceType, &b.OrgID, nil)
			}
			return c29Q(influxdb.ReadAction, influxdb.BucketsResourceType, &b.ID, &b.OrgID)
		}
		checkBuckets := func(call string, bs []*influxdb.Bucket) {
			for _, b := range bs {
				if b == nil {
					continue
				}
				q := bucketReq(b)
				r.Event("returned_bucket", 1)
				if _, may := caller.may(q); !may {
					fail("unreadable_resource_returned", map[string]string{"call": strings.SplitN(call, "(", 2)[0], "resource": "bucket", "bucket_type": b.Type.String()}, call,
						fmt.Sprintf("returned bucket %s %q of organization %s (%s)", b.ID, b.Name, w.orgNames[b.OrgID], b.Type), []influxdb.Permission{q}, nil)
				} else {
					permitted++
				}
			}
		}
		checkOrgs := func(call string, os []*influxdb.Organization) {
			for _, o := range os {
				if o == nil {
					continue
				}
				q := c29Q(influxdb.ReadAction, influxdb.OrgsResourceType, &o.ID, nil)
				r.Event("returned_org", 1)
				if _, may := caller.may(q); !may {
					fail("unreadable_resource_returned", map[string]string{"call": strings.SplitN(call, "(", 2)[0], "resource": "org"}, call, fmt.Sprintf("returned organization %s %q", o.ID, o.Name), []influxdb.Permission{q}, nil)
				} else {
					permitted++
				}
			}
		}
		checkUsers := func(call string, us []*influxdb.User) {
			for _, u := range us {
				if u == nil {
					continue
				}
				q := c29Q(influxdb.ReadAction, influxdb.UsersResourceType, &u.ID, nil)
				r.Event("returned_user", 1)
				if _, may := caller.may(q); !may {
					fail("unreadable_resource_returned", map[string]string{"call": strings.SplitN(call, "(", 2)[0], "resource": "user"}, call, fmt.Sprintf("returned user %s %q", u.ID, u.Name), []influxdb.Permission{q}, nil)
				} else {
					permitted++
				}
			}
		}
		checkAuths := func(call string, as []*influxdb.Authorization) {
			for _, a := range as {
				if a == nil {
					continue
				}
				q1 := c29Q(influxdb.ReadAction, influxdb.AuthorizationsResourceType, &a.ID, &a.OrgID)
				q2 := c29Q(influxdb.ReadAction, influxdb.UsersResourceType, &a.UserID, nil)
				r.Event("returned_authorization", 1)
				_, m1 := caller.may(q1)
				_, m2 := caller.may(q2)
				if !m1 || !m2 {
					fail("unreadable_resource_returned", map[string]string{"call": strings.SplitN(call, "(", 2)[0], "resource": "authorization", "missing": fmt.Sprintf("authorization=%v,user=%v", !m1, !m2)}, call,
						fmt.Sprintf("returned authorization %s (org %s, user %s)", a.ID, w.orgNames[a.OrgID], w.userNames[a.UserID]), []influxdb.Permission{q1, q2}, nil)
				} else {
					permitted++
				}
			}
		}
		// --- mutation check
		mutate := func(call string, resource string, req []influxdb.Permission, known bool, f func() error) {
			must, may := true, true
			for _, q := range req {
				m1, m2 := caller.may(q)
				must, may = must && m1, may && m2
			}
			before := gkvDumpStore(t, w.st)
			err := f()
			after := gkvDumpStore(t, w.st)
			changed := before.hash() != after.hash()
			verb := strings.SplitN(call, "(", 2)[0]
			hist = append(hist, fmt.Sprintf("%s → %s [allowed=%v changed=%v]", call, c30Err(err), may, changed))
			r.Event("mutation_calls", 1)
			switch {
			case known && !may && err == nil:
				fail("unauthorized_mutation_succeeded", map[string]string{"call": verb, "resource": resource}, call, "the caller lacks a required permission and the call returned nil", req, before.diff(after, 8))
			case known && !may && changed:
				fail("denied_call_changed_state", map[string]string{"call": verb, "resource": resource, "error": "unauthorized_by_oracle"}, call, fmt.Sprintf("the caller lacks a required permission, the call failed (%v) but the store changed", err), req, before.diff(after, 8))
			case c29Denied(err) && changed:
				fail("denied_call_changed_state", map[string]string{"call": verb, "resource": resource, "error": errors.ErrorCode(err)}, call, fmt.Sprintf("the call was denied (%v) but the store changed", err), req, before.diff(after, 8))
			}
			if known && !may {
				denials++
				r.Event("mutations_denied_by_oracle", 1)
			} else if err == nil {
				permitted++
				r.Event("mutations_succeeded", 1)
			}
			_ = must
		}
		read := func(call string, err error, n int) {
			hist = append(hist, fmt.Sprintf("%s → %s [%d returned]", call, c30Err(err), n))
			r.Event("read_calls", 1)
			if c29Denied(err) {
				denials++
			}
		}

		steps := 16
		unmute := gkvMute() // Permission.matchesV1 prints a newline-less diagnostic for org+id permissions
		for s := 0; s < steps; s++ {
			org := vkit.Pick(rg, w.orgs)
			bkt := vkit.Pick(rg, w.buckets)
			usr := vkit.Pick(rg, w.users)
			ath := vkit.Pick(rg, w.auths)
			switch rg.Intn(26) {
			case 0:
				b, err := w.wb.FindBucketByID(ctx, bkt)
				read(fmt.Sprintf("FindBucketByID(%s)", bkt), err, c29N(b != nil && err == nil))
				if err == nil {
					checkBuckets("FindBucketByID", []*influxdb.Bucket{b})
				}
			case 1:
				name := vkit.Pick(rg, []string{"bucket0", "bucket1", "_tasks", "_monitoring"})
				b, err := w.wb.FindBucketByName(ctx, org, name)
				read(fmt.Sprintf("FindBucketByName(%s,%q)", w.orgNames[org], name), err, c29N(b != nil && err == nil))
				if err == nil {
					checkBuckets("FindBucketByName", []*influxdb.Bucket{b})
				}
			case 2:
				f := influxdb.BucketFilter{}
				name := vkit.Pick(rg, []string{"bucket0", "bucket1", "_tasks"})
				switch rg.Intn(3) {
				case 0:
					f.ID = &bkt
				case 1:
					f.Name, f.OrganizationID = &name, &org
				default:
					f.Name = &name // first bucket of that name in any organization
				}
				b, err := w.wb.FindBucket(ctx, f)
				read(fmt.Sprintf("FindBucket(%v)", c29BF(w, f)), err, c29N(b != nil && err == nil))
				if err == nil {
					checkBuckets("FindBucket", []*influxdb.Bucket{b})
				}
			case 3, 4:
				f := influxdb.BucketFilter{}
				name := vkit.Pick(rg, []string{"bucket0", "bucket1", "_tasks"})
				on := w.orgNames[org]
				switch rg.Intn(5) {
				case 0:
					f.OrganizationID = &org
				case 1:
					f.Name = &name
				case 2:
					f.Org = &on
				case 3:
					f.ID = &bkt
				}
				bs, _, err := w.wb.FindBuckets(ctx, f)
				read(fmt.Sprintf("FindBuckets(%v)", c29BF(w, f)), err, len(bs))
				if err == nil {
					checkBuckets("FindBuckets", bs)
				}
			case 5:
				o, err := w.wo.FindOrganizationByID(ctx, org)
				read(fmt.Sprintf("FindOrganizationByID(%s)", w.orgNames[org]), err, c29N(o != nil && err == nil))
				if err == nil {
					checkOrgs("FindOrganizationByID", []*influxdb.Organization{o})
				}
			case 6:
				f := influxdb.OrganizationFilter{}
				on := w.orgNames[org]
				if rg.Bool() {
					f.Name = &on
				} else {
					f.ID = &org
				}
				o, err := w.wo.FindOrganization(ctx, f)
				read(fmt.Sprintf("FindOrganization(%s)", on), err, c29N(o != nil && err == nil))
				if err == nil {
					checkOrgs("FindOrganization", []*influxdb.Organization{o})
				}
			case 7:
				f := influxdb.OrganizationFilter{}
				on := w.orgNames[org]
				switch rg.Intn(4) {
				case 0:
					f.Name = &on
				case 1:
					f.UserID = &usr
				case 2:
					f.ID = &org
				}
				os, _, err := w.wo.FindOrganizations(ctx, f)
				read("FindOrganizations", err, len(os))
				if err == nil {
					checkOrgs("FindOrganizations", os)
				}
			case 8:
				u, err := w.wu.FindUserByID(ctx, usr)
				read(fmt.Sprintf("FindUserByID(%s)", w.userNames[usr]), err, c29N(u != nil && err == nil))
				if err == nil {
					checkUsers("FindUserByID", []*influxdb.User{u})
				}
			case 9:
				un := w.userNames[usr]
				f := influxdb.UserFilter{Name: &un}
				if rg.Bool() {
					f = influxdb.UserFilter{ID: &usr}
				}
				u, err := w.wu.FindUser(ctx, f)
				read(fmt.Sprintf("FindUser(%s)", un), err, c29N(u != nil && err == nil))
				if err == nil {
					checkUsers("FindUser", []*influxdb.User{u})
				}
			case 10:
				f := influxdb.UserFilter{}
				un := w.userNames[usr]
				if rg.Chance(1, 3) {
					f.Name = &un
				}
				us, _, err := w.wu.FindUsers(ctx, f)
				read("FindUsers", err, len(us))
				if err == nil {
					checkUsers("FindUsers", us)
				}
			case 11:
				a, err := w.wa.FindAuthorizationByID(ctx, ath)
				read(fmt.Sprintf("FindAuthorizationByID(%s)", ath), err, c29N(a != nil && err == nil))
				if err == nil {
					checkAuths("FindAuthorizationByID", []*influxdb.Authorization{a})
				}
			case 12:
				a, err := w.wa.FindAuthorizationByToken(ctx, w.tokens[ath])
				read(fmt.Sprintf("FindAuthorizationByToken(token of %s)", ath), err, c29N(a != nil && err == nil))
				if err == nil {
					checkAuths("FindAuthorizationByToken", []*influxdb.Authorization{a})
				}
			case 13, 14:
				f := influxdb.AuthorizationFilter{}
				tok := w.tokens[ath]
				switch rg.Intn(5) {
				case 0:
					f.UserID = &usr
				case 1:
					f.OrgID = &org
				case 2:
					f.ID = &ath
				case 3:
					f.Token = &tok
				}
				as, _, err := w.wa.FindAuthorizations(ctx, f)
				read("FindAuthorizations", err, len(as))
				if err == nil {
					checkAuths("FindAuthorizations", as)
				}
			case 15:
				name := vkit.Pick(rg, []string{"new0", "new1", "bucket0"})
				mutate(fmt.Sprintf("CreateBucket(%s,%q)", w.orgNames[org], name), "bucket", []influxdb.Permission{c29Q(influxdb.WriteAction, influxdb.BucketsResourceType, nil, &org)}, true,
					func() error { return w.wb.CreateBucket(ctx, &influxdb.Bucket{OrgID: org, Name: name}) })
			case 16, 17:
				b, gerr := w.ts.FindBucketByID(ctxBare, bkt)
				var req []influxdb.Permission
				if gerr == nil {
					req = []influxdb.Permission{c29Q(influxdb.WriteAction, influxdb.BucketsResourceType, &bkt, &b.OrgID)}
				}
				if rg.Bool() {
					d := "changed"
					upd := influxdb.BucketUpdate{Description: &d}
					if rg.Bool() {
						nn := vkit.Pick(rg, []string{"renamed", "bucket1"})
						upd = influxdb.BucketUpdate{Name: &nn}
					}
					mutate(fmt.Sprintf("UpdateBucket(%s %q)", bkt, w.bucketNames[bkt]), "bucket", req, gerr == nil, func() error { _, err := w.wb.UpdateBucket(ctx, bkt, upd); return err })
				} else {
					mutate(fmt.Sprintf("DeleteBucket(%s %q)", bkt, w.bucketNames[bkt]), "bucket", req, gerr == nil, func() error { return w.wb.DeleteBucket(ctx, bkt) })
				}
			case 18:
				name := vkit.Pick(rg, []string{"neworg", "org1"})
				mutate(fmt.Sprintf("CreateOrganization(%q)", name), "org", []influxdb.Permission{c29Q(influxdb.WriteAction, influxdb.OrgsResourceType, nil, nil)}, true,
					func() error { return w.wo.CreateOrganization(ctx, &influxdb.Organization{Name: name}) })
			case 19:
				req := []influxdb.Permission{c29Q(influxdb.WriteAction, influxdb.OrgsResourceType, &org, nil)}
				if rg.Chance(2, 3) {
					d := "changed"
					upd := influxdb.OrganizationUpdate{Description: &d}
					if rg.Bool() {
						nn := vkit.Pick(rg, []string{"renamedorg", "org2"})
						upd = influxdb.OrganizationUpdate{Name: &nn}
					}
					mutate(fmt.Sprintf("UpdateOrganization(%s)", w.orgNames[org]), "org", req, true, func() error { _, err := w.wo.UpdateOrganization(ctx, org, upd); return err })
				} else {
					mutate(fmt.Sprintf("DeleteOrganization(%s)", w.orgNames[org]), "org", req, true, func() error { return w.wo.DeleteOrganization(ctx, org) })
				}
			case 20:
				name := vkit.Pick(rg, []string{"newuser", "user1"})
				mutate(fmt.Sprintf("CreateUser(%q)", name), "user", []influxdb.Permission{c29Q(influxdb.WriteAction, influxdb.UsersResourceType, nil, nil)}, true,
					func() error { return w.wu.CreateUser(ctx, &influxdb.User{Name: name, Status: influxdb.Active}) })
			case 21:
				req := []influxdb.Permission{c29Q(influxdb.WriteAction, influxdb.UsersResourceType, &usr, nil)}
				if rg.Chance(2, 3) {
					nn := vkit.Pick(rg, []string{"renameduser", "user2"})
					upd := influxdb.UserUpdate{Name: &nn}
					if rg.Bool() {
						st := influxdb.Inactive
						upd = influxdb.UserUpdate{Status: &st}
					}
					mutate(fmt.Sprintf("UpdateUser(%s)", w.userNames[usr]), "user", req, true, func() error { _, err := w.wu.UpdateUser(ctx, usr, upd); return err })
				} else {
					mutate(fmt.Sprintf("DeleteUser(%s)", w.userNames[usr]), "user", req, true, func() error { return w.wu.DeleteUser(ctx, usr) })
				}
			case 22, 23:
				// token creation: the permissions granted are the caller's own, narrowed ones, or arbitrary ones
				var grant []influxdb.Permission
				for k := rg.Intn(4); k > 0; k-- {
					switch {
					case len(caller.perms) > 0 && rg.Chance(1, 2):
						p := vkit.Pick(rg, caller.perms)
						if p.Resource.OrgID != nil && p.Resource.ID == nil && rg.Bool() && p.Resource.Type == influxdb.BucketsResourceType {
							p.Resource.ID = gkvIDp(vkit.Pick(rg, w.buckets)) // narrower: one resource inside the organization the caller holds
						}
						grant = append(grant, p)
					default:
						grant = append(grant, c29GenPerms(rg, w)...)
					}
				}
				if len(grant) > 3 {
					grant = grant[:3]
				}
				// the same resource twice with different actions (read + write on one bucket is what a
				// UI offers): each entry has to be held on its own, in either order
				if rg.Chance(1, 3) {
					var base influxdb.Permission
					if len(caller.perms) > 0 && rg.Chance(3, 4) {
						base = vkit.Pick(rg, caller.perms)
					} else if gp := c29GenPerms(rg, w); len(gp) > 0 {
						base = gp[0]
					}
					if base.Resource.Type != "" {
						other := base
						other.Action = influxdb.WriteAction
						if base.Action == influxdb.WriteAction {
							other.Action = influxdb.ReadAction
						}
						pair := []influxdb.Permission{base, other}
						if rg.Bool() {
							pair[0], pair[1] = pair[1], pair[0]
						}
						if len(grant) > 1 {
							grant = grant[:1]
						}
						if rg.Bool() {
							grant = append(pair, grant...)
						} else {
							grant = append(grant, pair...)
						}
						r.Event("token_creation_same_resource_two_actions", 1)
					}
				}
				aorg := org
				if len(grant) > 0 && grant[0].Resource.OrgID != nil && rg.Chance(3, 4) {
					aorg = *grant[0].Resource.OrgID // Authorization.Valid wants the org of scoped permissions to be the token's
				}
				req := []influxdb.Permission{c29Q(influxdb.WriteAction, influxdb.AuthorizationsResourceType, nil, &aorg), c29Q(influxdb.WriteAction, influxdb.UsersResourceType, &usr, nil)}
				{ // how often is the granted-permissions check the deciding one?
					_, m1 := caller.may(req[0])
					_, m2 := caller.may(req[1])
					held := true
					for _, g := range grant {
						if _, m := caller.may(g); !m {
							held = false
						}
					}
					switch {
					case m1 && m2 && !held:
						r.Event("token_creation_decided_by_grant_list", 1)
					case m1 && m2 && len(grant) > 0:
						r.Event("token_creation_with_held_grants", 1)
					}
				}
				req = append(req, grant...)
				mutate(fmt.Sprintf("CreateAuthorization(org=%s,user=%s,grant=%v)", w.orgNames[aorg], w.userNames[usr], c28Strs(grant)), "authorization", req, true,
					func() error {
						return w.wa.CreateAuthorization(ctx, &influxdb.Authorization{OrgID: aorg, UserID: usr, Status: influxdb.Active, Permissions: grant})
					})
			default:
				a, gerr := w.auth.FindAuthorizationByID(ctxBare, ath)
				var req []influxdb.Permission
				if gerr == nil {
					req = []influxdb.Permission{c29Q(influxdb.WriteAction, influxdb.AuthorizationsResourceType, &ath, &a.OrgID), c29Q(influxdb.WriteAction, influxdb.UsersResourceType, &a.UserID, nil)}
				}
				if rg.Bool() {
					st := vkit.Pick(rg, []influxdb.Status{influxdb.Inactive, influxdb.Active})
					mutate(fmt.Sprintf("UpdateAuthorization(%s,status=%s)", ath, st), "authorization", req, gerr == nil, func() error {
						_, err := w.wa.UpdateAuthorization(ctx, ath, &influxdb.AuthorizationUpdate{Status: &st})
						return err
					})
				} else {
					mutate(fmt.Sprintf("DeleteAuthorization(%s)", ath), "authorization", req, gerr == nil, func() error { return w.wa.DeleteAuthorization(ctx, ath) })
				}
			}
		}
		unmute()
		r.Case(fmt.Sprint(w.family, "|", tokDesc, "|", c28Strs(caller.perms), "|", strings.Join(hist, ";")), permitted > 0 && denials > 0)
		if cno%53 == 4 {
			r.Sample(map[string]any{"wrapper_family": w.family, "caller_permissions": c28Strs(caller.perms), "caller_token": tokDesc, "history": hist})
		}
	}
}

func c29N(b bool) int {
	if b {
		return 1
	}
	return 0
}

func c29BF(w *c29World, f influxdb.BucketFilter) string {
	var parts []string
	if f.ID != nil {
		parts = append(parts, "id="+f.ID.String())
	}
	if f.Name != nil {
		parts = append(parts, "name="+*f.Name)
	}
	if f.OrganizationID != nil {
		parts = append(parts, "org="+w.orgNames[*f.OrganizationID])
	}
	if f.Org != nil {
		parts = append(parts, "orgname="+*f.Org)
	}
	return "{" + strings.Join(parts, ",") + "}"
}
