package g_kv

import (
	"context"
	"crypto/sha256"
	"crypto/sha512"
	"encoding/base64"
	eBase "errors"
	"fmt"
	"net/http"
	"net/http/httptest"
	"strings"
	"testing"
	"time"

	"github.com/influxdata/influxdb/v2"
	"github.com/influxdata/influxdb/v2/authorization"
	icontext "github.com/influxdata/influxdb/v2/context"
	ihttp "github.com/influxdata/influxdb/v2/http"
	"github.com/influxdata/influxdb/v2/inmem"
	"github.com/influxdata/influxdb/v2/kit/platform"
	"github.com/influxdata/influxdb/v2/kit/platform/errors"
	kithttp "github.com/influxdata/influxdb/v2/kit/transport/http"
	influxdb2_algo "github.com/influxdata/influxdb/v2/pkg/crypt/algorithm/influxdb2"
	"github.com/influxdata/influxdb/v2/session"
	"github.com/influxdata/influxdb/v2/tenant"
	"go.uber.org/zap"

	"verifharness/vkit"
)

// =============================== part A: passwords ============================================

func c44Shape(cur, cand string) string {
	switch {
	case cand == cur:
		return "current"
	case cand == "":
		return "empty"
	case strings.EqualFold(cand, cur):
		return "case_variant"
	case cand == cur+"\x00"+cur:
		return "nul_then_repeat"
	case cand == cur+"\x00":
		return "trailing_nul"
	case strings.HasPrefix(cand, cur) && len(cur) >= 72:
		return "extends_72_byte_password"
	case strings.HasPrefix(cand, cur):
		return "extension"
	case strings.HasPrefix(cur, cand):
		return "prefix"
	default:
		return "other"
	}
}

// c44BcryptEquivalent: bcrypt keys Blowfish with password+NUL repeated cyclically up to 72 bytes;
// two different strings with the same 72-byte key stream are the same password to bcrypt. Used
// only to label violations (the statement does not excuse them).
func c44BcryptEquivalent(a, b string) bool {
	stream := func(s string) string {
		k := s + "\x00"
		out := make([]byte, 72)
		for i := range out {
			out[i] = k[i%len(k)]
		}
		return string(out)
	}
	return stream(a) == stream(b)
}

// passwords: valid lengths 8..72; similar to each other; some at the bcrypt input limit
func c44Password(rg *vkit.Rand, strong bool) string {
	base := []string{"password1", "Password1", "password1 ", "password12", "pässwörd1", "correct horse battery", "p@ssw0rd!X", "P@ssw0rd!x", "12345678"}
	if strong {
		base = []string{"Passw0rd!", "passW0rd!", "Passw0rd!!", "P@ss w0rd", "Übung1234!a"}
	}
	switch rg.Intn(8) {
	case 0: // exactly 72 bytes
		return strings.Repeat("Ab1!", 18)
	case 1: // 71 bytes
		return strings.Repeat("Ab1!", 18)[:71]
	case 2: // 72 bytes differing from case 0 only in the last byte
		return strings.Repeat("Ab1!", 18)[:71] + "?"
	case 3:
		return fmt.Sprintf("Pw-%d!a%s", rg.Intn(1000), strings.Repeat("x", rg.Intn(30)))
	default:
		return vkit.Pick(rg, base)
	}
}

func c44Candidates(rg *vkit.Rand, cur string, others []string) string {
	switch rg.Intn(12) {
	case 0, 1, 2:
		return cur
	case 3:
		if len(others) > 0 {
			return vkit.Pick(rg, others) // a stale password or another user's
		}
		return cur + "x"
	case 4:
		if u := strings.ToUpper(cur); u != cur {
			return u
		}
		return strings.ToLower(cur)
	case 5:
		if len(cur) > 1 {
			return cur[:len(cur)-1]
		}
		return "x"
	case 6:
		return cur + vkit.Pick(rg, []string{"x", " ", "1"})
	case 7:
		return cur + "\x00" + cur
	case 8:
		return cur + "\x00"
	case 9:
		if len(cur) > 8 {
			return cur[:8]
		}
		return cur + cur
	case 10:
		if len(others) > 0 {
			return vkit.Pick(rg, others)
		}
		return "password1"
	default:
		return cur + strings.Repeat("y", 1+rg.Intn(3))
	}
}

type c44PwWit struct {
	History   []string `json:"history"`
	Call      string   `json:"call"`
	Current   string   `json:"current_password_quoted"`
	Candidate string   `json:"candidate_quoted"`
	Result    string   `json:"result"`
	Strong    bool     `json:"strong_password_mode"`
}

func c44Passwords(t *testing.T, r *vkit.Run) {
	ctx := context.Background()
	n := r.N(22, 500)
	for h := 0; h < n; h++ {
		rg := r.SubRand("passwords", h)
		strong := rg.Chance(1, 4)
		st := gkvNewStore(t)
		ts := tenant.NewService(tenant.NewStore(st), tenant.WithPasswordChecking(strong))
		type usr struct {
			id    platform.ID
			cur   string // "" = no password set
			stale []string
		}
		var users []*usr
		for i := 0; i < 2; i++ {
			u := &influxdb.User{Name: fmt.Sprintf("u%d", i), Status: influxdb.Active}
			if err := ts.CreateUser(ctx, u); err != nil {
				t.Fatalf("fixture user: %v", err)
			}
			users = append(users, &usr{id: u.ID})
		}
		var hist []string
		bc := 0
		fail := func(class, call, cur, cand, res string) {
			r.Violation(class, map[string]string{"call": strings.SplitN(call, "(", 2)[0], "candidate": c44Shape(cur, cand), "strong_mode": fmt.Sprint(strong), "same_bcrypt_key_stream": fmt.Sprint(cur != "" && c44BcryptEquivalent(cur, cand))},
				c44PwWit{History: append([]string(nil), hist...), Call: call, Current: fmt.Sprintf("%q", cur), Candidate: fmt.Sprintf("%q", cand), Result: res, Strong: strong})
		}
		compare := func(u *usr, cand string) {
			err := ts.ComparePassword(ctx, u.id, cand)
			bc++
			r.Event("compare_calls", 1)
			r.Event("compare_candidate_"+c44Shape(u.cur, cand), 1)
			hist = append(hist, fmt.Sprintf("ComparePassword(u%d, %s[%q]) → %s", c44Idx(users, u), c44Shape(u.cur, cand), c44Short(cand), c30Err(err)))
			if err == nil && (u.cur == "" || cand != u.cur) {
				fail("wrong_password_accepted", "ComparePassword", u.cur, cand, "nil")
			}
			if err != nil && u.cur != "" && cand == u.cur && !eBase.Is(err, errors.EPasswordChangeRequired) {
				fail("current_password_rejected", "ComparePassword", u.cur, cand, err.Error())
			}
			if err != nil && cand != u.cur && eBase.Is(err, errors.EPasswordChangeRequired) {
				r.Event("wrong_candidate_answered_password_change_required", 1)
			}
		}
		others := func(u *usr) []string {
			out := append([]string(nil), u.stale...)
			for _, o := range users {
				if o != u && o.cur != "" {
					out = append(out, o.cur)
				}
			}
			return out
		}
		steps := rg.Range(5, 8)
		for s := 0; s < steps; s++ {
			u := vkit.Pick(rg, users)
			switch k := rg.Intn(10); {
			case k < 3 || u.cur == "":
				p := c44Password(rg, strong)
				err := ts.SetPassword(ctx, u.id, p)
				bc++
				hist = append(hist, fmt.Sprintf("SetPassword(u%d, %q) → %s", c44Idx(users, u), c44Short(p), c30Err(err)))
				r.Event("set_calls", 1)
				if err == nil {
					if u.cur != "" && u.cur != p {
						u.stale = append(u.stale, u.cur)
					}
					u.cur = p
				}
			case k < 6:
				old := c44Candidates(rg, u.cur, others(u))
				nw := c44Password(rg, strong)
				err := ts.CompareAndSetPassword(ctx, u.id, old, nw)
				bc += 2
				r.Event("compare_and_set_calls", 1)
				r.Event("cas_old_"+c44Shape(u.cur, old), 1)
				hist = append(hist, fmt.Sprintf("CompareAndSetPassword(u%d, old=%s[%q], new=%q) → %s", c44Idx(users, u), c44Shape(u.cur, old), c44Short(old), c44Short(nw), c30Err(err)))
				if err == nil && old != u.cur {
					fail("wrong_password_accepted", "CompareAndSetPassword", u.cur, old, "nil (password replaced)")
				}
				if err == nil {
					if u.cur != nw {
						u.stale = append(u.stale, u.cur)
					}
					u.cur = nw
				}
			default:
				compare(u, c44Candidates(rg, u.cur, others(u)))
			}
		}
		// closing sweep: the current password of every user is accepted, the previous one is not
		for _, u := range users {
			if u.cur == "" {
				continue
			}
			compare(u, u.cur)
			if len(u.stale) > 0 && u.stale[len(u.stale)-1] != u.cur {
				compare(u, u.stale[len(u.stale)-1])
			}
		}
		r.Event("bcrypt_operations", int64(bc))
		r.Case("pw|"+strings.Join(hist, ";"), len(hist) >= 5)
		if h%9 == 2 {
			r.Sample(map[string]any{"password_history": hist, "strong_password_mode": strong})
		}
	}
	// empty candidate in strong mode: IsPasswordStrong divides by len(password) — observed, not judged
	func() {
		defer func() {
			if p := recover(); p != nil {
				r.Event("aside_panic_ComparePassword_empty_candidate_strong_mode", 1)
			}
		}()
		st := gkvNewStore(t)
		ts := tenant.NewService(tenant.NewStore(st), tenant.WithPasswordChecking(true))
		u := &influxdb.User{Name: "u", Status: influxdb.Active}
		_ = ts.CreateUser(ctx, u)
		if err := ts.ComparePassword(ctx, u.ID, ""); err == nil {
			r.Violation("wrong_password_accepted", map[string]string{"call": "ComparePassword", "candidate": "empty", "strong_mode": "true"}, c44PwWit{Call: "ComparePassword(user without password, \"\")", Result: "nil", Strong: true})
		}
	}()
}

func c44Idx[T comparable](xs []T, x T) int {
	for i := range xs {
		if xs[i] == x {
			return i
		}
	}
	return -1
}

func c44Short(s string) string {
	if len(s) > 24 {
		return fmt.Sprintf("%s…(%d bytes)", s[:20], len(s))
	}
	return s
}

// =============================== part B: hash formats =========================================

type c44FmtWit struct {
	Format string `json:"format"`
	Stored string `json:"stored_hash,omitempty"`
	Own    string `json:"own_secret_quoted"`
	Tried  string `json:"tried_secret_quoted"`
	Want   string `json:"want"`
	Got    string `json:"got"`
}

func c44Secrets(rg *vkit.Rand, n int) []string {
	base := []string{"tok-abc", "tok-abcd", "tok-ABC", "tok-abc ", " tok-abc", "tok-abc\x00", "tok-abc\x00tok-abc", "", "a", "é", "tok_abc", "tok-abd"}
	out := append([]string(nil), base...)
	for len(out) < n {
		out = append(out, fmt.Sprintf("t%x", rg.Uint64()))
	}
	return out[:n]
}

func c44Formats(t *testing.T, r *vkit.Run) {
	ctx := context.Background()
	rg := r.SubRand("formats", 0)

	// ---- influxdb2-sha256 / influxdb2-sha512 token hashes ----
	secrets := c44Secrets(rg, 20)
	for _, v := range influxdb2_algo.AllVariants {
		hasher, err := authorization.NewAuthorizationHasher(authorization.WithHasherVariant(v), authorization.WithDecoderVariants(influxdb2_algo.AllVariants))
		if err != nil {
			t.Fatalf("hasher: %v", err)
		}
		only, err := authorization.NewAuthorizationHasher(authorization.WithHasherVariant(v), authorization.WithDecoderVariants([]influxdb2_algo.Variant{v}))
		if err != nil {
			t.Fatalf("hasher: %v", err)
		}
		phcs := make([]string, len(secrets))
		for i, s := range secrets {
			phc, err := hasher.Hash(s)
			if err != nil {
				r.Violation("hash_failed", map[string]string{"format": v.Prefix()}, c44FmtWit{Format: v.Prefix(), Own: fmt.Sprintf("%q", s), Want: "hash", Got: err.Error()})
				continue
			}
			phcs[i] = phc
			// the documented format: $<variant>$base64url(sha(token))
			var sum []byte
			if v == influxdb2_algo.VariantSHA256 {
				x := sha256.Sum256([]byte(s))
				sum = x[:]
			} else {
				x := sha512.Sum512([]byte(s))
				sum = x[:]
			}
			if want := "$" + v.Prefix() + "$" + base64.URLEncoding.EncodeToString(sum); phc != want {
				r.Violation("hash_format", map[string]string{"format": v.Prefix()}, c44FmtWit{Format: v.Prefix(), Stored: phc, Own: fmt.Sprintf("%q", s), Want: want, Got: phc})
			}
			all, err := hasher.AllHashes(s)
			found := false
			for _, a := range all {
				if a == phc {
					found = true
				}
			}
			if err != nil || !found || len(all) != hasher.AllHashesCount() {
				r.Violation("hash_format", map[string]string{"format": v.Prefix(), "api": "AllHashes"}, c44FmtWit{Format: v.Prefix(), Stored: phc, Own: fmt.Sprintf("%q", s), Want: "AllHashes contains Hash", Got: fmt.Sprintf("%v err=%v", all, err)})
			}
		}
		for i, s := range secrets {
			if phcs[i] == "" {
				continue
			}
			for j, c := range secrets {
				for _, hh := range []*authorization.AuthorizationHasher{hasher, only} {
					ok, err := hh.Match(phcs[i], c)
					r.Event("token_hash_matches_"+v.Prefix(), 1)
					if err != nil || ok != (i == j) {
						r.Violation("hash_cross_match", map[string]string{"format": v.Prefix(), "expected": fmt.Sprint(i == j)},
							c44FmtWit{Format: v.Prefix(), Stored: phcs[i], Own: fmt.Sprintf("%q", s), Tried: fmt.Sprintf("%q", c), Want: fmt.Sprint(i == j), Got: fmt.Sprintf("%v err=%v", ok, err)})
					}
				}
			}
			// presenting the stored hash itself is not presenting the token
			if ok, _ := hasher.Match(phcs[i], phcs[i]); ok {
				r.Violation("hash_cross_match", map[string]string{"format": v.Prefix(), "expected": "false", "tried": "the_hash_itself"}, c44FmtWit{Format: v.Prefix(), Stored: phcs[i], Own: fmt.Sprintf("%q", s), Tried: phcs[i], Want: "false", Got: "true"})
			}
		}
		r.Case("fmt|"+v.Prefix(), true)
	}

	// ---- tokens stay valid, and only they, when the store's hash format / hashing mode changes ----
	{
		st := gkvNewStore(t)
		ts := tenant.NewService(tenant.NewStore(st))
		u := &influxdb.User{Name: "u", Status: influxdb.Active}
		o := &influxdb.Organization{Name: "o"}
		if err := ts.CreateUser(ctx, u); err != nil {
			t.Fatal(err)
		}
		if err := ts.CreateOrganization(ctx, o); err != nil {
			t.Fatal(err)
		}
		type tk struct {
			token string
			id    platform.ID
			era   string
		}
		var toks []tk
		eras := []struct {
			name    string
			hashed  bool
			variant string
		}{{"raw", false, ""}, {"sha256", true, influxdb2_algo.VariantIdentifierSHA256}, {"sha512", true, influxdb2_algo.VariantIdentifierSHA512}, {"raw_again", false, ""}, {"sha256_again", true, influxdb2_algo.VariantIdentifierSHA256}}
		for ei, era := range eras {
			opts := []authorization.StoreOption{}
			if era.variant != "" {
				opts = append(opts, authorization.WithAuthorizationHashVariantName(era.variant))
			}
			as, err := authorization.NewStore(ctx, st, era.hashed, opts...)
			if err != nil {
				t.Fatalf("authorization store (%s): %v", era.name, err)
			}
			svc := authorization.NewService(as, ts)
			for k := 0; k < 3; k++ {
				a := &influxdb.Authorization{OrgID: o.ID, UserID: u.ID, Token: fmt.Sprintf("era%d-tok-%d", ei, k), Status: influxdb.Active, Permissions: []influxdb.Permission{}}
				if err := svc.CreateAuthorization(ctx, a); err != nil {
					r.Violation("token_create_failed", map[string]string{"era": era.name}, c44FmtWit{Format: era.name, Own: a.Token, Want: "created", Got: err.Error()})
					continue
				}
				toks = append(toks, tk{fmt.Sprintf("era%d-tok-%d", ei, k), a.ID, era.name})
			}
			for _, x := range toks {
				a, err := svc.FindAuthorizationByToken(ctx, x.token)
				r.Event("token_lookups_across_formats", 1)
				if err != nil || a.ID != x.id {
					r.Violation("token_lost_after_format_change", map[string]string{"created_in": x.era, "looked_up_in": era.name}, c44FmtWit{Format: era.name, Own: x.token, Tried: x.token, Want: x.id.String(), Got: fmt.Sprintf("%v err=%v", a, err)})
				}
				for _, wrong := range []string{x.token + "x", x.token[:len(x.token)-1], strings.ToUpper(x.token), "$" + influxdb2_algo.VariantIdentifierSHA256 + "$" + base64.URLEncoding.EncodeToString(c44Sum256(x.token)), "$" + influxdb2_algo.VariantIdentifierSHA512 + "$" + base64.URLEncoding.EncodeToString(c44Sum512(x.token))} {
					a, err := svc.FindAuthorizationByToken(ctx, wrong)
					r.Event("wrong_token_lookups", 1)
					if err == nil {
						shape := "variant"
						if strings.HasPrefix(wrong, "$") {
							shape = "stored_hash_presented_as_token"
						}
						r.Violation("wrong_token_resolved", map[string]string{"created_in": x.era, "looked_up_in": era.name, "tried": shape}, c44FmtWit{Format: era.name, Own: x.token, Tried: wrong, Want: "not found", Got: fmt.Sprint(a.ID)})
					}
				}
			}
			r.Case("era|"+era.name, true)
		}
	}

	// ---- bcrypt password hashes: every stored hash verifies exactly its own password ----
	{
		k := r.N(5, 20)
		st := gkvNewStore(t)
		ts := tenant.NewService(tenant.NewStore(st))
		pws := []string{"password1", "password12", "Password1", "password1 ", "password2", "pässwörd1", "passw\x00rd1", "password1\x00", strings.Repeat("Ab1!", 18), strings.Repeat("Ab1!", 18)[:71] + "?", strings.Repeat("Ab1!", 18)[:71]}
		for len(pws) < k {
			pws = append(pws, fmt.Sprintf("Pw-%x-tail", rg.Uint64()))
		}
		pws = pws[:k]
		ids := make([]platform.ID, k)
		for i, p := range pws {
			u := &influxdb.User{Name: fmt.Sprintf("u%d", i), Status: influxdb.Active}
			if err := ts.CreateUser(ctx, u); err != nil {
				t.Fatal(err)
			}
			ids[i] = u.ID
			if err := ts.SetPassword(ctx, u.ID, p); err != nil {
				t.Fatalf("SetPassword(%q): %v", p, err)
			}
		}
		raw, err := c30RawBucket(st, "userspasswordv1")
		if err != nil || len(raw) != k {
			t.Fatalf("userspasswordv1: %d entries, err %v", len(raw), err)
		}
		for _, e := range raw {
			if !strings.HasPrefix(e[1], "$2") {
				r.Violation("hash_format", map[string]string{"format": "bcrypt"}, c44FmtWit{Format: "bcrypt", Stored: e[1], Want: "a bcrypt hash", Got: "something else"})
			}
			for _, p := range pws {
				if strings.Contains(e[1], p) {
					r.Violation("hash_format", map[string]string{"format": "bcrypt", "leak": "plaintext"}, c44FmtWit{Format: "bcrypt", Stored: e[1], Own: fmt.Sprintf("%q", p), Want: "no plaintext", Got: "contains the password"})
				}
			}
		}
		for i := range pws {
			for j := range pws {
				err := ts.ComparePassword(ctx, ids[i], pws[j])
				r.Event("bcrypt_operations", 1)
				r.Event("bcrypt_cross_compares", 1)
				if (err == nil) != (i == j) {
					r.Violation("hash_cross_match", map[string]string{"format": "bcrypt", "expected": fmt.Sprint(i == j), "candidate": c44Shape(pws[i], pws[j])},
						c44FmtWit{Format: "bcrypt", Own: fmt.Sprintf("%q", pws[i]), Tried: fmt.Sprintf("%q", pws[j]), Want: fmt.Sprint(i == j), Got: fmt.Sprint(err)})
				}
			}
		}
		r.Case("fmt|bcrypt", true)
	}
}

func c44Sum256(s string) []byte { x := sha256.Sum256([]byte(s)); return x[:] }
func c44Sum512(s string) []byte { x := sha512.Sum512([]byte(s)); return x[:] }

// =============================== part C: request authentication ==============================

type c44TokGen struct {
	rg *vkit.Rand
	n  int
}

func (g *c44TokGen) Token() (string, error) {
	g.n++
	return fmt.Sprintf("sess-%d-%x", g.n, g.rg.Uint64()), nil
}

type c44Downstream struct {
	reached bool
	auth    influxdb.Authorizer
	psErr   error
	ctxErr  error
}

type c44Token struct {
	id     platform.ID
	token  string
	user   int
	active bool
	exists bool
}

type c44Session struct {
	key   string
	user  int
	alive bool
	why   string
	// handle is the session as a request that looked it up earlier still holds it
	handle *influxdb.Session
}

type c44User struct {
	id     platform.ID
	name   string
	active bool
	exists bool
}

type c44ReqWit struct {
	History    []string `json:"history"`
	Request    string   `json:"request"`
	Credential string   `json:"credential"`
	Expected   string   `json:"expected"`
	Got        string   `json:"got"`
}

func c44Handler(t *testing.T, r *vkit.Run) {
	ctx := context.Background()
	n := r.N(1200, 10000)
	for hno := 0; hno < n; hno++ {
		rg := r.SubRand("handler", hno)
		st := gkvNewStore(t)
		ts := tenant.NewService(tenant.NewStore(st))
		hashed := rg.Bool()
		as, err := authorization.NewStore(ctx, st, hashed)
		if err != nil {
			t.Fatalf("authorization store: %v", err)
		}
		authSvc := authorization.NewService(as, ts)
		sessStore := inmem.NewSessionStore()
		mkSess := func(length time.Duration) *session.Service {
			return session.NewService(session.NewStorage(sessStore), ts, ts, authSvc, session.WithSessionLength(length), session.WithTokenGenerator(&c44TokGen{rg: rg, n: hno * 1000}))
		}
		sessSvc := mkSess(time.Hour)     // expires an hour from now: far from "now"
		expiredSvc := mkSess(-time.Hour) // sessions that expired an hour ago
		down := &c44Downstream{}
		h := ihttp.NewAuthenticationHandler(zap.NewNop(), kithttp.NewErrorHandler(zap.NewNop()))
		h.AuthorizationService, h.SessionService, h.UserService = authSvc, sessSvc, ts
		h.SessionRenewDisabled = rg.Chance(1, 3)
		h.Handler = http.HandlerFunc(func(w http.ResponseWriter, req *http.Request) {
			down.reached = true
			down.auth, down.ctxErr = icontext.GetAuthorizer(req.Context())
			if down.auth != nil {
				_, down.psErr = down.auth.PermissionSet()
			}
			w.WriteHeader(http.StatusNoContent)
		})

		org := &influxdb.Organization{Name: "o"}
		if err := ts.CreateOrganization(ctx, org); err != nil {
			t.Fatal(err)
		}
		var users []*c44User
		for i := 0; i < 3; i++ {
			u := &influxdb.User{Name: fmt.Sprintf("u%d", i), Status: influxdb.Active}
			if err := ts.CreateUser(ctx, u); err != nil {
				t.Fatal(err)
			}
			users = append(users, &c44User{id: u.ID, name: u.Name, active: true, exists: true})
		}
		var toks []*c44Token
		var sess []*c44Session
		var hist []string
		authed, refused := 0, 0

		fail := func(class string, feat map[string]string, request, cred, want, got string) {
			feat["token_storage"] = map[bool]string{true: "hashed", false: "raw"}[hashed]
			r.Violation(class, feat, c44ReqWit{History: append([]string(nil), hist...), Request: request, Credential: cred, Expected: want, Got: got})
		}
		// serve one request; expectation: cred = nil (nothing valid presented) or the credential that was presented verbatim
		serve := func(desc string, setup func(*http.Request), tk *c44Token, ss *c44Session, scheme string) {
			req := httptest.NewRequest("GET", "/api/v2/buckets", nil)
			setup(req)
			rec := httptest.NewRecorder()
			*down = c44Downstream{}
			h.ServeHTTP(rec, req)
			usable := down.reached && down.auth != nil && down.psErr == nil && down.ctxErr == nil
			// what the model says
			var wantReach, wantUsable bool
			var owner *c44User
			credDesc := "none that exists"
			switch {
			case tk != nil:
				owner = users[tk.user]
				wantReach = tk.exists && owner.exists && owner.active
				wantUsable = wantReach && tk.active
				credDesc = fmt.Sprintf("token %s exists=%v active=%v; user %s exists=%v active=%v", tk.id, tk.exists, tk.active, owner.name, owner.exists, owner.active)
			case ss != nil:
				owner = users[ss.user]
				wantReach = ss.alive && owner.exists && owner.active
				wantUsable = wantReach
				credDesc = fmt.Sprintf("session alive=%v (%s); user %s exists=%v active=%v", ss.alive, ss.why, owner.name, owner.exists, owner.active)
			}
			got := fmt.Sprintf("status=%d downstream_reached=%v usable_authorizer=%v", rec.Code, down.reached, usable)
			hist = append(hist, fmt.Sprintf("%s → %s", desc, got))
			r.Event("requests_"+scheme, 1)
			if tk != nil || ss != nil {
				r.Event(fmt.Sprintf("outcome_%s_reached=%v_usable=%v", scheme, down.reached, usable), 1)
			}
			feat := map[string]string{"scheme": scheme}
			switch {
			case usable && !wantUsable:
				why := "credential_unknown"
				switch {
				case tk != nil && !tk.exists:
					why = "token_deleted"
				case tk != nil && !tk.active:
					why = "token_inactive"
				case ss != nil && !ss.alive:
					why = "session_" + ss.why
				case owner != nil && !owner.exists:
					why = "user_deleted"
				case owner != nil && !owner.active:
					why = "user_inactive"
				}
				feat["why"] = why
				fail("authenticated_without_valid_credential", feat, desc, credDesc, "not authenticated", got)
			case down.reached && !wantReach && !(tk != nil && tk.exists && owner.exists && owner.active):
				why := "credential_unknown"
				if owner != nil && owner.exists && !owner.active {
					why = "user_inactive"
				} else if owner != nil && !owner.exists {
					why = "user_deleted"
				}
				feat["why"] = why
				fail("downstream_reached_without_valid_credential", feat, desc, credDesc, "request stopped by the middleware", got)
			case wantUsable && !usable:
				fail("valid_credential_rejected", feat, desc, credDesc, "authenticated", got)
			}
			if usable && owner != nil && down.auth.GetUserID() != owner.id {
				fail("authenticated_as_other_user", feat, desc, credDesc, "user "+owner.id.String(), "user "+down.auth.GetUserID().String())
			}
			if usable {
				authed++
			} else {
				refused++
			}
			if !down.reached && rec.Code != http.StatusUnauthorized && rec.Code != http.StatusForbidden {
				fail("unexpected_status", feat, desc, credDesc, "401 or 403", got)
			}
		}

		steps := rg.Range(10, 18)
		for s := 0; s < steps; s++ {
			switch k := rg.Intn(30); {
			case k < 4: // new token; tokens are prefixes / case variants of each other on purpose
				ui := rg.Intn(len(users))
				if !users[ui].exists {
					continue
				}
				tok := vkit.Pick(rg, []string{"tok-abc", "tok-abcd", "tok-ABC", "tok-abc-1", fmt.Sprintf("tok-%x", rg.Uint64())})
				dup := false
				for _, x := range toks {
					if x.token == tok {
						dup = true
					}
				}
				if dup {
					tok = fmt.Sprintf("%s-%d", tok, s)
				}
				status := influxdb.Active
				if rg.Chance(1, 5) {
					status = influxdb.Inactive
				}
				a := &influxdb.Authorization{OrgID: org.ID, UserID: users[ui].id, Token: tok, Status: status, Permissions: []influxdb.Permission{{Action: influxdb.ReadAction, Resource: influxdb.Resource{Type: influxdb.BucketsResourceType}}}}
				if err := authSvc.CreateAuthorization(ctx, a); err != nil {
					hist = append(hist, fmt.Sprintf("CreateAuthorization(%s,u%d) → %v", tok, ui, err))
					continue
				}
				toks = append(toks, &c44Token{id: a.ID, token: tok, user: ui, active: status == influxdb.Active, exists: true})
				hist = append(hist, fmt.Sprintf("CreateAuthorization(%s,u%d,%s) → %s", tok, ui, status, a.ID))
			case k < 7 && len(toks) > 0: // activate / deactivate
				tk := vkit.Pick(rg, toks)
				st := vkit.Pick(rg, []influxdb.Status{influxdb.Active, influxdb.Inactive, influxdb.Inactive})
				_, err := authSvc.UpdateAuthorization(ctx, tk.id, &influxdb.AuthorizationUpdate{Status: &st})
				if err == nil {
					tk.active = st == influxdb.Active
				}
				hist = append(hist, fmt.Sprintf("UpdateAuthorization(%s,%s) → %s", tk.id, st, c30Err(err)))
			case k < 9 && len(toks) > 0:
				tk := vkit.Pick(rg, toks)
				err := authSvc.DeleteAuthorization(ctx, tk.id)
				if err == nil {
					tk.exists = false
				}
				hist = append(hist, fmt.Sprintf("DeleteAuthorization(%s) → %s", tk.id, c30Err(err)))
			case k < 12: // user status
				u := vkit.Pick(rg, users)
				if !u.exists {
					continue
				}
				st := vkit.Pick(rg, []influxdb.Status{influxdb.Active, influxdb.Inactive})
				_, err := ts.UpdateUser(ctx, u.id, influxdb.UserUpdate{Status: &st})
				if err == nil {
					u.active = st == influxdb.Active
				}
				hist = append(hist, fmt.Sprintf("UpdateUser(%s,%s) → %s", u.name, st, c30Err(err)))
			case k < 13: // delete a user; its tokens and sessions stay behind
				u := vkit.Pick(rg, users)
				if !u.exists {
					continue
				}
				err := ts.DeleteUser(ctx, u.id)
				if err == nil {
					u.exists = false
				}
				hist = append(hist, fmt.Sprintf("DeleteUser(%s) → %s", u.name, c30Err(err)))
			case k < 16: // sign in
				ui := rg.Intn(len(users))
				if !users[ui].exists {
					continue
				}
				svc, alive, why := sessSvc, true, "live"
				if rg.Chance(1, 4) {
					svc, alive, why = expiredSvc, false, "expired_an_hour_ago"
				}
				ss, err := svc.CreateSession(ctx, users[ui].name)
				if err != nil {
					hist = append(hist, fmt.Sprintf("CreateSession(u%d) → %v", ui, err))
					continue
				}
				hcopy := *ss
				sess = append(sess, &c44Session{key: ss.Key, user: ui, alive: alive, why: why, handle: &hcopy})
				hist = append(hist, fmt.Sprintf("CreateSession(u%d,%s) → %s", ui, why, ss.Key))
			case k < 17 && len(sess) > 0: // sign out
				ss := vkit.Pick(rg, sess)
				err := sessSvc.ExpireSession(ctx, ss.key)
				if err == nil && ss.alive {
					ss.alive, ss.why = false, "signed_out"
				}
				hist = append(hist, fmt.Sprintf("ExpireSession(%s) → %s", ss.key, c30Err(err)))
			case k < 18 && len(sess) > 0: // a request that looked the session up earlier renews it only now
				ss := vkit.Pick(rg, sess)
				if ss.why == "expired_an_hour_ago" {
					continue // renewing a stored session past its expiry is not covered by the statement
				}
				err := sessSvc.RenewSession(ctx, ss.handle, time.Now().Add(3*time.Hour))
				hist = append(hist, fmt.Sprintf("RenewSession(handle of %s looked up at sign-in, +3h) → %s", ss.key, c30Err(err)))
				r.Event(fmt.Sprintf("renew_with_earlier_handle_alive=%v", ss.alive), 1)
				// renewal must neither kill a live session nor bring back a signed-out one
				serve(fmt.Sprintf("GET Cookie: session=%s", ss.key), func(q *http.Request) { session.SetCookieSession(ss.key, q) }, nil, ss, "session")
			case k < 22 && len(toks) > 0: // request with a token, verbatim
				tk := vkit.Pick(rg, toks)
				scheme := vkit.Pick(rg, []string{"Token ", "Bearer ", "token ", "BEARER ", "tOkEn "})
				serve(fmt.Sprintf("GET Authorization: %s%s", scheme, tk.token), func(q *http.Request) { q.Header.Set("Authorization", scheme+tk.token) }, tk, nil, "token")
			case k < 25 && len(sess) > 0: // request with a session cookie
				ss := vkit.Pick(rg, sess)
				if rg.Chance(1, 5) && len(toks) > 0 { // cookie plus a bogus Authorization header that names no scheme: the cookie decides
					serve(fmt.Sprintf("GET Cookie: session=%s + Authorization: Basic xyz", ss.key), func(q *http.Request) {
						session.SetCookieSession(ss.key, q)
						q.Header.Set("Authorization", "Basic eHl6")
					}, nil, ss, "session")
				} else {
					serve(fmt.Sprintf("GET Cookie: session=%s", ss.key), func(q *http.Request) { session.SetCookieSession(ss.key, q) }, nil, ss, "session")
				}
			default: // a request that presents nothing valid
				var hdr, cookie, what string
				real := "tok-none"
				if len(toks) > 0 {
					real = vkit.Pick(rg, toks).token
				}
				switch rg.Intn(16) {
				case 0:
					what, hdr = "no_credentials", ""
				case 1:
					what, hdr = "scheme_only", vkit.Pick(rg, []string{"Token", "Bearer", "Token ", "Bearer "})
				case 2:
					what, hdr = "unknown_scheme", vkit.Pick(rg, []string{"Basic ", "Digest ", "Tokens ", "", "TokenX"})+real
				case 3:
					what, hdr = "token_extended", "Token "+real+"x"
				case 4:
					what, hdr = "token_truncated", "Token "+real[:len(real)-1]
				case 5:
					what, hdr = "token_case_changed", "Token "+c44FlipCase(real)
				case 6:
					what, hdr = "stored_hash_presented", "Token $"+influxdb2_algo.VariantIdentifierSHA256+"$"+base64.URLEncoding.EncodeToString(c44Sum256(real))
				case 7:
					what, hdr = "stored_hash_presented", "Token $"+influxdb2_algo.VariantIdentifierSHA512+"$"+base64.URLEncoding.EncodeToString(c44Sum512(real))
				case 8:
					what, hdr = "random_token", fmt.Sprintf("Token %x", rg.Uint64())
				case 9:
					what, hdr = "random_bytes", "Token "+string(rg.Bytes(1+rg.Intn(20)))
				case 10: // a well-formed JWT nobody signed for us (HS256, random key)
					what, hdr = "foreign_jwt", "Bearer "+c44JWT(rg, "HS256")
				case 11:
					what, hdr = "jwt_alg_none", "Bearer "+c44JWT(rg, "none")
				case 12:
					what, cookie = "random_session_key", fmt.Sprintf("sess-%x", rg.Uint64())
				case 13:
					what, cookie = "token_as_session_key", real
				case 14:
					what, hdr = "authorization_id_as_token", "Token "+platform.ID(rg.Uint64()|1).String()
					if len(toks) > 0 {
						hdr = "Token " + vkit.Pick(rg, toks).id.String()
					}
				default:
					what, hdr = "user_name_as_token", "Token u0"
				}
				// do not count as invalid what happens to be a live token
				for _, x := range toks {
					if hdr == "Token "+x.token || cookie == x.token && false {
						what = ""
					}
				}
				if what == "" {
					continue
				}
				serve(fmt.Sprintf("GET %s: Authorization=%q cookie=%q", what, hdr, cookie), func(q *http.Request) {
					if hdr != "" {
						q.Header.Set("Authorization", hdr)
					}
					if cookie != "" {
						session.SetCookieSession(cookie, q)
					}
				}, nil, nil, "invalid_"+what)
			}
		}
		r.Case("req|"+strings.Join(hist, ";"), authed > 0 && refused > 0)
		if hno%67 == 11 {
			r.Sample(map[string]any{"request_history": hist, "token_storage_hashed": hashed})
		}
	}

	// Session.PermissionSet: expiry far in the past / far in the future (no wall-clock verdicts near "now")
	for _, d := range []time.Duration{-24 * time.Hour, -time.Hour, time.Hour, 24 * time.Hour} {
		s := &influxdb.Session{ID: 1, Key: "k", UserID: 2, ExpiresAt: time.Now().Add(d), Permissions: []influxdb.Permission{{Action: influxdb.ReadAction, Resource: influxdb.Resource{Type: influxdb.BucketsResourceType}}}}
		_, err := s.PermissionSet()
		r.Event("session_permissionset_checks", 1)
		if (err == nil) != (d > 0) {
			r.Violation("session_expiry_ignored", map[string]string{"expires": d.String()}, c44ReqWit{Request: "Session.PermissionSet()", Credential: "session expiring " + d.String() + " from now", Expected: fmt.Sprint(d > 0), Got: fmt.Sprint(err)})
		}
	}
	// Authorization.PermissionSet: inactive tokens are unusable
	for _, st := range []influxdb.Status{influxdb.Active, influxdb.Inactive} {
		a := &influxdb.Authorization{ID: 1, Status: st, Permissions: []influxdb.Permission{{Action: influxdb.ReadAction, Resource: influxdb.Resource{Type: influxdb.BucketsResourceType}}}}
		_, err := a.PermissionSet()
		if (err == nil) != (st == influxdb.Active) {
			r.Violation("inactive_token_usable", map[string]string{"status": string(st)}, c44ReqWit{Request: "Authorization.PermissionSet()", Credential: "token with status " + string(st), Expected: fmt.Sprint(st == influxdb.Active), Got: fmt.Sprint(err)})
		}
	}
}

func c44FlipCase(s string) string {
	b := []byte(s)
	for i := range b {
		switch {
		case b[i] >= 'a' && b[i] <= 'z':
			b[i] -= 32
			return string(b)
		case b[i] >= 'A' && b[i] <= 'Z':
			b[i] += 32
			return string(b)
		}
	}
	return s + "X"
}

// c44JWT builds header.payload.signature with a signature nobody can verify (random bytes) —
// claims ask for every permission.
func c44JWT(rg *vkit.Rand, alg string) string {
	enc := base64.RawURLEncoding.EncodeToString
	hdr := enc([]byte(fmt.Sprintf(`{"alg":%q,"typ":"JWT"}`, alg)))
	pl := enc([]byte(`{"kid":"k1","uid":"0000000000000001","permissions":[{"action":"write","resource":{"type":"buckets"}},{"action":"read","resource":{"type":"buckets"}}]}`))
	sig := enc(rg.Bytes(32))
	if alg == "none" {
		sig = ""
	}
	return hdr + "." + pl + "." + sig
}

func TestC44(t *testing.T) {
	r := vkit.Start(t, "C44", "exploration")
	defer r.Finish()
	r.Rule("A) password histories on the real tenant.UserSvc (in-memory KV): SetPassword / CompareAndSetPassword / ComparePassword with candidates = current, stale, other user's, case variant, prefix, extension, trailing NUL, NUL+repeat, 71/72-byte passwords; model user→current password; nil result ⇔ candidate is the current password (a correct but weak password may answer 'change required'). B) formats: 20 secrets × {influxdb2-sha256, influxdb2-sha512} hash/match cross product, documented PHC format recomputed, tokens created under raw/sha256/sha512 storage still resolve (and near-misses and the stored hash itself do not) after every change of format; bcrypt password hashes cross product. C) request histories through the real http.AuthenticationHandler over real authorization, session and tenant services: create/(de)activate/delete tokens, (de)activate/delete users, sign in (live or expired an hour ago), sign out, requests with verbatim tokens (Token/Bearer, any case), session cookies, and 16 kinds of invalid credentials; downstream reached with a usable authorizer ⇔ token exists ∧ active ∧ user exists ∧ active, or session alive ∧ user active; never reached for unknown credentials or inactive/deleted users. non-trivial = history with ≥5 password calls resp. both an authenticated and a refused request; distinct = the history")
	r.Assume("session expiry is only placed one hour before/after now (no verdict depends on the clock near the boundary)")
	c44Passwords(t, r)
	c44Formats(t, r)
	c44Handler(t, r)
}
