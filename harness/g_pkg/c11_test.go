package g_pkg

import (
	"bytes"
	"fmt"
	"math"
	"runtime/debug"
	"sort"
	"strconv"
	"strings"
	"testing"
	"time"

	"github.com/influxdata/influxdb/v2/models"

	"verifharness/vkit"
)

// C11 — line protocol and series keys round-trip (DESIGN §5 C11).
//
// A model point (measurement, tag map, typed field map, timestamp, precision) is generated
// over the hostile alphabet of the property (space , = " \ unicode). It is turned into text by
// the repo's own renderers (NewPoint→String/AppendString/PrecisionString/MarshalBinary) and
// by an independent renderer written from the line-protocol escaping rules (random tag and
// field order), parsed back with ParsePointsWithPrecision / NewPointFromBytes, and compared
// with the model: measurement, tag list sorted by key, field names with identical types and
// bit-identical values, timestamp. MakeKey → ParseKeyBytes/ParseKey/ParseName/ParseTags must
// return the name and tag set.

var c11T *gpTally

type c11KV struct{ K, V string }

type c11Point struct {
	Name   string
	Tags   []c11KV // sorted by key (byte order), unique keys
	Fields map[string]any
	Time   int64  // ns since epoch
	Prec   string // precision in which the timestamp is rendered (Time is a multiple of it)
	HasTS  bool
}

var (
	c11Plain   = []string{"a", "b", "c", "cpu", "host", "x1", "é", "日本", "ß", "value", "Z", "0", "-", "_", "t", "f", "#", ":", "/"}
	c11Special = []string{" ", ",", "=", "\"", "\\"}
)

// hazards of a name component, used only to label violations narrowly
type c11Haz struct {
	Backslash, TrailingBackslash, BackslashBeforeSpecial, Special bool
}

func c11Hazards(s string) c11Haz {
	var h c11Haz
	for i := 0; i < len(s); i++ {
		switch s[i] {
		case '\\':
			h.Backslash = true
			if i == len(s)-1 {
				h.TrailingBackslash = true
			} else if strings.IndexByte(" ,=\"", s[i+1]) >= 0 {
				h.BackslashBeforeSpecial = true
			}
		case ' ', ',', '=', '"':
			h.Special = true
		}
	}
	return h
}

func c11Name(rg *vkit.Rand, allowLeadingHash bool) string {
	for {
		var sb strings.Builder
		n := rg.Range(1, 4)
		hostile := rg.Chance(1, 2)
		for i := 0; i < n; i++ {
			if hostile && rg.Chance(1, 2) {
				sb.WriteString(vkit.Pick(rg, c11Special))
			} else {
				sb.WriteString(vkit.Pick(rg, c11Plain))
			}
		}
		s := sb.String()
		if !allowLeadingHash && s[0] == '#' { // a leading '#' makes the whole line a comment; it cannot be escaped
			continue
		}
		return s
	}
}

var c11Reserved = map[string]bool{"_field": true, "_measurement": true, "time": true, "\x00": true, "\xff": true}

func c11Float(rg *vkit.Rand) float64 {
	switch rg.Intn(6) {
	case 0:
		pool := []float64{0, math.Copysign(0, -1), 1, -1, 0.1, -0.1, 1.5, math.MaxFloat64, -math.MaxFloat64, math.SmallestNonzeroFloat64, -math.SmallestNonzeroFloat64,
			1e21, 1e-7, 123456789012345678, 4.9e-324, 2.2250738585072014e-308, 1e22, 9007199254740993, 0.30000000000000004}
		return vkit.Pick(rg, pool)
	case 1:
		return float64(rg.Intn(2000)-1000) / 8
	case 2:
		return float64(rg.Int64() >> uint(rg.Intn(64)))
	default:
		for {
			f := math.Float64frombits(rg.Uint64())
			if !math.IsNaN(f) && !math.IsInf(f, 0) {
				return f
			}
		}
	}
}

func c11String(rg *vkit.Rand) string {
	switch rg.Intn(6) {
	case 0:
		return ""
	case 1:
		return vkit.Pick(rg, []string{`"`, `\`, `\"`, `\\`, `a\`, `"quoted"`, "line1\nline2", "a,b=c d", `\n`, `\\"`, "é日本", " ", "=", ",", `x\,y`, "tab\there", `"\`})
	case 2:
		return strings.Repeat(vkit.Pick(rg, []string{"ab", `\`, `"`, "é"}), rg.Range(1, 200))
	default:
		var sb strings.Builder
		for i := 0; i < rg.Range(1, 6); i++ {
			switch rg.Intn(3) {
			case 0:
				sb.WriteString(vkit.Pick(rg, c11Special))
			case 1:
				sb.WriteString(vkit.Pick(rg, []string{"\n", "\t", "'", "#", "\r"}))
			default:
				sb.WriteString(vkit.Pick(rg, c11Plain))
			}
		}
		return sb.String()
	}
}

func c11FieldValue(rg *vkit.Rand) any {
	switch rg.Intn(5) {
	case 0:
		return c11Float(rg)
	case 1:
		pool := []int64{0, 1, -1, math.MaxInt64, math.MinInt64, math.MaxInt64 - 1, math.MinInt64 + 1, 999999999999999999, 1000000000000000000, -999999999999999999}
		if rg.Bool() {
			return vkit.Pick(rg, pool)
		}
		return rg.Int64() >> uint(rg.Intn(64))
	case 2:
		pool := []uint64{0, 1, math.MaxUint64, math.MaxUint64 - 1, math.MaxInt64, math.MaxInt64 + 1, 9999999999999999999, 10000000000000000000}
		if rg.Bool() {
			return vkit.Pick(rg, pool)
		}
		return rg.Uint64() >> uint(rg.Intn(64))
	case 3:
		return rg.Bool()
	default:
		return c11String(rg)
	}
}

var c11Precisions = []string{"ns", "us", "ms", "s"}

func c11Mult(p string) int64 {
	switch p {
	case "us":
		return 1e3
	case "ms":
		return 1e6
	case "s":
		return 1e9
	}
	return 1
}

func c11Gen(rg *vkit.Rand) c11Point {
	p := c11Point{Name: c11Name(rg, false), Fields: map[string]any{}}
	nt := []int{0, 0, 1, 1, 2, 3, 5}[rg.Intn(7)]
	if rg.Chance(1, 200) {
		nt = rg.Range(90, 130) // the parser's tag-index slice starts at 100 entries
	}
	seen := map[string]bool{}
	for len(p.Tags) < nt {
		k := c11Name(rg, true)
		if nt > 20 {
			k += strconv.Itoa(len(p.Tags))
		}
		if seen[k] || c11Reserved[k] {
			continue
		}
		seen[k] = true
		p.Tags = append(p.Tags, c11KV{k, c11Name(rg, true)})
	}
	sort.Slice(p.Tags, func(i, j int) bool { return p.Tags[i].K < p.Tags[j].K })
	nf := []int{1, 1, 1, 2, 3, 6}[rg.Intn(6)]
	for len(p.Fields) < nf {
		p.Fields[c11Name(rg, true)] = c11FieldValue(rg)
	}
	p.Prec = vkit.Pick(rg, c11Precisions)
	p.HasTS = !rg.Chance(1, 10)
	switch rg.Intn(5) {
	case 0:
		p.Time = vkit.Pick(rg, []int64{models.MinNanoTime, models.MaxNanoTime, 0, 1, -1, 1500000000000000000, -1500000000000000000, models.MinNanoTime + 1, models.MaxNanoTime - 1})
	case 1:
		p.Time = rg.Int64() >> uint(rg.Intn(64))
	default:
		p.Time = 1400000000000000000 + int64(rg.Intn(1<<30))*int64(rg.Intn(1<<30))
	}
	if p.Time < models.MinNanoTime {
		p.Time = models.MinNanoTime
	}
	if p.Time > models.MaxNanoTime {
		p.Time = models.MaxNanoTime
	}
	p.Time -= p.Time % c11Mult(p.Prec) // toward zero: stays inside [MinNanoTime, MaxNanoTime]
	return p
}

// ---- independent renderer (line-protocol escaping rules) ------------------------------------

func c11Esc(s, chars string) string {
	var sb strings.Builder
	for i := 0; i < len(s); i++ {
		if strings.IndexByte(chars, s[i]) >= 0 {
			sb.WriteByte('\\')
		}
		sb.WriteByte(s[i])
	}
	return sb.String()
}

func c11RenderValue(v any) string {
	switch x := v.(type) {
	case float64:
		// shortest representation that round-trips; exponent form is legal line protocol
		return strconv.FormatFloat(x, 'g', -1, 64)
	case int64:
		return strconv.FormatInt(x, 10) + "i"
	case uint64:
		return strconv.FormatUint(x, 10) + "u"
	case bool:
		if x {
			return "true"
		}
		return "false"
	case string:
		return `"` + c11Esc(x, `"\`) + `"`
	}
	panic("unreachable")
}

func c11Render(rg *vkit.Rand, p c11Point) string {
	var sb strings.Builder
	sb.WriteString(c11Esc(p.Name, ", "))
	for _, i := range rg.Perm(len(p.Tags)) {
		sb.WriteByte(',')
		sb.WriteString(c11Esc(p.Tags[i].K, ",= "))
		sb.WriteByte('=')
		sb.WriteString(c11Esc(p.Tags[i].V, ",= "))
	}
	sb.WriteByte(' ')
	keys := make([]string, 0, len(p.Fields))
	for k := range p.Fields {
		keys = append(keys, k)
	}
	sort.Strings(keys)
	for n, i := range rg.Perm(len(keys)) {
		if n > 0 {
			sb.WriteByte(',')
		}
		sb.WriteString(c11Esc(keys[i], ",= "))
		sb.WriteByte('=')
		sb.WriteString(c11RenderValue(p.Fields[keys[i]]))
	}
	if p.HasTS {
		sb.WriteByte(' ')
		sb.WriteString(strconv.FormatInt(p.Time/c11Mult(p.Prec), 10))
	}
	return sb.String()
}

// ---- comparison ---------------------------------------------------------------------------

func c11ValEq(a, b any) bool {
	switch x := a.(type) {
	case float64:
		y, ok := b.(float64)
		return ok && math.Float64bits(x) == math.Float64bits(y)
	case int64:
		y, ok := b.(int64)
		return ok && x == y
	case uint64:
		y, ok := b.(uint64)
		return ok && x == y
	case bool:
		y, ok := b.(bool)
		return ok && x == y
	case string:
		y, ok := b.(string)
		return ok && x == y
	}
	return false
}

func c11Show(v any) string {
	if f, ok := v.(float64); ok {
		return fmt.Sprintf("float64(%x)", math.Float64bits(f))
	}
	s := fmt.Sprintf("%T(%#v)", v, v)
	if len(s) > 120 {
		s = s[:120] + "…"
	}
	return s
}

// returns component → description for every component that differs
func c11Diff(pt models.Point, want c11Point, wantTime int64) map[string]string {
	d := map[string]string{}
	if got := string(pt.Name()); got != want.Name {
		d["name"] = fmt.Sprintf("want %q got %q", want.Name, got)
	}
	tags := pt.Tags()
	if len(tags) != len(want.Tags) {
		d["tags"] = fmt.Sprintf("want %d tags %q got %d %s", len(want.Tags), want.Tags, len(tags), tags)
	} else {
		for i := range tags {
			if string(tags[i].Key) != want.Tags[i].K || string(tags[i].Value) != want.Tags[i].V {
				d["tags"] = fmt.Sprintf("tag %d: want %q=%q got %q=%q (all: want %q got %s)", i, want.Tags[i].K, want.Tags[i].V, tags[i].Key, tags[i].Value, want.Tags, tags)
				break
			}
		}
	}
	fields, err := pt.Fields()
	if err != nil {
		d["fields"] = "Fields(): " + err.Error()
	} else {
		if len(fields) != len(want.Fields) {
			d["fields"] = fmt.Sprintf("want %d fields got %d (%v)", len(want.Fields), len(fields), fields)
		}
		for k, wv := range want.Fields {
			gv, ok := fields[k]
			if !ok {
				d["fields"] = fmt.Sprintf("field %q missing (got %v)", k, fields)
				break
			}
			if !c11ValEq(wv, gv) {
				d["fields"] = fmt.Sprintf("field %q: want %s got %s", k, c11Show(wv), c11Show(gv))
				break
			}
		}
	}
	if got := pt.UnixNano(); got != wantTime {
		d["time"] = fmt.Sprintf("want %d got %d", wantTime, got)
	}
	return d
}

func c11ModelTags(p c11Point) models.Tags {
	t := make(models.Tags, len(p.Tags))
	for i, kv := range p.Tags {
		t[i] = models.NewTag([]byte(kv.K), []byte(kv.V))
	}
	return t
}

// c11Trigger labels a violation with the two properties of the point that matter for the
// known asymmetries: which name components contain a backslash, and whether sorting the tag
// keys in their escaped form gives another order than sorting the keys themselves.
func c11Trigger(p c11Point) map[string]string {
	var where []string
	if c11Hazards(p.Name).Backslash {
		where = append(where, "measurement")
	}
	tk, tv, fk := false, false, false
	for _, kv := range p.Tags {
		tk = tk || c11Hazards(kv.K).Backslash
		tv = tv || c11Hazards(kv.V).Backslash
	}
	for k := range p.Fields {
		fk = fk || c11Hazards(k).Backslash
	}
	if tk {
		where = append(where, "tag_key")
	}
	if tv {
		where = append(where, "tag_value")
	}
	if fk {
		where = append(where, "field_key")
	}
	f := map[string]string{"backslash_in": "none", "escaped_tag_order": "same"}
	if len(where) > 0 {
		f["backslash_in"] = strings.Join(where, "+")
	}
	esc := make([]string, len(p.Tags))
	for i, kv := range p.Tags { // p.Tags is sorted by raw key
		esc[i] = c11Esc(kv.K, ",= ")
	}
	if !sort.StringsAreSorted(esc) {
		f["escaped_tag_order"] = "differs"
	}
	return f
}

type c11Wit struct {
	Point  map[string]any    `json:"point"`
	Path   string            `json:"path"`
	Text   string            `json:"text,omitempty"`
	Diff   map[string]string `json:"diff,omitempty"`
	Err    string            `json:"err,omitempty"`
	Points int               `json:"points_returned"`
}

func c11PointJSON(p c11Point) map[string]any {
	fs := map[string]string{}
	for k, v := range p.Fields {
		fs[k] = c11Show(v)
	}
	return map[string]any{"name": p.Name, "tags": p.Tags, "fields": fs, "time_ns": p.Time, "precision": p.Prec, "has_timestamp": p.HasTS}
}

func c11Clip(s string) string {
	if len(s) > 600 {
		return s[:600] + fmt.Sprintf("…(%d bytes)", len(s))
	}
	return s
}

var c11Default = time.Unix(0, 1234567890123456789).UTC()

func TestC11(t *testing.T) {
	r := vkit.Start(t, "C11", "exploration")
	defer r.Finish()
	c11T = gpNewTally(r)
	defer c11T.Flush()
	r.Rule("a case = one generated valid point: measurement/tag keys/tag values/field keys of 1–4 atoms over plain+unicode atoms and the special characters space , = \" \\ (half of the names hostile), 0–5 tags (rarely 90–130), 1–6 fields of all five types incl. extremes (±MaxFloat64, subnormals, −0, Min/MaxInt64, MaxUint64, strings with quotes/backslashes/newlines), timestamp incl. Min/MaxNanoTime at precision ns/us/ms/s or absent; rendered by NewPoint→String/AppendString/PrecisionString/MarshalBinary and by an independent renderer with shuffled tags/fields, parsed back and compared component-wise with the model; series key via MakeKey→ParseKeyBytes/ParseKey/ParseName/ParseTags; non-trivial = ≥1 tag or ≥2 fields or a hostile character; distinct = hash of the model point")
	n := r.N(60000, 1500000)
	for i := 0; i < n; i++ {
		c11One(r, i)
	}
	r.Assume("newline, tab, NUL and other control characters do not occur in measurement/tag/field names (line protocol cannot express them); a measurement never starts with '#' (comment marker, not escapable); reserved tag keys _field/_measurement/time are not generated",
		"precisions are those of models.ValidPrecision: ns, us, ms, s")
}

// frames of /repo code in a panic stack (innermost first)
func c11RepoFrames(stack []byte) []string {
	var out []string
	for _, l := range strings.Split(string(stack), "\n") {
		if strings.HasPrefix(l, "github.com/influxdata/influxdb/v2/") {
			f := strings.TrimPrefix(l, "github.com/influxdata/influxdb/v2/")
			if i := strings.LastIndex(f, "("); i > 0 {
				f = f[:i]
			}
			out = append(out, f)
		}
	}
	return out
}

func c11One(r *vkit.Run, i int) {
	{
		rg := r.Rand(i)
		p := c11Gen(rg)
		trig := c11Trigger(p)
		defer func() {
			if e := recover(); e != nil {
				frames := c11RepoFrames(debug.Stack())
				site := "harness"
				if len(frames) > 0 {
					site = frames[0]
				}
				feats := map[string]string{"site": site}
				for k, v := range trig {
					feats[k] = v
				}
				c11T.V("panic", feats, map[string]any{"point": c11PointJSON(p), "panic": fmt.Sprint(e), "repo_frames": frames})
			}
		}()
		hostile := c11Hazards(p.Name).Special || c11Hazards(p.Name).Backslash
		for _, kv := range p.Tags {
			hostile = hostile || c11Hazards(kv.K).Special || c11Hazards(kv.K).Backslash || c11Hazards(kv.V).Special || c11Hazards(kv.V).Backslash
		}
		for k := range p.Fields {
			hostile = hostile || c11Hazards(k).Special || c11Hazards(k).Backslash
		}
		r.Case(fmt.Sprintf("%q|%q|%v|%d|%s|%v", p.Name, p.Tags, c11PointJSON(p)["fields"], p.Time, p.Prec, p.HasTS), len(p.Tags) >= 1 || len(p.Fields) >= 2 || hostile)
		if i%3001 == 0 && r.WantSample() {
			r.Sample(map[string]any{"case": i, "point": c11PointJSON(p), "independent_rendering": c11Clip(c11Render(r.Rand(i), p))})
		}
		fail := func(path, component string, w c11Wit) {
			feats := map[string]string{"path": path, "component": component}
			for k, v := range trig {
				feats[k] = v
			}
			w.Path = path
			w.Point = c11PointJSON(p)
			w.Text = c11Clip(w.Text)
			c11T.V("roundtrip_mismatch", feats, w)
		}
		report := func(path, text string, d map[string]string) {
			// one violation per differing component, so that each carries its own label
			comps := make([]string, 0, len(d))
			for c := range d {
				comps = append(comps, c)
			}
			sort.Strings(comps)
			for _, c := range comps {
				fail(path, c, c11Wit{Text: text, Diff: d, Points: 1})
			}
		}
		wantTime := p.Time
		if !p.HasTS {
			wantTime = c11Default.UnixNano()
		}
		parse1 := func(path, text, prec string, want int64) models.Point {
			pts, err := models.ParsePointsWithPrecision([]byte(text), c11Default, prec)
			r.Event("parsed_"+path, 1)
			if err != nil || len(pts) != 1 {
				e := ""
				if err != nil {
					e = err.Error()
				}
				fail(path, "parse", c11Wit{Text: text, Err: c11Clip(e), Points: len(pts)})
				return nil
			}
			if d := c11Diff(pts[0], p, want); len(d) > 0 {
				report(path, text, d)
			}
			return pts[0]
		}

		// (1) independent rendering, shuffled tags and fields, at the point's precision
		own := c11Render(rg, p)
		wt := wantTime
		if !p.HasTS {
			// SetPrecision truncates the default time to the precision
			wt = c11Default.UnixNano() - c11Default.UnixNano()%c11Mult(p.Prec)
		}
		if pt := parse1("own_render_parse", own, p.Prec, wt); pt != nil {
			// "the same tag set in sorted order": the key of the parsed point is the key built from the sorted model tags
			if want := models.MakeKey([]byte(p.Name), c11ModelTags(p)); !bytes.Equal(pt.Key(), want) {
				fail("own_render_parse", "key", c11Wit{Text: own, Diff: map[string]string{"key": fmt.Sprintf("want %q got %q", want, pt.Key())}, Points: 1})
			}
		}

		// (2) the repo's renderers
		var ts time.Time
		if p.HasTS {
			ts = time.Unix(0, p.Time).UTC()
		}
		np, err := models.NewPoint(p.Name, c11ModelTags(p), models.Fields(p.Fields), ts)
		if err != nil {
			fail("newpoint", "construct", c11Wit{Err: err.Error()})
			return
		}
		r.Event("newpoint_built", 1)
		npTime := p.Time
		if !p.HasTS {
			npTime = time.Time{}.UnixNano()
		}
		if d := c11Diff(np, p, npTime); len(d) > 0 {
			report("newpoint_accessors", string(np.Key())+" "+np.String(), d)
		}
		s := np.String()
		if as := string(np.AppendString(nil)); as != s {
			fail("appendstring", "text", c11Wit{Text: s, Diff: map[string]string{"text": fmt.Sprintf("String()=%q AppendString=%q", c11Clip(s), c11Clip(as))}})
		}
		if sz := np.StringSize(); sz != len(s) {
			fail("stringsize", "text", c11Wit{Text: s, Diff: map[string]string{"size": fmt.Sprintf("StringSize()=%d len(String())=%d", sz, len(s))}})
		}
		parse1("string_parse", s, "ns", wantTime)
		if p.HasTS {
			parse1("precision_string_parse", np.PrecisionString(p.Prec), p.Prec, p.Time)
		}
		// (3) binary form
		if b, err := np.MarshalBinary(); err != nil {
			fail("marshalbinary", "marshal", c11Wit{Err: err.Error()})
		} else if back, err := models.NewPointFromBytes(b); err != nil {
			fail("marshalbinary", "unmarshal", c11Wit{Err: err.Error(), Text: s})
		} else {
			r.Event("binary_roundtrips", 1)
			if d := c11Diff(back, p, npTime); len(d) > 0 {
				report("marshalbinary", s, d)
			}
			if back.String() != s {
				fail("marshalbinary", "text", c11Wit{Text: s, Diff: map[string]string{"text": fmt.Sprintf("before %q after %q", c11Clip(s), c11Clip(back.String()))}})
			}
		}
		// (4) series key
		key := models.MakeKey([]byte(p.Name), c11ModelTags(p))
		kfail := func(fn string, d map[string]string) {
			for c := range d {
				fail("makekey_"+fn, c, c11Wit{Text: string(key), Diff: d})
			}
		}
		cmpKey := func(fn string, name string, checkName bool, tags models.Tags, checkTags bool) {
			d := map[string]string{}
			if checkName && name != p.Name {
				d["name"] = fmt.Sprintf("want %q got %q", p.Name, name)
			}
			if checkTags {
				if len(tags) != len(p.Tags) {
					d["tags"] = fmt.Sprintf("want %q got %s", p.Tags, tags)
				} else {
					for i := range tags {
						if string(tags[i].Key) != p.Tags[i].K || string(tags[i].Value) != p.Tags[i].V {
							d["tags"] = fmt.Sprintf("want %q got %s", p.Tags, tags)
							break
						}
					}
				}
			}
			r.Event("key_"+fn, 1)
			if len(d) > 0 {
				kfail(fn, d)
			}
		}
		nb, tg := models.ParseKeyBytes(append([]byte(nil), key...))
		cmpKey("ParseKeyBytes", string(nb), true, tg, true)
		ns, tg2 := models.ParseKey(append([]byte(nil), key...))
		cmpKey("ParseKey", ns, true, tg2, true)
		cmpKey("ParseName", string(models.ParseName(append([]byte(nil), key...))), true, nil, false)
		cmpKey("ParseTags", "", false, models.ParseTags(append([]byte(nil), key...)), true)
	}
}
