package g_pkg

import (
	"fmt"
	"sort"
	"strings"
	"sync"

	"verifharness/vkit"
)

// gpTally wraps Run.Violation and keeps a per-(class, features) count that is written to the
// evidence file ("violation_tally"): vkit stores only the first 20 witnesses, the tally shows
// every class that fired and how often (known findings included).
type gpTally struct {
	mu sync.Mutex
	r  *vkit.Run
	m  map[string]int
}

func gpNewTally(r *vkit.Run) *gpTally { return &gpTally{r: r, m: map[string]int{}} }

func (t *gpTally) V(class string, feats map[string]string, wit any) {
	keys := make([]string, 0, len(feats))
	for k := range feats {
		keys = append(keys, k)
	}
	sort.Strings(keys)
	var sb strings.Builder
	sb.WriteString(class)
	for _, k := range keys {
		fmt.Fprintf(&sb, " %s=%s", k, feats[k])
	}
	t.mu.Lock()
	t.m[sb.String()]++
	t.mu.Unlock()
	t.r.Violation(class, feats, wit)
}

// Flush writes the tally into the evidence extras (call before Finish).
func (t *gpTally) Flush() {
	t.mu.Lock()
	defer t.mu.Unlock()
	if len(t.m) > 0 {
		t.r.Extra("violation_tally", t.m)
	}
}
