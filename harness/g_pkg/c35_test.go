package g_pkg

import (
	"bytes"
	"encoding/binary"
	"fmt"
	"math"
	"testing"

	"github.com/influxdata/influxdb/v2/pkg/estimator/hll"

	"verifharness/vkit"
)

// C35 — HyperLogLog++ sketches: merge laws at register level, error bound against the exact
// union cardinality, marshal round-trip (DESIGN §5 C35).

type c35Leaf struct {
	Lo     int  `json:"lo"` // index range [Lo,Hi) of the case's key universe
	Hi     int  `json:"hi"`
	Stride int  `json:"stride"`
	Dups   int  `json:"dups"` // how many keys are added a second time (multiset)
	Rev    bool `json:"rev"`  // insertion order reversed
}

type c35Case struct {
	P      uint8     `json:"precision"`
	Leaves []c35Leaf `json:"leaves"`
	Base   uint64    `json:"key_base"`
}

func c35Key(base uint64, idx int) []byte {
	var b [16]byte
	binary.BigEndian.PutUint64(b[:8], base)
	binary.BigEndian.PutUint64(b[8:], uint64(idx)*0x9E3779B97F4A7C15+1)
	return b[:]
}

// sizes chosen around the sketch's internal thresholds: tmpSet flush at m/100 entries,
// sparse→dense when the compressed list exceeds m bytes (≈ m/2.5 entries), and well past m.
func c35Size(rg *vkit.Rand, m int, maxN int) int {
	var n int
	switch rg.Intn(12) {
	case 0:
		n = 0
	case 1:
		n = rg.Range(1, 3)
	case 2, 3:
		n = rg.Range(4, 200)
	case 4:
		n = m/100 + rg.Range(-2, 3)
	case 5:
		n = rg.Range(m/100+1, m/4+2)
	case 6:
		n = m/3 + rg.Range(-m/20-1, m/10+1)
	case 7:
		n = rg.Range(m/4, m+1)
	case 8, 9:
		n = rg.Range(m, 3*m+1)
	case 10:
		n = rg.Range(3*m, 6*m+1)
	default:
		n = rg.Range(1, 2000)
	}
	if n < 0 {
		n = 0
	}
	if n > maxN {
		n = maxN/2 + rg.Intn(maxN/2+1)
	}
	return n
}

func c35Gen(rg *vkit.Rand, maxN int) c35Case {
	ps := []uint8{16, 16, 16, 16, 14, 14, 18, 12, 12, 10, 8, 6, 5, 4}
	c := c35Case{P: vkit.Pick(rg, ps), Base: rg.Uint64()}
	m := 1 << c.P
	k := rg.Range(2, 5)
	cursor := 0
	for i := 0; i < k; i++ {
		n := c35Size(rg, m, maxN)
		l := c35Leaf{Stride: 1, Rev: rg.Bool()}
		if rg.Chance(1, 4) {
			l.Stride = rg.Range(2, 3)
		}
		// placement: overlap with what exists (heavy / light), disjoint, or identical to a previous leaf
		switch {
		case i > 0 && rg.Chance(1, 8):
			prev := c.Leaves[rg.Intn(i)]
			l.Lo, l.Hi, l.Stride = prev.Lo, prev.Hi, prev.Stride
		case i > 0 && rg.Chance(1, 2) && cursor > 0:
			l.Lo = rg.Intn(cursor)
			l.Hi = l.Lo + n*l.Stride
		default:
			l.Lo = cursor + rg.Intn(3)
			l.Hi = l.Lo + n*l.Stride
		}
		if l.Hi > cursor {
			cursor = l.Hi
		}
		if cnt := (l.Hi - l.Lo + l.Stride - 1) / l.Stride; cnt > 0 && rg.Chance(1, 3) {
			l.Dups = rg.Intn(cnt + 1)
		}
		c.Leaves = append(c.Leaves, l)
	}
	return c
}

func (l c35Leaf) indexes() []int {
	var out []int
	for i := l.Lo; i < l.Hi; i += l.Stride {
		out = append(out, i)
	}
	if l.Rev {
		for i, j := 0, len(out)-1; i < j; i, j = i+1, j-1 {
			out[i], out[j] = out[j], out[i]
		}
	}
	return out
}

func c35Build(c c35Case, l c35Leaf) (*hll.Plus, int) {
	h, err := hll.NewPlus(c.P)
	if err != nil {
		panic(err)
	}
	idx := l.indexes()
	for _, i := range idx {
		h.Add(c35Key(c.Base, i))
	}
	for d := 0; d < l.Dups && d < len(idx); d++ {
		h.Add(c35Key(c.Base, idx[(d*7)%len(idx)]))
	}
	return h, len(idx)
}

func c35Clone(h *hll.Plus) *hll.Plus { return h.Clone().(*hll.Plus) }

// dense register image of a sketch: merge into an empty sketch of the same precision
// (Merge always leaves the receiver in dense form) and marshal.
func c35Registers(p uint8, h *hll.Plus) []byte {
	d, _ := hll.NewPlus(p)
	if err := d.Merge(c35Clone(h)); err != nil {
		panic(err)
	}
	b, err := d.MarshalBinary()
	if err != nil {
		panic(err)
	}
	return b
}

func c35Bytes(h *hll.Plus) []byte {
	b, err := h.MarshalBinary()
	if err != nil {
		panic(err)
	}
	return b
}

func c35RegDiff(a, b []byte) string {
	if len(a) != len(b) {
		return fmt.Sprintf("len %d vs %d", len(a), len(b))
	}
	n, first := 0, -1
	for i := range a {
		if a[i] != b[i] {
			if first < 0 {
				first = i
			}
			n++
		}
	}
	if n == 0 {
		return ""
	}
	return fmt.Sprintf("%d bytes differ, first at offset %d (register %d): %d vs %d", n, first, first-7, a[first], b[first])
}

func c35MaxRegister(p uint8, h *hll.Plus) int {
	b := c35Registers(p, h)
	max := 0
	for _, v := range b[7:] {
		if int(v) > max {
			max = int(v)
		}
	}
	return max
}

// c35RankOverflowKey hashes (xxhash64) to a value whose bits after the 16 index bits start
// with 31 zeros: register rank 32 at precision 16. Found by the thorough tier (seed 7, case
// with 194 307 keys); kept as a fixed case because such keys occur once in 2^31.
var c35RankOverflowKey = []byte{0x94, 0xfb, 0x74, 0x25, 0x29, 0x3f, 0xa7, 0xbe, 0xf9, 0x7a, 0x17, 0x76, 0xfe, 0x39, 0x93, 0x10}

func c35RankOverflow(r *vkit.Run) {
	for _, extra := range []int{0, 1000, 100000} {
		h, _ := hll.NewPlus(16)
		h.Add(c35RankOverflowKey)
		for i := 0; i < extra; i++ {
			h.Add(c35Key(0x5eed, i))
		}
		d, _ := hll.NewPlus(16)
		d.Merge(h) // dense form
		maxReg := c35MaxRegister(16, d)
		r.Case(fmt.Sprint("rank-overflow/", extra), true)
		if maxReg < 32 {
			r.Inconclusive("fixed high-rank key no longer yields a register ≥ 32 (hash function changed?)")
			continue
		}
		n := extra + 1
		got := d.Count()
		sigma := 1.04 / 256.0
		r.Event("count_checked_high_rank_register", 1)
		if diff := math.Abs(float64(got) - float64(n)); diff > 8*sigma*float64(n)+2 {
			r.Violation("estimate_outside_error_bound", map[string]string{"precision": "16", "sketch": "dense_with_rank_32_register", "register_ge_32": "true"},
				map[string]any{"true_cardinality": n, "count": got, "max_register": maxReg, "key_hex": fmt.Sprintf("%x", c35RankOverflowKey), "other_keys": extra})
		}
	}
}

func TestC35(t *testing.T) {
	r := vkit.Start(t, "C35", "exploration")
	defer r.Finish()
	r.Rule("a case = precision p∈{4..18, mostly 16} + 2..5 leaf multisets (index ranges of a per-case key universe, overlapping/disjoint/identical, sizes around m/100, ≈m/3 (sparse→dense) and up to 6m, with re-added keys); sketches are built with the real Add, merged in three association/orders, compared register-by-register (dense MarshalBinary), counted against the exact union size, and marshalled/unmarshalled; non-trivial = ≥2 non-empty leaves; distinct = hash of (p, leaves)")
	n := r.N(300, 2500)
	maxN := 200000
	if !r.Quick() {
		maxN = 600000
	}
	maxSig := map[string]float64{}
	reprs := map[string]int64{}
	for ci := 0; ci < n; ci++ {
		rg := r.Rand(ci)
		c := c35Gen(rg, maxN)
		m := 1 << c.P
		sigma := 1.04 / math.Sqrt(float64(m))
		feat := func(extra ...string) map[string]string {
			f := map[string]string{"precision": fmt.Sprint(c.P)}
			for i := 0; i+1 < len(extra); i += 2 {
				f[extra[i]] = extra[i+1]
			}
			return f
		}
		// exact union
		universe := 0
		for _, l := range c.Leaves {
			if l.Hi > universe {
				universe = l.Hi
			}
		}
		seen := make([]bool, universe+1)
		union := 0
		nonEmpty := 0
		leaves := make([]*hll.Plus, len(c.Leaves))
		leafCard := make([]int, len(c.Leaves))
		for i, l := range c.Leaves {
			leaves[i], leafCard[i] = c35Build(c, l)
			if leafCard[i] > 0 {
				nonEmpty++
			}
			for _, x := range l.indexes() {
				if !seen[x] {
					seen[x] = true
					union++
				}
			}
		}
		r.Case(fmt.Sprintf("%d/%v", c.P, c.Leaves), nonEmpty >= 2)
		if ci%53 == 0 && r.WantSample() {
			r.Sample(map[string]any{"case": ci, "precision": c.P, "leaves": c.Leaves, "leaf_cardinalities": leafCard, "union": union})
		}
		bound := func(n int) float64 { return 8*sigma*float64(n) + 2 }
		checkCount := func(what string, h *hll.Plus, truth int) {
			got := h.Count()
			diff := math.Abs(float64(got) - float64(truth))
			if truth > 0 {
				k := fmt.Sprintf("p%02d/%s", c.P, what)
				if s := diff / (sigma * float64(truth)); s > maxSig[k] && truth >= 50 {
					maxSig[k] = s
				}
			}
			r.Event("count_checked_"+what, 1)
			if diff > bound(truth) {
				r.Violation("estimate_outside_error_bound", feat("sketch", what, "register_ge_32", fmt.Sprint(c35MaxRegister(c.P, h) >= 32)), map[string]any{
					"case": c, "what": what, "true_cardinality": truth, "count": got, "allowed_abs_error": bound(truth), "sigma": sigma, "max_register": c35MaxRegister(c.P, h)})
			}
		}
		// leaf estimates + marshal round-trip of every representation that occurs
		for i, h := range leaves {
			checkCount("leaf", c35Clone(h), leafCard[i])
			c35Marshal(r, c, feat, fmt.Sprintf("leaf%d", i), h, leaves[(i+1)%len(leaves)], reprs)
		}
		// three merge orders/associations
		L := c35Clone(leaves[0])
		for i := 1; i < len(leaves); i++ {
			if err := L.Merge(c35Clone(leaves[i])); err != nil {
				t.Fatalf("merge: %v", err)
			}
		}
		R := c35Clone(leaves[len(leaves)-1])
		for i := len(leaves) - 2; i >= 0; i-- {
			if err := R.Merge(c35Clone(leaves[i])); err != nil {
				t.Fatalf("merge: %v", err)
			}
		}
		// balanced tree: merge(merge(l0,l1), merge(l2,l3...)) with the right half built first
		half := len(leaves) / 2
		right := c35Clone(leaves[half])
		for i := half + 1; i < len(leaves); i++ {
			right.Merge(c35Clone(leaves[i]))
		}
		T := c35Clone(leaves[0])
		for i := 1; i < half; i++ {
			T.Merge(c35Clone(leaves[i]))
		}
		T.Merge(right)
		lb, rb, tb := c35Bytes(L), c35Bytes(R), c35Bytes(T)
		r.Event("merge_orders_compared", 2)
		if d := c35RegDiff(lb, rb); d != "" {
			r.Violation("merge_not_commutative", feat(), map[string]any{"case": c, "diff": "left-fold vs reversed fold: " + d})
		}
		if d := c35RegDiff(lb, tb); d != "" {
			r.Violation("merge_not_associative", feat(), map[string]any{"case": c, "diff": "left-fold vs balanced tree: " + d})
		}
		// pairwise commutativity on the first two leaves (covers sparse×sparse, sparse×dense, dense×dense)
		ab := c35Clone(leaves[0])
		ab.Merge(c35Clone(leaves[1]))
		ba := c35Clone(leaves[1])
		ba.Merge(c35Clone(leaves[0]))
		r.Event("pair_commutativity_compared", 1)
		if d := c35RegDiff(c35Bytes(ab), c35Bytes(ba)); d != "" {
			r.Violation("merge_not_commutative", feat("shape", "pair"), map[string]any{"case": c, "diff": "a∪b vs b∪a: " + d})
		}
		// idempotence: merging the result with itself, and with a leaf it already contains
		I := c35Clone(L)
		I.Merge(c35Clone(L))
		I.Merge(c35Clone(leaves[rg.Intn(len(leaves))]))
		r.Event("idempotence_compared", 2)
		if d := c35RegDiff(lb, c35Bytes(I)); d != "" {
			r.Violation("merge_not_idempotent", feat(), map[string]any{"case": c, "diff": d})
		}
		self := c35Clone(leaves[0])
		self.Merge(c35Clone(leaves[0]))
		if d := c35RegDiff(c35Registers(c.P, leaves[0]), c35Bytes(self)); d != "" {
			r.Violation("merge_not_idempotent", feat("shape", "self"), map[string]any{"case": c, "diff": "a∪a vs a: " + d})
		}
		// the merged sketch must be the sketch of the union (register-wise max == adding all keys to one sketch)
		U, _ := hll.NewPlus(c.P)
		for x := 0; x <= universe; x++ {
			if seen[x] {
				U.Add(c35Key(c.Base, x))
			}
		}
		r.Event("union_sketch_compared", 1)
		if d := c35RegDiff(lb, c35Registers(c.P, U)); d != "" {
			r.Violation("merge_differs_from_union_sketch", feat(), map[string]any{"case": c, "diff": d, "union": union})
		}
		checkCount("merged", c35Clone(L), union)
		checkCount("single", U, union)
		// the way the server folds sketches (tsi1 FileSet / tsdb.Store): a fresh accumulator, the
		// per-file / per-shard sketches merged into it as they are (no copies), the same leaves used
		// again in a second fold. The second fold must still be the sketch of its own union.
		{
			before := make([][]byte, len(leaves))
			for i, h := range leaves {
				before[i] = c35Registers(c.P, h)
			}
			acc1, _ := hll.NewPlus(c.P)
			order := rg.Perm(len(leaves))
			for _, i := range order {
				acc1.Merge(leaves[i])
			}
			// second fold over a sub-list that starts with the leaf the first fold started with
			sub := []int{order[0]}
			for _, i := range order[1:] {
				if rg.Bool() {
					sub = append(sub, i)
				}
			}
			acc2, _ := hll.NewPlus(c.P)
			want2, _ := hll.NewPlus(c.P)
			for _, i := range sub {
				acc2.Merge(leaves[i])
				l, _ := c35Build(c, c.Leaves[i])
				want2.Merge(l)
			}
			r.Event("server_style_folds_compared", 2)
			if d := c35RegDiff(lb, c35Bytes(acc1)); d != "" {
				r.Violation("merge_differs_from_union_sketch", feat("shape", "fresh_accumulator_fold"), map[string]any{"case": c, "order": order, "diff": d})
			} else if d := c35RegDiff(c35Bytes(want2), c35Bytes(acc2)); d != "" {
				changed := []int{}
				for i, h := range leaves {
					if c35RegDiff(before[i], c35Registers(c.P, h)) != "" {
						changed = append(changed, i)
					}
				}
				r.Violation("merge_result_depends_on_earlier_merges", feat("shape", "fresh_accumulator_fold", "argument_modified", fmt.Sprint(len(changed) > 0)), map[string]any{
					"case": c, "first_fold_order": order, "second_fold": sub, "diff": "second fold vs the same fold over freshly built leaves: " + d, "leaves_whose_registers_changed": changed})
			}
		}
		c35Marshal(r, c, feat, "merged", L, leaves[0], reprs)
	}
	c35RankOverflow(r)
	r.Extra("max_abs_error_in_sigmas_for_cardinality_ge_50", maxSig)
	r.Extra("representations_marshalled", reprs)
	r.Assume("error bound taken as |count − n| ≤ 8σ·n + 2 with σ = 1.04/√(2^p) (the HLL standard error); the absolute slack of 2 covers truncation to an integer for tiny sets")
}

// c35Marshal: MarshalBinary → UnmarshalBinary preserves Count, the encoding is stable, and the
// restored sketch gives the same estimate after being merged with another sketch.
func c35Marshal(r *vkit.Run, c c35Case, feat func(...string) map[string]string, what string, h, other *hll.Plus, reprs map[string]int64) {
	orig := c35Clone(h)
	b, err := orig.MarshalBinary()
	if err != nil {
		r.Violation("marshal_error", feat("sketch", what), map[string]any{"case": c, "err": err.Error()})
		return
	}
	repr := "dense"
	if len(b) > 2 && b[2] == 1 {
		repr = "sparse"
	}
	reprs[repr]++
	var back hll.Plus
	if err := back.UnmarshalBinary(b); err != nil {
		r.Violation("unmarshal_error", feat("sketch", what, "repr", repr), map[string]any{"case": c, "err": err.Error(), "len": len(b)})
		return
	}
	r.Event("marshal_roundtrips", 1)
	want, got := c35Clone(h).Count(), back.Count()
	if want != got {
		r.Violation("marshal_changes_estimate", feat("sketch", what, "repr", repr), map[string]any{"case": c, "count_before": want, "count_after": got})
		return
	}
	b2, err := back.MarshalBinary()
	if err != nil || !bytes.Equal(b, b2) {
		// the sparse encoding iterates a Go map only when tmpSet is non-empty; after MarshalBinary it is empty, so the bytes are canonical
		r.Violation("marshal_not_stable", feat("sketch", what, "repr", repr), map[string]any{"case": c, "len_before": len(b), "len_after": len(b2), "err": fmt.Sprint(err)})
	}
	// estimate preserved in composition: (restored ∪ other) counts like (original ∪ other)
	m1 := c35Clone(h)
	m1.Merge(c35Clone(other))
	m2 := c35Clone(&back)
	m2.Merge(c35Clone(other))
	if a, b := m1.Count(), m2.Count(); a != b {
		r.Violation("marshal_changes_estimate", feat("sketch", what, "repr", repr, "after", "merge"), map[string]any{"case": c, "count_original_merged": a, "count_restored_merged": b})
	}
	// and after adding more keys to both. The two may switch from sparse to dense at different
	// moments (the flush cadence of the temporary set differs), and the two representations use
	// different estimators, so the comparison is on the register image, not on Count.
	a1, a2 := c35Clone(h), c35Clone(&back)
	for i := 0; i < 40; i++ {
		k := c35Key(c.Base^0xabcdef, i)
		a1.Add(k)
		a2.Add(k)
	}
	if d := c35RegDiff(c35Registers(c.P, a1), c35Registers(c.P, a2)); d != "" {
		r.Violation("marshal_changes_estimate", feat("sketch", what, "repr", repr, "after", "add"), map[string]any{"case": c, "register_diff_after_40_more_adds": d})
	}
}
