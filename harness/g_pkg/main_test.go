package g_pkg

import (
	"testing"

	"verifharness/vkit"
)

// TestMain dispatches child-process handlers (vkit.RunChild re-executes this binary).
// Handlers: c12batch — parse one batch of C12 inputs with the input journalled before each
// parse, so that a process-fatal event is attributed to one input.
func TestMain(m *testing.M) {
	vkit.ChildMain(m, map[string]vkit.ChildHandler{
		"c12batch": c12ChildBatch,
	})
}
