package g_pkg

import (
	"bufio"
	"bytes"
	"crypto/sha256"
	_ "embed"
	"encoding/hex"
	"encoding/json"
	"fmt"
	"os"
	"path/filepath"
	"runtime/debug"
	"sort"
	"strconv"
	"strings"
	"sync"
	"testing"
	"time"

	"github.com/influxdata/influxdb/v2/models"

	"verifharness/vkit"
)

// C12 — the line-protocol parser is total and accepts exactly well-formed lines (DESIGN §5 C12).
//
// Inputs are a pure function of (VERIF_SEED, case#): structured valid batches, valid batches
// with injected defects of known kind, key-length boundary lines, mutations of corpus entries
// (string literals of models/points_test.go) and of rendered valid lines, and raw byte soup.
// Each batch of cases runs in a child process (re-exec of this test binary). The child writes
// the case number and the input to a journal before parsing it, recovers panics per input, and
// returns counts and oracle verdicts; a process-fatal event is attributed to the journalled
// input by the parent.
//
// Oracles: (1) no panic / fatal error; hang → watchdog → inconclusive. (2) independent validator
// on every returned point. (3) structured cases: known-valid lines are accepted and yield the
// model point, lines with an injected defect are rejected, and the error text names exactly
// the defective lines. (4) inputs whose line structure is unambiguous (no double quote, no
// backslash before a newline): the batch result equals the concatenation of the results of
// parsing each physical line alone, and every rejected line is named in the error text.

//go:embed testdata/c12_corpus.txt
var c12CorpusRaw string

var (
	c12CorpusOnce sync.Once
	c12Corpus     []string
)

func c12LoadCorpus() []string {
	c12CorpusOnce.Do(func() {
		for _, l := range strings.Split(c12CorpusRaw, "\n") {
			if l == "" {
				continue
			}
			if s, err := strconv.Unquote(l); err == nil {
				c12Corpus = append(c12Corpus, s)
			}
		}
	})
	return c12Corpus
}

var c12Default = time.Unix(0, 1600000000123456789).UTC()

// ---- input generation -----------------------------------------------------------------------

type c12Expect struct {
	Kind    string   // valid | defect | boundary | mutated | soup
	Lines   []string // physical/logical lines of a structured case, in order
	Valid   []bool   // per line: must be accepted (true) or rejected (false)
	Defects []string // per line: defect kind ("" for valid)
	Models  []*c11Point
	Prec    string
	Detail  string
	Special string // kind of the single special defect of the batch, or "none"
	Trigger string // "leading_space+quote" when a line starts with a blank run containing a space and contains a double quote
}

type c12Input struct {
	Data   []byte
	Prec   string
	Expect *c12Expect // nil for mutated / soup
	Kind   string
}

// clean model point: the C11 generator restricted to names without backslashes (names with
// backslashes do not round-trip — C11 — so their validity by construction is not known)
func c12CleanPoint(rg *vkit.Rand) c11Point {
	for {
		p := c11Gen(rg)
		if c11Trigger(p)["backslash_in"] != "none" {
			continue
		}
		if len(p.Tags) > 20 && !rg.Chance(1, 4) {
			continue
		}
		return p
	}
}

var c12Defects = []string{
	"no_fields", "no_measurement", "duplicate_tag", "duplicate_tag_unsorted", "tag_without_value", "tag_without_equals",
	"field_without_value", "field_without_key", "bad_number", "int_out_of_range", "uint_out_of_range", "negative_unsigned",
	"float_out_of_range", "bad_boolean", "nan_inf", "bad_timestamp", "timestamp_out_of_range", "trailing_garbage",
	"reserved_tag_key", "key_too_long", "series_key_too_long", "unbalanced_quote", "empty_tag_key", "fields_separator_missing",
}

// defect kinds that get batches of their own (exactly one defect line), so that everything a
// mishandled line of that kind causes in its batch is labelled with the kind ("special")
var c12SpecialDefects = []string{"field_key_blank", "bytes_after_string", "field_count_fooled"}

func c12DefectLine(rg *vkit.Rand, kind, prec string) string {
	ts := " 1600000000"
	if rg.Chance(1, 3) {
		ts = ""
	}
	switch kind {
	case "no_fields":
		return vkit.Pick(rg, []string{"cpu,host=a", "cpu", "cpu,host=a ", "cpu "})
	case "no_measurement":
		return vkit.Pick(rg, []string{",host=a value=1", " ,host=a value=1" + ts})
	case "duplicate_tag":
		return "cpu,host=a,host=b value=1" + ts
	case "duplicate_tag_unsorted":
		return vkit.Pick(rg, []string{"cpu,b=1,a=2,b=3 value=1", "cpu,z=1,host=a,region=x,host=b value=1i", "cpu,b=1,b=1,a=0 value=1"}) + ts
	case "tag_without_value":
		return vkit.Pick(rg, []string{"cpu,host= value=1", "cpu,host=a,region= value=1", "cpu,host=,region=b value=1"}) + ts
	case "tag_without_equals":
		return vkit.Pick(rg, []string{"cpu,host value=1", "cpu,host=a,region value=1"}) + ts
	case "empty_tag_key":
		return vkit.Pick(rg, []string{"cpu,=a value=1", "cpu,host=a,=b value=1", "cpu, value=1", "cpu,host=a, value=1"}) + ts
	case "field_without_value":
		return vkit.Pick(rg, []string{"cpu value=", "cpu value=,other=1", "cpu a=1,value=", "cpu value= 10"})
	case "field_without_key":
		return vkit.Pick(rg, []string{"cpu =1", "cpu a=1,=2", "cpu a=1,b"}) + ts
	case "fields_separator_missing":
		return vkit.Pick(rg, []string{"cpu a=1,b", "cpu a=1,", "cpu a"}) + ts
	case "bad_number":
		return "cpu value=" + vkit.Pick(rg, []string{"1.2.3", "1i2", "--1", "1e", "0x10", "1_000", "-", "1-", "+1", ".", "-.", "1e5i", "1.5i", "1iu", "e5", "1 e5=2"}) + ts
	case "int_out_of_range":
		return "cpu value=" + vkit.Pick(rg, []string{"9223372036854775808i", "-9223372036854775809i", "99999999999999999999i", "123456789012345678901234567890i"}) + ts
	case "uint_out_of_range":
		return "cpu value=" + vkit.Pick(rg, []string{"18446744073709551616u", "99999999999999999999u", "184467440737095516150u"}) + ts
	case "negative_unsigned":
		return "cpu value=" + vkit.Pick(rg, []string{"-1u", "-0u", "-18446744073709551615u"}) + ts
	case "float_out_of_range":
		return "cpu value=" + vkit.Pick(rg, []string{"1e309", "-1e309", "1.8e308", "1" + strings.Repeat("0", 400), "-2" + strings.Repeat("0", 309) + ".5"}) + ts
	case "bad_boolean":
		return "cpu value=" + vkit.Pick(rg, []string{"tru", "yes", "TrUe", "fals", "falsee", "tt", "Tr", "FALSe", "truee"}) + ts
	case "nan_inf":
		return "cpu value=" + vkit.Pick(rg, []string{"NaN", "nan", "+Inf", "-Inf", "Inf", "inf", "Infinity", "-NaN"}) + ts
	case "bad_timestamp":
		return "cpu value=1 " + vkit.Pick(rg, []string{"12x", "1.5", "1e9", "-", "--1", "+1", "0x10", "1_000", "１２"})
	case "timestamp_out_of_range":
		mult := c11Mult(prec)
		return "cpu value=1 " + vkit.Pick(rg, []string{
			strconv.FormatInt((models.MaxNanoTime/mult)+1+int64(rg.Intn(3)), 10),
			strconv.FormatInt((models.MinNanoTime/mult)-1-int64(rg.Intn(3)), 10),
			"9223372036854775808", "-9223372036854775809", "99999999999999999999",
		})
	case "trailing_garbage":
		return "cpu value=1 1600000000 " + vkit.Pick(rg, []string{"x", "1", "value=2", ",", "="})
	case "reserved_tag_key":
		return "cpu," + vkit.Pick(rg, []string{"_field", "_measurement", "time"}) + "=a value=1" + ts
	case "key_too_long":
		return strings.Repeat("m", 65536+rg.Intn(3)) + " v=1" + ts
	case "series_key_too_long":
		f := rg.Range(1, 50)
		return strings.Repeat("m", 65535-4-f+1+rg.Intn(2)) + " " + strings.Repeat("f", f) + "=1" + ts
	case "field_key_blank": // the field key consists of a tab / NUL only (skipped as whitespace): no usable field
		return vkit.Pick(rg, []string{"cpu \t=1", "cpu \x00=1", "cpu,host=a \t\t=1i", "cpu \x00\t=true"}) + ts
	case "bytes_after_string": // a string value must end at its closing quote
		return vkit.Pick(rg, []string{`cpu value="a"b`, `cpu value=""=4,"==""`, `cpu value="a"1i,other=2`}) + ts
	case "field_count_fooled": // a field without '=' compensated by a stray '=' elsewhere: the '='/',' counts match
		return vkit.Pick(rg, []string{`cpu a=1,b,c="=",d="`, `cpu a=1,b,c="=",d="` + ts, `cpu,host=a x=1i,y,z="=",w="`})
	case "unbalanced_quote":
		return vkit.Pick(rg, []string{`cpu value="abc`, `cpu a=1,value="abc\"`, `cpu value="a"b"`})
	}
	panic("unknown defect " + kind)
}

func c12Spaces(rg *vkit.Rand) string {
	if rg.Chance(3, 4) {
		return " "
	}
	return strings.Repeat(" ", rg.Range(2, 4))
}

// render a clean model point with optional whitespace variations
func c12RenderLine(rg *vkit.Rand, p c11Point) string {
	s := c11Render(rg, p)
	if rg.Chance(1, 8) {
		s = vkit.Pick(rg, []string{" ", "  ", "\t", " \t "}) + s
	}
	if p.HasTS && rg.Chance(1, 8) {
		s += strings.Repeat(" ", rg.Range(1, 3))
	}
	return s
}

func c12Structured(rg *vkit.Rand, withDefects bool) c12Input {
	prec := vkit.Pick(rg, c11Precisions)
	e := &c12Expect{Prec: prec, Kind: "valid"}
	n := rg.Range(1, 6)
	for i := 0; i < n; i++ {
		p := c12CleanPoint(rg)
		// one precision per request: re-align the timestamp to it
		p.Prec = prec
		p.Time -= p.Time % c11Mult(prec)
		pp := p
		e.Lines = append(e.Lines, c12RenderLine(rg, p))
		e.Valid = append(e.Valid, true)
		e.Defects = append(e.Defects, "")
		e.Models = append(e.Models, &pp)
	}
	e.Special = "none"
	if withDefects {
		e.Kind = "defect"
		nd := rg.Range(1, 3)
		if rg.Chance(1, 12) {
			nd, e.Special = 1, vkit.Pick(rg, c12SpecialDefects)
		}
		for d := 0; d < nd; d++ {
			kind := vkit.Pick(rg, c12Defects)
			if e.Special != "none" {
				kind = e.Special
			}
			line := c12DefectLine(rg, kind, prec)
			pos := rg.Intn(len(e.Lines) + 1)
			if kind == "unbalanced_quote" {
				pos = len(e.Lines) // an open quote swallows the following lines: keep it last
				if len(e.Defects) > 0 && e.Defects[len(e.Defects)-1] == "unbalanced_quote" {
					continue
				}
			} else if len(e.Defects) > 0 && e.Defects[len(e.Defects)-1] == "unbalanced_quote" && pos == len(e.Lines) {
				pos = 0
			}
			e.Lines = append(e.Lines[:pos], append([]string{line}, e.Lines[pos:]...)...)
			e.Valid = append(e.Valid[:pos], append([]bool{false}, e.Valid[pos:]...)...)
			e.Defects = append(e.Defects[:pos], append([]string{kind}, e.Defects[pos:]...)...)
			e.Models = append(e.Models[:pos], append([]*c11Point{nil}, e.Models[pos:]...)...)
		}
	}
	e.Trigger = "none"
	for _, l := range e.Lines {
		lead := l[:len(l)-len(c12TrimLead(l))]
		if strings.Contains(lead, " ") && strings.Contains(l, `"`) {
			e.Trigger = "leading_space+quote"
		}
	}
	// assemble: blank lines and comments in between, optional trailing newline
	var sb strings.Builder
	for i, l := range e.Lines {
		if rg.Chance(1, 6) {
			sb.WriteString(vkit.Pick(rg, []string{"\n", "# a comment\n", "   \n", "\t#x\n", "#\n"}))
		}
		sb.WriteString(l)
		if i < len(e.Lines)-1 || rg.Bool() {
			sb.WriteByte('\n')
		}
	}
	return c12Input{Data: []byte(sb.String()), Prec: prec, Expect: e, Kind: e.Kind}
}

// key-length boundary lines: valid iff len(key) ≤ 65535 and len(key)+4+len(fieldkey) ≤ 65535
func c12Boundary(rg *vkit.Rand) c12Input {
	f := vkit.Pick(rg, []int{1, 2, 7, 100})
	limit := models.MaxKeyLength - 4 - f
	keyLen := limit + rg.Intn(5) - 2
	if rg.Chance(1, 5) {
		keyLen = models.MaxKeyLength + rg.Intn(3) - 1
	}
	tags := ""
	if rg.Bool() {
		tags = ",host=a,region=b"
	}
	name := strings.Repeat("m", keyLen-len(tags))
	fields := strings.Repeat("f", f) + "=1i"
	second := rg.Bool()
	f2 := 0
	if second { // a second, shorter or longer field key: every field key counts
		f2 = f + rg.Intn(5) - 2
		if f2 < 1 {
			f2 = 1
		}
		fields = "a" + strings.Repeat("g", f2-1) + "=2i," + fields
	}
	maxF := f
	if f2 > maxF {
		maxF = f2
	}
	valid := keyLen <= models.MaxKeyLength && keyLen+4+maxF <= models.MaxKeyLength
	line := name + tags + " " + fields + " 1600000000"
	e := &c12Expect{Kind: "boundary", Trigger: "none", Special: "none", Prec: "s", Lines: []string{line}, Valid: []bool{valid}, Defects: []string{""}, Models: []*c11Point{nil},
		Detail: fmt.Sprintf("key length %d, field keys %d/%d, limit %d", keyLen, f, f2, models.MaxKeyLength)}
	if !valid {
		e.Defects[0] = "series_key_too_long"
	}
	return c12Input{Data: []byte(line), Prec: "s", Expect: e, Kind: "boundary"}
}

var c12Hostile = []byte{',', '=', ' ', '"', '\\', '\n', '\r', '\t', 0, '#', 'i', 'u', 'e', 'E', '-', '+', '.', '0', '1', '9', 't', 'f', 'T', 'F', 'n', 'N', 0xff, 0x80, 'a', 'm'}

var c12Numbers = []string{"9223372036854775807", "-9223372036854775808", "9223372036854775808", "1e309", "18446744073709551616u", "18446744073709551615u", "NaN", "Inf", "1e-400", "-0", "00000000000000000000000000001i",
	"9223372036854775806", "-9223372036854775806", "0.000000000000000000000000000000000000000000001", "1E+2", "1.e2", ".5", "5.", "1i", "1u", "t", "F", "True", `"s"`, `""`, `"\""`, `"\\"`}

func c12Mutate(rg *vkit.Rand, base []byte, corpus []string) []byte {
	b := append([]byte(nil), base...)
	for m := rg.Range(1, 4); m > 0; m-- {
		pos := 0
		if len(b) > 0 {
			pos = rg.Intn(len(b) + 1)
		}
		switch rg.Intn(14) {
		case 0, 1: // insert a hostile byte
			b = append(b[:pos], append([]byte{vkit.Pick(rg, c12Hostile)}, b[pos:]...)...)
		case 2: // replace
			if pos < len(b) {
				b[pos] = vkit.Pick(rg, c12Hostile)
			}
		case 3: // delete a byte
			if pos < len(b) {
				b = append(b[:pos], b[pos+1:]...)
			}
		case 4: // delete a range
			if pos < len(b) {
				end := pos + rg.Intn(len(b)-pos+1)
				b = append(b[:pos], b[end:]...)
			}
		case 5: // duplicate a range
			if pos < len(b) {
				end := pos + rg.Intn(minInt(len(b)-pos, 40)+1)
				seg := append([]byte(nil), b[pos:end]...)
				b = append(b[:end], append(seg, b[end:]...)...)
			}
		case 6: // truncate
			b = b[:pos]
		case 7: // splice with another corpus entry
			o := []byte(vkit.Pick(rg, corpus))
			cut := rg.Intn(len(o) + 1)
			b = append(b[:pos], o[cut:]...)
		case 8: // append another line
			b = append(b, vkit.Pick(rg, []string{"\n", "\r\n", "\n\n", "\n#c\n"})...)
			b = append(b, vkit.Pick(rg, corpus)...)
		case 9: // replace a numeric-looking run by an extreme literal
			i := bytes.IndexAny(b, "0123456789")
			if i >= 0 {
				j := i
				for j < len(b) && strings.IndexByte("0123456789.eEiu+-", b[j]) >= 0 {
					j++
				}
				b = append(b[:i], append([]byte(vkit.Pick(rg, c12Numbers)), b[j:]...)...)
			}
		case 10: // many tags
			if i := bytes.IndexByte(b, ' '); i > 0 && rg.Chance(1, 4) {
				var tags []byte
				n := rg.Range(95, 210)
				for t := 0; t < n; t++ {
					tags = append(tags, fmt.Sprintf(",t%d=%d", (t*7919)%n, t)...)
				}
				if rg.Chance(1, 3) {
					tags = append(tags, ",t5=dup"...)
				}
				b = append(b[:i], append(tags, b[i:]...)...)
			}
		case 11: // a backslash in front of a delimiter / at the end
			if i := bytes.IndexAny(b[minInt(pos, len(b)):], ", =\"\n"); i >= 0 {
				i += minInt(pos, len(b))
				b = append(b[:i], append([]byte{'\\'}, b[i:]...)...)
			} else {
				b = append(b, '\\')
			}
		case 12: // swap two halves around a space
			if i := bytes.IndexByte(b, ' '); i > 0 {
				b = append(append(append([]byte(nil), b[i+1:]...), ' '), b[:i]...)
			}
		default: // huge key (rare)
			if rg.Chance(1, 30) {
				b = append(bytes.Repeat([]byte{vkit.Pick(rg, []byte{'k', '\\', ','})}, 65500+rg.Intn(80)), b...)
			} else {
				b = append(b[:pos], append([]byte(vkit.Pick(rg, []string{"=", ",", " ", "\"", "\\", "\\\\", "\\\"", " = ", ",,", "==", "\x00", "# "})), b[pos:]...)...)
			}
		}
	}
	return b
}

func c12Soup(rg *vkit.Rand) []byte {
	n := rg.Intn(64)
	if rg.Chance(1, 20) {
		n = rg.Intn(600)
	}
	b := make([]byte, n)
	mode := rg.Intn(3)
	for i := range b {
		switch mode {
		case 0:
			b[i] = vkit.Pick(rg, c12Hostile)
		case 1:
			b[i] = byte(rg.Intn(256))
		default:
			if rg.Chance(1, 3) {
				b[i] = vkit.Pick(rg, c12Hostile)
			} else {
				b[i] = "abcmvx012"[rg.Intn(9)]
			}
		}
	}
	return b
}

var c12Precs = []string{"ns", "ns", "us", "ms", "s", "n", "", "u", "m", "h", "x"}

func c12Gen(seed int64, i int) c12Input {
	rg := vkit.CaseRand(seed, "C12", i)
	corpus := c12LoadCorpus()
	switch x := rg.Intn(100); {
	case x < 12:
		return c12Structured(rg, false)
	case x < 30:
		return c12Structured(rg, true)
	case x < 31:
		return c12Boundary(rg)
	case x < 45: // mutate a rendered valid batch
		in := c12Structured(rg, rg.Chance(1, 4))
		return c12Input{Data: c12Mutate(rg, in.Data, corpus), Prec: in.Prec, Kind: "mutated_generated"}
	case x < 85: // mutate a corpus entry
		base := []byte(vkit.Pick(rg, corpus))
		if rg.Chance(1, 10) {
			return c12Input{Data: base, Prec: vkit.Pick(rg, c12Precs), Kind: "corpus"}
		}
		return c12Input{Data: c12Mutate(rg, base, corpus), Prec: vkit.Pick(rg, c12Precs), Kind: "mutated_corpus"}
	default:
		return c12Input{Data: c12Soup(rg), Prec: vkit.Pick(rg, c12Precs), Kind: "soup"}
	}
}

// ---- child side -----------------------------------------------------------------------------

type c12Req struct {
	Seed    int64  `json:"seed"`
	From    int    `json:"from"`
	To      int    `json:"to"`
	Journal string `json:"journal"`
	Samples int    `json:"samples"`
}

type c12Viol struct {
	Class string            `json:"class"`
	Feats map[string]string `json:"feats"`
	Wit   map[string]any    `json:"wit"`
}

type c12Resp struct {
	Keys    []string         `json:"keys"` // 16 hex chars per case (hash of the input), "!"-prefixed when non-trivial
	Events  map[string]int64 `json:"events"`
	Viols   []c12Viol        `json:"viols"`
	Tally   map[string]int   `json:"tally"`
	Samples []map[string]any `json:"samples"`
	Done    int              `json:"done"`
}

func c12Clip(b []byte) map[string]any {
	m := map[string]any{"len": len(b)}
	if len(b) <= 400 {
		m["quoted"] = strconv.Quote(string(b))
	} else {
		m["quoted_head"] = strconv.Quote(string(b[:300]))
		m["quoted_tail"] = strconv.Quote(string(b[len(b)-80:]))
		m["sha256"] = fmt.Sprintf("%x", sha256.Sum256(b))
	}
	return m
}

func c12ChildBatch(payload []byte) ([]byte, error) {
	var req c12Req
	if err := json.Unmarshal(payload, &req); err != nil {
		return nil, err
	}
	jf, err := os.OpenFile(req.Journal, os.O_CREATE|os.O_WRONLY|os.O_APPEND, 0o644)
	if err != nil {
		return nil, err
	}
	defer jf.Close()
	resp := &c12Resp{Events: map[string]int64{}, Tally: map[string]int{}}
	var cur struct {
		sync.Mutex
		i     int
		since time.Time
	}
	// per-input hang watchdog: wall clock, fires only as "inconclusive" (exit code 95)
	go func() {
		for {
			time.Sleep(500 * time.Millisecond)
			cur.Lock()
			stuck := !cur.since.IsZero() && time.Since(cur.since) > 20*time.Second
			i := cur.i
			cur.Unlock()
			if stuck {
				fmt.Fprintf(os.Stderr, "C12-HANG case=%d\n", i)
				os.Exit(95)
			}
		}
	}()
	for i := req.From; i < req.To; i++ {
		in := c12Gen(req.Seed, i)
		// journal first: case number, precision, input
		fmt.Fprintf(jf, "%d %q %s\n", i, in.Prec, hex.EncodeToString(in.Data))
		cur.Lock()
		cur.i, cur.since = i, time.Now()
		cur.Unlock()
		c12RunOne(resp, i, in, len(resp.Samples) < req.Samples)
		cur.Lock()
		cur.since = time.Time{}
		cur.Unlock()
		resp.Done = i + 1
	}
	return json.Marshal(resp)
}

func (resp *c12Resp) viol(class string, feats map[string]string, wit map[string]any) {
	keys := make([]string, 0, len(feats))
	for k := range feats {
		keys = append(keys, k)
	}
	sort.Strings(keys)
	t := class
	for _, k := range keys {
		t += " " + k + "=" + feats[k]
	}
	resp.Tally[t]++
	if resp.Tally[t] <= 3 { // a few witnesses per (class, features) and batch, however many keys there are
		resp.Viols = append(resp.Viols, c12Viol{class, feats, wit})
	} else {
		resp.Viols = append(resp.Viols, c12Viol{class, feats, nil})
	}
}

func c12Site(stack []byte) string {
	fr := c11RepoFrames(stack)
	if len(fr) == 0 {
		return "harness"
	}
	return fr[0]
}

type c12Parsed struct {
	pts      []models.Point
	err      error
	panicked bool
}

func c12Parse(resp *c12Resp, i int, in c12Input, data []byte, what string) (out c12Parsed) {
	defer func() {
		if e := recover(); e != nil {
			st := debug.Stack()
			out.panicked = true
			resp.viol("parser_panic", map[string]string{"site": c12Site(st), "call": what},
				map[string]any{"case": i, "kind": in.Kind, "precision": in.Prec, "input": c12Clip(data), "panic": fmt.Sprint(e), "repo_frames": c11RepoFrames(st)})
		}
	}()
	buf := append([]byte(nil), data...) // the parser may keep references / reorder tags inside its input
	pts, err := models.ParsePointsWithPrecision(buf, c12Default, in.Prec)
	return c12Parsed{pts: pts, err: err}
}

// c12FieldShape tokenizes the raw field section of a returned point independently of the
// parser and names the first irregularity; it only labels violations (trigger), it decides nothing.
func c12FieldShape(pt models.Point) (shape string) {
	defer func() {
		if recover() != nil {
			shape = "unknown"
		}
	}()
	s := pt.String()
	blob := s[len(pt.Key())+1:]
	if i := strings.LastIndexByte(blob, ' '); i >= 0 {
		blob = blob[:i]
	}
	for i := 0; i < len(blob); {
		// key up to an unescaped '='
		k := i
		for i < len(blob) && !(blob[i] == '=' && (i == k || blob[i-1] != '\\')) {
			i++
		}
		key := blob[k:i]
		for x := 0; x < len(key); x++ {
			if (key[x] == ',' || key[x] == ' ') && (x == 0 || key[x-1] != '\\') {
				return "separator_inside_key"
			}
		}
		// two backslashes in front of a delimiter: scanFields skips them as one escape pair and
		// takes the delimiter as a real one, the unescaping rules read "\\" + escaped delimiter;
		// the '=' / ',' bookkeeping is fooled the same way as by bytes after a closing quote
		for x := 0; x+2 < len(key); x++ {
			if key[x] == '\\' && key[x+1] == '\\' && (key[x+2] == ',' || key[x+2] == '=' || key[x+2] == ' ') {
				return "backslash_pair_before_delimiter_in_key"
			}
		}
		if len(strings.Trim(key, " \t\x00")) == 0 {
			if len(key) == 0 {
				return "empty_key"
			}
			return "blank_key"
		}
		if i >= len(blob) {
			return "key_without_value"
		}
		i++ // '='
		if i < len(blob) && blob[i] == '"' {
			i++
			for i < len(blob) && blob[i] != '"' {
				if blob[i] == '\\' && i+1 < len(blob) {
					i++
				}
				i++
			}
			i++ // closing quote
			if i < len(blob) && blob[i] != ',' {
				return "bytes_after_closing_quote"
			}
		} else {
			for i < len(blob) && blob[i] != ',' {
				if blob[i] == '"' {
					return "quote_inside_unquoted_value"
				}
				i++
			}
		}
		i++ // ','
	}
	return "regular"
}

// independent validator of one returned point (the well-formedness conditions of the statement)
func c12Validate(resp *c12Resp, i int, in c12Input, idx int, pt models.Point) {
	wit := func(extra map[string]any) map[string]any {
		m := map[string]any{"case": i, "kind": in.Kind, "precision": in.Prec, "input": c12Clip(in.Data), "point_index": idx}
		func() {
			defer func() { recover() }()
			m["point_key"] = strconv.Quote(string(pt.Key()))
		}()
		for k, v := range extra {
			m[k] = v
		}
		return m
	}
	defer func() {
		if e := recover(); e != nil {
			st := debug.Stack()
			resp.viol("returned_point_panics", map[string]string{"site": c12Site(st), "field_shape": c12FieldShape(pt)}, wit(map[string]any{"panic": fmt.Sprint(e), "repo_frames": c11RepoFrames(st)}))
		}
	}()
	resp.Events["points_validated"]++
	shape := ""
	cond := func(c string) map[string]string {
		if shape == "" {
			shape = c12FieldShape(pt)
		}
		return map[string]string{"condition": c, "field_shape": shape}
	}
	if len(pt.Name()) == 0 {
		resp.viol("returned_point_malformed", cond("empty_measurement"), wit(nil))
	}
	fields, err := pt.Fields()
	switch {
	case err != nil:
		resp.viol("returned_point_malformed", cond("fields_unparseable"), wit(map[string]any{"err": err.Error()}))
	case len(fields) == 0:
		resp.viol("returned_point_malformed", cond("no_fields"), wit(nil))
	}
	nIter := 0
	for it := pt.FieldIterator(); it.Next(); {
		nIter++
		if len(it.FieldKey()) == 0 {
			resp.viol("returned_point_malformed", cond("empty_field_key"), wit(nil))
		}
		if sz := len(pt.Key()) + 4 + len(it.FieldKey()); sz > models.MaxKeyLength {
			resp.viol("returned_point_malformed", cond("series_key_too_long"), wit(map[string]any{"size": sz}))
		}
	}
	if nIter == 0 {
		resp.viol("returned_point_malformed", cond("no_fields"), wit(nil))
	}
	if len(pt.Key()) > models.MaxKeyLength {
		resp.viol("returned_point_malformed", cond("key_too_long"), wit(map[string]any{"size": len(pt.Key())}))
	}
	seen := map[string]bool{}
	for _, tg := range pt.Tags() {
		if seen[string(tg.Key)] {
			resp.viol("returned_point_malformed", cond("duplicate_tag_key"), wit(map[string]any{"tag_key": strconv.Quote(string(tg.Key))}))
			break
		}
		seen[string(tg.Key)] = true
	}
	if ns := pt.UnixNano(); ns < models.MinNanoTime || ns > models.MaxNanoTime || !pt.Time().Equal(time.Unix(0, ns)) {
		resp.viol("returned_point_malformed", cond("time_not_representable"), wit(map[string]any{"unix_nano": ns, "time": pt.Time().String()}))
	}
}

func c12TrimLead(s string) string {
	i := 0
	for i < len(s) && (s[i] == ' ' || s[i] == '\t' || s[i] == 0) {
		i++
	}
	return s[i:]
}

// the error text names a line by quoting it: "unable to parse '<line>': <cause>"
func c12Names(piece, line string) bool {
	return strings.HasPrefix(piece, "unable to parse '"+line+"': ")
}

func c12SamePoint(a, b models.Point) bool {
	return bytes.Equal(a.Key(), b.Key()) && a.UnixNano() == b.UnixNano() && a.String() == b.String()
}

func c12RunOne(resp *c12Resp, i int, in c12Input, wantSample bool) {
	h := sha256.Sum256(append([]byte(in.Prec+"|"), in.Data...))
	res := c12Parse(resp, i, in, in.Data, "batch")
	resp.Events["executions"]++
	resp.Events["kind_"+in.Kind]++
	nontrivial := len(res.pts) > 0 || res.err != nil
	key := hex.EncodeToString(h[:8])
	if nontrivial {
		key = "!" + key
	}
	resp.Keys = append(resp.Keys, key)
	if res.panicked {
		return
	}
	resp.Events["points_returned"] += int64(len(res.pts))
	if res.err != nil {
		resp.Events["batches_with_error"]++
	}
	for idx, pt := range res.pts {
		c12Validate(resp, i, in, idx, pt)
	}
	if wantSample && nontrivial && (i%7 == 0) {
		e := ""
		if res.err != nil {
			e = res.err.Error()
			if len(e) > 300 {
				e = e[:300] + "…"
			}
		}
		resp.Samples = append(resp.Samples, map[string]any{"case": i, "kind": in.Kind, "precision": in.Prec, "input": c12Clip(in.Data), "points": len(res.pts), "error": e})
	}
	if in.Expect != nil {
		c12CheckExpect(resp, i, in, res)
	}
	c12Accounting(resp, i, in, res)
}

// structured cases: validity of every line is known by construction
func c12CheckExpect(resp *c12Resp, i int, in c12Input, res c12Parsed) {
	e := in.Expect
	wantPts, wantRej := 0, []int{}
	for k, v := range e.Valid {
		if v {
			wantPts++
		} else {
			wantRej = append(wantRej, k)
		}
	}
	errText := ""
	if res.err != nil {
		errText = res.err.Error()
	}
	base := func() map[string]any {
		et := errText
		if len(et) > 700 {
			et = et[:700] + "…"
		}
		return map[string]any{"case": i, "kind": in.Kind, "precision": in.Prec, "input": c12Clip(in.Data), "lines": len(e.Lines), "points_returned": len(res.pts), "error": et, "defects": e.Defects, "detail": e.Detail}
	}
	// every line has a verdict; blame individual lines by parsing them alone
	if len(res.pts) != wantPts || (res.err == nil) != (len(wantRej) == 0) {
		blamed := false
		for k, line := range e.Lines {
			solo := c12Parse(resp, i, in, []byte(line), "solo")
			if solo.panicked {
				continue
			}
			acc := solo.err == nil && len(solo.pts) == 1
			if acc != e.Valid[k] {
				blamed = true
				w := base()
				w["line"] = c12Clip([]byte(line))
				if solo.err != nil {
					w["solo_error"] = solo.err.Error()
				}
				if e.Valid[k] {
					resp.viol("valid_line_rejected", map[string]string{"kind": in.Kind, "trigger": e.Trigger, "special": e.Special}, w)
				} else {
					resp.viol("malformed_line_accepted", map[string]string{"defect": e.Defects[k], "trigger": e.Trigger, "special": e.Special}, w)
				}
			}
		}
		if !blamed {
			resp.viol("batch_accounting_wrong", map[string]string{"kind": in.Kind, "what": "points_or_error_count", "trigger": e.Trigger, "special": e.Special}, base())
		}
		return
	}
	resp.Events["structured_lines_valid_accepted"] += int64(wantPts)
	resp.Events["structured_lines_defect_rejected"] += int64(len(wantRej))
	for _, k := range wantRej {
		resp.Events["defect_rejected_"+e.Defects[k]]++
	}
	// the error names exactly the rejected lines, in order
	if len(wantRej) > 0 {
		rest := errText
		for n, k := range wantRej {
			line := c12TrimLead(e.Lines[k])
			pfx := "unable to parse '" + line + "': "
			if !strings.HasPrefix(rest, pfx) {
				w := base()
				w["expected_piece_prefix"] = c12Clip([]byte(pfx))
				w["rejected_line_no"] = n
				resp.viol("error_does_not_name_rejected_line", map[string]string{"kind": in.Kind, "defect": e.Defects[k], "trigger": e.Trigger, "special": e.Special}, w)
				return
			}
			// skip to the next piece: causes never contain a newline unless the line itself does (it does not)
			nl := strings.Index(rest[len(pfx):], "\n")
			if nl < 0 {
				rest = ""
			} else {
				rest = rest[len(pfx)+nl+1:]
			}
			if e.Defects[k] == "unbalanced_quote" {
				rest = ""
			}
		}
		if rest != "" {
			w := base()
			w["unexpected_extra_error_text"] = c12Clip([]byte(rest))
			resp.viol("error_names_accepted_line", map[string]string{"kind": in.Kind, "trigger": e.Trigger, "special": e.Special}, w)
		}
		resp.Events["error_texts_matched"]++
	}
	// accepted lines yield the model point (tag order-insensitively: C11 covers order)
	pi := 0
	for k, v := range e.Valid {
		if !v {
			continue
		}
		pt := res.pts[pi]
		pi++
		m := e.Models[k]
		if m == nil {
			continue
		}
		want := *m
		wantTime := want.Time
		if !want.HasTS {
			wantTime = c12Default.UnixNano() - c12Default.UnixNano()%c11Mult(e.Prec)
		}
		d := map[string]string{}
		func() {
			defer func() {
				if r := recover(); r != nil {
					d["panic"] = fmt.Sprint(r)
				}
			}()
			got := pt.Tags()
			sorted := make([]c11KV, len(got))
			for x, tg := range got {
				sorted[x] = c11KV{string(tg.Key), string(tg.Value)}
			}
			sort.Slice(sorted, func(a, b int) bool { return sorted[a].K < sorted[b].K })
			d = c11Diff(pt, want, wantTime)
			delete(d, "tags")
			if fmt.Sprint(sorted) != fmt.Sprint(want.Tags) {
				d["tags"] = fmt.Sprintf("want %q got %q", want.Tags, sorted)
			}
		}()
		resp.Events["accepted_points_compared_with_model"]++
		if len(d) > 0 {
			w := base()
			w["line"] = c12Clip([]byte(e.Lines[k]))
			w["diff"] = d
			comp := make([]string, 0, len(d))
			for c := range d {
				comp = append(comp, c)
			}
			sort.Strings(comp)
			resp.viol("accepted_point_differs_from_line", map[string]string{"component": strings.Join(comp, "+"), "trigger": e.Trigger, "special": e.Special}, w)
		}
	}
}

// inputs with unambiguous line structure: batch == concatenation of solo parses
func c12Accounting(resp *c12Resp, i int, in c12Input, res c12Parsed) {
	d := in.Data
	if bytes.IndexByte(d, '"') >= 0 || bytes.Contains(d, []byte("\\\n")) || len(d) > 8000 {
		resp.Events["accounting_skipped_ambiguous_lines"]++
		return
	}
	resp.Events["accounting_batches"]++
	var wantPts []models.Point
	var wantErr []string
	var rejLines []string
	for _, line := range strings.Split(string(d), "\n") {
		tl := c12TrimLead(line)
		if tl == "" || tl[0] == '#' {
			continue
		}
		resp.Events["accounting_lines"]++
		solo := c12Parse(resp, i, in, []byte(line), "solo")
		if solo.panicked {
			return
		}
		switch {
		case solo.err == nil && len(solo.pts) == 1:
			wantPts = append(wantPts, solo.pts[0])
		case solo.err != nil && len(solo.pts) == 0:
			wantErr = append(wantErr, solo.err.Error())
			rejLines = append(rejLines, tl)
			if !c12Names(solo.err.Error(), tl) {
				resp.viol("error_does_not_name_rejected_line", map[string]string{"kind": in.Kind, "defect": "solo"},
					map[string]any{"case": i, "kind": in.Kind, "line": c12Clip([]byte(line)), "error": solo.err.Error()})
				return
			}
		default:
			resp.viol("batch_accounting_wrong", map[string]string{"kind": in.Kind, "what": "single_line_yields_point_and_error_or_neither"},
				map[string]any{"case": i, "line": c12Clip([]byte(line)), "points": len(solo.pts), "error": fmt.Sprint(solo.err)})
			return
		}
	}
	w := func() map[string]any {
		e := fmt.Sprint(res.err)
		if len(e) > 700 {
			e = e[:700] + "…"
		}
		return map[string]any{"case": i, "kind": in.Kind, "precision": in.Prec, "input": c12Clip(d), "points_returned": len(res.pts), "points_expected": len(wantPts), "error": e, "rejected_lines_expected": len(wantErr)}
	}
	if len(res.pts) != len(wantPts) {
		resp.viol("batch_accounting_wrong", map[string]string{"kind": in.Kind, "what": "points_differ_from_line_by_line"}, w())
		return
	}
	for k := range wantPts {
		same := false
		func() {
			defer func() { recover() }()
			same = c12SamePoint(res.pts[k], wantPts[k])
		}()
		if !same {
			m := w()
			m["point_index"] = k
			resp.viol("batch_accounting_wrong", map[string]string{"kind": in.Kind, "what": "point_differs_from_line_alone"}, m)
			return
		}
	}
	got := ""
	if res.err != nil {
		got = res.err.Error()
	}
	if want := strings.Join(wantErr, "\n"); got != want {
		m := w()
		m["error_expected"] = c12Clip([]byte(want))
		what := "error_text_differs_from_line_by_line"
		if got == "" {
			what = "rejected_lines_not_reported"
		}
		resp.viol("batch_accounting_wrong", map[string]string{"kind": in.Kind, "what": what}, m)
		return
	}
	resp.Events["accounting_lines_rejected"] += int64(len(wantErr))
	resp.Events["accounting_lines_accepted"] += int64(len(wantPts))
}

// ---- parent side ----------------------------------------------------------------------------

func TestC12(t *testing.T) {
	r := vkit.Start(t, "C12", "exploration")
	defer r.Finish()
	tally := gpNewTally(r)
	defer tally.Flush()
	corpus := c12LoadCorpus()
	r.Rule("a case = one input to ParsePointsWithPrecision, a pure function of (seed, case#): 12% structured valid batches (clean C11 model points, whitespace/comment/blank-line variations), 18% valid batches with 1–3 injected defect lines of 24 known kinds (1 in 12 of them: a single line of one of 3 further kinds), 1% key-length boundary lines (65 535), 14% mutations of generated batches, 40% mutations of the " + fmt.Sprint(len(corpus)) + " string literals of models/points_test.go (1–4 stacked byte/structure mutations: hostile bytes, delete/duplicate/truncate/splice, extreme numbers, 95–210 tags, backslash before delimiter, 65 KB keys), 15% byte soup; precisions ns/us/ms/s and unknown ones; executed in child processes with the input journalled before parsing; non-trivial = the parser returned a point or an error; distinct = hash of (precision, input)")
	n := r.N(150000, 2000000)
	batch := 5000
	workers := 6
	if replay := os.Getenv("VERIF_REPLAY"); replay != "" {
		c12Replay(t, r, replay)
		return
	}
	dir := t.TempDir()
	type job struct{ from, to int }
	type result struct {
		job  job
		resp *c12Resp
		res  vkit.ChildResult
		err  error
		jour string
	}
	var jobs []job
	for f := 0; f < n; f += batch {
		to := f + batch
		if to > n {
			to = n
		}
		jobs = append(jobs, job{f, to})
	}
	results := make([]result, len(jobs))
	var wg sync.WaitGroup
	sem := make(chan struct{}, workers)
	run := func(j job, idx int) result {
		jour := filepath.Join(dir, fmt.Sprintf("journal-%d-%d", j.from, idx))
		req, _ := json.Marshal(c12Req{Seed: r.Seed, From: j.from, To: j.to, Journal: jour, Samples: 2})
		res, err := vkit.RunChild("c12batch", req, 20*time.Minute)
		out := result{job: j, res: res, err: err, jour: jour}
		if err == nil && !res.Crashed() && !res.TimedOut && res.ExitCode == 0 {
			var resp c12Resp
			if e := json.Unmarshal(res.Out, &resp); e == nil {
				out.resp = &resp
			} else {
				out.err = fmt.Errorf("child output: %v", e)
			}
		}
		return out
	}
	for idx, j := range jobs {
		wg.Add(1)
		sem <- struct{}{}
		go func(idx int, j job) {
			defer wg.Done()
			defer func() { <-sem }()
			results[idx] = run(j, idx)
		}(idx, j)
	}
	wg.Wait()
	var allViols []c12Viol
	absorb := func(resp *c12Resp) {
		for _, k := range resp.Keys {
			if strings.HasPrefix(k, "!") {
				r.Case(k[1:], true)
			} else {
				r.Case(k, false)
			}
		}
		for k, v := range resp.Events {
			r.Event(k, v)
		}
		for _, s := range resp.Samples {
			if r.WantSample() {
				r.Sample(s)
			}
		}
		allViols = append(allViols, resp.Viols...)
	}
	lastJournal := func(path string) (int, string, []byte) {
		f, err := os.Open(path)
		if err != nil {
			return -1, "", nil
		}
		defer f.Close()
		sc := bufio.NewScanner(f)
		sc.Buffer(make([]byte, 1<<20), 64<<20)
		last := ""
		for sc.Scan() {
			if sc.Text() != "" {
				last = sc.Text()
			}
		}
		parts := strings.SplitN(last, " ", 3)
		if len(parts) != 3 {
			return -1, "", nil
		}
		no, _ := strconv.Atoi(parts[0])
		prec, _ := strconv.Unquote(parts[1])
		data, _ := hex.DecodeString(parts[2])
		return no, prec, data
	}
	for idx := 0; idx < len(results); idx++ {
		res := results[idx]
		for attempts := 0; ; attempts++ {
			if res.resp != nil {
				absorb(res.resp)
				break
			}
			// the child died, hung or failed: attribute it to the journalled input and resume after it
			no, prec, data := lastJournal(res.jour)
			logTail := string(res.res.Log)
			if len(logTail) > 3000 {
				logTail = logTail[len(logTail)-3000:]
			}
			switch {
			case res.err != nil && !res.res.Crashed():
				r.Inconclusive("child could not be run: " + res.err.Error())
				no = res.job.to
			case res.res.TimedOut || res.res.ExitCode == 95:
				r.Inconclusive(fmt.Sprintf("watchdog: case %d did not finish", no))
				r.Event("hang_suspects", 1)
				p := filepath.Join(vkit.Root(), "replays", fmt.Sprintf("C12-%d-hang-%d.json", r.Seed, no))
				b, _ := json.Marshal(map[string]any{"property": "C12", "class": "hang_suspect", "case": no, "precision": prec, "input_hex": hex.EncodeToString(data)})
				os.WriteFile(p, b, 0o644)
				fmt.Printf("INCONCLUSIVE property=C12 parser did not return within the watchdog on case %d (input saved to %s)\n", no, p)
				t.Errorf("INCONCLUSIVE: hang suspect, see %s", p)
				if no > res.job.from { // keep the verdicts of the cases before the hanging one
					if pre := run(job{res.job.from, no}, idx*1000+999); pre.resp != nil {
						absorb(pre.resp)
					}
				}
				r.Event("cases_not_run_after_hang", int64(res.job.to-no-1))
				no = res.job.to // the rest of this batch is not run: a systematic hang would cost a watchdog period per case
			default:
				site := "unknown"
				if m := c11RepoFrames(res.res.Log); len(m) > 0 {
					site = m[0]
				}
				kind := "fatal error"
				if bytes.Contains(res.res.Log, []byte("panic:")) {
					kind = "panic"
				}
				tally.V("parser_process_crash", map[string]string{"site": site, "kind": kind},
					map[string]any{"case": no, "precision": prec, "input": c12Clip(data), "input_hex": hex.EncodeToString(data), "exit_code": res.res.ExitCode, "log_tail": logTail})
				r.Event("child_crashes", 1)
			}
			if no < 0 || no >= res.job.to {
				break
			}
			r.Case(fmt.Sprintf("crashed-%d", no), true)
			// the verdicts of the cases before the fatal one died with the child: run that
			// (crash-free) prefix again, then resume after the fatal case
			if no > res.job.from {
				if pre := run(job{res.job.from, no}, idx*1000+2*attempts+1); pre.resp != nil {
					absorb(pre.resp)
				} else {
					r.Inconclusive("prefix of a crashed batch could not be re-run")
				}
			}
			if no+1 >= res.job.to {
				break
			}
			if attempts >= 5 {
				r.Event("cases_not_run_after_repeated_crashes", int64(res.job.to-no-1))
				break
			}
			res = run(job{no + 1, res.job.to}, idx*1000+2*attempts+2)
		}
	}
	// emit rare classes first: only the first 20 violations get a replay file
	freq := map[string]int{}
	vkey := func(v c12Viol) string { return v.Class + fmt.Sprint(v.Feats) }
	for _, v := range allViols {
		freq[vkey(v)]++
	}
	sort.SliceStable(allViols, func(a, b int) bool {
		wa, wb := allViols[a].Wit != nil, allViols[b].Wit != nil
		if wa != wb {
			return wa
		}
		return freq[vkey(allViols[a])] < freq[vkey(allViols[b])]
	})
	for _, v := range allViols {
		wit := any(v.Wit)
		if v.Wit == nil {
			wit = "witness omitted (more of the same class in this batch)"
		}
		tally.V(v.Class, v.Feats, wit)
	}
	r.Event("child_batches", int64(len(jobs)))
	r.Extra("corpus_entries", len(corpus))
	r.Extra("defect_kinds", c12Defects)
	r.Assume("line accounting is asserted on structured cases and on inputs without double quotes and without a backslash directly before a newline (there a line is a physical line); for other inputs only totality and the validator apply",
		"blank = only space/tab/NUL; comment = first non-blank byte is '#'",
		"validity by construction of generated lines follows my reading of the line-protocol reference (names without backslashes, no control characters)")
	r.Trust("child-process isolation: vkit.RunChild re-executes this test binary")
}

func c12Replay(t *testing.T, r *vkit.Run, path string) {
	b, err := os.ReadFile(path)
	if err != nil {
		t.Fatalf("replay: %v", err)
	}
	var rec struct {
		Witness map[string]any `json:"witness"`
		Case    *int           `json:"case"`
	}
	json.Unmarshal(b, &rec)
	no := -1
	if rec.Case != nil {
		no = *rec.Case
	} else if c, ok := rec.Witness["case"].(float64); ok {
		no = int(c)
	}
	if no < 0 {
		t.Fatalf("replay: no case number in %s", path)
	}
	resp := &c12Resp{Events: map[string]int64{}, Tally: map[string]int{}}
	in := c12Gen(r.Seed, no)
	fmt.Printf("replaying case %d (seed %d): kind=%s precision=%q input=%v\n", no, r.Seed, in.Kind, in.Prec, c12Clip(in.Data))
	c12RunOne(resp, no, in, true)
	for _, k := range resp.Keys {
		r.Case(strings.TrimPrefix(k, "!"), true)
		r.Case(strings.TrimPrefix(k, "!")+"-replay", true)
	}
	r.Sample(map[string]any{"replayed_case": no})
	for _, v := range resp.Viols {
		r.Violation(v.Class, v.Feats, v.Wit)
	}
}
