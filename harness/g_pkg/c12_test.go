package g_pkg

func c12ChildBatch(payload []byte) ([]byte, error) { return nil, nil }
