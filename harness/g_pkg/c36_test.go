package g_pkg

import (
	"bytes"
	"fmt"
	"os"
	"runtime"
	"sort"
	"sync"
	"sync/atomic"
	"testing"
	"time"

	"github.com/influxdata/influxdb/v2/pkg/bloom"
	"github.com/influxdata/influxdb/v2/pkg/radix"
	"github.com/influxdata/influxdb/v2/pkg/rhh"
	"github.com/influxdata/influxdb/v2/tsdb"

	"verifharness/vkit"
)

// C36 — rhh.HashMap vs map, bloom.Filter no false negatives, radix.Tree vs sorted map,
// tsdb.SeriesIDSet vs set model; concurrent SeriesIDSet readers/writers under the race
// detector (DESIGN §5 C36). Registered with build "race".

var c36T *gpTally

type c36Op struct {
	Op  string `json:"op"`
	Key string `json:"key,omitempty"`
	Val int    `json:"val,omitempty"`
	Res string `json:"res,omitempty"`
}

func c36Tail(h []c36Op) []c36Op {
	if len(h) > 60 {
		return h[len(h)-60:]
	}
	return h
}

// ---- key domains -------------------------------------------------------------------------

func c36KeyDomain(rg *vkit.Rand, n int, withEmpty bool) [][]byte {
	seen := map[string]bool{}
	var out [][]byte
	add := func(k []byte) {
		if !seen[string(k)] {
			seen[string(k)] = true
			out = append(out, k)
		}
	}
	if withEmpty {
		add([]byte{})
	}
	for len(out) < n {
		switch rg.Intn(8) {
		case 0:
			add([]byte(fmt.Sprintf("k%d", rg.Intn(4*n))))
		case 1:
			add([]byte{byte(rg.Intn(256))})
		case 2:
			add(rg.Bytes(rg.Range(2, 9)))
		case 3:
			add(append(bytes.Repeat([]byte("cpu,host=server"), rg.Range(1, 30)), byte('0'+rg.Intn(10))))
		case 4:
			add([]byte(fmt.Sprintf("measurement,tag=%c", 'a'+rune(rg.Intn(26)))))
		case 5:
			add([]byte{0, byte(rg.Intn(3))})
		default:
			add([]byte(fmt.Sprintf("%c%c", 'a'+rune(rg.Intn(4)), 'a'+rune(rg.Intn(4)))))
		}
	}
	return out
}

// ---- rhh ---------------------------------------------------------------------------------

func c36RHH(r *vkit.Run, rg *vkit.Rand, ci int) {
	opt := rhh.Options{
		Capacity:       vkit.Pick(rg, []int64{1, 2, 3, 4, 8, 16, 100, 256}),
		LoadFactor:     vkit.Pick(rg, []int{50, 75, 90, 90, 100}),
		MetricsEnabled: rg.Chance(1, 4),
	}
	nKeys := vkit.Pick(rg, []int{3, 8, 30, 120, 300})
	withEmpty := rg.Chance(1, 3)
	dom := c36KeyDomain(rg, nKeys, withEmpty)
	m := rhh.NewHashMap(opt)
	model := map[string]int{}
	nOps := rg.Range(20, 300)
	var hist []c36Op
	ctr := ci * 100000
	feat := func(op string) map[string]string {
		return map[string]string{"structure": "rhh", "op": op, "empty_key_in_map": fmt.Sprint(func() bool { _, ok := model[""]; return ok }())}
	}
	bad := false
	fail := func(op, want, got string) {
		if bad {
			return
		}
		bad = true
		c36T.V("rhh_differs_from_map", feat(op), map[string]any{"options": fmt.Sprintf("%+v", opt), "want": want, "got": got, "history_tail": c36Tail(hist)})
	}
	// Len: a deviation is reported once; if it is exactly "one short while the empty key is
	// present" the sequence goes on with that offset so that everything else stays checked.
	lenOff := 0
	lenCheck := func(where string) {
		if int(m.Len())+lenOff == len(model) {
			return
		}
		if _, hasEmpty := model[""]; hasEmpty && lenOff == 0 && int(m.Len())+1 == len(model) {
			lenOff = 1
			c36T.V("rhh_differs_from_map", feat("Len"), map[string]any{"options": fmt.Sprintf("%+v", opt), "want": fmt.Sprint(len(model)), "got": fmt.Sprint(m.Len(), " (", where, ")"), "history_tail": c36Tail(hist)})
			if opt.LoadFactor >= 100 {
				// with the count one short and load factor 100 the table can fill completely and
				// the next Put of a new key spins forever in insert(); stop this sequence here
				bad = true
			}
			return
		}
		fail("Len", fmt.Sprint(len(model)), fmt.Sprint(m.Len(), " (", where, ", offset ", lenOff, ")"))
	}
	checkAll := func(where string) {
		lenCheck(where)
		for _, k := range dom {
			got := m.Get(append([]byte(nil), k...))
			want, ok := model[string(k)]
			if ok && got != want {
				fail("Get", fmt.Sprintf("%q→%d", k, want), fmt.Sprintf("%v (%s)", got, where))
			} else if !ok && got != nil {
				fail("Get", fmt.Sprintf("%q absent", k), fmt.Sprintf("%v (%s)", got, where))
			}
		}
		keys := m.Keys()
		wantKeys := make([]string, 0, len(model))
		for k := range model {
			wantKeys = append(wantKeys, k)
		}
		sort.Strings(wantKeys)
		gotKeys := make([]string, len(keys))
		for i, k := range keys {
			gotKeys[i] = string(k)
		}
		if fmt.Sprintf("%q", gotKeys) != fmt.Sprintf("%q", wantKeys) {
			fail("Keys", fmt.Sprintf("%d keys %.200q", len(wantKeys), wantKeys), fmt.Sprintf("%d keys %.200q (%s)", len(gotKeys), gotKeys, where))
		}
		// slot scan
		seen := map[string]int{}
		for i := int64(0); i < m.Cap(); i++ {
			k, v := m.Elem(i)
			if v != nil {
				if _, dup := seen[string(k)]; dup {
					fail("Elem", "each key in one slot", fmt.Sprintf("key %q in two slots (%s)", k, where))
				}
				seen[string(k)] = v.(int)
			}
		}
		if len(seen) != len(model) {
			fail("Elem", fmt.Sprint(len(model), " occupied slots"), fmt.Sprint(len(seen), " (", where, ")"))
		}
		for k, v := range model {
			if seen[k] != v {
				fail("Elem", fmt.Sprintf("%q→%d", k, v), fmt.Sprintf("%d (%s)", seen[k], where))
			}
		}
		if c := m.Cap(); c&(c-1) != 0 || c < int64(len(model)) {
			fail("Cap", "power of two ≥ Len", fmt.Sprint(c))
		}
		r.Event("rhh_full_comparisons", 1)
	}
	for o := 0; o < nOps && !bad; o++ {
		k := dom[rg.Intn(len(dom))]
		switch x := rg.Intn(100); {
		case x < 60:
			ctr++
			buf := append([]byte(nil), k...)
			if rg.Bool() {
				m.Put(buf, ctr)
			} else {
				m.PutQuiet(buf, ctr)
			}
			for i := range buf { // the caller may reuse its buffer
				buf[i] ^= 0xff
			}
			model[string(k)] = ctr
			hist = append(hist, c36Op{Op: "Put", Key: string(k), Val: ctr})
			lenCheck("after Put")
			r.Event("rhh_put", 1)
		case x < 90:
			got := m.Get(k)
			want, ok := model[string(k)]
			hist = append(hist, c36Op{Op: "Get", Key: string(k), Res: fmt.Sprint(got)})
			if ok && got != want || !ok && got != nil {
				fail("Get", fmt.Sprintf("%q→%v present=%v", k, want, ok), fmt.Sprint(got))
			}
			r.Event("rhh_get", 1)
		case x < 93:
			hist = append(hist, c36Op{Op: "Grow"})
			if m.Cap() <= 4096 { // keep the table small: repeated explicit growth is exponential
				m.Grow(m.Cap() * int64(rg.Range(1, 4)))
			} else {
				m.Grow(m.Cap() / 2) // not larger than the current capacity: must be a no-op
			}
			checkAll("after Grow")
		case x < 95:
			hist = append(hist, c36Op{Op: "Reset"})
			m.Reset()
			model = map[string]int{}
			lenOff = 0
			checkAll("after Reset")
		default:
			checkAll("mid")
		}
	}
	if !bad {
		checkAll("end")
	}
	r.Case(fmt.Sprintf("rhh/%+v/%d/%v/%d/%q", opt, nKeys, withEmpty, nOps, dom[0]), len(model) >= 2)
	if ci%400 == 0 && r.WantSample() {
		r.Sample(map[string]any{"structure": "rhh", "options": fmt.Sprintf("%+v", opt), "domain_keys": len(dom), "ops": nOps, "final_len": len(model), "history_tail": c36Tail(hist)[:minInt(8, len(c36Tail(hist)))]})
	}
}

func minInt(a, b int) int {
	if a < b {
		return a
	}
	return b
}

// ---- bloom -------------------------------------------------------------------------------

var c36FPqueries, c36FPhits atomic.Int64

func c36Bloom(r *vkit.Run, rg *vkit.Rand, ci int) {
	var mbits, k uint64
	if rg.Chance(1, 3) {
		mbits, k = bloom.Estimate(uint64(rg.Range(1, 2000)), []float64{0.5, 0.1, 0.01, 0.0001}[rg.Intn(4)])
	} else {
		mbits, k = vkit.Pick(rg, []uint64{1, 8, 9, 64, 1000, 4096, 65536, 100000}), vkit.Pick(rg, []uint64{1, 2, 3, 4, 7, 13})
	}
	n := vkit.Pick(rg, []int{1, 5, 50, 400, 1500})
	dom := c36KeyDomain(rg, n, rg.Chance(1, 3))
	f := bloom.NewFilter(mbits, k)
	g := bloom.NewFilter(mbits, k)
	inF, inG := map[string]bool{}, map[string]bool{}
	feat := func(op string) map[string]string { return map[string]string{"structure": "bloom", "op": op} }
	bad := false
	checked := int64(0)
	defer func() { r.Event("bloom_membership_checked", checked) }()
	fn := func(op string, f *bloom.Filter, present map[string]bool) {
		for key := range present {
			checked++
			if !f.Contains([]byte(key)) && !bad {
				bad = true
				c36T.V("bloom_false_negative", feat(op), map[string]any{"m_bits": mbits, "k": k, "key_hex": vkit.Hex([]byte(key)), "inserted": len(present), "after": op})
			}
		}
	}
	for _, key := range dom {
		// the same slice is handed to Insert and Contains: a hash that scribbles on its input shows up
		if rg.Chance(2, 3) {
			f.Insert(key)
			inF[string(append([]byte(nil), key...))] = true
			if !f.Contains(key) && !bad {
				bad = true
				c36T.V("bloom_false_negative", feat("Insert"), map[string]any{"m_bits": mbits, "k": k, "key_hex": vkit.Hex(key), "after": "Insert+Contains same slice"})
			}
		} else {
			g.Insert(key)
			inG[string(append([]byte(nil), key...))] = true
		}
		if rg.Chance(1, 20) {
			fn("Insert", f, inF)
		}
	}
	fn("Insert", f, inF)
	fn("Insert", g, inG)
	// derived filters: clone, buffer-backed view, merge
	c := f.Clone()
	fn("Clone", c, inF)
	if view, err := bloom.NewFilterBuffer(f.Bytes(), f.K()); err != nil {
		c36T.V("bloom_buffer_rejected", feat("NewFilterBuffer"), map[string]any{"m_bits": mbits, "len_bytes": len(f.Bytes()), "err": err.Error()})
	} else {
		fn("NewFilterBuffer", view, inF)
	}
	if err := c.Merge(g); err != nil {
		c36T.V("bloom_merge_error", feat("Merge"), map[string]any{"m_bits": mbits, "k": k, "err": err.Error()})
	} else {
		fn("Merge", c, inF)
		fn("Merge", c, inG)
	}
	fn("Clone", f, inF) // the original is still intact after the clone was merged into
	// measured false-positive rate (reported, not judged)
	for i := 0; i < 200; i++ {
		q := []byte(fmt.Sprintf("absent-%d-%d", ci, i))
		if inF[string(q)] {
			continue
		}
		c36FPqueries.Add(1)
		if f.Contains(q) {
			c36FPhits.Add(1)
		}
	}
	r.Case(fmt.Sprintf("bloom/%d/%d/%d/%q", mbits, k, n, dom[0]), len(inF)+len(inG) >= 2)
	if ci%400 == 1 && r.WantSample() {
		r.Sample(map[string]any{"structure": "bloom", "m_bits": mbits, "k": k, "inserted": len(inF), "inserted_other": len(inG), "filter_bytes": f.Len()})
	}
}

// ---- radix -------------------------------------------------------------------------------

func c36RadixKeys(rg *vkit.Rand, n int) [][]byte {
	seen := map[string]bool{}
	var out [][]byte
	add := func(k []byte) {
		if !seen[string(k)] {
			seen[string(k)] = true
			out = append(out, k)
		}
	}
	for tries := 0; len(out) < n && tries < 50*n; tries++ {
		switch rg.Intn(10) {
		case 0:
			add([]byte{})
		case 1: // long keys with a long common prefix (node split deep inside a prefix; >4096 skips the copy buffer)
			add(append(bytes.Repeat([]byte("p"), vkit.Pick(rg, []int{10, 300, 4090, 4097, 5000})), byte('a'+rg.Intn(3))))
		case 2:
			add([]byte{byte(rg.Intn(256)), byte(rg.Intn(4))})
		default:
			l := rg.Range(1, 6)
			k := make([]byte, l)
			for i := range k {
				k[i] = byte('a' + rg.Intn(3))
			}
			add(k)
		}
	}
	return out
}

func c36Radix(r *vkit.Run, rg *vkit.Rand, ci int) {
	dom := c36RadixKeys(rg, vkit.Pick(rg, []int{3, 10, 40, 200}))
	model := map[string]int{}
	var t *radix.Tree
	var hist []c36Op
	if rg.Chance(1, 4) {
		init := map[string]int{}
		for i := 0; i < rg.Intn(10); i++ {
			k := dom[rg.Intn(len(dom))]
			init[string(k)] = 7000 + i
			model[string(k)] = 7000 + i
		}
		t = radix.NewFromMap(init)
		hist = append(hist, c36Op{Op: "NewFromMap", Res: fmt.Sprint(len(init))})
	} else {
		t = radix.New()
	}
	deletes := 0
	feat := func(op string) map[string]string {
		return map[string]string{"structure": "radix", "op": op, "after_delete_prefix": fmt.Sprint(deletes > 0)}
	}
	bad := false
	fail := func(op, want, got string) {
		if bad {
			return
		}
		bad = true
		c36T.V("radix_differs_from_sorted_map", feat(op), map[string]any{"want": want, "got": got, "history_tail": c36Tail(hist)})
	}
	sortedKeys := func() []string {
		ks := make([]string, 0, len(model))
		for k := range model {
			ks = append(ks, k)
		}
		sort.Strings(ks) // byte-wise order
		return ks
	}
	short := func(s string) string {
		if len(s) > 24 {
			return fmt.Sprintf("%q…(%d)", s[:12], len(s))
		}
		return fmt.Sprintf("%q", s)
	}
	mmReported := false
	failMM := func(op, want, got string) {
		if mmReported || bad {
			return
		}
		mmReported = true
		c36T.V("radix_differs_from_sorted_map", feat(op), map[string]any{"want": want, "got": got, "history_tail": c36Tail(hist)})
	}
	minmax := func() {
		ks := sortedKeys()
		k, v, ok := t.Minimum()
		k2, v2, ok2 := t.Maximum()
		hist = append(hist, c36Op{Op: "Minimum", Res: fmt.Sprint(short(string(k)), v, ok)}, c36Op{Op: "Maximum", Res: fmt.Sprint(short(string(k2)), v2, ok2)})
		r.Event("radix_minmax", 1)
		if len(ks) == 0 {
			if ok || ok2 {
				failMM("Minimum", "not found (empty)", fmt.Sprint(short(string(k)), ok, short(string(k2)), ok2))
			}
			return
		}
		if !ok || string(k) != ks[0] || v != model[ks[0]] {
			failMM("Minimum", fmt.Sprint(short(ks[0]), "→", model[ks[0]]), fmt.Sprint(short(string(k)), "→", v, " found=", ok))
		}
		last := ks[len(ks)-1]
		if !ok2 || string(k2) != last || v2 != model[last] {
			failMM("Maximum", fmt.Sprint(short(last), "→", model[last]), fmt.Sprint(short(string(k2)), "→", v2, " found=", ok2))
		}
	}
	checkAll := func() {
		if t.Len() != len(model) {
			fail("Len", fmt.Sprint(len(model)), fmt.Sprint(t.Len()))
		}
		for _, k := range dom {
			v, ok := t.Get(k)
			want, wok := model[string(k)]
			if ok != wok || (ok && v != want) {
				fail("Get", fmt.Sprint(short(string(k)), "→", want, " present=", wok), fmt.Sprint(v, " present=", ok))
			}
		}
		minmax()
		r.Event("radix_full_comparisons", 1)
	}
	nOps := rg.Range(10, 300)
	ctr := ci * 100000
	for o := 0; o < nOps && !bad; o++ {
		k := dom[rg.Intn(len(dom))]
		switch x := rg.Intn(100); {
		case x < 55:
			ctr++
			buf := append([]byte(nil), k...)
			got, inserted := t.Insert(buf, ctr)
			for i := range buf {
				buf[i] ^= 0xff
			}
			old, exists := model[string(k)]
			hist = append(hist, c36Op{Op: "Insert", Key: short(string(k)), Val: ctr, Res: fmt.Sprint(got, inserted)})
			if exists {
				// this fork never updates: it returns the existing value and false
				if inserted || got != old {
					fail("Insert", fmt.Sprint("(", old, ",false) existing key kept"), fmt.Sprint("(", got, ",", inserted, ")"))
				}
			} else {
				if !inserted || got != ctr {
					fail("Insert", fmt.Sprint("(", ctr, ",true)"), fmt.Sprint("(", got, ",", inserted, ")"))
				}
				model[string(k)] = ctr
			}
			if t.Len() != len(model) {
				fail("Len", fmt.Sprint(len(model)), fmt.Sprint(t.Len(), " after Insert"))
			}
			r.Event("radix_insert", 1)
		case x < 80:
			v, ok := t.Get(k)
			want, wok := model[string(k)]
			hist = append(hist, c36Op{Op: "Get", Key: short(string(k)), Res: fmt.Sprint(v, ok)})
			if ok != wok || (ok && v != want) {
				fail("Get", fmt.Sprint(want, wok), fmt.Sprint(v, ok))
			}
			r.Event("radix_get", 1)
		case x < 90:
			// prefix: a prefix of a domain key (possibly empty, possibly the whole key, possibly extended)
			p := append([]byte(nil), k[:rg.Intn(len(k)+1)]...)
			if rg.Chance(1, 6) {
				p = append(p, byte('a'+rg.Intn(3)))
			}
			want := 0
			for mk := range model {
				if bytes.HasPrefix([]byte(mk), p) {
					want++
					delete(model, mk)
				}
			}
			got := t.DeletePrefix(p)
			deletes++
			hist = append(hist, c36Op{Op: "DeletePrefix", Key: short(string(p)), Res: fmt.Sprint(got)})
			if got != want {
				fail("DeletePrefix", fmt.Sprint(want, " deleted"), fmt.Sprint(got))
			}
			checkAll()
			r.Event("radix_delete_prefix", 1)
		case x < 96:
			minmax()
		default:
			checkAll()
		}
	}
	if !bad {
		checkAll()
	}
	r.Case(fmt.Sprintf("radix/%d/%d/%q", len(dom), nOps, dom[0]), len(model) >= 2 || deletes > 0)
	if ci%400 == 2 && r.WantSample() {
		r.Sample(map[string]any{"structure": "radix", "domain_keys": len(dom), "ops": nOps, "delete_prefix_calls": deletes, "final_len": len(model), "history_tail": c36Tail(hist)[:minInt(8, len(c36Tail(hist)))]})
	}
}

// ---- SeriesIDSet -------------------------------------------------------------------------

// ids: dense small range, roaring container boundaries (multiples of 65536), high ids, and
// dense runs that turn an array container into a bitmap container (>4096 per 64k chunk).
func c36ID(rg *vkit.Rand) uint64 {
	switch rg.Intn(8) {
	case 0, 1, 2:
		return uint64(rg.Intn(300))
	case 3:
		return uint64(65536*rg.Intn(4)) + uint64(rg.Intn(5))
	case 4:
		return uint64(65536*(1+rg.Intn(3))) - uint64(1+rg.Intn(3))
	case 5:
		return []uint64{1<<31 - 1, 1 << 31, 1<<32 - 1, 1<<32 - 2, 1 << 24}[rg.Intn(5)]
	case 6:
		return uint64(200000 + rg.Intn(6000))
	default:
		return uint64(rg.Intn(1 << 20))
	}
}

type c36Set map[uint64]struct{}

func (s c36Set) sorted() []uint64 {
	out := make([]uint64, 0, len(s))
	for k := range s {
		out = append(out, k)
	}
	sort.Slice(out, func(i, j int) bool { return out[i] < out[j] })
	return out
}
func (s c36Set) clone() c36Set {
	o := c36Set{}
	for k := range s {
		o[k] = struct{}{}
	}
	return o
}

func c36SetEq(real *tsdb.SeriesIDSet, model c36Set) string {
	got := real.Slice()
	want := model.sorted()
	if uint64(len(want)) != real.Cardinality() {
		return fmt.Sprintf("cardinality %d, model %d", real.Cardinality(), len(want))
	}
	if len(got) != len(want) {
		return fmt.Sprintf("Slice has %d ids, model %d", len(got), len(want))
	}
	for i := range got {
		if got[i] != want[i] {
			return fmt.Sprintf("Slice[%d] = %d, model %d", i, got[i], want[i])
		}
	}
	return ""
}

func c36IDSet(r *vkit.Run, rg *vkit.Rand, ci int) {
	const nSets = 3
	real := make([]*tsdb.SeriesIDSet, nSets)
	model := make([]c36Set, nSets)
	for i := range real {
		var init []uint64
		for j := 0; j < rg.Intn(6); j++ {
			init = append(init, c36ID(rg))
		}
		real[i] = tsdb.NewSeriesIDSet(init...)
		model[i] = c36Set{}
		for _, id := range init {
			model[i][id] = struct{}{}
		}
	}
	var hist []c36Op
	bad := false
	lastOp := ""
	fail := func(op, detail string) {
		if bad {
			return
		}
		bad = true
		c36T.V("idset_differs_from_set_model", map[string]string{"structure": "SeriesIDSet", "op": op}, map[string]any{"detail": detail, "history_tail": c36Tail(hist)})
	}
	full, cheap := int64(0), int64(0)
	defer func() { r.Event("idset_full_comparisons", full); r.Event("idset_cardinality_comparisons", cheap) }()
	cmpFull := func(op string, i int) {
		if d := c36SetEq(real[i], model[i]); d != "" {
			fail(op, fmt.Sprintf("set %d: %s", i, d))
		}
		full++
	}
	// after every operation: cardinality + a few membership probes; the full content (Slice vs
	// sorted model) after every 4th operation, after every set-algebra result and at the end
	cmp := func(op string, i int) {
		if len(model[i]) <= 64 || rg.Chance(1, 4) {
			cmpFull(op, i)
			return
		}
		cheap++
		if real[i].Cardinality() != uint64(len(model[i])) {
			fail(op, fmt.Sprintf("set %d: cardinality %d, model %d", i, real[i].Cardinality(), len(model[i])))
		}
		for p := 0; p < 4; p++ {
			id := c36ID(rg)
			if _, want := model[i][id]; real[i].Contains(id) != want {
				fail(op, fmt.Sprintf("set %d: Contains(%d) = %v, model %v", i, id, !want, want))
			}
		}
	}
	cmpNew := func(op string, got *tsdb.SeriesIDSet, want c36Set) {
		if d := c36SetEq(got, want); d != "" {
			fail(op, "result: "+d)
		}
		r.Event("idset_result_comparisons", 1)
	}
	nOps := rg.Range(10, 160)
	for o := 0; o < nOps && !bad; o++ {
		a, b := rg.Intn(nSets), rg.Intn(nSets)
		id := c36ID(rg)
		op := rg.Intn(22)
		switch op {
		case 0, 1, 2, 3:
			lastOp = "Add"
			if rg.Bool() {
				real[a].Add(id)
			} else {
				real[a].AddNoLock(id)
			}
			model[a][id] = struct{}{}
			hist = append(hist, c36Op{Op: "Add", Key: fmt.Sprint(a), Val: int(id)})
		case 4:
			lastOp = "AddMany"
			var ids []uint64
			if rg.Chance(1, 5) { // a dense run: array → bitmap container
				base := uint64(65536 * rg.Intn(3))
				for x := uint64(0); x < uint64(rg.Range(4000, 5000)); x++ {
					ids = append(ids, base+x*uint64(1+rg.Intn(2)))
				}
			} else {
				for j := 0; j < rg.Intn(40); j++ {
					ids = append(ids, c36ID(rg))
				}
			}
			real[a].AddMany(ids...)
			for _, x := range ids {
				model[a][x] = struct{}{}
			}
			hist = append(hist, c36Op{Op: "AddMany", Key: fmt.Sprint(a), Val: len(ids)})
		case 5, 6:
			lastOp = "Remove"
			if len(model[a]) > 0 && rg.Chance(2, 3) {
				ks := model[a].sorted()
				id = ks[rg.Intn(len(ks))]
			}
			if rg.Bool() {
				real[a].Remove(id)
			} else {
				real[a].RemoveNoLock(id)
			}
			delete(model[a], id)
			hist = append(hist, c36Op{Op: "Remove", Key: fmt.Sprint(a), Val: int(id)})
		case 7, 8:
			lastOp = "Contains"
			_, want := model[a][id]
			got := real[a].Contains(id)
			if got != real[a].ContainsNoLock(id) || got != want {
				fail("Contains", fmt.Sprintf("set %d id %d: got %v want %v", a, id, got, want))
			}
			r.Event("idset_contains", 1)
			continue
		case 9:
			lastOp = "Merge"
			// the receiver itself is never an operand: s.Merge(s) blocks forever (see c36SelfOperands)
			if a == b {
				continue
			}
			others := []*tsdb.SeriesIDSet{real[b]}
			om := []c36Set{model[b]}
			if c := rg.Intn(nSets); c != a && rg.Bool() {
				others = append(others, real[c])
				om = append(om, model[c])
			}
			real[a].Merge(others...)
			nm := model[a].clone()
			for _, x := range om {
				for k := range x {
					nm[k] = struct{}{}
				}
			}
			model[a] = nm
			hist = append(hist, c36Op{Op: "Merge", Key: fmt.Sprint(a, "<-", b)})
		case 10:
			lastOp = "MergeInPlace"
			real[a].MergeInPlace(real[b])
			if a != b {
				for k := range model[b] {
					model[a][k] = struct{}{}
				}
			}
			hist = append(hist, c36Op{Op: "MergeInPlace", Key: fmt.Sprint(a, "<-", b)})
		case 11:
			lastOp = "And"
			if a == b {
				continue
			}
			want := c36Set{}
			for k := range model[a] {
				if _, ok := model[b][k]; ok {
					want[k] = struct{}{}
				}
			}
			hist = append(hist, c36Op{Op: "And", Key: fmt.Sprint(a, "&", b)})
			cmpNew("And", real[a].And(real[b]), want)
			if got, w := real[a].Intersects(real[b]), len(want) > 0; got != w {
				fail("Intersects", fmt.Sprintf("got %v want %v", got, w))
			}
		case 12:
			lastOp = "AndNot"
			if a == b {
				continue
			}
			want := c36Set{}
			for k := range model[a] {
				if _, ok := model[b][k]; !ok {
					want[k] = struct{}{}
				}
			}
			hist = append(hist, c36Op{Op: "AndNot", Key: fmt.Sprint(a, "-", b)})
			cmpNew("AndNot", real[a].AndNot(real[b]), want)
		case 13:
			lastOp = "Diff"
			if a == b {
				continue
			}
			real[a].Diff(real[b])
			for k := range model[b] {
				delete(model[a], k)
			}
			hist = append(hist, c36Op{Op: "Diff", Key: fmt.Sprint(a, "-=", b)})
		case 14:
			lastOp = "Clone"
			c := real[a].Clone()
			cmpNew("Clone", c, model[a])
			// independence: changing the clone must not change the original
			c.Add(id)
			c.Remove(func() uint64 {
				for k := range model[a] {
					return k
				}
				return 0
			}())
			hist = append(hist, c36Op{Op: "Clone+mutate clone", Key: fmt.Sprint(a)})
		case 15:
			lastOp = "WriteTo/UnmarshalBinary"
			var buf bytes.Buffer
			n, err := real[a].WriteTo(&buf)
			if err != nil || n != int64(buf.Len()) {
				fail("WriteTo", fmt.Sprintf("n=%d len=%d err=%v", n, buf.Len(), err))
			}
			back := tsdb.NewSeriesIDSet() // fresh receiver, as every caller in /repo does (reading into a non-empty set is unspecified)
			if rg.Bool() {
				if err := back.UnmarshalBinary(buf.Bytes()); err != nil {
					fail("UnmarshalBinary", err.Error())
				}
			} else {
				lastOp = "WriteTo/UnmarshalBinaryUnsafe"
				if err := back.UnmarshalBinaryUnsafe(append([]byte(nil), buf.Bytes()...)); err != nil {
					fail("UnmarshalBinaryUnsafe", err.Error())
				}
			}
			hist = append(hist, c36Op{Op: lastOp, Key: fmt.Sprint(a), Val: buf.Len()})
			cmpNew(lastOp, back, model[a])
			// the restored set keeps working as a set
			back = back.Clone()
			back.Add(id)
			w := model[a].clone()
			w[id] = struct{}{}
			cmpNew(lastOp+"+Add", back, w)
		case 16:
			lastOp = "ForEach"
			var seen []uint64
			real[a].ForEach(func(x uint64) { seen = append(seen, x) })
			want := model[a].sorted()
			if fmt.Sprint(seen) != fmt.Sprint(want) {
				fail("ForEach", fmt.Sprintf("ascending ids expected: got %d ids, want %d", len(seen), len(want)))
			}
			var seen2 []uint64
			itr := real[a].Iterator()
			for itr.HasNext() {
				seen2 = append(seen2, uint64(itr.Next()))
			}
			if fmt.Sprint(seen2) != fmt.Sprint(want) {
				fail("Iterator", fmt.Sprintf("got %d ids, want %d", len(seen2), len(want)))
			}
			r.Event("idset_iterations", 1)
			continue
		case 17:
			lastOp = "Equals"
			want := len(model[a]) == len(model[b])
			if want {
				for k := range model[a] {
					if _, ok := model[b][k]; !ok {
						want = false
						break
					}
				}
			}
			if got := real[a].Equals(real[b]); got != want {
				fail("Equals", fmt.Sprintf("sets %d,%d: got %v want %v", a, b, got, want))
			}
			continue
		case 18:
			if !rg.Chance(1, 4) {
				continue
			}
			lastOp = "Clear"
			real[a].Clear()
			model[a] = c36Set{}
			hist = append(hist, c36Op{Op: "Clear", Key: fmt.Sprint(a)})
		default:
			cmp(lastOp, a)
			continue
		}
		cmp(lastOp, a)
		if b != a {
			cmp(lastOp+" (other operand unchanged)", b)
		}
	}
	total := 0
	for i := range real {
		if !bad {
			cmpFull("end", i)
		}
		total += len(model[i])
	}
	r.Case(fmt.Sprintf("idset/%d/%v", nOps, hist), total >= 2)
	if ci%400 == 3 && r.WantSample() {
		r.Sample(map[string]any{"structure": "SeriesIDSet", "ops": nOps, "final_cardinalities": []int{len(model[0]), len(model[1]), len(model[2])}, "history_tail": c36Tail(hist)[:minInt(10, len(c36Tail(hist)))]})
	}
}

// ---- concurrent SeriesIDSet ----------------------------------------------------------------

// Writers add/remove ids of their own disjoint ranges, one goroutine merges static sets in
// place; readers run every read-side method. All writes commute, so the final content is
// determined; readers check monotone facts (ids never touched by a writer stay present, every
// id seen belongs to the universe). Data races are reported by the race detector (build "race").
func c36Concurrent(r *vkit.Run, round int) {
	rg := r.SubRand("concurrent", round)
	const writers, readers, perWriter = 4, 4, 500
	stable := c36Set{}
	var init []uint64
	for i := 0; i < 200; i++ {
		id := uint64(1_000_000 + rg.Intn(100000))
		init = append(init, id)
		stable[id] = struct{}{}
	}
	shared := tsdb.NewSeriesIDSet(init...)
	static := tsdb.NewSeriesIDSet()
	staticM := c36Set{}
	for i := 0; i < 3000; i++ {
		id := uint64(2_000_000 + rg.Intn(50000))
		static.Add(id)
		staticM[id] = struct{}{}
	}
	inUniverse := func(id uint64) bool {
		return id < writers*100000 || (id >= 1_000_000 && id < 1_100_000) || (id >= 2_000_000 && id < 2_050_000)
	}
	expect := stable.clone()
	plans := make([][]uint64, writers)
	for w := 0; w < writers; w++ {
		wr := r.SubRand(fmt.Sprintf("concurrent-w%d", w), round)
		for i := 0; i < perWriter; i++ {
			plans[w] = append(plans[w], uint64(w*100000+wr.Intn(70000)))
		}
	}
	var stop atomic.Bool
	var wg, rwg sync.WaitGroup
	var problems sync.Map
	note := func(s string) { problems.LoadOrStore(s, true) }
	for w := 0; w < writers; w++ {
		wg.Add(1)
		go func(w int) {
			defer wg.Done()
			for i, id := range plans[w] {
				if i%7 == 3 {
					shared.AddMany(id, id+1, id+2)
				} else {
					shared.Add(id)
				}
				if i%3 == 2 {
					shared.Remove(plans[w][i-1])
				}
			}
		}(w)
	}
	wg.Add(1)
	go func() {
		defer wg.Done()
		for i := 0; i < 20; i++ {
			shared.MergeInPlace(static)
		}
	}()
	for rd := 0; rd < readers; rd++ {
		rwg.Add(1)
		go func(rd int) {
			defer rwg.Done()
			rr := r.SubRand(fmt.Sprintf("concurrent-r%d", rd), round)
			priv := tsdb.NewSeriesIDSet()
			for it := 0; !stop.Load() || it < 20; it++ {
				switch (it + rd) % 9 {
				case 0:
					for id := range stable {
						if !shared.Contains(id) {
							note(fmt.Sprintf("id %d (never removed) not contained", id))
						}
						break
					}
					shared.Contains(uint64(rr.Intn(400000)))
				case 1:
					c := shared.Clone()
					for id := range stable {
						if !c.Contains(id) {
							note("clone lost a stable id")
						}
					}
					c.ForEachNoLock(func(id uint64) {
						if !inUniverse(id) {
							note(fmt.Sprintf("clone contains foreign id %d", id))
						}
					})
				case 2:
					prev := uint64(0)
					first := true
					shared.ForEach(func(id uint64) {
						if !first && id <= prev {
							note("ForEach not ascending")
						}
						first, prev = false, id
					})
				case 3:
					x := shared.And(static)
					x.ForEachNoLock(func(id uint64) {
						if _, ok := staticM[id]; !ok {
							note("And result outside the static operand")
						}
					})
					_ = shared.Intersects(static)
				case 4:
					x := shared.AndNot(static)
					x.ForEachNoLock(func(id uint64) {
						if _, ok := staticM[id]; ok {
							note("AndNot result contains an id of the subtrahend")
						}
					})
				case 5:
					var buf bytes.Buffer
					if _, err := shared.WriteTo(&buf); err != nil {
						note("WriteTo: " + err.Error())
					}
					back := tsdb.NewSeriesIDSet()
					if err := back.UnmarshalBinary(buf.Bytes()); err != nil {
						note("UnmarshalBinary: " + err.Error())
					}
					for id := range stable {
						if !back.Contains(id) {
							note("serialized snapshot lost a stable id")
						}
					}
				case 6:
					priv.Merge(shared)
					priv.MergeInPlace(shared)
					_ = priv.Cardinality()
				case 7:
					s := shared.Slice()
					if !sort.SliceIsSorted(s, func(i, j int) bool { return s[i] < s[j] }) {
						note("Slice not sorted")
					}
					_ = shared.Bytes()
					_ = shared.String()
				default:
					_ = shared.Cardinality()
					_ = shared.Equals(static)
				}
			}
		}(rd)
	}
	wg.Wait()
	stop.Store(true)
	rwg.Wait()
	// expected final content: stable ∪ static ∪ net effect of each writer's plan
	for id := range staticM {
		expect[id] = struct{}{}
	}
	for w := 0; w < writers; w++ {
		own := c36Set{}
		for i, id := range plans[w] {
			if i%7 == 3 {
				own[id], own[id+1], own[id+2] = struct{}{}, struct{}{}, struct{}{}
			} else {
				own[id] = struct{}{}
			}
			if i%3 == 2 {
				delete(own, plans[w][i-1])
			}
		}
		for id := range own {
			expect[id] = struct{}{}
		}
	}
	r.Event("concurrent_rounds", 1)
	if d := c36SetEq(shared, expect); d != "" {
		c36T.V("idset_concurrent_final_state", map[string]string{"structure": "SeriesIDSet", "op": "concurrent Add/Remove/MergeInPlace"}, map[string]any{"round": round, "detail": d})
	}
	problems.Range(func(k, _ any) bool {
		c36T.V("idset_concurrent_reader_observation", map[string]string{"structure": "SeriesIDSet", "op": "concurrent read"}, map[string]any{"round": round, "detail": k})
		return true
	})
	r.Case(fmt.Sprintf("idset-concurrent/%d", round), true)
}

// c36SelfOperands: A∪A, A\A, A∩A … with the receiver as its own operand. A call that never
// returns is decided without a clock: the set is private to the calling goroutine, so once
// that goroutine is parked in sync.RWMutex.Lock nobody can ever release it.
func c36SelfOperands(r *vkit.Run) {
	type probe struct {
		name string
		run  func(s *tsdb.SeriesIDSet) string // returns "" or a description of a wrong result
	}
	want := func(s *tsdb.SeriesIDSet, ids ...uint64) string {
		m := c36Set{}
		for _, id := range ids {
			m[id] = struct{}{}
		}
		return c36SetEq(s, m)
	}
	probes := []probe{
		{"MergeInPlace", func(s *tsdb.SeriesIDSet) string { s.MergeInPlace(s); return want(s, 1, 2, 70000) }},
		{"Equals", func(s *tsdb.SeriesIDSet) string {
			if !s.Equals(s) {
				return "A != A"
			}
			return ""
		}},
		{"And", func(s *tsdb.SeriesIDSet) string { return want(s.And(s), 1, 2, 70000) }},
		{"AndNot", func(s *tsdb.SeriesIDSet) string { return want(s.AndNot(s)) }},
		{"Intersects", func(s *tsdb.SeriesIDSet) string {
			if !s.Intersects(s) {
				return "A does not intersect A"
			}
			return ""
		}},
		{"Merge", func(s *tsdb.SeriesIDSet) string { s.Merge(s); return want(s, 1, 2, 70000) }},
		{"Diff", func(s *tsdb.SeriesIDSet) string { s.Diff(s); return want(s) }},
	}
	for _, p := range probes {
		s := tsdb.NewSeriesIDSet(1, 2, 70000)
		done := make(chan string, 1)
		go func() { done <- c36SelfBody(p.run, s) }()
		blocked, decided := 0, false
		for poll := 0; poll < 400 && !decided; poll++ {
			select {
			case res := <-done:
				decided = true
				r.Event("idset_self_operand_returned", 1)
				if res != "" {
					c36T.V("idset_differs_from_set_model", map[string]string{"structure": "SeriesIDSet", "op": p.name + "(self)"}, map[string]any{"detail": res})
				}
			default:
				buf := make([]byte, 1<<20)
				buf = buf[:runtime.Stack(buf, true)]
				parked := false
				for _, g := range bytes.Split(buf, []byte("\n\n")) {
					if bytes.Contains(g, []byte("c36SelfBody")) && bytes.HasPrefix(g, []byte("goroutine ")) &&
						(bytes.Contains(g[:bytes.IndexByte(g, '\n')+1], []byte("[sync.RWMutex.Lock")) || bytes.Contains(g[:bytes.IndexByte(g, '\n')+1], []byte("[sync.RWMutex.RLock"))) {
						parked = true
					}
				}
				if parked {
					blocked++
				} else {
					blocked = 0
				}
				if blocked >= 5 {
					decided = true
					r.Event("idset_self_operand_deadlocked", 1)
					c36T.V("idset_self_operand_deadlock", map[string]string{"structure": "SeriesIDSet", "op": p.name + "(self)"},
						map[string]any{"detail": "s." + p.name + "(s) on a set private to the calling goroutine: the goroutine is parked in sync.RWMutex.Lock on the set's own lock (read lock still held by the same call), nothing can release it", "polls_parked": blocked})
				}
				time.Sleep(2 * time.Millisecond)
			}
		}
		if !decided {
			r.Inconclusive("self-operand probe " + p.name + ": neither returned nor parked on the set's lock")
		}
		r.Case("idset-self/"+p.name, true)
	}
}

func c36Dbg(s string) {
	if os.Getenv("VERIF_DEBUG") != "" {
		fmt.Fprintln(os.Stderr, "C36:", s)
	}
}

//go:noinline
func c36SelfBody(f func(*tsdb.SeriesIDSet) string, s *tsdb.SeriesIDSet) string { return f(s) }

func TestC36(t *testing.T) {
	r := vkit.Start(t, "C36", "exploration")
	defer r.Finish()
	c36T = gpNewTally(r)
	defer c36T.Flush()
	r.Rule("a case = one generated operation sequence (10–300 ops) against one structure, cycling rhh.HashMap (capacity 1–256, load factor 50–100, 3–300 keys incl. empty/long/binary keys; Put/PutQuiet/Get/Grow/Reset/Keys/Elem vs map), bloom.Filter (m 1–100000 bits, k 1–13; Insert/Contains/Clone/Merge/NewFilterBuffer, no false negative), radix.Tree (keys over {a,b,c}^≤6, empty key, 4 KiB keys; Insert/Get/DeletePrefix/Minimum/Maximum/Len vs sorted map), tsdb.SeriesIDSet (3 sets; Add/AddMany/Remove/Contains/Merge/MergeInPlace/And/AndNot/Diff/Intersects/Equals/Clone/ForEach/Iterator/WriteTo→UnmarshalBinary[Unsafe]/Clear vs map[uint64]); plus rounds of concurrent SeriesIDSet writers/readers under the race detector; non-trivial = ≥2 live elements (radix: or a DeletePrefix happened); distinct = hash of (structure, parameters, first key / history)")
	n := r.N(800, 8000)
	spent := map[string]float64{} // diagnostic only, never decides anything
	for i := 0; i < n; i++ {
		rg := r.Rand(i)
		t0 := time.Now()
		switch i % 4 {
		case 0:
			c36RHH(r, rg, i)
		case 1:
			c36Bloom(r, rg, i)
		case 2:
			c36Radix(r, rg, i)
		default:
			c36IDSet(r, rg, i)
		}
		spent[[]string{"rhh", "bloom", "radix", "idset"}[i%4]] += time.Since(t0).Seconds()
	}
	r.Extra("diagnostic_seconds_per_structure", spent)
	c36Dbg("sequences done")
	c36SelfOperands(r)
	c36Dbg("self operands done")
	rounds := r.N(3, 30)
	for i := 0; i < rounds; i++ {
		c36Concurrent(r, i)
		c36Dbg(fmt.Sprint("concurrent round ", i, " done"))
	}
	if q := c36FPqueries.Load(); q > 0 {
		r.Extra("bloom_false_positive_rate_measured", map[string]any{"queries": q, "false_positives": c36FPhits.Load(), "rate": float64(c36FPhits.Load()) / float64(q), "note": "reported, not judged; filters are deliberately tiny/overfull in many cases"})
	}
	r.Extra("race_detector", c36RaceEnabled)
	r.Assume("series ids are below 2^32: SeriesIDSet stores uint32(id) in a roaring bitmap, larger ids alias (documented domain of the structure, not checked)",
		"rhh values are non-nil (Get returns nil for a missing key); rhh has no delete",
		"SeriesIDSet.Merge concurrent with Add on the same set is not exercised (Merge computes under RLock and assigns under Lock; the statement makes no atomicity claim)")
}
