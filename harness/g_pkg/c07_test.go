package g_pkg

import (
	"fmt"
	"math"
	"testing"

	"github.com/influxdata/influxdb/v2/pkg/encoding/simple8b"
	"github.com/influxdata/influxdb/v2/tsdb"
	"github.com/influxdata/influxdb/v2/tsdb/engine/tsm1"

	"verifharness/vkit"
)

// ---- generators ------------------------------------------------------------------------

var c07Lens = []int{0, 1, 2, 3, 4, 5, 7, 8, 15, 16, 59, 60, 61, 119, 120, 121, 239, 240, 241, 255, 256, 999, 1000, 1001}

func c07Len(r *vkit.Rand) int {
	switch r.Intn(4) {
	case 0:
		return vkit.Pick(r, c07Lens)
	case 1:
		return r.Range(1, 20)
	default:
		return r.Range(1, 300)
	}
}

// timestamps: sorted (what blocks hold) with every scale path, RLE, raw (overflowing deltas).
func c07Times(r *vkit.Rand, n int) ([]int64, string) {
	ts := make([]int64, n)
	shape := r.Intn(8)
	name := ""
	switch shape {
	case 0: // constant delta, RLE path, scaled
		name = "rle"
		d := []int64{1, 10, 1000, 1e6, 1e9, 60e9, 7, 3e9 + 1}[r.Intn(8)]
		start := []int64{0, -1, 1, 1e18, math.MinInt64 + 2, -5e17, 1500000000e9}[r.Intn(7)]
		for i := range ts {
			ts[i] = start + int64(i)*d
		}
		if n > 0 && (ts[n-1] < ts[0]) { // overflowed; fall back to tiny delta
			for i := range ts {
				ts[i] = start + int64(i)
			}
		}
	case 1, 2: // varying deltas with a common power-of-ten factor (simple8b packed path)
		name = "packed"
		scale := []int64{1, 10, 100, 1000, 1e4, 1e6, 1e9, 1e12}[r.Intn(8)]
		cur := []int64{0, 1e18, -1e18, 1600000000e9}[r.Intn(4)]
		cur = cur / scale * scale
		for i := range ts {
			ts[i] = cur
			cur += scale * int64(1+r.Intn(1000))
		}
	case 3: // huge deltas -> raw
		name = "raw_big_delta"
		cur := int64(math.MinInt64 + 2)
		step := uint64(math.MaxUint64) / uint64(n+1)
		for i := range ts {
			ts[i] = cur
			cur += int64(step/2) + int64(r.Uint64()%(step/2+1))
		}
	case 4: // extremes
		name = "extremes"
		pool := []int64{math.MinInt64, math.MinInt64 + 1, math.MinInt64 + 2, -1, 0, 1, math.MaxInt64 - 1, math.MaxInt64}
		for i := range ts {
			ts[i] = pool[(i*len(pool))/maxInt(n, 1)]
		}
	case 5: // unsorted / duplicates (encoders must still round-trip)
		name = "unsorted"
		for i := range ts {
			ts[i] = r.Int64() >> uint(r.Intn(64))
		}
	case 6: // delta just around 2^60 boundary
		name = "delta_2p60"
		cur := int64(-1 << 62)
		for i := range ts {
			ts[i] = cur
			cur += int64(1<<60) - 2 + int64(r.Intn(4))
			if cur < ts[i] {
				cur = ts[i] + 1
			}
		}
	default: // mostly regular with one irregular delta (RLE broken at a random index)
		name = "rle_broken"
		d := int64(1e9)
		cur := int64(1e18)
		brk := r.Intn(maxInt(n, 1))
		for i := range ts {
			ts[i] = cur
			cur += d
			if i == brk {
				cur += int64(r.Intn(3)) * 1e3
			}
		}
	}
	return ts, name
}

func maxInt(a, b int) int {
	if a > b {
		return a
	}
	return b
}

func c07Ints(r *vkit.Rand, n int) ([]int64, string) {
	v := make([]int64, n)
	switch r.Intn(7) {
	case 0:
		c := r.Int64() >> uint(r.Intn(64))
		for i := range v {
			v[i] = c
		}
		return v, "const"
	case 1:
		d := int64(r.Intn(2000) - 1000)
		s := r.Int64() >> 8
		for i := range v {
			v[i] = s + int64(i)*d
		}
		return v, "linear"
	case 2:
		for i := range v {
			v[i] = int64(r.Intn(200) - 100)
		}
		return v, "small"
	case 3:
		pool := []int64{math.MinInt64, math.MinInt64 + 1, -1, 0, 1, math.MaxInt64 - 1, math.MaxInt64, 1 << 59, 1 << 60, -(1 << 59), -(1 << 60)}
		for i := range v {
			v[i] = vkit.Pick(r, pool)
		}
		return v, "extremes"
	case 4:
		for i := range v {
			v[i] = r.Int64()
		}
		return v, "random64"
	case 5: // deltas whose zigzag is just below/above 2^60
		cur := int64(0)
		for i := range v {
			v[i] = cur
			d := int64(1<<59) - 2 + int64(r.Intn(4))
			if r.Bool() {
				d = -d
			}
			cur += d
		}
		return v, "delta_2p59"
	default:
		for i := range v {
			v[i] = r.Int64() >> uint(r.Intn(64))
		}
		return v, "mixed_width"
	}
}

func c07Floats(r *vkit.Rand, n int) ([]float64, string) {
	v := make([]float64, n)
	switch r.Intn(6) {
	case 0:
		c := r.Float64() * 100
		for i := range v {
			v[i] = c
		}
		return v, "const"
	case 1:
		for i := range v {
			v[i] = float64(r.Intn(1000)) / 8
		}
		return v, "dyadic"
	case 2:
		pool := []float64{0, math.Copysign(0, -1), math.Inf(1), math.Inf(-1), math.MaxFloat64, -math.MaxFloat64, math.SmallestNonzeroFloat64,
			math.Float64frombits(0x7ff8000000000001), math.Float64frombits(0x7ff0000000000001), math.Float64frombits(0xfff8000000000000), math.NaN(), 1, -1}
		for i := range v {
			v[i] = vkit.Pick(r, pool)
		}
		return v, "specials"
	case 3:
		for i := range v {
			v[i] = math.Float64frombits(r.Uint64())
		}
		return v, "randombits"
	case 4: // xor windows: change few bits
		cur := r.Uint64()
		for i := range v {
			v[i] = math.Float64frombits(cur)
			cur ^= uint64(1) << uint(r.Intn(64))
			if r.Chance(1, 4) {
				cur ^= r.Uint64() >> uint(r.Intn(64)) << uint(r.Intn(32))
			}
		}
		return v, "xorwindow"
	default:
		x := 20.0
		for i := range v {
			v[i] = x
			x += (r.Float64() - 0.5)
		}
		return v, "walk"
	}
}

func c07Strings(r *vkit.Rand, n int) ([]string, string) {
	v := make([]string, n)
	pool := []string{"", "a", "é", "日本語", "\x00", "a b", "\n", string(make([]byte, 300)), "w12345"}
	for i := range v {
		switch r.Intn(4) {
		case 0:
			v[i] = vkit.Pick(r, pool)
		case 1:
			v[i] = string(r.Bytes(r.Intn(40)))
		case 2:
			v[i] = fmt.Sprintf("w%d", r.Intn(1000))
		default:
			v[i] = string(r.Bytes(r.Intn(3) * 1000))
		}
	}
	return v, "strings"
}

func c07Bools(r *vkit.Rand, n int) ([]bool, string) {
	v := make([]bool, n)
	mode := r.Intn(3)
	for i := range v {
		switch mode {
		case 0:
			v[i] = true
		case 1:
			v[i] = i%2 == 0
		default:
			v[i] = r.Bool()
		}
	}
	return v, "bools"
}

// ---- oracle helpers ---------------------------------------------------------------------

type c07Wit struct {
	Type   string      `json:"type"`
	Path   string      `json:"path"`
	TShape string      `json:"tshape"`
	VShape string      `json:"vshape"`
	N      int         `json:"n"`
	Index  int         `json:"index"`
	Want   string      `json:"want"`
	Got    string      `json:"got"`
	Times  []int64     `json:"times,omitempty"`
	Values interface{} `json:"values,omitempty"`
	Err    string      `json:"err,omitempty"`
}

func c07Trim[T any](xs []T) []T {
	if len(xs) > 40 {
		return xs[:40]
	}
	return xs
}

func TestC07(t *testing.T) {
	r := vkit.Start(t, "C07", "exploration")
	defer r.Finish()
	r.Rule("cases = (type, timestamp shape, value shape, length) blocks drawn from splitmix(seed,case#); each is pushed through scalar-encode→{scalar,batch}-decode and batch-encode→{scalar,batch}-decode, column codecs cross-decoded, and simple8b EncodeAll/DecodeAll/Encoder/Decoder; non-trivial = length ≥ 2; distinct = hash of (type, shapes, values)")
	n := r.N(30000, 400000)
	fail := func(path string, w c07Wit) {
		w.Path = path
		r.Violation("roundtrip_mismatch", map[string]string{"type": w.Type, "path": path}, w)
	}
	for i := 0; i < n; i++ {
		rg := r.Rand(i)
		ln := c07Len(rg)
		ts, tshape := c07Times(rg, ln)
		typ := i % 6
		if i%997 == 0 && typ != 5 && r.WantSample() {
			r.Sample(map[string]any{"case": i, "type": []string{"float", "integer", "unsigned", "boolean", "string"}[typ], "timestamp_shape": tshape, "len": ln, "first_timestamps": c07Trim(ts)})
		}
		switch typ {
		case 0:
			vs, vshape := c07Floats(rg, ln)
			c07Float(r, ts, vs, tshape, vshape, fail)
			r.Case(fmt.Sprint("f", tshape, vshape, ts, bitsOf(vs)), ln >= 2)
		case 1:
			vs, vshape := c07Ints(rg, ln)
			c07Int(r, ts, vs, tshape, vshape, fail)
			r.Case(fmt.Sprint("i", tshape, vshape, ts, vs), ln >= 2)
		case 2:
			vi, vshape := c07Ints(rg, ln)
			vs := make([]uint64, ln)
			for k := range vi {
				vs[k] = uint64(vi[k])
			}
			c07Uint(r, ts, vs, tshape, vshape, fail)
			r.Case(fmt.Sprint("u", tshape, vshape, ts, vs), ln >= 2)
		case 3:
			vs, vshape := c07Bools(rg, ln)
			c07Bool(r, ts, vs, tshape, vshape, fail)
			r.Case(fmt.Sprint("b", tshape, vshape, ts, vs), ln >= 2)
		case 4:
			vs, vshape := c07Strings(rg, ln)
			c07String(r, ts, vs, tshape, vshape, fail)
			r.Case(fmt.Sprint("s", tshape, vshape, ts, vs), ln >= 2)
		case 5:
			c07Simple8b(r, rg, fail)
		}
	}
}

func bitsOf(v []float64) []uint64 {
	o := make([]uint64, len(v))
	for i := range v {
		o[i] = math.Float64bits(v[i])
	}
	return o
}

type failFn func(path string, w c07Wit)

// time column: scalar encoder vs batch encoder, cross-decoded
func c07TimeColumn(r *vkit.Run, ts []int64, tshape string, fail failFn) {
	if len(ts) == 0 {
		return
	}
	enc := tsm1.NewTimeEncoder(len(ts))
	for _, t := range ts {
		enc.Write(t)
	}
	sb, err := enc.Bytes()
	if err != nil {
		fail("time.scalar.encode", c07Wit{Type: "time", TShape: tshape, N: len(ts), Err: err.Error(), Times: c07Trim(ts)})
		return
	}
	sb = append([]byte(nil), sb...)
	bb, err := tsm1.TimeArrayEncodeAll(append([]int64(nil), ts...), nil)
	if err != nil {
		fail("time.batch.encode", c07Wit{Type: "time", TShape: tshape, N: len(ts), Err: err.Error(), Times: c07Trim(ts)})
		return
	}
	r.Event("time_encoding_"+fmt.Sprint(sb[0]>>4), 1)
	for _, src := range []struct {
		name string
		b    []byte
	}{{"scalarenc", sb}, {"batchenc", bb}} {
		// scalar decoder
		var d tsm1.TimeDecoder
		d.Init(src.b)
		k := 0
		for d.Next() {
			got := d.Read()
			if k >= len(ts) || got != ts[k] {
				fail("time."+src.name+".scalardec", c07Wit{Type: "time", TShape: tshape, N: len(ts), Index: k, Want: fmt.Sprint(at(ts, k)), Got: fmt.Sprint(got), Times: c07Trim(ts)})
				return
			}
			k++
		}
		if d.Error() != nil || k != len(ts) {
			fail("time."+src.name+".scalardec", c07Wit{Type: "time", TShape: tshape, N: len(ts), Index: k, Want: fmt.Sprint(len(ts), " values"), Got: fmt.Sprint(k, " values err=", d.Error()), Times: c07Trim(ts)})
			return
		}
		out, err := tsm1.TimeArrayDecodeAll(src.b, nil)
		if err != nil || len(out) != len(ts) {
			fail("time."+src.name+".batchdec", c07Wit{Type: "time", TShape: tshape, N: len(ts), Want: fmt.Sprint(len(ts)), Got: fmt.Sprint(len(out), " err=", err), Times: c07Trim(ts)})
			return
		}
		for k := range ts {
			if out[k] != ts[k] {
				fail("time."+src.name+".batchdec", c07Wit{Type: "time", TShape: tshape, N: len(ts), Index: k, Want: fmt.Sprint(ts[k]), Got: fmt.Sprint(out[k]), Times: c07Trim(ts)})
				return
			}
		}
		if c := tsm1.CountTimestamps(src.b); c != len(ts) {
			fail("time."+src.name+".count", c07Wit{Type: "time", TShape: tshape, N: len(ts), Want: fmt.Sprint(len(ts)), Got: fmt.Sprint(c), Times: c07Trim(ts)})
		}
	}
}

func at[T any](xs []T, i int) interface{} {
	if i < len(xs) {
		return xs[i]
	}
	return "<none>"
}

func c07Float(r *vkit.Run, ts []int64, vs []float64, tshape, vshape string, fail failFn) {
	c07TimeColumn(r, ts, tshape, fail)
	n := len(ts)
	w := func(idx int, want, got string, err error) c07Wit {
		e := ""
		if err != nil {
			e = err.Error()
		}
		return c07Wit{Type: "float", TShape: tshape, VShape: vshape, N: n, Index: idx, Want: want, Got: got, Times: c07Trim(ts), Values: c07Trim(bitsOf(vs)), Err: e}
	}
	// column codecs
	if n > 0 {
		enc := tsm1.NewFloatEncoder()
		for _, v := range vs {
			enc.Write(v)
		}
		enc.Flush()
		sb, err := enc.Bytes()
		bb, err2 := tsm1.FloatArrayEncodeAll(append([]float64(nil), vs...), nil)
		if err != nil || err2 != nil {
			// the scalar encoder refuses NaN; both must then agree to refuse or the batch must still round-trip
			r.Event("float_encode_refused", 1)
		}
		for _, src := range []struct {
			name string
			b    []byte
			err  error
		}{{"scalarenc", sb, err}, {"batchenc", bb, err2}} {
			if src.err != nil {
				continue
			}
			var d tsm1.FloatDecoder
			if e := d.SetBytes(src.b); e != nil {
				fail("float."+src.name+".scalardec", w(0, "ok", "SetBytes error", e))
				continue
			}
			k := 0
			for d.Next() {
				got := d.Values()
				if k >= n || math.Float64bits(got) != math.Float64bits(vs[k]) {
					fail("float."+src.name+".scalardec", w(k, fmt.Sprintf("%x", math.Float64bits(at(vs, k).(float64))), fmt.Sprintf("%x", math.Float64bits(got)), nil))
					break
				}
				k++
			}
			if k != n && d.Error() == nil {
				fail("float."+src.name+".scalardec", w(k, fmt.Sprint(n, " values"), fmt.Sprint(k, " values"), d.Error()))
			}
			out, e := tsm1.FloatArrayDecodeAll(src.b, nil)
			if e != nil || len(out) != n {
				fail("float."+src.name+".batchdec", w(0, fmt.Sprint(n), fmt.Sprint(len(out)), e))
				continue
			}
			for k := range vs {
				if math.Float64bits(out[k]) != math.Float64bits(vs[k]) {
					fail("float."+src.name+".batchdec", w(k, fmt.Sprintf("%x", math.Float64bits(vs[k])), fmt.Sprintf("%x", math.Float64bits(out[k])), nil))
					break
				}
			}
		}
	}
	if n == 0 {
		return
	}
	// whole blocks
	vals := make(tsm1.Values, n)
	for i := range ts {
		vals[i] = tsm1.NewFloatValue(ts[i], vs[i])
	}
	sblk, serr := vals.Encode(nil)
	arr := &tsdb.FloatArray{Timestamps: append([]int64(nil), ts...), Values: append([]float64(nil), vs...)}
	bblk, berr := tsm1.EncodeFloatArrayBlock(arr, nil)
	for _, src := range []struct {
		name string
		b    []byte
		err  error
	}{{"scalarblk", sblk, serr}, {"batchblk", bblk, berr}} {
		if src.err != nil {
			r.Event("float_block_encode_error", 1)
			continue
		}
		if c, e := tsm1.BlockCount(src.b); e != nil || c != n {
			fail("float."+src.name+".BlockCount", w(0, fmt.Sprint(n), fmt.Sprint(c), e))
		}
		dec, e := tsm1.DecodeBlock(src.b, nil)
		if e != nil || len(dec) != n {
			fail("float."+src.name+".DecodeBlock", w(0, fmt.Sprint(n), fmt.Sprint(len(dec)), e))
		} else {
			for k := range dec {
				fv := dec[k].(tsm1.FloatValue)
				if fv.UnixNano() != ts[k] || math.Float64bits(fv.RawValue()) != math.Float64bits(vs[k]) {
					fail("float."+src.name+".DecodeBlock", w(k, fmt.Sprintf("%d/%x", ts[k], math.Float64bits(vs[k])), fmt.Sprintf("%d/%x", fv.UnixNano(), math.Float64bits(fv.RawValue())), nil))
					break
				}
			}
		}
		var out tsdb.FloatArray
		if e := tsm1.DecodeFloatArrayBlock(src.b, &out); e != nil || out.Len() != n {
			fail("float."+src.name+".DecodeArrayBlock", w(0, fmt.Sprint(n), fmt.Sprint(out.Len()), e))
		} else {
			for k := range ts {
				if out.Timestamps[k] != ts[k] || math.Float64bits(out.Values[k]) != math.Float64bits(vs[k]) {
					fail("float."+src.name+".DecodeArrayBlock", w(k, fmt.Sprintf("%d/%x", ts[k], math.Float64bits(vs[k])), fmt.Sprintf("%d/%x", out.Timestamps[k], math.Float64bits(out.Values[k])), nil))
					break
				}
			}
		}
	}
}

func c07Int(r *vkit.Run, ts []int64, vs []int64, tshape, vshape string, fail failFn) {
	n := len(ts)
	w := func(idx int, want, got string, err error) c07Wit {
		e := ""
		if err != nil {
			e = err.Error()
		}
		return c07Wit{Type: "integer", TShape: tshape, VShape: vshape, N: n, Index: idx, Want: want, Got: got, Times: c07Trim(ts), Values: c07Trim(vs), Err: e}
	}
	if n > 0 {
		enc := tsm1.NewIntegerEncoder(n)
		for _, v := range vs {
			enc.Write(v)
		}
		sb, err := enc.Bytes()
		sb = append([]byte(nil), sb...)
		bb, err2 := tsm1.IntegerArrayEncodeAll(append([]int64(nil), vs...), nil)
		if err != nil || err2 != nil {
			fail("integer.encode", w(0, "ok", "error", fmt.Errorf("%v / %v", err, err2)))
			return
		}
		r.Event("int_encoding_"+fmt.Sprint(sb[0]>>4), 1)
		for _, src := range []struct {
			name string
			b    []byte
		}{{"scalarenc", sb}, {"batchenc", bb}} {
			var d tsm1.IntegerDecoder
			d.SetBytes(src.b)
			k := 0
			for d.Next() {
				got := d.Read()
				if k >= n || got != vs[k] {
					fail("integer."+src.name+".scalardec", w(k, fmt.Sprint(at(vs, k)), fmt.Sprint(got), nil))
					break
				}
				k++
			}
			if k != n || d.Error() != nil {
				fail("integer."+src.name+".scalardec", w(k, fmt.Sprint(n, " values"), fmt.Sprint(k), d.Error()))
			}
			out, e := tsm1.IntegerArrayDecodeAll(src.b, nil)
			if e != nil || len(out) != n {
				fail("integer."+src.name+".batchdec", w(0, fmt.Sprint(n), fmt.Sprint(len(out)), e))
				continue
			}
			for k := range vs {
				if out[k] != vs[k] {
					fail("integer."+src.name+".batchdec", w(k, fmt.Sprint(vs[k]), fmt.Sprint(out[k]), nil))
					break
				}
			}
		}
	}
	if n == 0 {
		return
	}
	vals := make(tsm1.Values, n)
	for i := range ts {
		vals[i] = tsm1.NewIntegerValue(ts[i], vs[i])
	}
	sblk, serr := vals.Encode(nil)
	arr := &tsdb.IntegerArray{Timestamps: append([]int64(nil), ts...), Values: append([]int64(nil), vs...)}
	bblk, berr := tsm1.EncodeIntegerArrayBlock(arr, nil)
	for _, src := range []struct {
		name string
		b    []byte
		err  error
	}{{"scalarblk", sblk, serr}, {"batchblk", bblk, berr}} {
		if src.err != nil {
			fail("integer."+src.name+".encode", w(0, "ok", "error", src.err))
			continue
		}
		dec, e := tsm1.DecodeBlock(src.b, nil)
		if e != nil || len(dec) != n {
			fail("integer."+src.name+".DecodeBlock", w(0, fmt.Sprint(n), fmt.Sprint(len(dec)), e))
		} else {
			for k := range dec {
				iv := dec[k].(tsm1.IntegerValue)
				if iv.UnixNano() != ts[k] || iv.RawValue() != vs[k] {
					fail("integer."+src.name+".DecodeBlock", w(k, fmt.Sprint(ts[k], "/", vs[k]), fmt.Sprint(iv.UnixNano(), "/", iv.RawValue()), nil))
					break
				}
			}
		}
		var out tsdb.IntegerArray
		if e := tsm1.DecodeIntegerArrayBlock(src.b, &out); e != nil || out.Len() != n {
			fail("integer."+src.name+".DecodeArrayBlock", w(0, fmt.Sprint(n), fmt.Sprint(out.Len()), e))
		} else {
			for k := range ts {
				if out.Timestamps[k] != ts[k] || out.Values[k] != vs[k] {
					fail("integer."+src.name+".DecodeArrayBlock", w(k, fmt.Sprint(ts[k], "/", vs[k]), fmt.Sprint(out.Timestamps[k], "/", out.Values[k]), nil))
					break
				}
			}
		}
	}
}

func c07Uint(r *vkit.Run, ts []int64, vs []uint64, tshape, vshape string, fail failFn) {
	n := len(ts)
	if n == 0 {
		return
	}
	w := func(idx int, want, got string, err error) c07Wit {
		e := ""
		if err != nil {
			e = err.Error()
		}
		return c07Wit{Type: "unsigned", TShape: tshape, VShape: vshape, N: n, Index: idx, Want: want, Got: got, Times: c07Trim(ts), Values: c07Trim(vs), Err: e}
	}
	bb, err := tsm1.UnsignedArrayEncodeAll(append([]uint64(nil), vs...), nil)
	if err != nil {
		fail("unsigned.batch.encode", w(0, "ok", "error", err))
	} else {
		out, e := tsm1.UnsignedArrayDecodeAll(bb, nil)
		if e != nil || len(out) != n {
			fail("unsigned.batchenc.batchdec", w(0, fmt.Sprint(n), fmt.Sprint(len(out)), e))
		} else {
			for k := range vs {
				if out[k] != vs[k] {
					fail("unsigned.batchenc.batchdec", w(k, fmt.Sprint(vs[k]), fmt.Sprint(out[k]), nil))
					break
				}
			}
		}
	}
	vals := make(tsm1.Values, n)
	for i := range ts {
		vals[i] = tsm1.NewUnsignedValue(ts[i], vs[i])
	}
	sblk, serr := vals.Encode(nil)
	arr := &tsdb.UnsignedArray{Timestamps: append([]int64(nil), ts...), Values: append([]uint64(nil), vs...)}
	bblk, berr := tsm1.EncodeUnsignedArrayBlock(arr, nil)
	for _, src := range []struct {
		name string
		b    []byte
		err  error
	}{{"scalarblk", sblk, serr}, {"batchblk", bblk, berr}} {
		if src.err != nil {
			fail("unsigned."+src.name+".encode", w(0, "ok", "error", src.err))
			continue
		}
		dec, e := tsm1.DecodeBlock(src.b, nil)
		if e != nil || len(dec) != n {
			fail("unsigned."+src.name+".DecodeBlock", w(0, fmt.Sprint(n), fmt.Sprint(len(dec)), e))
		} else {
			for k := range dec {
				iv := dec[k].(tsm1.UnsignedValue)
				if iv.UnixNano() != ts[k] || iv.RawValue() != vs[k] {
					fail("unsigned."+src.name+".DecodeBlock", w(k, fmt.Sprint(ts[k], "/", vs[k]), fmt.Sprint(iv.UnixNano(), "/", iv.RawValue()), nil))
					break
				}
			}
		}
		var out tsdb.UnsignedArray
		if e := tsm1.DecodeUnsignedArrayBlock(src.b, &out); e != nil || out.Len() != n {
			fail("unsigned."+src.name+".DecodeArrayBlock", w(0, fmt.Sprint(n), fmt.Sprint(out.Len()), e))
		} else {
			for k := range ts {
				if out.Timestamps[k] != ts[k] || out.Values[k] != vs[k] {
					fail("unsigned."+src.name+".DecodeArrayBlock", w(k, fmt.Sprint(ts[k], "/", vs[k]), fmt.Sprint(out.Timestamps[k], "/", out.Values[k]), nil))
					break
				}
			}
		}
	}
}

func c07Bool(r *vkit.Run, ts []int64, vs []bool, tshape, vshape string, fail failFn) {
	n := len(ts)
	if n == 0 {
		return
	}
	w := func(idx int, want, got string, err error) c07Wit {
		e := ""
		if err != nil {
			e = err.Error()
		}
		return c07Wit{Type: "boolean", TShape: tshape, VShape: vshape, N: n, Index: idx, Want: want, Got: got, Times: c07Trim(ts), Values: c07Trim(vs), Err: e}
	}
	enc := tsm1.NewBooleanEncoder(n)
	for _, v := range vs {
		enc.Write(v)
	}
	enc.Flush()
	sb, err := enc.Bytes()
	sb = append([]byte(nil), sb...)
	bb, err2 := tsm1.BooleanArrayEncodeAll(append([]bool(nil), vs...), nil)
	if err != nil || err2 != nil {
		fail("boolean.encode", w(0, "ok", "error", fmt.Errorf("%v / %v", err, err2)))
		return
	}
	for _, src := range []struct {
		name string
		b    []byte
	}{{"scalarenc", sb}, {"batchenc", bb}} {
		var d tsm1.BooleanDecoder
		d.SetBytes(src.b)
		k := 0
		for d.Next() {
			got := d.Read()
			if k >= n || got != vs[k] {
				fail("boolean."+src.name+".scalardec", w(k, fmt.Sprint(at(vs, k)), fmt.Sprint(got), nil))
				break
			}
			k++
		}
		if k != n || d.Error() != nil {
			fail("boolean."+src.name+".scalardec", w(k, fmt.Sprint(n, " values"), fmt.Sprint(k), d.Error()))
		}
		out, e := tsm1.BooleanArrayDecodeAll(src.b, nil)
		if e != nil || len(out) != n {
			fail("boolean."+src.name+".batchdec", w(0, fmt.Sprint(n), fmt.Sprint(len(out)), e))
			continue
		}
		for k := range vs {
			if out[k] != vs[k] {
				fail("boolean."+src.name+".batchdec", w(k, fmt.Sprint(vs[k]), fmt.Sprint(out[k]), nil))
				break
			}
		}
	}
	vals := make(tsm1.Values, n)
	for i := range ts {
		vals[i] = tsm1.NewBooleanValue(ts[i], vs[i])
	}
	sblk, serr := vals.Encode(nil)
	arr := &tsdb.BooleanArray{Timestamps: append([]int64(nil), ts...), Values: append([]bool(nil), vs...)}
	bblk, berr := tsm1.EncodeBooleanArrayBlock(arr, nil)
	for _, src := range []struct {
		name string
		b    []byte
		err  error
	}{{"scalarblk", sblk, serr}, {"batchblk", bblk, berr}} {
		if src.err != nil {
			fail("boolean."+src.name+".encode", w(0, "ok", "error", src.err))
			continue
		}
		dec, e := tsm1.DecodeBlock(src.b, nil)
		if e != nil || len(dec) != n {
			fail("boolean."+src.name+".DecodeBlock", w(0, fmt.Sprint(n), fmt.Sprint(len(dec)), e))
		} else {
			for k := range dec {
				iv := dec[k].(tsm1.BooleanValue)
				if iv.UnixNano() != ts[k] || iv.RawValue() != vs[k] {
					fail("boolean."+src.name+".DecodeBlock", w(k, fmt.Sprint(ts[k], "/", vs[k]), fmt.Sprint(iv.UnixNano(), "/", iv.RawValue()), nil))
					break
				}
			}
		}
		var out tsdb.BooleanArray
		if e := tsm1.DecodeBooleanArrayBlock(src.b, &out); e != nil || out.Len() != n {
			fail("boolean."+src.name+".DecodeArrayBlock", w(0, fmt.Sprint(n), fmt.Sprint(out.Len()), e))
		} else {
			for k := range ts {
				if out.Timestamps[k] != ts[k] || out.Values[k] != vs[k] {
					fail("boolean."+src.name+".DecodeArrayBlock", w(k, fmt.Sprint(ts[k], "/", vs[k]), fmt.Sprint(out.Timestamps[k], "/", out.Values[k]), nil))
					break
				}
			}
		}
	}
}

func c07String(r *vkit.Run, ts []int64, vs []string, tshape, vshape string, fail failFn) {
	n := len(ts)
	if n == 0 {
		return
	}
	w := func(idx int, want, got string, err error) c07Wit {
		e := ""
		if err != nil {
			e = err.Error()
		}
		if len(want) > 80 {
			want = fmt.Sprintf("%q…(%d)", want[:80], len(want))
		}
		if len(got) > 80 {
			got = fmt.Sprintf("%q…(%d)", got[:80], len(got))
		}
		return c07Wit{Type: "string", TShape: tshape, VShape: vshape, N: n, Index: idx, Want: want, Got: got, Times: c07Trim(ts), Err: e}
	}
	enc := tsm1.NewStringEncoder(n)
	for _, v := range vs {
		enc.Write(v)
	}
	enc.Flush()
	sb, err := enc.Bytes()
	sb = append([]byte(nil), sb...)
	bb, err2 := tsm1.StringArrayEncodeAll(append([]string(nil), vs...), nil)
	if err != nil || err2 != nil {
		fail("string.encode", w(0, "ok", "error", fmt.Errorf("%v / %v", err, err2)))
		return
	}
	for _, src := range []struct {
		name string
		b    []byte
	}{{"scalarenc", sb}, {"batchenc", bb}} {
		var d tsm1.StringDecoder
		if e := d.SetBytes(src.b); e != nil {
			fail("string."+src.name+".scalardec", w(0, "ok", "SetBytes", e))
			continue
		}
		k := 0
		for d.Next() {
			got := d.Read()
			if k >= n || got != vs[k] {
				fail("string."+src.name+".scalardec", w(k, fmt.Sprint(at(vs, k)), got, nil))
				break
			}
			k++
		}
		if k != n || d.Error() != nil {
			fail("string."+src.name+".scalardec", w(k, fmt.Sprint(n, " values"), fmt.Sprint(k), d.Error()))
		}
		out, e := tsm1.StringArrayDecodeAll(src.b, nil)
		if e != nil || len(out) != n {
			fail("string."+src.name+".batchdec", w(0, fmt.Sprint(n), fmt.Sprint(len(out)), e))
			continue
		}
		for k := range vs {
			if out[k] != vs[k] {
				fail("string."+src.name+".batchdec", w(k, vs[k], out[k], nil))
				break
			}
		}
	}
	vals := make(tsm1.Values, n)
	for i := range ts {
		vals[i] = tsm1.NewStringValue(ts[i], vs[i])
	}
	sblk, serr := vals.Encode(nil)
	arr := &tsdb.StringArray{Timestamps: append([]int64(nil), ts...), Values: append([]string(nil), vs...)}
	bblk, berr := tsm1.EncodeStringArrayBlock(arr, nil)
	for _, src := range []struct {
		name string
		b    []byte
		err  error
	}{{"scalarblk", sblk, serr}, {"batchblk", bblk, berr}} {
		if src.err != nil {
			fail("string."+src.name+".encode", w(0, "ok", "error", src.err))
			continue
		}
		dec, e := tsm1.DecodeBlock(src.b, nil)
		if e != nil || len(dec) != n {
			fail("string."+src.name+".DecodeBlock", w(0, fmt.Sprint(n), fmt.Sprint(len(dec)), e))
		} else {
			for k := range dec {
				iv := dec[k].(tsm1.StringValue)
				if iv.UnixNano() != ts[k] || iv.RawValue() != vs[k] {
					fail("string."+src.name+".DecodeBlock", w(k, fmt.Sprint(ts[k], "/", vs[k]), fmt.Sprint(iv.UnixNano(), "/", iv.RawValue()), nil))
					break
				}
			}
		}
		var out tsdb.StringArray
		if e := tsm1.DecodeStringArrayBlock(src.b, &out); e != nil || out.Len() != n {
			fail("string."+src.name+".DecodeArrayBlock", w(0, fmt.Sprint(n), fmt.Sprint(out.Len()), e))
		} else {
			for k := range ts {
				if out.Timestamps[k] != ts[k] || out.Values[k] != vs[k] {
					fail("string."+src.name+".DecodeArrayBlock", w(k, fmt.Sprint(ts[k], "/", vs[k]), fmt.Sprint(out.Timestamps[k], "/", out.Values[k]), nil))
					break
				}
			}
		}
	}
}

// simple8b: EncodeAll/DecodeAll, Encoder/Decoder, Count*, and rejection of values ≥ 2^60.
func c07Simple8b(r *vkit.Run, rg *vkit.Rand, fail failFn) {
	n := c07Len(rg)
	src := make([]uint64, n)
	mode := rg.Intn(6)
	tooBig := false
	for i := range src {
		switch mode {
		case 0:
			src[i] = 1
		case 1:
			src[i] = uint64(rg.Intn(2))
		case 2:
			src[i] = rg.Uint64() >> uint(4+rg.Intn(60))
		case 3:
			src[i] = (uint64(1) << uint(rg.Intn(60))) - uint64(rg.Intn(2))
		case 4:
			src[i] = uint64(rg.Intn(1 << 12))
		default: // contains at least one unpackable value
			src[i] = rg.Uint64() >> uint(rg.Intn(8))
		}
		if src[i] >= 1<<60 {
			tooBig = true
		}
	}
	key := fmt.Sprint("s8b", mode, src)
	r.Case(key, n >= 2)
	w := func(idx int, want, got string, err error) c07Wit {
		e := ""
		if err != nil {
			e = err.Error()
		}
		return c07Wit{Type: "simple8b", VShape: fmt.Sprint("mode", mode), N: n, Index: idx, Want: want, Got: got, Values: c07Trim(src), Err: e}
	}
	enc, err := simple8b.EncodeAll(append([]uint64(nil), src...))
	if tooBig {
		r.Event("simple8b_toobig_inputs", 1)
		if err == nil {
			fail("simple8b.EncodeAll.accepts_unpackable", w(0, "error", "nil error", nil))
		}
		e2 := simple8b.NewEncoder()
		var werr error
		for _, v := range src {
			if werr = e2.Write(v); werr != nil {
				break
			}
		}
		if werr == nil {
			_, werr = e2.Bytes()
		}
		if werr == nil {
			fail("simple8b.Encoder.accepts_unpackable", w(0, "error", "nil error", nil))
		}
		return
	}
	if err != nil {
		fail("simple8b.EncodeAll", w(0, "ok", "error", err))
		return
	}
	dst := make([]uint64, n+240)
	cnt, err := simple8b.DecodeAll(dst, enc)
	if err != nil || cnt != n {
		fail("simple8b.DecodeAll", w(0, fmt.Sprint(n), fmt.Sprint(cnt), err))
		return
	}
	for k := range src {
		if dst[k] != src[k] {
			fail("simple8b.DecodeAll", w(k, fmt.Sprint(src[k]), fmt.Sprint(dst[k]), nil))
			return
		}
	}
	// streaming encoder / decoder
	e2 := simple8b.NewEncoder()
	for _, v := range src {
		if err := e2.Write(v); err != nil {
			fail("simple8b.Encoder.Write", w(0, "ok", "error", err))
			return
		}
	}
	b, err := e2.Bytes()
	if err != nil {
		fail("simple8b.Encoder.Bytes", w(0, "ok", "error", err))
		return
	}
	d := simple8b.NewDecoder(b)
	k := 0
	for d.Next() {
		got := d.Read()
		if k >= n || got != src[k] {
			fail("simple8b.Decoder", w(k, fmt.Sprint(at(src, k)), fmt.Sprint(got), nil))
			return
		}
		k++
	}
	if k != n {
		fail("simple8b.Decoder", w(k, fmt.Sprint(n), fmt.Sprint(k), nil))
	}
	if c, err := simple8b.CountBytes(b); err != nil || c != n {
		fail("simple8b.CountBytes", w(0, fmt.Sprint(n), fmt.Sprint(c), err))
	}
	// CountBytesBetween against a direct count
	if n > 0 {
		lo, hi := src[rg.Intn(n)], src[rg.Intn(n)]
		if lo > hi {
			lo, hi = hi, lo
		}
		want := 0
		for _, v := range src {
			if v > lo && v < hi {
				want++
			}
		}
		_ = want // CountBytesBetween works on delta-encoded running sums; not a plain filter — not asserted
	}
}
