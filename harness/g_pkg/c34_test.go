package g_pkg

import (
	"bytes"
	"fmt"
	"math"
	"math/big"
	"strconv"
	"strings"
	"testing"
	"time"

	btoml "github.com/BurntSushi/toml"
	itoml "github.com/influxdata/influxdb/v2/toml"

	"verifharness/vkit"
)

// C34 — configuration sizes and durations round-trip exactly; suffixes mean what the docs say;
// overflowing inputs are rejected (DESIGN §5 C34). Reference arithmetic is math/big.

var (
	c34MaxU64 = new(big.Int).SetUint64(math.MaxUint64)
	c34MaxI64 = big.NewInt(math.MaxInt64)
	c34MinI64 = big.NewInt(math.MinInt64)
	c34Two53  = new(big.Int).Lsh(big.NewInt(1), 53)
)

// the four size types behind one interface
type c34SizeType struct {
	name     string
	signed   bool
	v1       bool                                       // bare k/m/g are binary (1.x), has MarshalText
	parse    func(text string) (*big.Int, error)        // UnmarshalText
	written  func(v *big.Int) string                    // what the configuration layer writes for the value
	viaTOML  func(v *big.Int) (*big.Int, error, string) // real BurntSushi encoder → decoder; returns the document too
	isActive bool
}

func c34U(v *big.Int) uint64 { return v.Uint64() }
func c34I(v *big.Int) int64  { return v.Int64() }

func c34Types() []c34SizeType {
	return []c34SizeType{
		{name: "SizeV1", v1: true,
			parse: func(s string) (*big.Int, error) {
				var x itoml.SizeV1
				if err := x.UnmarshalText([]byte(s)); err != nil {
					return nil, err
				}
				return new(big.Int).SetUint64(uint64(x)), nil
			},
			written: func(v *big.Int) string { b, _ := itoml.SizeV1(c34U(v)).MarshalText(); return string(b) },
			viaTOML: func(v *big.Int) (*big.Int, error, string) {
				type cfg struct {
					V itoml.SizeV1 `toml:"v"`
				}
				var buf bytes.Buffer
				if err := btoml.NewEncoder(&buf).Encode(cfg{V: itoml.SizeV1(c34U(v))}); err != nil {
					return nil, fmt.Errorf("encode: %w", err), ""
				}
				var got cfg
				if _, err := btoml.Decode(buf.String(), &got); err != nil {
					return nil, err, buf.String()
				}
				return new(big.Int).SetUint64(uint64(got.V)), nil, buf.String()
			}},
		{name: "SSizeV1", v1: true, signed: true,
			parse: func(s string) (*big.Int, error) {
				var x itoml.SSizeV1
				if err := x.UnmarshalText([]byte(s)); err != nil {
					return nil, err
				}
				return big.NewInt(int64(x)), nil
			},
			written: func(v *big.Int) string { b, _ := itoml.SSizeV1(c34I(v)).MarshalText(); return string(b) },
			viaTOML: func(v *big.Int) (*big.Int, error, string) {
				type cfg struct {
					V itoml.SSizeV1 `toml:"v"`
				}
				var buf bytes.Buffer
				if err := btoml.NewEncoder(&buf).Encode(cfg{V: itoml.SSizeV1(c34I(v))}); err != nil {
					return nil, fmt.Errorf("encode: %w", err), ""
				}
				var got cfg
				if _, err := btoml.Decode(buf.String(), &got); err != nil {
					return nil, err, buf.String()
				}
				return big.NewInt(int64(got.V)), nil, buf.String()
			}},
		// toml.Size / toml.SSize are aliases of these two on this branch (size_alias.go). They
		// have no MarshalText: the TOML encoder writes the raw integer.
		{name: "SizeV2", isActive: true,
			parse: func(s string) (*big.Int, error) {
				var x itoml.Size
				if err := x.UnmarshalText([]byte(s)); err != nil {
					return nil, err
				}
				return new(big.Int).SetUint64(uint64(x)), nil
			},
			written: func(v *big.Int) string { return strconv.FormatUint(c34U(v), 10) },
			viaTOML: func(v *big.Int) (*big.Int, error, string) {
				type cfg struct {
					V itoml.Size `toml:"v"`
				}
				var buf bytes.Buffer
				if err := btoml.NewEncoder(&buf).Encode(cfg{V: itoml.Size(c34U(v))}); err != nil {
					return nil, fmt.Errorf("encode: %w", err), ""
				}
				var got cfg
				if _, err := btoml.Decode(buf.String(), &got); err != nil {
					return nil, err, buf.String()
				}
				return new(big.Int).SetUint64(uint64(got.V)), nil, buf.String()
			}},
		{name: "SSizeV2", signed: true, isActive: true,
			parse: func(s string) (*big.Int, error) {
				var x itoml.SSize
				if err := x.UnmarshalText([]byte(s)); err != nil {
					return nil, err
				}
				return big.NewInt(int64(x)), nil
			},
			written: func(v *big.Int) string { return strconv.FormatInt(c34I(v), 10) },
			viaTOML: func(v *big.Int) (*big.Int, error, string) {
				type cfg struct {
					V itoml.SSize `toml:"v"`
				}
				var buf bytes.Buffer
				if err := btoml.NewEncoder(&buf).Encode(cfg{V: itoml.SSize(c34I(v))}); err != nil {
					return nil, fmt.Errorf("encode: %w", err), ""
				}
				var got cfg
				if _, err := btoml.Decode(buf.String(), &got); err != nil {
					return nil, err, buf.String()
				}
				return big.NewInt(int64(got.V)), nil, buf.String()
			}},
	}
}

func (t c34SizeType) min() *big.Int {
	if t.signed {
		return c34MinI64
	}
	return big.NewInt(0)
}
func (t c34SizeType) max() *big.Int {
	if t.signed {
		return c34MaxI64
	}
	return c34MaxU64
}
func (t c34SizeType) inRange(v *big.Int) bool { return v.Cmp(t.min()) >= 0 && v.Cmp(t.max()) <= 0 }

// ---- value generators -------------------------------------------------------------------

// magnitude (non-negative) chosen for boundaries: powers of two ±1, decimal round numbers,
// whole multiples of the binary units near the top of the range, random widths.
func c34Magnitude(rg *vkit.Rand) *big.Int {
	switch rg.Intn(9) {
	case 0:
		ks := []uint{0, 1, 10, 20, 30, 31, 32, 33, 34, 40, 44, 50, 52, 53, 54, 55, 60, 62, 63, 64}
		v := new(big.Int).Lsh(big.NewInt(1), vkit.Pick(rg, ks))
		return v.Add(v, big.NewInt(int64(rg.Intn(5)-2)))
	case 1:
		v := new(big.Int).Exp(big.NewInt(10), big.NewInt(int64(rg.Intn(20))), nil)
		return v.Mul(v, big.NewInt(int64(1+rg.Intn(25))))
	case 2: // whole multiples of a binary unit (V1 writes these with a suffix)
		unit := []uint{10, 20, 30}[rg.Intn(3)]
		q := new(big.Int).SetUint64(rg.Uint64() >> uint(rg.Intn(64)))
		q.Rsh(q, unit)
		if rg.Chance(1, 3) { // the largest multiples
			q = new(big.Int).Rsh(c34MaxU64, unit+uint(rg.Intn(2)))
			q.Sub(q, big.NewInt(int64(rg.Intn(3))))
		}
		return q.Lsh(q, unit)
	case 3:
		pool := []uint64{0, 1, 2, 9, 10, 999, 1000, 1023, 1024, 1025, 25_000_000, 26_214_400, 50_331_648, 1_073_741_825, math.MaxInt64, math.MaxInt64 - 1, math.MaxUint64, math.MaxUint64 - 1, 1<<53 + 1, 1<<53 - 1, 1 << 53, 1<<63 + 1}
		return new(big.Int).SetUint64(vkit.Pick(rg, pool))
	case 4: // just above 2^53: not representable in float64 when odd
		v := new(big.Int).Lsh(big.NewInt(1), uint(53+rg.Intn(10)))
		return v.Add(v, big.NewInt(int64(1+2*rg.Intn(500))))
	case 5: // close to the top of int64 / uint64
		top := []*big.Int{c34MaxI64, c34MaxU64}[rg.Intn(2)]
		return new(big.Int).Sub(top, big.NewInt(int64(rg.Intn(3000))))
	default:
		return new(big.Int).SetUint64(rg.Uint64() >> uint(rg.Intn(64)))
	}
}

// a value of the type's range
func c34Value(rg *vkit.Rand, t c34SizeType) *big.Int {
	for {
		v := c34Magnitude(rg)
		if t.signed && rg.Bool() {
			v.Neg(v)
		}
		if t.inRange(v) {
			return v
		}
		if t.signed && rg.Chance(1, 2) {
			return new(big.Int).Set([]*big.Int{c34MinI64, c34MaxI64, new(big.Int).Add(c34MinI64, big.NewInt(1))}[rg.Intn(3)])
		}
	}
}

func c34MagClass(v *big.Int) string {
	a := new(big.Int).Abs(v)
	switch {
	case a.Cmp(c34Two53) <= 0:
		return "le_2p53"
	case a.Cmp(c34MaxI64) <= 0 || (v.Sign() < 0):
		return "gt_2p53"
	default:
		return "gt_maxint64"
	}
}

// ---- documented suffix table ------------------------------------------------------------

type c34Suffix struct {
	s    string
	mult *big.Int
}

func c34Pow(b int64, e int64) *big.Int { return new(big.Int).Exp(big.NewInt(b), big.NewInt(e), nil) }

// explicit suffixes: kb = 1000, kib = 1024, … (humanize vocabulary, case-insensitive)
var c34Explicit = []c34Suffix{
	{"b", big.NewInt(1)},
	{"kb", c34Pow(1000, 1)}, {"mb", c34Pow(1000, 2)}, {"gb", c34Pow(1000, 3)}, {"tb", c34Pow(1000, 4)}, {"pb", c34Pow(1000, 5)}, {"eb", c34Pow(1000, 6)},
	{"kib", c34Pow(1024, 1)}, {"mib", c34Pow(1024, 2)}, {"gib", c34Pow(1024, 3)}, {"tib", c34Pow(1024, 4)}, {"pib", c34Pow(1024, 5)}, {"eib", c34Pow(1024, 6)},
	{"ki", c34Pow(1024, 1)}, {"mi", c34Pow(1024, 2)}, {"gi", c34Pow(1024, 3)},
}

// bare k/m/g: binary for the 1.x types, SI decimal for the 2.x types (type doc comments)
func c34Bare(t c34SizeType) []c34Suffix {
	base := int64(1000)
	if t.v1 {
		base = 1024
	}
	return []c34Suffix{{"k", c34Pow(base, 1)}, {"m", c34Pow(base, 2)}, {"g", c34Pow(base, 3)}}
}

func c34RandCase(rg *vkit.Rand, s string) string {
	b := []byte(s)
	for i := range b {
		if rg.Bool() {
			b[i] = byte(strings.ToUpper(string(b[i]))[0])
		}
	}
	return string(b)
}

type c34Wit struct {
	Type    string `json:"type"`
	Input   string `json:"input,omitempty"`
	Value   string `json:"value,omitempty"`
	Written string `json:"written,omitempty"`
	Want    string `json:"want"`
	Got     string `json:"got"`
	Path    string `json:"path,omitempty"`
}

func TestC34(t *testing.T) {
	r := vkit.Start(t, "C34", "exploration")
	defer r.Finish()
	c34T = gpNewTally(r)
	defer c34T.Flush()
	r.Rule("cases cycle through: duration round-trip, duration strings with a big-rational reference (in range → exact value, out of range → error), size round-trip for SizeV1/SSizeV1 (MarshalText) and SizeV2/SSizeV2 = active toml.Size/toml.SSize (raw integer as written by the TOML encoder; every 8th case through the real BurntSushi encoder+decoder), suffix strings 'mantissa[ ]suffix' against the documented multiplier table with math/big, and strings whose exact value exceeds the target type; values are powers of two ±2, decimal round numbers, unit multiples near the top of the range, 2^53+odd, random widths; non-trivial = value ∉ {0,1} / string has a suffix or ≥ 10 digits; distinct = hash of (kind, type, value or string)")
	n := r.N(400000, 10000000)
	types := c34Types()
	r.Extra("active_alias", "toml.Size = SizeV2, toml.SSize = SSizeV2 (toml/size_alias.go)")
	for i := 0; i < n; i++ {
		rg := r.Rand(i)
		switch i % 8 {
		case 0:
			c34DurationRoundTrip(r, rg, i)
		case 1:
			c34DurationString(r, rg, i)
		case 2, 3, 4:
			c34SizeRoundTrip(r, rg, i, types[rg.Intn(len(types))])
		case 5, 6:
			c34SuffixString(r, rg, i, types[rg.Intn(len(types))])
		case 7:
			c34OverflowString(r, rg, i, types[rg.Intn(len(types))])
		}
	}
	r.Assume("fractional mantissas and products above 2^53 on the humanize (float64) path are compared with a relative tolerance of 2^-50 (+1): the docs promise bit-exactness only for the 1.x digit[+k/m/g] forms", "leading whitespace, thousands separators and non-ASCII digits are not generated (undocumented)")
}

var c34T *gpTally

// ---- durations --------------------------------------------------------------------------

func c34DurValue(rg *vkit.Rand) int64 {
	switch rg.Intn(6) {
	case 0:
		pool := []int64{0, 1, -1, 60, 999, 1000, 1001, int64(time.Millisecond), int64(time.Second), int64(time.Minute), int64(time.Hour), math.MaxInt64, math.MinInt64, math.MaxInt64 - 1, math.MinInt64 + 1,
			int64(16*24*time.Hour + 4*time.Minute + 2*time.Second + 150*time.Millisecond)}
		return vkit.Pick(rg, pool)
	case 1:
		units := []int64{1, 1000, 1e6, 1e9, 60e9, 3600e9}
		return vkit.Pick(rg, units) * int64(rg.Intn(3000)-1500)
	case 2:
		return int64(rg.Uint64()>>uint(rg.Intn(64))) * []int64{1, -1}[rg.Intn(2)]
	case 3:
		return math.MaxInt64 - int64(rg.Intn(1<<20))
	case 4:
		return math.MinInt64 + int64(rg.Intn(1<<20))
	default:
		return rg.Int64()
	}
}

func c34DurationRoundTrip(r *vkit.Run, rg *vkit.Rand, i int) {
	v := c34DurValue(rg)
	r.Case(fmt.Sprint("dur-rt/", v), v != 0 && v != 1)
	d := itoml.Duration(v)
	txt, err := d.MarshalText()
	if err != nil {
		c34T.V("duration_marshal_error", map[string]string{"type": "Duration"}, c34Wit{Type: "Duration", Value: fmt.Sprint(v), Want: "no error", Got: err.Error()})
		return
	}
	if i%4001 == 0 && r.WantSample() {
		r.Sample(map[string]any{"kind": "duration_roundtrip", "value_ns": v, "written": string(txt)})
	}
	var back itoml.Duration
	if err := back.UnmarshalText(txt); err != nil {
		c34T.V("duration_roundtrip_rejected", map[string]string{"type": "Duration", "path": "text"}, c34Wit{Type: "Duration", Value: fmt.Sprint(v), Written: string(txt), Want: fmt.Sprint(v), Got: "error: " + err.Error()})
	} else if int64(back) != v {
		c34T.V("duration_roundtrip_changed", map[string]string{"type": "Duration", "path": "text"}, c34Wit{Type: "Duration", Value: fmt.Sprint(v), Written: string(txt), Want: fmt.Sprint(v), Got: fmt.Sprint(int64(back))})
	}
	r.Event("duration_text_roundtrips", 1)
	// pflag path: String() → Set()
	var viaSet itoml.Duration
	if err := viaSet.Set(d.String()); err != nil || int64(viaSet) != v {
		c34T.V("duration_roundtrip_changed", map[string]string{"type": "Duration", "path": "flag"}, c34Wit{Type: "Duration", Value: fmt.Sprint(v), Written: d.String(), Want: fmt.Sprint(v), Got: fmt.Sprint(int64(viaSet), " err=", err)})
	}
	if i%64 == 0 {
		type cfg struct {
			D itoml.Duration `toml:"d"`
		}
		var buf bytes.Buffer
		if err := btoml.NewEncoder(&buf).Encode(cfg{D: d}); err != nil {
			c34T.V("duration_marshal_error", map[string]string{"type": "Duration", "path": "toml"}, c34Wit{Type: "Duration", Value: fmt.Sprint(v), Want: "no error", Got: err.Error()})
			return
		}
		var got cfg
		if _, err := btoml.Decode(buf.String(), &got); err != nil {
			c34T.V("duration_roundtrip_rejected", map[string]string{"type": "Duration", "path": "toml"}, c34Wit{Type: "Duration", Value: fmt.Sprint(v), Written: buf.String(), Want: fmt.Sprint(v), Got: "error: " + err.Error()})
		} else if int64(got.D) != v {
			c34T.V("duration_roundtrip_changed", map[string]string{"type": "Duration", "path": "toml"}, c34Wit{Type: "Duration", Value: fmt.Sprint(v), Written: buf.String(), Want: fmt.Sprint(v), Got: fmt.Sprint(int64(got.D))})
		}
		r.Event("duration_toml_roundtrips", 1)
	}
}

var c34DurUnits = []struct {
	s  string
	ns int64
}{{"ns", 1}, {"us", 1e3}, {"µs", 1e3}, {"ms", 1e6}, {"s", 1e9}, {"m", 60e9}, {"h", 3600e9}}

// duration strings: sign? (digits[.digits]unit)+ with an exact big-rational reference value.
// Only fractions that are whole nanoseconds are generated, so the expected value is exact.
func c34DurationString(r *vkit.Run, rg *vkit.Rand, i int) {
	var sb strings.Builder
	total := new(big.Int)
	neg := rg.Chance(1, 3)
	if neg {
		sb.WriteByte('-')
	}
	parts := rg.Range(1, 3)
	nearTop := rg.Chance(1, 2) // aim at the int64 boundary
	for p := 0; p < parts; p++ {
		u := c34DurUnits[rg.Intn(len(c34DurUnits))]
		var whole *big.Int
		if nearTop && p == 0 {
			// MaxInt64/unit + {-2..+2}, or far beyond
			whole = new(big.Int).Div(c34MaxI64, big.NewInt(u.ns))
			whole.Add(whole, big.NewInt(int64(rg.Intn(5)-2)))
			if rg.Chance(1, 6) {
				whole.Mul(whole, big.NewInt(int64(2+rg.Intn(1000))))
			}
		} else {
			whole = new(big.Int).SetUint64(rg.Uint64() >> uint(30+rg.Intn(34)))
		}
		sb.WriteString(whole.String())
		part := new(big.Int).Mul(whole, big.NewInt(u.ns))
		if u.ns > 1 && rg.Chance(1, 3) {
			// fraction with at most log10(unit) digits for ns..s; for m/h use .5 / .25 (exact)
			var fracDigits string
			var fracNS int64
			switch {
			case u.ns <= 1e9:
				nd := len(strconv.FormatInt(u.ns, 10)) - 1
				k := rg.Range(1, nd)
				num := int64(rg.Intn(int(math.Pow10(k))))
				fracDigits = fmt.Sprintf("%0*d", k, num)
				fracNS = num * (u.ns / int64(math.Pow10(k)))
			default:
				if rg.Bool() {
					fracDigits, fracNS = "5", u.ns/2
				} else {
					fracDigits, fracNS = "25", u.ns/4
				}
			}
			sb.WriteString("." + fracDigits)
			part.Add(part, big.NewInt(fracNS))
		}
		sb.WriteString(u.s)
		total.Add(total, part)
	}
	if neg {
		total.Neg(total)
	}
	in := sb.String()
	r.Case("dur-str/"+in, true)
	inRange := total.Cmp(c34MinI64) >= 0 && total.Cmp(c34MaxI64) <= 0
	if i%4001 == 1 && r.WantSample() {
		r.Sample(map[string]any{"kind": "duration_string", "input": in, "exact_ns": total.String(), "in_range": inRange})
	}
	var d itoml.Duration
	err := d.UnmarshalText([]byte(in))
	switch {
	case !inRange && err == nil:
		c34T.V("duration_overflow_accepted", map[string]string{"type": "Duration"}, c34Wit{Type: "Duration", Input: in, Want: "error (exact value " + total.String() + " ns is outside int64)", Got: fmt.Sprint(int64(d))})
	case inRange && err != nil:
		// time.ParseDuration accumulates left to right and rejects when a partial sum leaves int64,
		// also for inputs whose final value fits only because… there is no subtraction, so a partial
		// sum of magnitudes never exceeds the total: a rejection of an in-range value is wrong.
		c34T.V("duration_valid_rejected", map[string]string{"type": "Duration"}, c34Wit{Type: "Duration", Input: in, Want: total.String(), Got: "error: " + err.Error()})
	case inRange && big.NewInt(int64(d)).Cmp(total) != 0:
		c34T.V("duration_value_wrong", map[string]string{"type": "Duration"}, c34Wit{Type: "Duration", Input: in, Want: total.String(), Got: fmt.Sprint(int64(d))})
	}
	if inRange {
		r.Event("duration_strings_in_range", 1)
	} else {
		r.Event("duration_strings_overflowing", 1)
	}
}

// ---- sizes ------------------------------------------------------------------------------

func c34SizeRoundTrip(r *vkit.Run, rg *vkit.Rand, i int, t c34SizeType) {
	v := c34Value(rg, t)
	r.Case(fmt.Sprint("size-rt/", t.name, "/", v), v.CmpAbs(big.NewInt(1)) > 0)
	written := t.written(v)
	if i%4001 == 2 && r.WantSample() {
		r.Sample(map[string]any{"kind": "size_roundtrip", "type": t.name, "value": v.String(), "written": written})
	}
	feats := func(path string) map[string]string {
		return map[string]string{"type": t.name, "path": path, "magnitude": c34MagClass(v)}
	}
	got, err := t.parse(written)
	r.Event("size_text_roundtrips_"+t.name, 1)
	if err != nil {
		c34T.V("size_roundtrip_rejected", feats("text"), c34Wit{Type: t.name, Value: v.String(), Written: written, Want: v.String(), Got: "error: " + err.Error(), Path: "text"})
	} else if got.Cmp(v) != 0 {
		c34T.V("size_roundtrip_changed", feats("text"), c34Wit{Type: t.name, Value: v.String(), Written: written, Want: v.String(), Got: got.String(), Path: "text"})
	}
	if i%8 == 2 {
		got, err, doc := t.viaTOML(v)
		r.Event("size_toml_roundtrips_"+t.name, 1)
		if err != nil {
			c34T.V("size_roundtrip_rejected", feats("toml"), c34Wit{Type: t.name, Value: v.String(), Written: doc, Want: v.String(), Got: "error: " + err.Error(), Path: "toml"})
		} else if got.Cmp(v) != 0 {
			c34T.V("size_roundtrip_changed", feats("toml"), c34Wit{Type: t.name, Value: v.String(), Written: doc, Want: v.String(), Got: got.String(), Path: "toml"})
		}
	}
}

// tolerance of the float64 path (humanize): relative 2^-50 plus one unit for truncation
func c34Close(got, want *big.Int) bool {
	diff := new(big.Int).Sub(got, want)
	diff.Abs(diff)
	tol := new(big.Int).Rsh(new(big.Int).Abs(want), 50)
	tol.Add(tol, big.NewInt(1))
	return diff.Cmp(tol) <= 0
}

// "mantissa[ ]suffix" with the documented multiplier table
func c34SuffixString(r *vkit.Run, rg *vkit.Rand, i int, t c34SizeType) {
	var suf c34Suffix
	bare := rg.Chance(2, 5)
	if bare {
		suf = vkit.Pick(rg, c34Bare(t))
	} else {
		suf = vkit.Pick(rg, c34Explicit)
	}
	// integer mantissa sized so that the product is usually in range, sometimes at the edge
	limit := new(big.Int).Div(t.max(), suf.mult)
	var mant *big.Int
	switch rg.Intn(5) {
	case 0:
		mant = new(big.Int).Sub(limit, big.NewInt(int64(rg.Intn(3))))
	case 1:
		mant = big.NewInt(int64(rg.Intn(2000)))
	default:
		mant = new(big.Int).SetUint64(rg.Uint64() >> uint(rg.Intn(64)))
		if mant.Cmp(limit) > 0 {
			mant.Mod(mant, new(big.Int).Add(limit, big.NewInt(1)))
		}
	}
	if mant.Sign() < 0 {
		mant.SetInt64(0)
	}
	frac := ""
	exact := new(big.Rat).SetInt(mant)
	if !bare && rg.Chance(1, 5) || (bare && rg.Chance(1, 10)) {
		// a fraction: .5 .25 .75 .125 are exact in binary; .1 .57 are not
		frac = vkit.Pick(rg, []string{"5", "25", "75", "125", "1", "57", "999"})
		f, _ := new(big.Rat).SetString("0." + frac)
		exact.Add(exact, f)
	}
	neg := t.signed && rg.Chance(1, 3)
	in := mant.String()
	if frac != "" {
		in += "." + frac
	}
	if rg.Chance(1, 3) {
		in += " "
	}
	in += c34RandCase(rg, suf.s)
	if neg {
		in = "-" + in
	}
	exact.Mul(exact, new(big.Rat).SetInt(suf.mult))
	want := new(big.Int).Quo(exact.Num(), exact.Denom()) // truncation toward zero
	if neg {
		want.Neg(want)
	}
	r.Case(fmt.Sprint("size-suffix/", t.name, "/", in), true)
	if i%4001 == 5 && r.WantSample() {
		r.Sample(map[string]any{"kind": "size_suffix", "type": t.name, "input": in, "documented_value": want.String()})
	}
	got, err := t.parse(in)
	r.Event("suffix_strings_"+t.name, 1)
	feat := map[string]string{"type": t.name, "suffix": suf.s, "bare": fmt.Sprint(bare), "fraction": fmt.Sprint(frac != "")}
	if !t.inRange(want) {
		if err == nil {
			c34T.V("size_overflow_accepted", map[string]string{"type": t.name, "form": "suffix", "sign": c34Sign(want), "distance": c34Distance(t, want)}, c34Wit{Type: t.name, Input: in, Want: "error (documented value " + want.String() + " does not fit)", Got: got.String()})
		}
		return
	}
	if err != nil {
		// rejections of in-range values are only judged well away from the float64 rounding
		// zone at the top of the range (round-trip cases cover the top separately)
		if new(big.Int).Abs(want).BitLen() <= 62 {
			c34T.V("size_valid_rejected", feat, c34Wit{Type: t.name, Input: in, Want: want.String(), Got: "error: " + err.Error()})
		}
		return
	}
	// exact when the 1.x strconv form applies (digits + optional bare k/m/g on a V1 type) or
	// when everything is exactly representable in float64
	exactRequired := frac == "" && ((t.v1 && bare) || new(big.Int).Abs(want).Cmp(c34Two53) <= 0)
	if frac != "" && exact.IsInt() && new(big.Int).Abs(want).Cmp(c34Two53) <= 0 && map[string]bool{"5": true, "25": true, "75": true, "125": true}[frac] {
		exactRequired = true
	}
	if exactRequired {
		if got.Cmp(want) != 0 {
			c34T.V("size_suffix_value_wrong", feat, c34Wit{Type: t.name, Input: in, Want: want.String(), Got: got.String()})
		}
		r.Event("suffix_exact_compared", 1)
	} else {
		if !c34Close(got, want) {
			c34T.V("size_suffix_value_wrong", feat, c34Wit{Type: t.name, Input: in, Want: "≈" + want.String(), Got: got.String()})
		}
		r.Event("suffix_tolerant_compared", 1)
	}
}

// how far outside the type's range an overflowing value lies
func c34Distance(t c34SizeType, v *big.Int) string {
	edge := t.max()
	if v.Sign() < 0 {
		edge = t.min()
	}
	dist := new(big.Int).Sub(v, edge)
	dist.Abs(dist)
	if dist.BitLen() <= 11 {
		return "within_1024_of_limit"
	}
	return "far"
}

func c34Sign(v *big.Int) string {
	if v.Sign() < 0 {
		return "neg"
	}
	return "pos"
}

// strings whose exact value lies outside the target type: must be rejected, never wrapped or clamped
func c34OverflowString(r *vkit.Run, rg *vkit.Rand, i int, t c34SizeType) {
	// choose the exact value
	var v *big.Int
	neg := t.signed && rg.Bool()
	edge := t.max()
	if neg {
		edge = t.min()
	}
	delta := new(big.Int)
	switch rg.Intn(6) {
	case 0:
		delta.SetInt64(1)
	case 1:
		delta.SetInt64(int64(1 + rg.Intn(3000)))
	case 2:
		delta.SetUint64(rg.Uint64() >> uint(rg.Intn(64)))
		delta.Add(delta, big.NewInt(1))
	case 3:
		delta.Abs(edge) // ≈ twice the range
		delta.Add(delta, big.NewInt(int64(1+rg.Intn(5))))
	case 4:
		delta.Lsh(big.NewInt(1), uint(64+rg.Intn(8)))
	default:
		delta.Exp(big.NewInt(10), big.NewInt(int64(19+rg.Intn(8))), nil)
	}
	if neg {
		v = new(big.Int).Sub(edge, delta)
	} else {
		v = new(big.Int).Add(edge, delta)
	}
	// spell it: plain digits, or mantissa×suffix with the mantissa rounded away from the range
	in := ""
	form := "plain"
	var sufs []c34Suffix
	sufs = append(sufs, c34Bare(t)...)
	sufs = append(sufs, c34Explicit...)
	if rg.Chance(1, 2) {
		suf := vkit.Pick(rg, sufs)
		abs := new(big.Int).Abs(v)
		q, m := new(big.Int).DivMod(abs, suf.mult, new(big.Int))
		if m.Sign() != 0 {
			q.Add(q, big.NewInt(1)) // round the magnitude up: still outside
		}
		in = q.String()
		if rg.Chance(1, 4) {
			in += " "
		}
		in += c34RandCase(rg, suf.s)
		if neg {
			in = "-" + in
		}
		form = "suffix"
		v = new(big.Int).Mul(q, suf.mult)
		if neg {
			v.Neg(v)
		}
	} else {
		in = v.String()
	}
	if t.inRange(v) {
		return // cannot happen; keep the oracle honest
	}
	r.Case(fmt.Sprint("size-overflow/", t.name, "/", in), true)
	if i%4001 == 7 && r.WantSample() {
		r.Sample(map[string]any{"kind": "size_overflow", "type": t.name, "input": in, "exact_value": v.String()})
	}
	got, err := t.parse(in)
	r.Event("overflow_strings_"+t.name, 1)
	if err == nil {
		c34T.V("size_overflow_accepted", map[string]string{"type": t.name, "form": form, "sign": c34Sign(v), "distance": c34Distance(t, v)},
			c34Wit{Type: t.name, Input: in, Want: "error (exact value " + v.String() + " is outside the type)", Got: got.String()})
	}
}
