package g_pkg

import (
	"fmt"
	"math"
	"sort"
	"testing"

	"github.com/influxdata/influxdb/v2/tsdb/cursors"
	"github.com/influxdata/influxdb/v2/tsdb/engine/tsm1"

	"verifharness/vkit"
)

// C37 — sorted timestamp array algebra is set algebra (DESIGN §5 C37).
//
// Domain: 8 timestamp slots (including MinInt64/MaxInt64); an array is a subset of the slots
// (256 arrays), every element carries an id naming (operand, slot). Range bounds are the 8
// slot values plus 7 in-between values (15 bounds, 225 (min,max) pairs incl. min > max).
// The oracle is a map/set model written from the property text; the subject is every
// cursors.*Array type and every tsm1 *Values type.

var c37Slots = [8]int64{math.MinInt64, -10, -3, 0, 4, 9, 1 << 40, math.MaxInt64}

var c37Bounds = [15]int64{math.MinInt64, math.MinInt64 + 1, -10, -5, -3, -1, 0, 2, 4, 6, 9, 100, 1 << 40, math.MaxInt64 - 1, math.MaxInt64}

// an element of an array under test: timestamp + id (id = operand*100 + slot; operand 1 = a, 2 = b)
type c37El struct {
	T  int64
	ID int
}

// c37Impl drives one concrete array type through closures over (timestamps, ids).
type c37Impl struct {
	name      string
	boolVals  bool // values only distinguish the operand, not the slot
	findRange func(a []c37El, min, max int64) (int, int)
	exclude   func(a []c37El, min, max int64) []c37El
	include   func(a []c37El, min, max int64) []c37El
	merge     func(a, b []c37El) []c37El
	dedup     func(a []c37El) []c37El              // tsm1 only
	contains  func(a []c37El, min, max int64) bool // TimestampArray only
}

// ---- cursors.*Array adapters -----------------------------------------------------------

type c37CurP[P any] interface {
	FindRange(min, max int64) (int, int)
	Exclude(min, max int64)
	Include(min, max int64)
	Merge(b P)
}

func c37Cursor[V comparable, P c37CurP[P]](name string, boolVals bool, enc func(id int) V, dec func(v V) int,
	mk func(ts []int64, vs []V) P, get func(p P) ([]int64, []V)) c37Impl {
	build := func(a []c37El) P {
		// spare capacity filled with poison so that a stale tail would be visible
		ts := make([]int64, len(a), len(a)+3)
		vs := make([]V, len(a), len(a)+3)
		for i, e := range a {
			ts[i], vs[i] = e.T, enc(e.ID)
		}
		return mk(ts, vs)
	}
	read := func(p P) []c37El {
		ts, vs := get(p)
		if len(ts) != len(vs) {
			return []c37El{{T: -999, ID: -len(ts)*1000 - len(vs)}} // length skew is itself a mismatch
		}
		out := make([]c37El, len(ts))
		for i := range ts {
			out[i] = c37El{ts[i], dec(vs[i])}
		}
		return out
	}
	return c37Impl{
		name: name, boolVals: boolVals,
		findRange: func(a []c37El, min, max int64) (int, int) { return build(a).FindRange(min, max) },
		exclude:   func(a []c37El, min, max int64) []c37El { p := build(a); p.Exclude(min, max); return read(p) },
		include:   func(a []c37El, min, max int64) []c37El { p := build(a); p.Include(min, max); return read(p) },
		merge:     func(a, b []c37El) []c37El { p, q := build(a), build(b); p.Merge(q); return read(p) },
	}
}

// ---- tsm1 typed Values adapters ----------------------------------------------------------

type c37ValS[S any] interface {
	FindRange(min, max int64) (int, int)
	Exclude(min, max int64) S
	Include(min, max int64) S
	Merge(b S) S
	Deduplicate() S
}

func c37Values[S c37ValS[S]](name string, boolVals bool, mk func(a []c37El) S, get func(s S) []c37El) c37Impl {
	return c37Impl{
		name: name, boolVals: boolVals,
		findRange: func(a []c37El, min, max int64) (int, int) { return mk(a).FindRange(min, max) },
		exclude:   func(a []c37El, min, max int64) []c37El { return get(mk(a).Exclude(min, max)) },
		include:   func(a []c37El, min, max int64) []c37El { return get(mk(a).Include(min, max)) },
		merge:     func(a, b []c37El) []c37El { return get(mk(a).Merge(mk(b))) },
		dedup:     func(a []c37El) []c37El { return get(mk(a).Deduplicate()) },
	}
}

func c37BoolOf(id int) bool { return id >= 200 }
func c37BoolID(v bool) int {
	if v {
		return 200
	}
	return 100
}

func c37Impls() []c37Impl {
	var out []c37Impl
	out = append(out,
		c37Cursor[float64, *cursors.FloatArray]("cursors.FloatArray", false,
			func(id int) float64 { return float64(id) + 0.5 }, func(v float64) int { return int(v - 0.5) },
			func(ts []int64, vs []float64) *cursors.FloatArray {
				return &cursors.FloatArray{Timestamps: ts, Values: vs}
			},
			func(p *cursors.FloatArray) ([]int64, []float64) { return p.Timestamps, p.Values }),
		c37Cursor[int64, *cursors.IntegerArray]("cursors.IntegerArray", false,
			func(id int) int64 { return -int64(id) }, func(v int64) int { return int(-v) },
			func(ts []int64, vs []int64) *cursors.IntegerArray {
				return &cursors.IntegerArray{Timestamps: ts, Values: vs}
			},
			func(p *cursors.IntegerArray) ([]int64, []int64) { return p.Timestamps, p.Values }),
		c37Cursor[uint64, *cursors.UnsignedArray]("cursors.UnsignedArray", false,
			func(id int) uint64 { return math.MaxUint64 - uint64(id) }, func(v uint64) int { return int(math.MaxUint64 - v) },
			func(ts []int64, vs []uint64) *cursors.UnsignedArray {
				return &cursors.UnsignedArray{Timestamps: ts, Values: vs}
			},
			func(p *cursors.UnsignedArray) ([]int64, []uint64) { return p.Timestamps, p.Values }),
		c37Cursor[string, *cursors.StringArray]("cursors.StringArray", false,
			func(id int) string { return fmt.Sprintf("v%d", id) }, func(v string) int { var n int; fmt.Sscanf(v, "v%d", &n); return n },
			func(ts []int64, vs []string) *cursors.StringArray {
				return &cursors.StringArray{Timestamps: ts, Values: vs}
			},
			func(p *cursors.StringArray) ([]int64, []string) { return p.Timestamps, p.Values }),
		c37Cursor[bool, *cursors.BooleanArray]("cursors.BooleanArray", true, c37BoolOf, c37BoolID,
			func(ts []int64, vs []bool) *cursors.BooleanArray {
				return &cursors.BooleanArray{Timestamps: ts, Values: vs}
			},
			func(p *cursors.BooleanArray) ([]int64, []bool) { return p.Timestamps, p.Values }),
	)
	// tsm1.Values (interface elements); element type chosen per position to mix concrete types
	out = append(out, c37Values[tsm1.Values]("tsm1.Values", false,
		func(a []c37El) tsm1.Values {
			v := make(tsm1.Values, len(a), len(a)+3)
			for i, e := range a {
				v[i] = tsm1.NewIntegerValue(e.T, int64(e.ID))
			}
			return v
		},
		func(s tsm1.Values) []c37El {
			o := make([]c37El, len(s))
			for i, v := range s {
				o[i] = c37El{v.UnixNano(), int(v.(tsm1.IntegerValue).RawValue())}
			}
			return o
		}))
	out = append(out, c37Values[tsm1.FloatValues]("tsm1.FloatValues", false,
		func(a []c37El) tsm1.FloatValues {
			v := make(tsm1.FloatValues, len(a), len(a)+3)
			for i, e := range a {
				v[i] = tsm1.NewFloatValue(e.T, float64(e.ID)+0.25).(tsm1.FloatValue)
			}
			return v
		},
		func(s tsm1.FloatValues) []c37El {
			o := make([]c37El, len(s))
			for i, v := range s {
				o[i] = c37El{v.UnixNano(), int(v.RawValue() - 0.25)}
			}
			return o
		}))
	out = append(out, c37Values[tsm1.IntegerValues]("tsm1.IntegerValues", false,
		func(a []c37El) tsm1.IntegerValues {
			v := make(tsm1.IntegerValues, len(a), len(a)+3)
			for i, e := range a {
				v[i] = tsm1.NewIntegerValue(e.T, int64(e.ID)).(tsm1.IntegerValue)
			}
			return v
		},
		func(s tsm1.IntegerValues) []c37El {
			o := make([]c37El, len(s))
			for i, v := range s {
				o[i] = c37El{v.UnixNano(), int(v.RawValue())}
			}
			return o
		}))
	out = append(out, c37Values[tsm1.UnsignedValues]("tsm1.UnsignedValues", false,
		func(a []c37El) tsm1.UnsignedValues {
			v := make(tsm1.UnsignedValues, len(a), len(a)+3)
			for i, e := range a {
				v[i] = tsm1.NewUnsignedValue(e.T, uint64(e.ID)).(tsm1.UnsignedValue)
			}
			return v
		},
		func(s tsm1.UnsignedValues) []c37El {
			o := make([]c37El, len(s))
			for i, v := range s {
				o[i] = c37El{v.UnixNano(), int(v.RawValue())}
			}
			return o
		}))
	out = append(out, c37Values[tsm1.StringValues]("tsm1.StringValues", false,
		func(a []c37El) tsm1.StringValues {
			v := make(tsm1.StringValues, len(a), len(a)+3)
			for i, e := range a {
				v[i] = tsm1.NewStringValue(e.T, fmt.Sprintf("s%d", e.ID)).(tsm1.StringValue)
			}
			return v
		},
		func(s tsm1.StringValues) []c37El {
			o := make([]c37El, len(s))
			for i, v := range s {
				var n int
				fmt.Sscanf(v.RawValue(), "s%d", &n)
				o[i] = c37El{v.UnixNano(), n}
			}
			return o
		}))
	out = append(out, c37Values[tsm1.BooleanValues]("tsm1.BooleanValues", true,
		func(a []c37El) tsm1.BooleanValues {
			v := make(tsm1.BooleanValues, len(a), len(a)+3)
			for i, e := range a {
				v[i] = tsm1.NewBooleanValue(e.T, c37BoolOf(e.ID)).(tsm1.BooleanValue)
			}
			return v
		},
		func(s tsm1.BooleanValues) []c37El {
			o := make([]c37El, len(s))
			for i, v := range s {
				o[i] = c37El{v.UnixNano(), c37BoolID(v.RawValue())}
			}
			return o
		}))
	// TimestampArray: FindRange / Exclude / Contains only
	mkTS := func(a []c37El) *cursors.TimestampArray {
		ts := make([]int64, len(a), len(a)+3)
		for i, e := range a {
			ts[i] = e.T
		}
		return &cursors.TimestampArray{Timestamps: ts}
	}
	out = append(out, c37Impl{
		name:      "cursors.TimestampArray",
		findRange: func(a []c37El, min, max int64) (int, int) { return mkTS(a).FindRange(min, max) },
		exclude: func(a []c37El, min, max int64) []c37El {
			p := mkTS(a)
			p.Exclude(min, max)
			o := make([]c37El, len(p.Timestamps))
			for i, t := range p.Timestamps {
				o[i] = c37El{T: t, ID: -1}
			}
			return o
		},
		contains: func(a []c37El, min, max int64) bool { return mkTS(a).Contains(min, max) },
	})
	return out
}

// ---- model (written from the property text) ---------------------------------------------

func c37Array(mask int, operand int) []c37El {
	var a []c37El
	for s := 0; s < 8; s++ {
		if mask&(1<<s) != 0 {
			a = append(a, c37El{c37Slots[s], operand*100 + s})
		}
	}
	return a
}

func c37ModelMerge(a, b []c37El) []c37El {
	m := map[int64]int{}
	for _, e := range a {
		m[e.T] = e.ID
	}
	for _, e := range b { // second array wins on equal timestamps
		m[e.T] = e.ID
	}
	return c37Sorted(m)
}

func c37Sorted(m map[int64]int) []c37El {
	out := make([]c37El, 0, len(m))
	for t, id := range m {
		out = append(out, c37El{t, id})
	}
	sort.Slice(out, func(i, j int) bool { return out[i].T < out[j].T })
	return out
}

func c37ModelFilter(a []c37El, min, max int64, keepInside bool) []c37El {
	out := []c37El{}
	for _, e := range a {
		inside := e.T >= min && e.T <= max // closed range; empty when min > max
		if inside == keepInside {
			out = append(out, e)
		}
	}
	return out
}

func c37LowerBound(a []c37El, v int64) int {
	n := 0
	for _, e := range a {
		if e.T < v {
			n++
		}
	}
	return n
}

// last-wins per timestamp, result sorted (doc comment of Deduplicate)
func c37ModelDedup(a []c37El) []c37El {
	m := map[int64]int{}
	for _, e := range a {
		m[e.T] = e.ID
	}
	return c37Sorted(m)
}

func c37Norm(im c37Impl, a []c37El) []c37El {
	out := make([]c37El, len(a))
	for i, e := range a {
		switch {
		case im.contains != nil: // TimestampArray: no values
			out[i] = c37El{e.T, -1}
		case im.boolVals:
			out[i] = c37El{e.T, c37BoolID(c37BoolOf(e.ID))}
		default:
			out[i] = e
		}
	}
	return out
}

func c37Eq(a, b []c37El) bool {
	if len(a) != len(b) {
		return false
	}
	for i := range a {
		if a[i] != b[i] {
			return false
		}
	}
	return true
}

type c37Wit struct {
	Type string  `json:"type"`
	Op   string  `json:"op"`
	A    []c37El `json:"a"`
	B    []c37El `json:"b,omitempty"`
	Min  *int64  `json:"min,omitempty"`
	Max  *int64  `json:"max,omitempty"`
	Want string  `json:"want"`
	Got  string  `json:"got"`
}

type c37Checker struct {
	r     *vkit.Run
	impls []c37Impl
}

func (c *c37Checker) fail(im c37Impl, op string, a, b []c37El, min, max *int64, want, got interface{}) {
	c.r.Violation("array_algebra_mismatch", map[string]string{"type": im.name, "op": op},
		c37Wit{Type: im.name, Op: op, A: a, B: b, Min: min, Max: max, Want: fmt.Sprint(want), Got: fmt.Sprint(got)})
}

// one range case: FindRange, Exclude, Include (Contains) on array a for [min,max], all types
func (c *c37Checker) rangeCase(maskA int, min, max int64) {
	a := c37Array(maskA, 1)
	for _, im := range c.impls {
		// FindRange
		lo, hi := im.findRange(a, min, max)
		disjoint := len(a) > 0 && min <= max && (a[len(a)-1].T < min || a[0].T > max)
		wantLo, wantHi := c37LowerBound(a, min), c37LowerBound(a, max)
		switch {
		case len(a) == 0 || min > max:
			// the doc comment leaves these open: (-1,-1) or the insertion positions are both fine
			if !(lo == -1 && hi == -1) && !(lo == wantLo && hi == wantHi) {
				c.fail(im, "FindRange", a, nil, &min, &max, fmt.Sprintf("(-1,-1) or (%d,%d)", wantLo, wantHi), fmt.Sprintf("(%d,%d)", lo, hi))
			}
		case disjoint:
			if lo != -1 || hi != -1 {
				c.fail(im, "FindRange", a, nil, &min, &max, "(-1,-1)", fmt.Sprintf("(%d,%d)", lo, hi))
			}
		default:
			if lo != wantLo || hi != wantHi {
				c.fail(im, "FindRange", a, nil, &min, &max, fmt.Sprintf("(%d,%d)", wantLo, wantHi), fmt.Sprintf("(%d,%d)", lo, hi))
			}
		}
		c.r.Event("findrange_compared", 1)
		// Exclude
		want := c37Norm(im, c37ModelFilter(a, min, max, false))
		if got := c37Norm(im, im.exclude(a, min, max)); !c37Eq(got, want) {
			c.fail(im, "Exclude", a, nil, &min, &max, want, got)
		}
		c.r.Event("exclude_compared", 1)
		if im.include != nil {
			want := c37Norm(im, c37ModelFilter(a, min, max, true))
			if got := c37Norm(im, im.include(a, min, max)); !c37Eq(got, want) {
				c.fail(im, "Include", a, nil, &min, &max, want, got)
			}
			c.r.Event("include_compared", 1)
		}
		if im.contains != nil {
			want := len(c37ModelFilter(a, min, max, true)) > 0
			if got := im.contains(a, min, max); got != want {
				c.fail(im, "Contains", a, nil, &min, &max, want, got)
			}
			c.r.Event("contains_compared", 1)
		}
	}
	c.r.Case(fmt.Sprintf("range/%d/%d/%d", maskA, min, max), maskA != 0)
}

func (c *c37Checker) mergeCase(maskA, maskB int) {
	a, b := c37Array(maskA, 1), c37Array(maskB, 2)
	model := c37ModelMerge(a, b)
	for _, im := range c.impls {
		if im.merge == nil {
			continue
		}
		want := c37Norm(im, model)
		if got := c37Norm(im, im.merge(a, b)); !c37Eq(got, want) {
			c.fail(im, "Merge", a, b, nil, nil, want, got)
		}
		c.r.Event("merge_compared", 1)
	}
	c.r.Case(fmt.Sprintf("merge/%d/%d", maskA, maskB), maskA != 0 && maskB != 0)
}

// seq: slot indexes in arrival order (unsorted, with duplicates)
func (c *c37Checker) dedupCase(seq []int) {
	a := make([]c37El, len(seq))
	for i, s := range seq {
		// id = position-dependent, so "last one wins" is observable; operand alternates for the
		// boolean type (which only sees the operand)
		a[i] = c37El{c37Slots[s], (1+i%2)*100 + i}
	}
	model := c37ModelDedup(a)
	for _, im := range c.impls {
		if im.dedup == nil {
			continue
		}
		want := c37Norm(im, model)
		if got := c37Norm(im, im.dedup(a)); !c37Eq(got, want) {
			c.fail(im, "Deduplicate", a, nil, nil, nil, want, got)
		}
		c.r.Event("deduplicate_compared", 1)
	}
	c.r.Case(fmt.Sprint("dedup/", seq), len(seq) >= 2)
}

func TestC37(t *testing.T) {
	r := vkit.Start(t, "C37", "exploration")
	defer r.Finish()
	r.Rule("a case = (operation, operand arrays as subsets of an 8-slot timestamp domain incl. MinInt64/MaxInt64, closed range from 15 bounds incl. min>max and values between slots); each case runs on all 5 cursors.*Array types, cursors.TimestampArray, tsm1.Values and the 5 typed tsm1 *Values and is compared with a map model; Deduplicate cases = arrival sequences of ≤5 elements over 5 slots (tsm1 only); non-trivial = operand arrays non-empty (dedup: ≥2 elements); distinct = hash of (op, masks, bounds)")
	c := &c37Checker{r: r, impls: c37Impls()}
	names := []string{}
	for _, im := range c.impls {
		names = append(names, im.name)
	}
	r.Extra("types", names)
	r.Assume("element values only name (operand, slot); boolean arrays can only distinguish the operand", "unsorted / duplicated inputs are out of scope for Merge/Exclude/Include/FindRange (documented precondition); Deduplicate is checked on unsorted input")

	sample := func(kind string, v any) {
		if r.WantSample() {
			r.Sample(map[string]any{"kind": kind, "case": v})
		}
	}
	if r.Quick() {
		r.Exhaustive(false)
		n := r.N(20000, 0)
		for i := 0; i < n; i++ {
			rg := r.Rand(i)
			switch rg.Intn(10) {
			case 0, 1, 2, 3: // merge
				ma, mb := rg.Intn(256), rg.Intn(256)
				if i%4001 == 0 {
					sample("merge", map[string]any{"a": c37Array(ma, 1), "b": c37Array(mb, 2)})
				}
				c.mergeCase(ma, mb)
			case 4:
				ln := rg.Intn(6)
				seq := make([]int, ln)
				for k := range seq {
					seq[k] = rg.Intn(5)
				}
				if i%4001 == 0 {
					sample("dedup", seq)
				}
				c.dedupCase(seq)
			default:
				ma := rg.Intn(256)
				min, max := c37Bounds[rg.Intn(15)], c37Bounds[rg.Intn(15)]
				if i%4001 == 0 {
					sample("range", map[string]any{"a": c37Array(ma, 1), "min": min, "max": max})
				}
				c.rangeCase(ma, min, max)
			}
		}
		return
	}
	// thorough: the whole domain
	r.Exhaustive(true)
	for ma := 0; ma < 256; ma++ {
		for _, min := range c37Bounds {
			for _, max := range c37Bounds {
				if ma == 0b10100101 && min == -5 && max == 6 {
					sample("range", map[string]any{"a": c37Array(ma, 1), "min": min, "max": max})
				}
				c.rangeCase(ma, min, max)
			}
		}
	}
	for ma := 0; ma < 256; ma++ {
		for mb := 0; mb < 256; mb++ {
			if (ma == 0b00110011 && mb == 0b01010110) || (ma == 1 && mb == 128) {
				sample("merge", map[string]any{"a": c37Array(ma, 1), "b": c37Array(mb, 2)})
			}
			c.mergeCase(ma, mb)
		}
	}
	var rec func(seq []int)
	rec = func(seq []int) {
		if len(seq) == 4 && seq[0] == 3 && seq[1] == 1 && seq[2] == 3 && seq[3] == 0 {
			sample("dedup", append([]int(nil), seq...))
		}
		c.dedupCase(seq)
		if len(seq) == 5 {
			return
		}
		for s := 0; s < 5; s++ {
			rec(append(seq, s))
		}
	}
	rec(nil)
	r.Extra("domain", map[string]any{"slots": c37Slots, "bounds": c37Bounds, "arrays": 256, "range_cases": 256 * 225, "merge_cases": 256 * 256, "dedup_sequences": 3906})
}
