//go:build !race

package g_pkg

const c36RaceEnabled = false
