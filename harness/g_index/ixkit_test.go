package g_index

import (
	"fmt"
	"os"
	"path/filepath"
	"sort"
	"strings"
	"time"

	"github.com/influxdata/influxdb/v2/models"
	"github.com/influxdata/influxdb/v2/tsdb"
	"github.com/influxdata/influxdb/v2/tsdb/index/tsi1"
)

// gixIndex opens a real series file and a real tsi1.Index the way tsdb.Shard does (same
// constructor options the registered index factory passes), without the tsm1 engine on top.
type gixIndex struct {
	Dir       string
	MaxLog    int64 // tsi1 MaxLogFileSize
	CacheSize int   // tag value series-id cache size (0 = off)
	PartN     int   // tsi1 partitions (0 = default 8); fixed for the life of the directory
	HoldLog   bool  // the caller manages the roll threshold itself (crash-image ops)
	SFile     *tsdb.SeriesFile
	Idx       *tsi1.Index
	FS        *tsdb.MeasurementFieldSet
}

type gixSeries struct {
	Name string
	Tags map[string]string
}

func (s gixSeries) Key() string {
	return string(models.MakeKey([]byte(s.Name), models.NewTags(s.Tags)))
}

func (s gixSeries) String() string {
	ks := make([]string, 0, len(s.Tags))
	for k := range s.Tags {
		ks = append(ks, k)
	}
	sort.Strings(ks)
	var b strings.Builder
	b.WriteString(s.Name)
	for _, k := range ks {
		fmt.Fprintf(&b, ",%s=%s", k, s.Tags[k])
	}
	return b.String()
}

func gixOpen(dir string, maxLog int64, cacheSize, partN int) (*gixIndex, error) {
	x := &gixIndex{Dir: dir, MaxLog: maxLog, CacheSize: cacheSize, PartN: partN}
	if err := x.open(); err != nil {
		return nil, err
	}
	return x, nil
}

func (x *gixIndex) SeriesPath() string { return filepath.Join(x.Dir, "_series") }
func (x *gixIndex) IndexPath() string  { return filepath.Join(x.Dir, "index") }

func (x *gixIndex) open() error {
	sf := tsdb.NewSeriesFile(x.SeriesPath())
	if err := sf.Open(); err != nil {
		return fmt.Errorf("series file: %w", err)
	}
	idx := tsi1.NewIndex(sf, "db0",
		tsi1.WithPath(x.IndexPath()),
		tsi1.WithMaximumLogFileSize(x.MaxLog),
		tsi1.WithSeriesIDCacheSize(x.CacheSize),
	)
	if x.PartN > 0 {
		idx.PartitionN = uint64(x.PartN)
	}
	if err := idx.Open(); err != nil {
		sf.Close()
		return fmt.Errorf("index: %w", err)
	}
	if x.FS == nil {
		fs, err := tsdb.NewMeasurementFieldSet(filepath.Join(x.Dir, "fields.idx"), nil)
		if err != nil {
			idx.Close()
			sf.Close()
			return err
		}
		x.FS = fs
	}
	idx.SetFieldSet(x.FS)
	x.SFile, x.Idx = sf, idx
	return nil
}

func (x *gixIndex) Close() error {
	var err error
	if x.Idx != nil {
		err = x.Idx.Close()
		x.Idx = nil
	}
	if x.SFile != nil {
		if e := x.SFile.Close(); err == nil {
			err = e
		}
		x.SFile = nil
	}
	return err
}

func (x *gixIndex) Reopen() error {
	if err := x.Close(); err != nil {
		return err
	}
	return x.open()
}

func (x *gixIndex) Set() tsdb.IndexSet {
	return tsdb.IndexSet{Indexes: []tsdb.Index{x.Idx}, SeriesFile: x.SFile}
}

// Create adds series the way Shard.validateSeriesAndFields does.
func (x *gixIndex) Create(ss []gixSeries) error {
	keys := make([][]byte, len(ss))
	names := make([][]byte, len(ss))
	tags := make([]models.Tags, len(ss))
	for i, s := range ss {
		keys[i] = []byte(s.Key())
		names[i] = []byte(s.Name)
		tags[i] = models.NewTags(s.Tags)
	}
	return x.Idx.CreateSeriesListIfNotExists(keys, names, tags)
}

func (x *gixIndex) SeriesID(s gixSeries) uint64 {
	return x.SFile.SeriesID([]byte(s.Name), models.NewTags(s.Tags), nil)
}

// DropSeries removes series the way tsm1.Engine.deleteSeriesRange does for a shard that is the
// only holder of the series: index drop, measurement drop when empty, series-file tombstone
// (unflushed) and one FlushSegments at the end. With cascade the index API's own cascade flag is
// used instead of DropMeasurementIfSeriesNotExist.
func (x *gixIndex) DropSeries(ss []gixSeries, cascade bool) (dropped int, err error) {
	return x.DropSeriesOpt(ss, cascade, false)
}

// DropSeriesOpt: with keepSeriesFile the series stays in the series file, which is what the
// engine does when another shard of the database still holds the series.
//
// The log is kept from rolling (and a background compaction from starting) in the middle of
// the drop: Partition.DropMeasurement stores tag keys/values that alias the mmap of older index
// files in the active log, and a compaction racing with it can fault the process
// (/verif/findings/C14-log-tombstones-alias-mmap-of-retired-index-files.md). These checks compact
// at step boundaries (Quiesce) instead, as the design of C14 prescribes.
func (x *gixIndex) DropSeriesOpt(ss []gixSeries, cascade, keepSeriesFile bool) (dropped int, err error) {
	if !x.HoldLog {
		x.setMaxLog(1 << 20)
		defer x.setMaxLog(x.MaxLog)
	}
	names := map[string]struct{}{}
	parts := map[int]struct{}{}
	var ids []uint64
	for _, s := range ss {
		id := x.SeriesID(s)
		if id == 0 {
			continue
		}
		if err := x.Idx.DropSeries(id, []byte(s.Key()), cascade); err != nil {
			return dropped, err
		}
		names[s.Name] = struct{}{}
		ids = append(ids, id)
		dropped++
	}
	if !cascade {
		for n := range names {
			if _, err := x.Idx.DropMeasurementIfSeriesNotExist([]byte(n)); err != nil {
				return dropped, err
			}
		}
	}
	if keepSeriesFile {
		return dropped, nil
	}
	for _, id := range ids {
		p, err := x.SFile.DeleteSeriesID(id, tsdb.NoFlush)
		if err != nil {
			return dropped, err
		}
		parts[p.ID()] = struct{}{}
	}
	if len(parts) > 0 {
		if err := x.SFile.FlushSegments(parts); err != nil {
			return dropped, err
		}
	}
	return dropped, nil
}

func (x *gixIndex) setMaxLog(n int64) {
	for p := 0; p < int(x.Idx.PartitionN); p++ {
		x.Idx.PartitionAt(p).VerifSetMaxLogFileSize(n)
	}
}

func (x *gixIndex) CompactWait() {
	x.Idx.Compact()
	x.Idx.Wait()
}

// Quiesce waits until no partition has a compaction running or pending. Observations are made
// at such step boundaries only: tsi1 hands out series sets that alias the mmap of index files
// (see /verif/findings/C14-candidate-series-id-sets-alias-unmapped-index-files.md), so
// iterating while a background compaction retires files can fault; that hazard is reported
// separately and must not decide these checks by scheduling luck.
func (x *gixIndex) Quiesce() bool {
	for i := 0; i < 4000; i++ {
		busy := false
		for p := 0; p < int(x.Idx.PartitionN); p++ {
			pt := x.Idx.PartitionAt(p)
			if pt.CurrentCompactionN() != 0 || pt.NeedsCompaction(false) {
				busy = true
			}
		}
		if !busy {
			return true
		}
		x.Idx.Compact()
		x.Idx.Wait()
		time.Sleep(500 * time.Microsecond)
	}
	return false
}

// Layout counts the index files by kind/level over all partitions.
func (x *gixIndex) Layout() map[string]int {
	out := map[string]int{}
	for p := 0; p < int(x.Idx.PartitionN); p++ {
		des, _ := os.ReadDir(filepath.Join(x.IndexPath(), fmt.Sprint(p)))
		for _, de := range des {
			n := de.Name()
			switch {
			case strings.HasSuffix(n, ".tsl"):
				out["L0.tsl"]++
			case strings.HasSuffix(n, ".tsi"):
				out[n[:2]+".tsi"]++
			}
		}
	}
	return out
}

func gixReadIDs(itr tsdb.SeriesIDIterator) ([]uint64, []string, error) {
	if itr == nil {
		return nil, nil, nil
	}
	defer itr.Close()
	var ids []uint64
	var exprs []string
	for {
		e, err := itr.Next()
		if err != nil {
			return ids, exprs, err
		}
		if e.SeriesID == 0 {
			return ids, exprs, nil
		}
		ids = append(ids, e.SeriesID)
		if e.Expr != nil {
			exprs = append(exprs, e.Expr.String())
		}
	}
}

// gixKeyOfID renders the series behind an id in gixSeries.String form ("" when unknown).
func gixKeyOfID(sf *tsdb.SeriesFile, id uint64) string {
	k := sf.SeriesKey(id)
	if len(k) == 0 {
		return ""
	}
	name, tags := tsdb.ParseSeriesKey(k)
	m := map[string]string{}
	for _, t := range tags {
		m[string(t.Key)] = string(t.Value)
	}
	return gixSeries{string(name), m}.String()
}
