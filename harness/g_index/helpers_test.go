package g_index

import (
	"fmt"
	"sort"
	"strings"
	"sync"

	"verifharness/vkit"
)

// gixReporter caps the witnesses written per violation class (class + features) so that one
// noisy class cannot use up the run's witness slots; every occurrence is still counted as a
// monitor event "violation:<class>{features}".
type gixReporter struct {
	r    *vkit.Run
	mu   sync.Mutex
	seen map[string]int
	per  int
}

func newGixReporter(r *vkit.Run, perClass int) *gixReporter {
	return &gixReporter{r: r, seen: map[string]int{}, per: perClass}
}

func gixFeatKey(class string, f map[string]string) string {
	ks := make([]string, 0, len(f))
	for k := range f {
		ks = append(ks, k)
	}
	sort.Strings(ks)
	var b strings.Builder
	b.WriteString(class)
	b.WriteString("{")
	for i, k := range ks {
		if i > 0 {
			b.WriteString(",")
		}
		fmt.Fprintf(&b, "%s=%s", k, f[k])
	}
	b.WriteString("}")
	return b.String()
}

func (g *gixReporter) Violation(class string, features map[string]string, witness any) {
	k := gixFeatKey(class, features)
	g.mu.Lock()
	g.seen[k]++
	n := g.seen[k]
	g.mu.Unlock()
	g.r.Event("violation:"+k, 1)
	if n <= g.per {
		g.r.Violation(class, features, witness)
	}
}

func (g *gixReporter) Count() int {
	g.mu.Lock()
	defer g.mu.Unlock()
	n := 0
	for _, v := range g.seen {
		n += v
	}
	return n
}
