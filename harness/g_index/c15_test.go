package g_index

import (
	"fmt"
	"os"
	"regexp"
	"sort"
	"strings"
	"testing"

	"github.com/influxdata/influxql"

	"verifharness/vkit"
)

// C15 — tag WHERE clauses select exactly the matching series (DESIGN §5 C15).
//
// Oracle: an independent evaluator of = != =~ !~ AND OR () over a series' tag map in which an
// absent tag reads as "". Subject: tsdb.IndexSet.MeasurementSeriesByExprIterator on a real
// tsi1.Index + series file whose series are spread over the active log, compacted index files of
// several levels and (in part of the sets) dropped series.

var (
	c15Keys = []string{"t0", "t1", "t2"}
	c15Vals = []string{"a", "b", "ab"} // "ab" makes /a/ vs /^a$/ vs /b$/ differ
	// regexes: matches-empty and not, anchored and not (fast paths in matchTagValue*)
	c15Res = []string{`a`, `^$`, `.*`, `^(a|b)$`, `^b|^$`, `^ab`, `c`}
	// literal values in comparisons: present, present, absent-from-data, empty
	c15Lits = []string{"a", "b", "ab", "zz", ""}
	c15Meas = "m"
)

type c15Expr struct {
	Op   string // = != =~ !~ AND OR
	Key  string
	Val  string // literal or regex source
	Flip bool   // literal on the left-hand side
	L, R *c15Expr
}

func (e *c15Expr) leaf() bool { return e.L == nil }

func c15ReLit(s string) string { return "/" + strings.ReplaceAll(s, "/", `\/`) + "/" }

func (e *c15Expr) String() string {
	if e.leaf() {
		switch e.Op {
		case "=~", "!~":
			return fmt.Sprintf("%s %s %s", e.Key, e.Op, c15ReLit(e.Val))
		}
		if e.Flip {
			return fmt.Sprintf("'%s' %s %s", e.Val, e.Op, e.Key)
		}
		return fmt.Sprintf("%s %s '%s'", e.Key, e.Op, e.Val)
	}
	return "(" + e.L.String() + " " + e.Op + " " + e.R.String() + ")"
}

func (e *c15Expr) depth() int {
	if e.leaf() {
		return 1
	}
	a, b := e.L.depth(), e.R.depth()
	if b > a {
		a = b
	}
	return a + 1
}

var c15ReCache = map[string]*regexp.Regexp{}

func c15Re(s string) *regexp.Regexp {
	if r, ok := c15ReCache[s]; ok {
		return r
	}
	r := regexp.MustCompile(s)
	c15ReCache[s] = r
	return r
}

// the oracle
func (e *c15Expr) eval(tags map[string]string) bool {
	if e.leaf() {
		v := tags[e.Key] // absent tag = ""
		switch e.Op {
		case "=":
			return v == e.Val
		case "!=":
			return v != e.Val
		case "=~":
			return c15Re(e.Val).MatchString(v)
		case "!~":
			return !c15Re(e.Val).MatchString(v)
		}
		panic("op")
	}
	if e.Op == "AND" {
		return e.L.eval(tags) && e.R.eval(tags)
	}
	return e.L.eval(tags) || e.R.eval(tags)
}

func (e *c15Expr) kind(m map[string]bool) {
	if e.leaf() {
		k := e.Op
		switch e.Op {
		case "=", "!=":
			if e.Val == "" {
				k += "empty"
			}
		default:
			if c15Re(e.Val).MatchString("") {
				k += "matchesEmpty"
			}
		}
		if e.Key == "tz" {
			k += "/absentKey"
		}
		m[k] = true
		return
	}
	m[e.Op] = true
	e.L.kind(m)
	e.R.kind(m)
}

func c15GenLeaf(rg *vkit.Rand) *c15Expr {
	key := vkit.Pick(rg, c15Keys)
	if rg.Chance(1, 12) {
		key = "tz" // a tag key no series has
	}
	switch rg.Intn(4) {
	case 0:
		return &c15Expr{Op: "=", Key: key, Val: vkit.Pick(rg, c15Lits), Flip: rg.Chance(1, 8)}
	case 1:
		return &c15Expr{Op: "!=", Key: key, Val: vkit.Pick(rg, c15Lits), Flip: rg.Chance(1, 8)}
	case 2:
		return &c15Expr{Op: "=~", Key: key, Val: vkit.Pick(rg, c15Res)}
	default:
		return &c15Expr{Op: "!~", Key: key, Val: vkit.Pick(rg, c15Res)}
	}
}

func c15Gen(rg *vkit.Rand, depth int) *c15Expr {
	if depth <= 1 || rg.Chance(1, 5) {
		return c15GenLeaf(rg)
	}
	op := "AND"
	if rg.Bool() {
		op = "OR"
	}
	return &c15Expr{Op: op, L: c15Gen(rg, depth-1), R: c15Gen(rg, depth-1)}
}

// the 12-leaf alphabet enumerated exhaustively to depth 3 in the thorough tier
func c15Alphabet() []*c15Expr {
	var out []*c15Expr
	for _, k := range []string{"t0", "t1"} {
		out = append(out,
			&c15Expr{Op: "=", Key: k, Val: "a"}, &c15Expr{Op: "!=", Key: k, Val: "a"},
			&c15Expr{Op: "=", Key: k, Val: ""}, &c15Expr{Op: "=~", Key: k, Val: `^b|^$`},
			&c15Expr{Op: "!~", Key: k, Val: `^a`}, &c15Expr{Op: "=~", Key: k, Val: `b$`})
	}
	return out
}

func c15EnumDepth(alpha []*c15Expr, depth int) []*c15Expr {
	if depth == 1 {
		return alpha
	}
	sub := c15EnumDepth(alpha, depth-1)
	out := append([]*c15Expr(nil), alpha...)
	for _, l := range sub {
		for _, r := range sub {
			out = append(out, &c15Expr{Op: "AND", L: l, R: r}, &c15Expr{Op: "OR", L: l, R: r})
		}
	}
	return out
}

// ---- series sets on a real index -----------------------------------------------------------

type c15Set struct {
	x      *gixIndex
	live   map[string]gixSeries // String() -> series of measurement m still live
	all    []gixSeries
	layout map[string]int
	desc   string
}

func c15AllCombos(name string) []gixSeries {
	var out []gixSeries
	for code := 0; code < 64; code++ {
		c := code
		tags := map[string]string{}
		for _, k := range c15Keys {
			d := c % 4
			c /= 4
			if d > 0 {
				tags[k] = c15Vals[d-1]
			}
		}
		out = append(out, gixSeries{name, tags})
	}
	return out
}

// c15Build creates an index whose series arrive in several batches with compactions between them,
// so that the final file set has log files and index files of more than one level.
func c15Build(t *testing.T, r *vkit.Run, rg *vkit.Rand, setNo int) *c15Set {
	dir, err := gixTempDir("c15")
	if err != nil {
		t.Fatal(err)
	}
	maxLog := int64([]int{1, 40, 120, 1 << 20}[rg.Intn(4)])
	partN := []int{8, 2, 1, 2}[rg.Intn(4)]
	cache := 100
	if setNo%2 == 1 {
		cache = 0
	}
	x, err := gixOpen(dir, maxLog, cache, partN)
	if err != nil {
		t.Fatal(err)
	}
	s := &c15Set{x: x, live: map[string]gixSeries{}}
	combos := c15AllCombos(c15Meas)
	// pick a random subset; density varies so that sparse and dense sets both occur
	den := rg.Range(1, 7)
	var chosen []gixSeries
	for _, c := range combos {
		if rg.Chance(den, 8) {
			chosen = append(chosen, c)
		}
	}
	if len(chosen) == 0 {
		chosen = combos[:3]
	}
	// one set in three is bulky: every chosen series exists in 3–8 copies that differ only in a
	// tag the expressions never mention, so a tag value of t0..t2 is shared by dozens of series
	// inside one log file (the per-value series lists of a log file change representation as
	// they grow)
	if rg.Chance(1, 3) {
		mult := rg.Range(3, 8)
		var bulk []gixSeries
		for _, c := range chosen {
			for i := 0; i < mult; i++ {
				tags := map[string]string{"u": fmt.Sprint(i)}
				for k, v := range c.Tags {
					tags[k] = v
				}
				bulk = append(bulk, gixSeries{c.Name, tags})
			}
		}
		chosen = bulk
		r.Event("bulky_series_sets", 1)
	}
	// decoys in other measurements (same tags) must never be selected
	for _, c := range c15AllCombos("m2") {
		if rg.Chance(1, 4) {
			chosen = append(chosen, c)
		}
	}
	chosen = append(chosen, gixSeries{"l", map[string]string{"t0": "a"}}, gixSeries{"n", map[string]string{"t1": "b"}})
	perm := rg.Perm(len(chosen))
	batches := rg.Range(2, 5)
	var drops []gixSeries
	for b := 0; b < batches; b++ {
		var batch []gixSeries
		for i := b; i < len(perm); i += batches {
			batch = append(batch, chosen[perm[i]])
		}
		if err := x.Create(batch); err != nil {
			t.Fatal(err)
		}
		for _, c := range batch {
			if c.Name == c15Meas {
				s.live[c.String()] = c
			}
		}
		s.all = append(s.all, batch...)
		if b < batches-1 || rg.Bool() {
			x.CompactWait()
		}
		// drop a few series of earlier batches (their entries then live in older files)
		if b > 0 && rg.Chance(1, 2) {
			var d []gixSeries
			for _, c := range s.all {
				if rg.Chance(1, 10) {
					d = append(d, c)
				}
			}
			if _, err := x.DropSeries(d, rg.Bool()); err != nil {
				t.Fatal(err)
			}
			for _, c := range d {
				delete(s.live, c.String())
			}
			drops = append(drops, d...)
		}
	}
	reopened := false
	if rg.Chance(1, 3) {
		if err := x.Reopen(); err != nil {
			t.Fatal(err)
		}
		reopened = true
	}
	if !x.Quiesce() {
		r.Inconclusive("index compactions did not quiesce")
	}
	s.layout = x.Layout()
	for k, v := range s.layout {
		r.Event("index_files_"+k, int64(v))
	}
	s.desc = fmt.Sprintf("maxLog=%d partitions=%d cache=%d batches=%d series=%d live_m=%d dropped=%d reopened=%v layout=%v", maxLog, partN, cache, batches, len(s.all), len(s.live), len(drops), reopened, s.layout)
	return s
}

func (s *c15Set) close() {
	s.x.Close()
	os.RemoveAll(s.x.Dir)
}

type c15Wit struct {
	Set      string   `json:"series_set"`
	Expr     string   `json:"expr"`
	Parsed   string   `json:"parsed_as"`
	Missing  []string `json:"missing_series"`
	Extra    []string `json:"extra_series"`
	Live     []string `json:"live_series_of_m"`
	ElemExpr []string `json:"leftover_filter_exprs,omitempty"`
}

func c15Check(t *testing.T, r *vkit.Run, rep *gixReporter, s *c15Set, e *c15Expr) (nMatch int) {
	src := e.String()
	parsed, err := influxql.ParseExpr(src)
	if err != nil {
		t.Fatalf("C15 generator produced an unparsable expression %q: %v", src, err)
	}
	want := map[string]bool{}
	for k, sr := range s.live {
		if e.eval(sr.Tags) {
			want[k] = true
		}
	}
	itr, err := s.x.Set().MeasurementSeriesByExprIterator([]byte(c15Meas), parsed)
	if err != nil {
		rep.Violation("iterator_error", map[string]string{"api": "MeasurementSeriesByExprIterator"}, map[string]string{"expr": src, "err": err.Error(), "set": s.desc})
		return len(want)
	}
	ids, exprs, err := gixReadIDs(itr)
	if err != nil {
		rep.Violation("iterator_error", map[string]string{"api": "Next"}, map[string]string{"expr": src, "err": err.Error(), "set": s.desc})
		return len(want)
	}
	got := map[string]int{}
	for _, id := range ids {
		got[gixKeyOfID(s.x.SFile, id)]++
	}
	r.Event("series_compared", int64(len(s.live)))
	var missing, extra []string
	for k := range want {
		if got[k] == 0 {
			missing = append(missing, k)
		}
	}
	for k, n := range got {
		if !want[k] || n > 1 {
			extra = append(extra, fmt.Sprintf("%s(x%d)", k, n))
		}
	}
	leftover := false
	for _, x := range exprs {
		if x != "true" {
			leftover = true
		}
	}
	if len(missing)+len(extra) > 0 || leftover {
		sort.Strings(missing)
		sort.Strings(extra)
		kinds := map[string]bool{}
		e.kind(kinds)
		ks := make([]string, 0, len(kinds))
		for k := range kinds {
			ks = append(ks, k)
		}
		sort.Strings(ks)
		dir := "missing"
		if len(missing) == 0 {
			dir = "extra"
			if len(extra) == 0 {
				dir = "leftover_filter"
			}
		} else if len(extra) > 0 {
			dir = "both"
		}
		live := make([]string, 0, len(s.live))
		for k := range s.live {
			live = append(live, k)
		}
		sort.Strings(live)
		rep.Violation("where_mismatch", map[string]string{"direction": dir, "ops": strings.Join(ks, "+"), "depth": fmt.Sprint(e.depth())},
			c15Wit{Set: s.desc, Expr: src, Parsed: parsed.String(), Missing: missing, Extra: extra, Live: live, ElemExpr: exprs})
	}
	return len(want)
}

func TestC15(t *testing.T) {
	r := vkit.Start(t, "C15", "exploration")
	defer r.Finish()
	r.Rule("case = (expression, series set): expression over tags t0..t2 (+ an absent key) with = != (literals a, b, ab, zz, '') and =~ !~ (7 regexes, 3 matching the empty string), AND/OR/parens to depth 3, parsed with influxql.ParseExpr; series set = random subset of the 64 tag combinations of measurement m plus decoys in other measurements, created in 2–5 batches on a real tsi1 index (MaxLogFileSize 1 B–1 MB, 1/2/8 partitions, Compact+Wait between batches, drops of earlier series, optional reopen; tag-value cache on for even sets, off for odd sets); non-trivial = oracle selects ≥1 and not all live series; distinct = (set#, expression text)")
	r.Assume("absent tag compares as the empty string (InfluxQL)", "tag-to-tag comparisons, _name and field references are outside the property")
	rep := newGixReporter(r, 3)

	nSets := r.N(180, 400)
	perSet := r.N(50, 1500)
	var exh []*c15Expr
	exhSets := 0
	if !r.Quick() {
		exh = c15EnumDepth(c15Alphabet(), 3)
		exhSets = 3
		r.Extra("exhaustive_depth3_expressions", len(exh))
		r.Extra("exhaustive_alphabet", func() []string {
			var a []string
			for _, l := range c15Alphabet() {
				a = append(a, l.String())
			}
			return a
		}())
	}
	for si := 0; si < nSets; si++ {
		rg := r.Rand(si)
		s := c15Build(t, r, rg, si)
		r.Event("series_sets", 1)
		if len(s.layout) >= 2 {
			r.Event("series_sets_with_log_and_index_files", 1)
		}
		check := func(e *c15Expr, sample bool) {
			n := c15Check(t, r, rep, s, e)
			r.Case(fmt.Sprintf("%d|%s", si, e.String()), n > 0 && n < len(s.live))
			if sample && r.WantSample() {
				r.Sample(map[string]any{"set": s.desc, "expr": e.String(), "oracle_selected": n, "live": len(s.live)})
			}
		}
		for j := 0; j < perSet; j++ {
			e := c15Gen(rg, rg.Range(1, 3))
			check(e, j == 7 && si%9 == 0)
		}
		if si < exhSets {
			for _, e := range exh {
				check(e, false)
			}
			r.Event("exhaustive_sets", 1)
		}
		s.close()
	}
	if !r.Quick() {
		r.Exhaustive(false) // depth-3 enumeration is exhaustive only over the 12-leaf alphabet on 3 sets
	}
}
