package g_index

import (
	"testing"

	"verifharness/vkit"
)

// child-process handlers of this group (crash-image reopen batches), see vkit/child.go
var childHandlers = map[string]vkit.ChildHandler{}

func TestMain(m *testing.M) { vkit.ChildMain(m, childHandlers) }
