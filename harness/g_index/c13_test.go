package g_index

import (
	"bytes"
	"encoding/binary"
	"encoding/json"
	"fmt"
	"os"
	"path/filepath"
	"runtime/debug"
	"sort"
	"strings"
	"sync"
	"testing"
	"time"

	"github.com/influxdata/influxdb/v2/models"
	"github.com/influxdata/influxdb/v2/tsdb"

	"verifharness/vkit"
)

// C13 — series IDs unique, stable, never reused (DESIGN §5 C13, crash part: fault enumeration).
//
// Model: key → id of live series, the set of every id ever handed out, ids known deleted.
// Subject: tsdb.SeriesFile (8 SeriesPartitions, segments, SeriesIndex, SeriesPartitionCompactor).
// Crash images (DESIGN §4 M3): the series-file directory is copied at every op boundary; for the
// op in flight every file that changed is torn at EVERY byte of the changed region (clean cut,
// zero fill = what a pre-sized segment really holds, 0xA5 fill) and reopened by the real code in
// a child process.

func init() { childHandlers["c13img"] = c13ChildImages }

// ---- domain --------------------------------------------------------------------------------

type c13Key struct {
	Name string            `json:"n"`
	Tags map[string]string `json:"t,omitempty"`
}

func (k c13Key) tags() models.Tags { return models.NewTags(k.Tags) }
func (k c13Key) bytes() []byte     { return tsdb.AppendSeriesKey(nil, []byte(k.Name), k.tags()) }
func (k c13Key) String() string    { return gixSeries{k.Name, k.Tags}.String() }

// c13Domain: 12 keys, escape-heavy, chosen so that every partition gets at least one key and
// partition 7 (the only partition whose ids can be multiples of 256) gets three.
func c13Domain() []c13Key {
	sf := tsdb.NewSeriesFile("")
	want := map[int]int{0: 1, 1: 1, 2: 1, 3: 1, 4: 1, 5: 2, 6: 2, 7: 3}
	names := []string{"cpu", "mem", "disk io", "a,b", "x=y", "é"}
	tagsets := []map[string]string{nil, {"host": "a"}, {"host": "b", "r": "eu west"}, {"k,1": "v=1"}, {"h": "a", "z": ""}}
	var out []c13Key
	for i := 0; len(out) < 12 && i < 4000; i++ {
		k := c13Key{Name: names[i%len(names)], Tags: map[string]string{}}
		for a, b := range tagsets[(i/len(names))%len(tagsets)] {
			if b != "" {
				k.Tags[a] = b
			}
		}
		if i >= len(names)*len(tagsets) {
			k.Tags["n"] = fmt.Sprint(i)
		}
		p := sf.SeriesKeyPartitionID(k.bytes())
		if want[p] > 0 {
			want[p]--
			out = append(out, k)
		}
	}
	return out
}

func c13Filler(i int) c13Key {
	return c13Key{Name: "filler", Tags: map[string]string{"i": fmt.Sprint(i)}}
}

// ---- model ---------------------------------------------------------------------------------

type c13Model struct {
	Live    map[string]uint64   // key string -> id
	Used    map[uint64]string   // every id ever returned -> key string
	Deleted map[uint64]bool     // ids deleted (in memory)
	Pending map[uint64]bool     // deleted with NoFlush, no flush acknowledged since
	KeyOf   map[string]c13Key   // key string -> key
	Past    map[string][]uint64 // key -> ids it had before
}

func newC13Model() *c13Model {
	return &c13Model{Live: map[string]uint64{}, Used: map[uint64]string{}, Deleted: map[uint64]bool{}, Pending: map[uint64]bool{}, KeyOf: map[string]c13Key{}, Past: map[string][]uint64{}}
}

// ack is the durable view a crash image must respect.
type c13Ack struct {
	Live    []c13KV  `json:"live"`    // acknowledged, not deleted (or delete still pending): must map both ways
	Gone    []c13KV  `json:"gone"`    // acknowledged deleted and flushed: id must stay deleted, key must not map to it
	Either  []c13KV  `json:"either"`  // delete acknowledged but never flushed: may be live or deleted
	Used    []uint64 `json:"used"`    // every acknowledged id (never reusable)
	Domain  []c13Key `json:"domain"`  // keys to create after recovery
	Fillers int      `json:"fillers"` // filler series created at the start (all acknowledged)
}
type c13KV struct {
	Key c13Key `json:"k"`
	ID  uint64 `json:"id"`
}

func (m *c13Model) ack(domain []c13Key) c13Ack {
	a := c13Ack{Domain: domain}
	for ks, id := range m.Live {
		a.Live = append(a.Live, c13KV{m.KeyOf[ks], id})
	}
	for id := range m.Deleted {
		kv := c13KV{m.KeyOf[m.Used[id]], id}
		if m.Pending[id] {
			a.Either = append(a.Either, kv)
		} else {
			a.Gone = append(a.Gone, kv)
		}
	}
	for id := range m.Used {
		a.Used = append(a.Used, id)
	}
	sort.Slice(a.Live, func(i, j int) bool { return a.Live[i].ID < a.Live[j].ID })
	sort.Slice(a.Gone, func(i, j int) bool { return a.Gone[i].ID < a.Gone[j].ID })
	sort.Slice(a.Either, func(i, j int) bool { return a.Either[i].ID < a.Either[j].ID })
	sort.Slice(a.Used, func(i, j int) bool { return a.Used[i] < a.Used[j] })
	return a
}

// ---- snapshots -----------------------------------------------------------------------------

type c13File struct {
	Data []byte `json:"d"` // content with trailing zeros trimmed
	Size int64  `json:"s"` // file length
}
type c13Snap map[string]c13File // path relative to the series-file directory

func c13TakeSnap(dir string) (c13Snap, error) {
	out := c13Snap{}
	err := filepath.Walk(dir, func(p string, fi os.FileInfo, err error) error {
		if err != nil || fi.IsDir() {
			return err
		}
		rel, _ := filepath.Rel(dir, p)
		f, err := os.Open(p)
		if err != nil {
			return err
		}
		defer f.Close()
		// segments are pre-sized (4 MB, sparse): read until a long run of zeros follows data
		var data []byte
		buf := make([]byte, 64<<10)
		var off int64
		for off < fi.Size() {
			n, err := f.ReadAt(buf, off)
			chunk := buf[:n]
			if len(bytes.TrimRight(chunk, "\x00")) == 0 && off > 0 {
				// an all-zero 64 KB block: verify the rest is a hole/zero cheaply via SEEK_DATA
				if next, e := f.Seek(off, 3 /*SEEK_DATA*/); e != nil || next >= fi.Size() {
					break
				}
			}
			data = append(data, chunk...)
			off += int64(n)
			if err != nil {
				break
			}
		}
		out[rel] = c13File{Data: bytes.TrimRight(data, "\x00"), Size: fi.Size()}
		return nil
	})
	return out, err
}

func c13Materialize(dir string, s c13Snap) error {
	for rel, f := range s {
		p := filepath.Join(dir, rel)
		if err := os.MkdirAll(filepath.Dir(p), 0o777); err != nil {
			return err
		}
		fh, err := os.OpenFile(p, os.O_CREATE|os.O_TRUNC|os.O_WRONLY, 0o666)
		if err != nil {
			return err
		}
		if _, err := fh.Write(f.Data); err != nil {
			fh.Close()
			return err
		}
		if err := fh.Truncate(f.Size); err != nil {
			fh.Close()
			return err
		}
		if err := fh.Close(); err != nil {
			return err
		}
	}
	return nil
}

// changed region of a file between two snapshots: [a,b) in the post file. Trimmed trailing
// zeros count as zeros, so an old entry that ends in a zero byte is not part of the region.
func c13Region(pre, post c13File) (a, b int, changed bool) {
	at := func(f c13File, i int) byte {
		if i < len(f.Data) {
			return f.Data[i]
		}
		return 0
	}
	n := len(pre.Data)
	if len(post.Data) > n {
		n = len(post.Data)
	}
	a = 0
	for a < n && at(pre, a) == at(post, a) {
		a++
	}
	if a == n && pre.Size == post.Size {
		return 0, 0, false
	}
	return a, n, true
}

// c13TornAt says where a cut falls inside the appended entries (own parser of the documented
// entry layout: flag, 8-byte id, for inserts a uvarint-prefixed key).
func c13TornAt(post []byte, a, b, cut int) string {
	pos := a
	for pos < b {
		if cut == pos {
			return "entry_boundary"
		}
		hdr, size := 9, 9
		if post[pos] == 0x01 && pos+9 < len(post) {
			l, n := binary.Uvarint(post[pos+9:])
			if n > 0 {
				hdr, size = 9+n, 9+n+int(l)
			}
		}
		if cut < pos+hdr {
			return "entry_header"
		}
		if cut < pos+size {
			return "entry_key"
		}
		pos += size
	}
	return "entry_boundary"
}

// ---- crash image recipes ---------------------------------------------------------------------

type c13Image struct {
	ID      string `json:"id"`
	File    string `json:"file"`    // torn file (relative); "" = no tearing (boundary image)
	A       int    `json:"a"`       // region start
	B       int    `json:"b"`       // region end
	Cut     int    `json:"cut"`     // bytes [A,Cut) of the new content survive
	Variant string `json:"variant"` // cut | zero | a5
	Others  string `json:"others"`  // other files changed by the same op: "pre" or "post"
	TornAt  string `json:"torn_at"` // entry_boundary | entry_header | entry_key
	Extra   string `json:"extra"`   // extra file to add (partial index.compacting)
	ExtraN  int    `json:"extra_n"`
}

type c13Payload struct {
	Pre, Post c13Snap
	Ack       c13Ack
	Images    []c13Image
	Journal   string
	Op        string
}

type c13Fail struct {
	Image  c13Image `json:"image"`
	Class  string   `json:"class"`
	Detail string   `json:"detail"`
}
type c13ChildOut struct {
	Done  int       `json:"done"`
	Fails []c13Fail `json:"fails"`
}

func (p *c13Payload) build(im c13Image) c13Snap {
	out := c13Snap{}
	base := p.Pre
	if im.Others == "post" {
		base = p.Post
	}
	for rel, f := range base {
		out[rel] = f
	}
	if im.File != "" {
		post := p.Post[im.File]
		pre, hadPre := p.Pre[im.File]
		data := make([]byte, 0, im.B)
		data = append(data, post.Data...)
		for len(data) < im.B {
			data = append(data, 0)
		}
		// bytes before A are the old content (identical in pre and post), [A,Cut) new, rest per variant
		size := post.Size
		switch im.Variant {
		case "cut":
			data = data[:im.Cut]
			if int64(im.Cut) < size {
				size = int64(im.Cut)
			}
			if hadPre && pre.Size == post.Size {
				// a pre-sized file keeps its length: a clean cut of such a file is only reachable
				// by losing the ftruncate too; still a legal hostile variant
			}
		case "zero":
			for i := im.Cut; i < im.B; i++ {
				if hadPre && i < len(pre.Data) {
					data[i] = pre.Data[i]
				} else {
					data[i] = 0
				}
			}
		case "a5":
			for i := im.Cut; i < im.B; i++ {
				data[i] = 0xA5
			}
		}
		out[im.File] = c13File{Data: data, Size: size}
	}
	if im.Extra != "" {
		src := p.Post[strings.TrimSuffix(im.Extra, ".compacting")]
		n := im.ExtraN
		full := append([]byte(nil), src.Data...)
		for int64(len(full)) < src.Size {
			full = append(full, 0)
		}
		if n > len(full) {
			n = len(full)
		}
		out[im.Extra] = c13File{Data: full[:n], Size: int64(n)}
	}
	return out
}

// c13ChildImages runs in a child process: for every image, materialise it, reopen the series file
// with the real code and apply the crash rule.
func c13ChildImages(payload []byte) ([]byte, error) {
	var p c13Payload
	if err := json.Unmarshal(payload, &p); err != nil {
		return nil, err
	}
	jf, err := os.OpenFile(p.Journal, os.O_CREATE|os.O_WRONLY|os.O_APPEND, 0o644)
	if err != nil {
		return nil, err
	}
	defer jf.Close()
	root, err := gixTempDir("c13img")
	if err != nil {
		return nil, err
	}
	defer os.RemoveAll(root)
	var out c13ChildOut
	for i, im := range p.Images {
		fmt.Fprintf(jf, "%d\n", i)
		dir := filepath.Join(root, fmt.Sprint(i))
		if err := c13Materialize(dir, p.build(im)); err != nil {
			return nil, err
		}
		for _, f := range c13CheckImageRecover(dir, &p.Ack, im.Variant != "a5") {
			f.Image = im
			out.Fails = append(out.Fails, f)
		}
		os.RemoveAll(dir)
		out.Done = i + 1
	}
	return json.Marshal(out)
}

func c13Part(sf *tsdb.SeriesFile, k c13Key) int { return sf.SeriesKeyPartitionID(k.bytes()) }

// c13CheckImageRecover turns a Go panic of the real code into a failure record (a fatal runtime
// error such as SIGBUS still kills the child; the parent attributes it through the journal).
func c13CheckImageRecover(dir string, ack *c13Ack, second bool) (fails []c13Fail) {
	defer func() {
		if e := recover(); e != nil {
			st := string(debug.Stack())
			// keep the frames of the real code
			var keep []string
			for _, l := range strings.Split(st, "\n") {
				if strings.Contains(l, "influxdb/v2/") && !strings.HasPrefix(l, "\t") {
					keep = append(keep, strings.TrimSpace(l))
				}
			}
			if len(keep) > 6 {
				keep = keep[:6]
			}
			fails = append(fails, c13Fail{Class: "reopen_panicked", Detail: fmt.Sprintf("panic: %v | %s", e, strings.Join(keep, " <- "))})
		}
	}()
	return c13CheckImage(dir, ack, second)
}

// c13CheckImage applies the crash rule to one recovered directory.
func c13CheckImage(dir string, ack *c13Ack, second bool) (fails []c13Fail) {
	add := func(class, format string, a ...any) {
		if len(fails) < 6 {
			fails = append(fails, c13Fail{Class: class, Detail: fmt.Sprintf(format, a...)})
		}
	}
	sf := tsdb.NewSeriesFile(dir)
	if err := sf.Open(); err != nil {
		add("reopen_failed", "Open: %v", err)
		return
	}
	used := map[uint64]bool{}
	for _, id := range ack.Used {
		used[id] = true
	}
	check := func(phase string) {
		for _, kv := range ack.Live {
			if got := sf.SeriesID([]byte(kv.Key.Name), kv.Key.tags(), nil); got != kv.ID {
				add("acked_key_id_changed", "%s: SeriesID(%s)=%d, acknowledged id %d", phase, kv.Key, got, kv.ID)
			}
			if got := sf.SeriesKey(kv.ID); !bytes.Equal(got, kv.Key.bytes()) {
				add("acked_id_key_changed", "%s: SeriesKey(%d)=%q, acknowledged key %s", phase, kv.ID, got, kv.Key)
			}
			if sf.IsDeleted(kv.ID) {
				add("acked_series_deleted", "%s: IsDeleted(%d)=true for live acknowledged series %s", phase, kv.ID, kv.Key)
			}
		}
		for _, kv := range ack.Gone {
			if !sf.IsDeleted(kv.ID) {
				add("acked_delete_lost", "%s: IsDeleted(%d)=false, delete of %s was flushed before the image", phase, kv.ID, kv.Key)
			}
			if got := sf.SeriesID([]byte(kv.Key.Name), kv.Key.tags(), nil); got == kv.ID {
				add("acked_delete_lost", "%s: SeriesID(%s)=%d again after flushed delete", phase, kv.Key, got)
			}
		}
	}
	check("recovered")

	// what the recovered file says about every domain key
	rec := map[string]uint64{}
	for _, k := range ack.Domain {
		rec[k.String()] = sf.SeriesID([]byte(k.Name), k.tags(), nil)
	}
	liveAck := map[string]uint64{}
	for _, kv := range ack.Live {
		liveAck[kv.Key.String()] = kv.ID
	}
	eitherIDs := map[uint64]bool{}
	for _, kv := range ack.Either {
		eitherIDs[kv.ID] = true
	}
	// a further create must succeed, keep acknowledged ids, and hand out only unused ids
	keys := append([]c13Key(nil), ack.Domain...)
	keys = append(keys, c13Key{Name: "post crash", Tags: map[string]string{"a": "1"}}, c13Key{Name: "post", Tags: map[string]string{"b": "2"}})
	names := make([][]byte, len(keys))
	tags := make([]models.Tags, len(keys))
	for i, k := range keys {
		names[i], tags[i] = []byte(k.Name), k.tags()
	}
	ids, err := sf.CreateSeriesListIfNotExists(names, tags)
	if err != nil {
		add("create_after_recovery_failed", "%v", err)
		sf.Close()
		return
	}
	seen := map[uint64]string{}
	for i, k := range keys {
		id := ids[i]
		ks := k.String()
		if id == 0 {
			add("create_after_recovery_failed", "id 0 for %s", ks)
			continue
		}
		if prev, ok := seen[id]; ok && prev != ks {
			add("id_shared_after_recovery", "id %d returned for %s and %s", id, prev, ks)
		}
		seen[id] = ks
		if want, ok := liveAck[ks]; ok {
			if id != want && !eitherIDs[want] {
				add("acked_key_id_changed", "create after recovery: %s got %d, acknowledged id %d", ks, id, want)
			}
			continue
		}
		if r := rec[ks]; r != 0 {
			if id != r {
				add("id_unstable_after_recovery", "%s: recovered id %d, create returned %d", ks, r, id)
			}
			if used[r] && !eitherIDs[r] {
				add("id_reused", "%s recovered with id %d that was acknowledged for %s", ks, r, "another series")
			}
			continue
		}
		if used[id] {
			add("id_reused", "create after recovery gave %s the acknowledged id %d", ks, id)
		}
		if int((id-1)%tsdb.SeriesFilePartitionN) != c13Part(sf, k) {
			add("id_wrong_partition", "%s (partition %d) got id %d", ks, c13Part(sf, k), id)
		}
		if got := sf.SeriesKey(id); !bytes.Equal(got, k.bytes()) {
			add("new_id_key_mismatch", "SeriesKey(%d)=%q after creating %s", id, got, ks)
		}
	}
	check("after create")
	if err := sf.Close(); err != nil {
		add("close_failed", "%v", err)
	}
	if !second {
		return
	}
	// double restart
	sf = tsdb.NewSeriesFile(dir)
	if err := sf.Open(); err != nil {
		add("second_reopen_failed", "Open: %v", err)
		return
	}
	check("second restart")
	for i, k := range keys {
		if got := sf.SeriesID([]byte(k.Name), k.tags(), nil); got != ids[i] && ids[i] != 0 {
			add("id_lost_on_second_restart", "%s: id %d acknowledged after recovery, now %d", k, ids[i], got)
		}
	}
	sf.Close()
	return
}

// ---- history driver ----------------------------------------------------------------------------

type c13Op struct {
	Kind  string   `json:"op"` // create delete flush reopen compact
	Keys  []string `json:"keys,omitempty"`
	Flush bool     `json:"flush,omitempty"`
	Parts []int    `json:"partitions,omitempty"`
}

type c13Hist struct {
	t      *testing.T
	r      *vkit.Run
	rep    *gixReporter
	no     int
	dir    string
	sf     *tsdb.SeriesFile
	m      *c13Model
	domain []c13Key
	fill   int
	ops    []c13Op
}

type c13Wit struct {
	History int      `json:"history"`
	Fillers int      `json:"fillers"`
	Ops     []c13Op  `json:"ops"`
	Step    string   `json:"step"`
	Detail  string   `json:"detail"`
	Image   any      `json:"image,omitempty"`
	Log     string   `json:"child_log,omitempty"`
	Keys    []string `json:"domain,omitempty"`
}

func (h *c13Hist) viol(class string, feat map[string]string, step, detail string, image any, log string) {
	ops := h.ops
	if len(ops) > 40 {
		ops = ops[len(ops)-40:]
	}
	h.rep.Violation(class, feat, c13Wit{History: h.no, Fillers: h.fill, Ops: ops, Step: step, Detail: detail, Image: image, Log: log})
}

func (h *c13Hist) create(keys []c13Key, step string) {
	names := make([][]byte, len(keys))
	tags := make([]models.Tags, len(keys))
	for i, k := range keys {
		names[i], tags[i] = []byte(k.Name), k.tags()
	}
	ids, err := h.sf.CreateSeriesListIfNotExists(names, tags)
	if err != nil {
		h.t.Fatalf("C13 history %d: create: %v", h.no, err)
	}
	inCall := map[string]uint64{}
	for i, k := range keys {
		ks, id := k.String(), ids[i]
		h.m.KeyOf[ks] = k
		h.r.Event("create_results_checked", 1)
		if want, ok := h.m.Live[ks]; ok {
			if id != want {
				h.viol("live_key_id_changed", map[string]string{"api": "CreateSeriesListIfNotExists"}, step, fmt.Sprintf("%s: live with id %d, create returned %d", ks, want, id), nil, "")
			}
			continue
		}
		if prev, ok := inCall[ks]; ok {
			if prev != id {
				h.viol("duplicate_key_two_ids", map[string]string{"api": "CreateSeriesListIfNotExists"}, step, fmt.Sprintf("%s twice in one call: ids %d and %d", ks, prev, id), nil, "")
			}
			continue
		}
		inCall[ks] = id
		if id == 0 {
			h.viol("create_returned_zero", map[string]string{"api": "CreateSeriesListIfNotExists"}, step, ks, nil, "")
			continue
		}
		if owner, ok := h.m.Used[id]; ok {
			trig := "other_key"
			if owner == ks {
				trig = "same_key_after_delete"
			}
			h.viol("id_reused", map[string]string{"api": "CreateSeriesListIfNotExists", "trigger": trig}, step, fmt.Sprintf("%s got id %d, used before by %s", ks, id, owner), nil, "")
		}
		if int((id-1)%tsdb.SeriesFilePartitionN) != c13Part(h.sf, k) {
			h.viol("id_wrong_partition", map[string]string{"api": "CreateSeriesListIfNotExists"}, step, fmt.Sprintf("%s (partition %d) got id %d", ks, c13Part(h.sf, k), id), nil, "")
		}
		h.m.Live[ks] = id
		h.m.Used[id] = ks
		h.r.Event("series_created", 1)
	}
}

func (h *c13Hist) del(k c13Key, flush bool) {
	ks := k.String()
	id, ok := h.m.Live[ks]
	if !ok {
		return
	}
	if _, err := h.sf.DeleteSeriesID(id, flush); err != nil {
		h.t.Fatalf("C13 history %d: delete: %v", h.no, err)
	}
	delete(h.m.Live, ks)
	h.m.Deleted[id] = true
	h.m.Past[ks] = append(h.m.Past[ks], id)
	if !flush {
		h.m.Pending[id] = true
	}
	h.r.Event("series_deleted", 1)
}

func (h *c13Hist) flush() {
	parts := map[int]struct{}{}
	for id := range h.m.Pending {
		parts[h.sf.SeriesIDPartitionID(id)] = struct{}{}
	}
	if len(parts) == 0 {
		return
	}
	if err := h.sf.FlushSegments(parts); err != nil {
		h.t.Fatalf("C13 history %d: flush: %v", h.no, err)
	}
	h.m.Pending = map[uint64]bool{}
}

func (h *c13Hist) reopen() {
	if err := h.sf.Close(); err != nil {
		h.t.Fatalf("C13 history %d: close: %v", h.no, err)
	}
	h.m.Pending = map[uint64]bool{} // Close pushes buffered entries to the kernel
	h.sf = tsdb.NewSeriesFile(h.dir)
	if err := h.sf.Open(); err != nil {
		h.viol("reopen_failed", map[string]string{"trigger": "clean_close"}, "reopen", err.Error(), nil, "")
		h.t.Fatalf("C13 history %d: reopen: %v", h.no, err)
	}
}

func (h *c13Hist) compact(parts []int) {
	for _, p := range parts {
		if err := tsdb.NewSeriesPartitionCompactor().Compact(h.sf.Partitions()[p]); err != nil {
			h.viol("compaction_failed", map[string]string{"api": "SeriesPartitionCompactor.Compact"}, "compact", err.Error(), nil, "")
		}
	}
	h.r.Event("partition_compactions", int64(len(parts)))
}

// checkAll compares every mapping the model knows with the real file.
func (h *c13Hist) checkAll(step string) {
	feat := func(api string) map[string]string {
		return map[string]string{"api": api, "after": strings.SplitN(step, " ", 2)[0]}
	}
	for ks, k := range h.m.KeyOf {
		id, live := h.m.Live[ks]
		got := h.sf.SeriesID([]byte(k.Name), k.tags(), nil)
		h.r.Event("lookups_checked", 1)
		if live {
			if got != id {
				h.viol("live_key_id_changed", feat("SeriesID"), step, fmt.Sprintf("SeriesID(%s)=%d, model %d", ks, got, id), nil, "")
			}
			if key := h.sf.SeriesKey(id); !bytes.Equal(key, k.bytes()) {
				h.viol("live_id_key_changed", feat("SeriesKey"), step, fmt.Sprintf("SeriesKey(%d)=%q, model %s", id, key, ks), nil, "")
			}
			if h.sf.IsDeleted(id) {
				h.viol("live_series_deleted", feat("IsDeleted"), step, fmt.Sprintf("IsDeleted(%d)=true for live %s", id, ks), nil, "")
			}
			if !h.sf.HasSeries([]byte(k.Name), k.tags(), nil) {
				h.viol("live_key_id_changed", feat("HasSeries"), step, fmt.Sprintf("HasSeries(%s)=false", ks), nil, "")
			}
		} else if got != 0 {
			h.viol("deleted_key_resolves", feat("SeriesID"), step, fmt.Sprintf("SeriesID(%s)=%d for a deleted series (past ids %v)", ks, got, h.m.Past[ks]), nil, "")
		}
		for _, old := range h.m.Past[ks] {
			if !h.sf.IsDeleted(old) {
				h.viol("deleted_id_not_deleted", feat("IsDeleted"), step, fmt.Sprintf("IsDeleted(%d)=false, %s was deleted", old, ks), nil, "")
			}
		}
	}
	// every id the file lists was handed out by the model's history; every live id is listed
	itr := h.sf.SeriesIDIterator()
	listed := map[uint64]bool{}
	for {
		e, err := itr.Next()
		if err != nil || e.SeriesID == 0 {
			break
		}
		if listed[e.SeriesID] {
			h.viol("id_listed_twice", feat("SeriesIDIterator"), step, fmt.Sprintf("id %d appears in two insert entries", e.SeriesID), nil, "")
		}
		listed[e.SeriesID] = true
		if _, ok := h.m.Used[e.SeriesID]; !ok {
			h.viol("unknown_id_listed", feat("SeriesIDIterator"), step, fmt.Sprintf("id %d never returned by a create", e.SeriesID), nil, "")
		}
	}
	for ks, id := range h.m.Live {
		if !listed[id] {
			h.viol("live_id_not_listed", feat("SeriesIDIterator"), step, fmt.Sprintf("%s id %d", ks, id), nil, "")
		}
	}
}

// crashImages enumerates the torn states of the op that turned pre into post and checks them in
// child processes. Returns the number of images checked.
func (h *c13Hist) crashImages(pre, post c13Snap, ack c13Ack, op c13Op) int {
	var changed []string
	for rel, pf := range post {
		if _, _, ch := c13Region(pre[rel], pf); ch {
			changed = append(changed, rel)
		}
	}
	sort.Strings(changed)
	var images []c13Image
	opName := fmt.Sprintf("%s#%d", op.Kind, len(h.ops))
	for _, rel := range changed {
		base := filepath.Base(rel)
		if base == "index" {
			// compaction: the new index appears by rename; a crash before it leaves a partial
			// index.compacting next to the old state
			full := int(post[rel].Size)
			for _, n := range []int{0, 1, 40, 69, 70, full / 2, full - 1, full} {
				if n >= 0 && n <= full {
					images = append(images, c13Image{ID: fmt.Sprintf("%s/%s.compacting@%d", opName, rel, n), Others: "pre", Extra: rel + ".compacting", ExtraN: n})
				}
			}
			continue
		}
		a, b, _ := c13Region(pre[rel], post[rel])
		// a clean cut is a reachable state only for a file whose length the op changed; series
		// segments are created at their full size (4 MB), so a torn append leaves zeros behind
		variants := []string{"zero", "a5"}
		if pre[rel].Size != post[rel].Size {
			variants = append(variants, "cut")
		}
		others := []string{"pre"}
		if len(changed) > 1 {
			others = append(others, "post")
		}
		for _, o := range others {
			for c := a; c <= b; c++ { // EVERY byte of the appended region
				for _, v := range variants {
					if c == b && v != "zero" {
						continue
					}
					if h.r.Quick() && ((o == "post" && (v != "zero" || (c-a)%3 != 0)) || (v == "a5" && c-a > 14 && (c-a)%4 != 0)) {
						continue // quick tier thins the "other partitions already complete" family and garbage inside key bodies; zero fill is always every byte
					}
					images = append(images, c13Image{ID: fmt.Sprintf("%s/%s@%d/%s/others=%s", opName, rel, c, v, o), File: rel, A: a, B: b, Cut: c, Variant: v, Others: o, TornAt: c13TornAt(post[rel].Data, a, b, c)})
				}
			}
		}
		h.r.Event("torn_regions", 1)
		h.r.Event("torn_region_bytes", int64(b-a))
	}
	if len(images) == 0 {
		return 0
	}
	h.r.Event("ops_with_crash_enumeration_"+op.Kind, 1)
	hc := *h // witness context as of this op
	hc.ops = append([]c13Op(nil), h.ops...)
	c13Queue(&c13Job{h: &hc, pre: pre, post: post, ack: ack, images: images, op: op})
	return len(images)
}

// Crash-image jobs are queued and run in batches through a pool of child processes (each child
// is a fresh process of this test binary; nothing of the subject is shared between them), so
// that the children of different ops run side by side.
type c13Job struct {
	h         *c13Hist
	pre, post c13Snap
	ack       c13Ack
	images    []c13Image
	op        c13Op
}

var c13Jobs []*c13Job

func c13Queue(j *c13Job) {
	c13Jobs = append(c13Jobs, j)
	n := 0
	for _, q := range c13Jobs {
		n += len(q.images)
	}
	if n >= 1500 {
		c13Drain(j.h.r)
	}
}

func c13Drain(r *vkit.Run) {
	if len(c13Jobs) == 0 {
		return
	}
	t0 := time.Now()
	jdir, err := gixTempDir("c13j")
	if err != nil {
		panic(err)
	}
	defer os.RemoveAll(jdir)
	const chunk = 32
	sem := make(chan struct{}, 12)
	var wg sync.WaitGroup
	ci := 0
	for _, j := range c13Jobs {
		for i := 0; i < len(j.images); i += chunk {
			e := i + chunk
			if e > len(j.images) {
				e = len(j.images)
			}
			ci++
			wg.Add(1)
			sem <- struct{}{}
			go func(j *c13Job, ch []c13Image, ci int) {
				defer wg.Done()
				defer func() { <-sem }()
				j.h.runChunk(j.pre, j.post, j.ack, ch, j.op, filepath.Join(jdir, fmt.Sprintf("journal%d", ci)))
			}(j, j.images[i:e], ci)
		}
	}
	wg.Wait()
	c13Jobs = nil
	r.Event("ms_in_crash_children", time.Since(t0).Milliseconds())
}

func (h *c13Hist) runChunk(pre, post c13Snap, ack c13Ack, images []c13Image, op c13Op, journal string) {
	for len(images) > 0 {
		os.Remove(journal)
		pl, _ := json.Marshal(c13Payload{Pre: pre, Post: post, Ack: ack, Images: images, Journal: journal, Op: op.Kind})
		res, err := vkit.RunChild("c13img", pl, 10*time.Minute)
		if err != nil {
			h.t.Errorf("C13: child: %v", err)
			return
		}
		var out c13ChildOut
		json.Unmarshal(res.Out, &out)
		for _, f := range out.Fails {
			h.r.Event("image_failures", 1)
			feat := map[string]string{"source": "crash_image", "in_flight": op.Kind, "variant": f.Image.Variant, "torn_file": c13FileKind(f.Image), "torn_at": f.Image.TornAt}
			if f.Class == "reopen_panicked" {
				feat["panic"] = c13PanicKind(f.Detail)
				feat["site"] = c13PanicSite(f.Detail)
			}
			h.viol(f.Class, feat, "crash image "+f.Image.ID, f.Detail, f.Image, "")
		}
		if res.TimedOut {
			h.r.Inconclusive("crash-image child watchdog")
			return
		}
		if res.HandlerError {
			h.t.Errorf("C13: child handler error: %s", res.Log)
			return
		}
		if !res.Crashed() {
			h.r.Event("crash_images", int64(len(images)))
			return
		}
		// the child died: the journal names the image it was working on
		jb, _ := os.ReadFile(journal)
		lines := strings.Fields(string(jb))
		idx := 0
		if len(lines) > 0 {
			fmt.Sscan(lines[len(lines)-1], &idx)
		}
		im := images[idx]
		log := string(res.Log)
		first := log
		if i := strings.Index(log, "\ngoroutine "); i > 0 {
			first = log[:i]
		}
		if len(log) > 6000 {
			log = log[:6000]
		}
		h.r.Event("image_crashes", 1)
		h.viol("reopen_crashed", map[string]string{"source": "crash_image", "in_flight": op.Kind, "variant": im.Variant, "torn_file": c13FileKind(im), "torn_at": im.TornAt, "panic": c13PanicKind(first)},
			"crash image "+im.ID, strings.TrimSpace(first), im, log)
		h.r.Event("crash_images", int64(idx+1))
		images = images[idx+1:]
	}
}

func c13FileKind(im c13Image) string {
	if im.Extra != "" {
		return "index.compacting"
	}
	if im.File == "" {
		return "none"
	}
	return "segment"
}

// c13PanicSite names the innermost function of the real code on the panicking stack.
func c13PanicSite(detail string) string {
	i := strings.Index(detail, "| ")
	if i < 0 {
		return "?"
	}
	f := strings.SplitN(detail[i+2:], " <- ", 2)[0]
	if j := strings.LastIndex(f, "/"); j >= 0 {
		f = f[j+1:]
	}
	if j := strings.Index(f, "("); j > 0 && !strings.HasPrefix(f[j:], "(*") {
		f = f[:j]
	}
	return strings.TrimSuffix(strings.SplitN(f, "({", 2)[0], "(...)")
}

func c13PanicKind(s string) string {
	switch {
	case strings.Contains(s, "slice bounds out of range"):
		return "slice_bounds"
	case strings.Contains(s, "index out of range"):
		return "index_range"
	case strings.Contains(s, "SIGBUS"), strings.Contains(s, "unexpected fault address"):
		return "sigbus"
	case strings.Contains(s, "checkptr"):
		return "checkptr"
	case strings.Contains(s, "DATA RACE"):
		return "race"
	}
	return "other"
}

// c13RunHistory runs one history. crashKind != "" makes it a crash history: one op of that kind
// (built to be interesting: partition 6/7 keys, ids beyond one byte) gets its torn states
// enumerated; if that op turns out not to touch the disk the next writing op is taken instead.
func c13RunHistory(t *testing.T, r *vkit.Run, rep *gixReporter, no int, domain []c13Key, crashKind string) {
	rg := r.Rand(no)
	dir, err := gixTempDir("c13")
	if err != nil {
		t.Fatal(err)
	}
	defer os.RemoveAll(dir)
	h := &c13Hist{t: t, r: r, rep: rep, no: no, dir: filepath.Join(dir, "_series"), m: newC13Model(), domain: domain}
	h.sf = tsdb.NewSeriesFile(h.dir)
	if err := h.sf.Open(); err != nil {
		t.Fatal(err)
	}
	defer func() { h.sf.Close() }()
	byName := map[string]c13Key{}
	for _, k := range domain {
		byName[k.String()] = k
	}

	// some histories start on a populated file so that ids leave the one-byte range
	switch rg.Intn(4) {
	case 1:
		h.fill = 280 + rg.Intn(60)
	case 3:
		h.fill = 520 + rg.Intn(200)
	}
	if crashKind != "" && no%3 != 2 && h.fill == 0 {
		h.fill = 280 + rg.Intn(400)
	}
	if h.fill > 0 {
		var ks []c13Key
		for i := 0; i < h.fill; i++ {
			ks = append(ks, c13Filler(i))
		}
		h.create(ks, "fillers")
		if rg.Bool() {
			h.compact([]int{0, 1, 2, 3, 4, 5, 6, 7})
		}
	}
	nOps := rg.Range(8, 20)
	crashAt := -1
	if crashKind != "" {
		crashAt = rg.Range(3, nOps-2)
	}
	crashPending := false
	hiPart := func(k c13Key) bool { return c13Part(h.sf, k) >= 6 }
	for i := 0; i < nOps; i++ {
		var op c13Op
		switch x := rg.Intn(20); {
		case x < 8:
			op.Kind = "create"
			n := rg.Range(1, 5)
			for j := 0; j < n; j++ {
				op.Keys = append(op.Keys, vkit.Pick(rg, domain).String())
			}
		case x < 13:
			op.Kind = "delete"
			op.Keys = []string{vkit.Pick(rg, domain).String()}
			op.Flush = rg.Chance(2, 3)
		case x < 14:
			op.Kind = "flush"
		case x < 17:
			op.Kind = "reopen"
		default:
			op.Kind = "compact"
			for p := 0; p < 8; p++ {
				if rg.Chance(2, 3) {
					op.Parts = append(op.Parts, p)
				}
			}
		}
		if i == crashAt {
			crashPending = true
			// shape the op that will be torn
			switch crashKind {
			case "create":
				op = c13Op{Kind: "create"}
				for _, k := range domain { // a not-live key, from the high partitions if there is one
					if _, live := h.m.Live[k.String()]; !live && (hiPart(k) || rg.Chance(1, 3)) {
						op.Keys = append(op.Keys, k.String())
						if len(op.Keys) >= rg.Range(1, 3) {
							break
						}
					}
				}
				op.Keys = append(op.Keys, vkit.Pick(rg, domain).String())
			case "delete", "flush":
				op = c13Op{Kind: "delete", Flush: crashKind == "delete"}
				var live []c13Key
				for _, k := range domain {
					if _, ok := h.m.Live[k.String()]; ok && (hiPart(k) || rg.Chance(1, 3)) {
						live = append(live, k)
					}
				}
				if len(live) == 0 { // nothing to delete yet: create first, delete on the next op
					op = c13Op{Kind: "create"}
					for _, k := range domain {
						if hiPart(k) {
							op.Keys = append(op.Keys, k.String())
						}
					}
					crashAt++
					crashPending = false
				} else {
					op.Keys = []string{vkit.Pick(rg, live).String()}
				}
			case "compact":
				op = c13Op{Kind: "compact", Parts: []int{rg.Intn(8), 7}}
			}
		} else if crashKind == "flush" && crashPending && len(h.m.Pending) > 0 {
			op = c13Op{Kind: "flush"}
		}
		// snapshot + acknowledged view before the op
		writes := op.Kind == "create" || op.Kind == "compact" || op.Kind == "flush" || (op.Kind == "delete" && op.Flush)
		wantCrash := crashPending && writes && !(crashKind == "flush" && op.Kind != "flush" && len(h.m.Pending) > 0)
		var pre c13Snap
		var ack c13Ack
		if wantCrash {
			if pre, err = c13TakeSnap(h.dir); err != nil {
				t.Fatal(err)
			}
			ack = h.m.ack(domain)
			ack.Fillers = h.fill
			if op.Kind == "delete" {
				// the series being deleted is in flight: it may come back live or deleted
				for i, kv := range ack.Live {
					if kv.Key.String() == op.Keys[0] {
						ack.Either = append(ack.Either, kv)
						ack.Live = append(ack.Live[:i:i], ack.Live[i+1:]...)
						break
					}
				}
			}
		}
		h.ops = append(h.ops, op)
		step := fmt.Sprintf("%s #%d", op.Kind, i)
		switch op.Kind {
		case "create":
			var ks []c13Key
			for _, s := range op.Keys {
				ks = append(ks, byName[s])
			}
			h.create(ks, step)
		case "delete":
			h.del(byName[op.Keys[0]], op.Flush)
		case "flush":
			h.flush()
		case "reopen":
			h.reopen()
		case "compact":
			h.compact(op.Parts)
		}
		h.checkAll(step)
		if wantCrash {
			post, err := c13TakeSnap(h.dir)
			if err != nil {
				t.Fatal(err)
			}
			if h.crashImages(pre, post, ack, op) > 0 {
				crashPending = false
				r.Event("crash_histories", 1)
			}
		}
	}
	// final: reopen and compare once more
	h.reopen()
	h.checkAll("final reopen")
	key := fmt.Sprintf("fill=%d|%v", h.fill, h.ops)
	kinds := map[string]bool{}
	for _, o := range h.ops {
		kinds[o.Kind] = true
	}
	r.Case(key, len(h.m.Past) > 0 && kinds["create"] && (kinds["reopen"] || kinds["compact"]))
	if r.WantSample() && (no%11 == 0 || crashKind != "" && no%2 == 0) {
		r.Sample(map[string]any{"history": no, "fillers": h.fill, "ops": h.ops, "live": len(h.m.Live), "ids_used": len(h.m.Used), "crash_enumeration_on": crashKind})
	}
}

// ---- concurrent creators ---------------------------------------------------------------------

func c13Concurrent(t *testing.T, r *vkit.Run, rep *gixReporter, no int, domain []c13Key) {
	rg := r.SubRand("conc", no)
	dir, err := gixTempDir("c13c")
	if err != nil {
		t.Fatal(err)
	}
	defer os.RemoveAll(dir)
	sf := tsdb.NewSeriesFile(filepath.Join(dir, "_series"))
	if err := sf.Open(); err != nil {
		t.Fatal(err)
	}
	defer sf.Close()
	small := rg.Bool()
	if small {
		// let the partitions' own background compaction run while series are created
		for _, p := range sf.Partitions() {
			p.CompactThreshold = 4
		}
	}
	// K1: created by everybody; K2: pre-created, deleted by one goroutine while others re-create them
	var pool []c13Key
	pool = append(pool, domain...)
	for i := 0; i < 60; i++ {
		pool = append(pool, c13Key{Name: "conc", Tags: map[string]string{"i": fmt.Sprint(i), "h": no2s(no)}})
	}
	perm := rg.Perm(len(pool))
	var k2 []c13Key
	for _, i := range perm[:10] {
		k2 = append(k2, pool[i])
	}
	mk := func(ks []c13Key) ([][]byte, []models.Tags) {
		n := make([][]byte, len(ks))
		tg := make([]models.Tags, len(ks))
		for i, k := range ks {
			n[i], tg[i] = []byte(k.Name), k.tags()
		}
		return n, tg
	}
	n2, t2 := mk(k2)
	old, err := sf.CreateSeriesListIfNotExists(n2, t2)
	if err != nil {
		t.Fatal(err)
	}
	oldID := map[string]uint64{}
	for i, k := range k2 {
		oldID[k.String()] = old[i]
	}
	workers := rg.Range(3, 6)
	type res struct {
		keys []c13Key
		ids  []uint64
	}
	results := make([][]res, workers)
	sets := make([][][]c13Key, workers)
	for w := 0; w < workers; w++ {
		calls := rg.Range(2, 5)
		for c := 0; c < calls; c++ {
			var ks []c13Key
			for j, n := 0, rg.Range(3, 25); j < n; j++ {
				ks = append(ks, pool[rg.Intn(len(pool))])
			}
			sets[w] = append(sets[w], ks)
		}
	}
	var wg sync.WaitGroup
	start := make(chan struct{})
	for w := 0; w < workers; w++ {
		wg.Add(1)
		go func(w int) {
			defer wg.Done()
			<-start
			for _, ks := range sets[w] {
				n, tg := mk(ks)
				ids, err := sf.CreateSeriesListIfNotExists(n, tg)
				if err != nil {
					t.Errorf("concurrent create: %v", err)
					return
				}
				results[w] = append(results[w], res{ks, ids})
			}
		}(w)
	}
	wg.Add(1)
	go func() {
		defer wg.Done()
		<-start
		for _, k := range k2 {
			if _, err := sf.DeleteSeriesID(oldID[k.String()], true); err != nil {
				t.Errorf("concurrent delete: %v", err)
			}
		}
	}()
	close(start)
	wg.Wait()
	// wait for background compactions before looking at the final state
	for _, p := range sf.Partitions() {
		for i := 0; p.Compacting() && i < 5000; i++ {
			time.Sleep(time.Millisecond)
		}
	}
	desc := fmt.Sprintf("concurrent#%d workers=%d background_compaction=%v", no, workers, small)
	viol := func(class, detail string) {
		rep.Violation(class, map[string]string{"source": "concurrent_creators", "background_compaction": fmt.Sprint(small)}, c13Wit{History: no, Step: desc, Detail: detail})
	}
	seen := map[string]map[uint64]bool{}
	owner := map[uint64]string{}
	for ks, id := range oldID {
		owner[id] = ks
	}
	for w := range results {
		for _, rs := range results[w] {
			for i, k := range rs.keys {
				ks, id := k.String(), rs.ids[i]
				r.Event("concurrent_results_checked", 1)
				if id == 0 {
					viol("create_returned_zero", ks)
					continue
				}
				if seen[ks] == nil {
					seen[ks] = map[uint64]bool{}
				}
				seen[ks][id] = true
				if o, ok := owner[id]; ok && o != ks {
					viol("id_shared_by_two_keys", fmt.Sprintf("id %d returned for %s and %s", id, o, ks))
				}
				owner[id] = ks
				if int((id-1)%tsdb.SeriesFilePartitionN) != c13Part(sf, k) {
					viol("id_wrong_partition", fmt.Sprintf("%s got %d", ks, id))
				}
			}
		}
	}
	for ks, idset := range seen {
		o, was := oldID[ks]
		var fresh []uint64
		for id := range idset {
			if was && id == o {
				continue
			}
			fresh = append(fresh, id)
		}
		// a key never deleted has one id; a key deleted once has its old id and at most one new id
		if len(fresh) > 1 {
			viol("same_key_two_ids", fmt.Sprintf("%s: ids %v (pre-existing id %d)", ks, fresh, o))
		}
		k := c13KeyByString(pool, ks)
		final := sf.SeriesID([]byte(k.Name), k.tags(), nil)
		switch {
		case len(fresh) == 1 && final != fresh[0]:
			viol("final_id_differs", fmt.Sprintf("%s: creators got %d, final SeriesID %d", ks, fresh[0], final))
		case len(fresh) == 0 && was && final != 0 && final != o:
			viol("final_id_differs", fmt.Sprintf("%s: final SeriesID %d, never returned to a creator", ks, final))
		}
		if final != 0 {
			if got := sf.SeriesKey(final); !bytes.Equal(got, k.bytes()) {
				viol("live_id_key_changed", fmt.Sprintf("SeriesKey(%d)=%q want %s", final, got, ks))
			}
		}
	}
	for ks, o := range oldID {
		if !sf.IsDeleted(o) {
			viol("deleted_id_not_deleted", fmt.Sprintf("%s old id %d", ks, o))
		}
	}
	r.Case(desc+fmt.Sprint(sets), len(seen) > 5)
}

func no2s(n int) string { return fmt.Sprint(n % 3) }

func c13KeyByString(pool []c13Key, s string) c13Key {
	for _, k := range pool {
		if k.String() == s {
			return k
		}
	}
	return c13Key{}
}

func TestC13(t *testing.T) {
	r := vkit.Start(t, "C13", "fault_enumeration")
	defer r.Finish()
	r.Rule("case = one history of 8–20 ops (create of 1–5 keys out of a 12-key escape-heavy domain covering all 8 partitions, delete with/without flush, FlushSegments, close+reopen, SeriesPartitionCompactor on random partitions) on a real tsdb.SeriesFile, about half of them starting on 280–720 filler series; after every op every known key/id mapping is compared with the model. 10 (quick) / 60 (thorough) histories are crash histories: one op of an assigned kind (create / flushed delete / FlushSegments / compaction, aimed at partitions 6–7) has its torn states enumerated: every byte of every changed segment region × {zero fill, 0xA5 fill} × {other partitions before, after} (no clean cut: segments are pre-sized), partial index.compacting files; each image is reopened by the real code in a child process, checked against the acknowledged state, written to and (zero fill) restarted a second time. Plus concurrent-creator cases (3–6 goroutines, overlapping key sets, one deleter, background compaction on/off). non-trivial = history re-creates or deletes at least one series and contains a reopen or compaction; distinct = hash of (fillers, op list)")
	r.Assume("crash model: process death + torn last append (DESIGN §4 M3); a NoFlush delete is acknowledged durable only after FlushSegments or Close")
	rep := newGixReporter(r, 2)
	domain := c13Domain()
	if len(domain) != 12 {
		t.Fatalf("C13 domain has %d keys", len(domain))
	}
	var ds []string
	for _, k := range domain {
		ds = append(ds, fmt.Sprintf("p%d:%s", tsdb.NewSeriesFile("").SeriesKeyPartitionID(k.bytes()), k))
	}
	r.Extra("domain", ds)
	n := gixN(r, 150, 1500)
	crashOps := r.N(10, 60) // histories whose chosen op is torn at every byte
	every := n / crashOps
	if every < 1 {
		every = 1
	}
	kinds := []string{"create", "delete", "create", "flush", "create", "compact", "delete"}
	for i := 0; i < n; i++ {
		ck := ""
		if i%every == 0 {
			ck = kinds[(i/every)%len(kinds)]
		}
		c13RunHistory(t, r, rep, i, domain, ck)
	}
	c13Drain(r)
	nc := gixN(r, 40, 400)
	t0 := time.Now()
	for i := 0; i < nc; i++ {
		c13Concurrent(t, r, rep, i, domain)
	}
	r.Event("ms_in_concurrent_cases", time.Since(t0).Milliseconds())
}
