package g_index

import (
	"encoding/json"
	"fmt"
	"os"
	"path/filepath"
	"runtime/debug"
	"sort"
	"strings"
	"sync"
	"testing"
	"time"

	"github.com/influxdata/influxdb/v2/tsdb"

	"verifharness/vkit"
)

// C14 — index metadata stays correct across compaction and restart (DESIGN §5 C14; crash part:
// fault enumeration).
//
// Model: the set of live series. Everything the index answers is derived from it: measurement
// names, tag keys per measurement, tag values per key, and the series set of every measurement,
// tag key and tag value. Subject: a real tsi1.Index on a real series file, observed through
// tsdb.IndexSet (the surface the engine and the meta queries use) and the Index's own
// existence predicates. Series drops are performed the way tsm1.Engine.deleteSeriesRange does.

func init() { childHandlers["c14img"] = c14ChildImages }

// ---- domain --------------------------------------------------------------------------------

var (
	c14Names = []string{"m0", "m1", "m 2"}
	c14Keys  = []string{"k0", "k1", "k,2"}
	c14Vals  = []string{"a", "b", "c=d"}
)

// pool of series histories draw from: every name × a spread of tag sets (incl. no tags)
func c14Pool() []gixSeries {
	var out []gixSeries
	for _, n := range c14Names {
		out = append(out, gixSeries{n, map[string]string{}})
		for code := 1; code < 64; code += 5 {
			c := code
			tags := map[string]string{}
			for _, k := range c14Keys {
				d := c % 4
				c /= 4
				if d > 0 {
					tags[k] = c14Vals[d-1]
				}
			}
			out = append(out, gixSeries{n, tags})
		}
	}
	return out
}

// ---- observation ---------------------------------------------------------------------------

const c14Sep = "\x1f"

// c14Obs is everything the index says, in model terms (series as gixSeries.String()).
type c14Obs struct {
	Names   []string            `json:"names"`
	Exists  map[string]bool     `json:"exists"`
	Keys    map[string][]string `json:"keys"`     // name -> keys (TagKeyIterator)
	HasKey  map[string]bool     `json:"has_key"`  // name|key
	Vals    map[string][]string `json:"vals"`     // name|key -> values (TagValueIterator)
	HasVal  map[string]bool     `json:"has_val"`  // name|key|val
	MSeries map[string][]string `json:"m_series"` // name -> series
	KSeries map[string][]string `json:"k_series"` // name|key -> series
	VSeries map[string][]string `json:"v_series"` // name|key|val -> series
	Errs    []string            `json:"errs,omitempty"`
}

func c14Join(a ...string) string { return strings.Join(a, c14Sep) }

func c14ReadBytesIter(next func() ([]byte, error)) ([]string, error) {
	var out []string
	for {
		b, err := next()
		if err != nil {
			return out, err
		}
		if b == nil {
			return out, nil
		}
		out = append(out, string(b))
	}
}

func c14Observe(x *gixIndex) *c14Obs {
	o := &c14Obs{Exists: map[string]bool{}, Keys: map[string][]string{}, HasKey: map[string]bool{}, Vals: map[string][]string{}, HasVal: map[string]bool{},
		MSeries: map[string][]string{}, KSeries: map[string][]string{}, VSeries: map[string][]string{}}
	is := x.Set()
	fail := func(api string, err error) {
		if err != nil {
			o.Errs = append(o.Errs, api+": "+err.Error())
		}
	}
	seriesOf := func(api string, itr tsdb.SeriesIDIterator, err error) []string {
		fail(api, err)
		ids, _, e := gixReadIDs(itr)
		fail(api+".Next", e)
		out := make([]string, 0, len(ids))
		for _, id := range ids {
			out = append(out, gixKeyOfID(x.SFile, id))
		}
		sort.Strings(out)
		return out
	}
	if mitr, err := is.MeasurementIterator(); err != nil {
		fail("MeasurementIterator", err)
	} else if mitr != nil {
		o.Names, err = c14ReadBytesIter(mitr.Next)
		fail("MeasurementIterator.Next", err)
		mitr.Close()
	}
	// universe of names: the domain plus whatever the index lists
	names := append([]string(nil), c14Names...)
	for _, n := range o.Names {
		if !gixContains(names, n) {
			names = append(names, n)
		}
	}
	for _, n := range names {
		ex, err := x.Idx.MeasurementExists([]byte(n))
		fail("MeasurementExists", err)
		o.Exists[n] = ex
		if kitr, err := is.TagKeyIterator([]byte(n)); err != nil {
			fail("TagKeyIterator", err)
		} else if kitr != nil {
			ks, err := c14ReadBytesIter(kitr.Next)
			fail("TagKeyIterator.Next", err)
			kitr.Close()
			o.Keys[n] = ks
		}
		itr, err := is.MeasurementSeriesIDIterator([]byte(n))
		o.MSeries[n] = seriesOf("MeasurementSeriesIDIterator", itr, err)
		keys := append([]string(nil), c14Keys...)
		for _, k := range o.Keys[n] {
			if !gixContains(keys, k) {
				keys = append(keys, k)
			}
		}
		for _, k := range keys {
			hk, err := x.Idx.HasTagKey([]byte(n), []byte(k))
			fail("HasTagKey", err)
			o.HasKey[c14Join(n, k)] = hk
			if vitr, err := is.TagValueIterator([]byte(n), []byte(k)); err != nil {
				fail("TagValueIterator", err)
			} else if vitr != nil {
				vs, err := c14ReadBytesIter(vitr.Next)
				fail("TagValueIterator.Next", err)
				vitr.Close()
				o.Vals[c14Join(n, k)] = vs
			}
			itr, err := is.TagKeySeriesIDIterator([]byte(n), []byte(k))
			o.KSeries[c14Join(n, k)] = seriesOf("TagKeySeriesIDIterator", itr, err)
			vals := append([]string(nil), c14Vals...)
			for _, v := range o.Vals[c14Join(n, k)] {
				if !gixContains(vals, v) {
					vals = append(vals, v)
				}
			}
			for _, v := range vals {
				hv, err := x.Idx.HasTagValue([]byte(n), []byte(k), []byte(v))
				fail("HasTagValue", err)
				o.HasVal[c14Join(n, k, v)] = hv
				// twice: the second call is served from the tag-value cache when it is on
				for rep := 0; rep < 2; rep++ {
					itr, err := is.TagValueSeriesIDIterator([]byte(n), []byte(k), []byte(v))
					got := seriesOf("TagValueSeriesIDIterator", itr, err)
					if rep == 1 && strings.Join(got, ";") != strings.Join(o.VSeries[c14Join(n, k, v)], ";") {
						o.Errs = append(o.Errs, fmt.Sprintf("TagValueSeriesIDIterator(%s,%s,%s) second call differs: %v then %v", n, k, v, o.VSeries[c14Join(n, k, v)], got))
					}
					o.VSeries[c14Join(n, k, v)] = got
				}
			}
		}
	}
	return o
}

func gixContains(a []string, s string) bool {
	for _, x := range a {
		if x == s {
			return true
		}
	}
	return false
}

// ---- model ---------------------------------------------------------------------------------

type c14Model struct {
	Live map[string]gixSeries
	// what existed at some time (classifies an extra answer as stale vs never-existed)
	EverName map[string]bool
	EverKey  map[string]bool // name|key
	EverVal  map[string]bool // name|key|val
	EverSer  map[string]bool
	// generator state: the measurement dropped by the previous op, so that the next op can
	// re-create only its tag-less series (a series that enters no tag loop of the log file)
	justDropped string
}

func newC14Model() *c14Model {
	return &c14Model{Live: map[string]gixSeries{}, EverName: map[string]bool{}, EverKey: map[string]bool{}, EverVal: map[string]bool{}, EverSer: map[string]bool{}}
}

func (m *c14Model) add(s gixSeries) {
	m.Live[s.String()] = s
	m.EverSer[s.String()] = true
	m.EverName[s.Name] = true
	for k, v := range s.Tags {
		m.EverKey[c14Join(s.Name, k)] = true
		m.EverVal[c14Join(s.Name, k, v)] = true
	}
}

type c14Expect struct {
	Names   map[string]bool
	Keys    map[string]map[string]bool // name -> keys
	Vals    map[string]map[string]bool // name|key -> vals
	MSeries map[string]map[string]bool
	KSeries map[string]map[string]bool
	VSeries map[string]map[string]bool
}

func c14Derive(live map[string]gixSeries) *c14Expect {
	e := &c14Expect{Names: map[string]bool{}, Keys: map[string]map[string]bool{}, Vals: map[string]map[string]bool{}, MSeries: map[string]map[string]bool{}, KSeries: map[string]map[string]bool{}, VSeries: map[string]map[string]bool{}}
	put := func(m map[string]map[string]bool, k, v string) {
		if m[k] == nil {
			m[k] = map[string]bool{}
		}
		m[k][v] = true
	}
	for ss, s := range live {
		e.Names[s.Name] = true
		put(e.MSeries, s.Name, ss)
		for k, v := range s.Tags {
			put(e.Keys, s.Name, k)
			put(e.Vals, c14Join(s.Name, k), v)
			put(e.KSeries, c14Join(s.Name, k), ss)
			put(e.VSeries, c14Join(s.Name, k, v), ss)
		}
	}
	return e
}

type c14Diff struct {
	Iterator string   `json:"iterator"`
	Subject  string   `json:"subject"`
	Kind     string   `json:"kind"` // missing | stale_after_drop | never_existed | predicate_disagrees | error
	Items    []string `json:"items"`
}

func c14SetDiff(want map[string]bool, got []string) (missing, extra []string) {
	g := map[string]int{}
	for _, x := range got {
		g[x]++
	}
	for w := range want {
		if g[w] == 0 {
			missing = append(missing, w)
		}
	}
	for x, n := range g {
		if !want[x] {
			extra = append(extra, x)
		} else if n > 1 {
			extra = append(extra, x+" (listed twice)")
		}
	}
	sort.Strings(missing)
	sort.Strings(extra)
	return
}

// c14Compare: lo ⊆ observed ⊆ hi for every answer (lo == hi outside crash images). ever classifies
// an extra answer.
func c14Compare(o *c14Obs, lo, hi *c14Expect, m *c14Model) (diffs []c14Diff) {
	show := func(s string) string { return strings.ReplaceAll(s, c14Sep, "|") }
	add := func(it, subj, kind string, items []string) {
		if len(items) > 0 {
			diffs = append(diffs, c14Diff{it, show(subj), kind, items})
		}
	}
	classify := func(it, subj string, missing, extra []string, ever func(x string) bool) {
		add(it, subj, "missing", missing)
		var stale, never []string
		for _, x := range extra {
			if ever(strings.TrimSuffix(x, " (listed twice)")) && !strings.HasSuffix(x, "(listed twice)") {
				stale = append(stale, x)
			} else {
				never = append(never, x)
			}
		}
		add(it, subj, "stale_after_drop", stale)
		add(it, subj, "never_existed", never)
	}
	for _, e := range o.Errs {
		add("error", "", "error", []string{e})
	}
	miss, _ := c14SetDiff(lo.Names, o.Names)
	_, extra := c14SetDiff(hi.Names, o.Names)
	classify("MeasurementIterator", "", miss, extra, func(x string) bool { return m.EverName[x] })
	names := map[string]bool{}
	for _, n := range c14Names {
		names[n] = true
	}
	for _, n := range o.Names {
		names[n] = true
	}
	for n := range names {
		if lo.Names[n] && !o.Exists[n] {
			add("MeasurementExists", n, "missing", []string{n})
		}
		if !hi.Names[n] && o.Exists[n] {
			kind := "never_existed"
			if m.EverName[n] {
				kind = "stale_after_drop"
			}
			add("MeasurementExists", n, kind, []string{n})
		}
		miss, _ := c14SetDiff(lo.Keys[n], o.Keys[n])
		_, extra := c14SetDiff(hi.Keys[n], o.Keys[n])
		classify("TagKeyIterator", n, miss, extra, func(x string) bool { return m.EverKey[c14Join(n, x)] })
		miss, _ = c14SetDiff(lo.MSeries[n], o.MSeries[n])
		_, extra = c14SetDiff(hi.MSeries[n], o.MSeries[n])
		classify("MeasurementSeriesIDIterator", n, miss, extra, func(x string) bool { return m.EverSer[x] })
	}
	for nk, has := range o.HasKey {
		p := strings.Split(nk, c14Sep)
		if lo.Keys[p[0]][p[1]] && !has {
			add("HasTagKey", nk, "missing", []string{p[1]})
		}
		if !hi.Keys[p[0]][p[1]] && has {
			kind := "never_existed"
			if m.EverKey[nk] {
				kind = "stale_after_drop"
			}
			add("HasTagKey", nk, kind, []string{p[1]})
		}
		miss, _ := c14SetDiff(lo.Vals[nk], o.Vals[nk])
		_, extra := c14SetDiff(hi.Vals[nk], o.Vals[nk])
		classify("TagValueIterator", nk, miss, extra, func(x string) bool { return m.EverVal[c14Join(nk, x)] })
		miss, _ = c14SetDiff(lo.KSeries[nk], o.KSeries[nk])
		_, extra = c14SetDiff(hi.KSeries[nk], o.KSeries[nk])
		classify("TagKeySeriesIDIterator", nk, miss, extra, func(x string) bool { return m.EverSer[x] })
	}
	for nkv, has := range o.HasVal {
		p := strings.Split(nkv, c14Sep)
		nk := c14Join(p[0], p[1])
		if lo.Vals[nk][p[2]] && !has {
			add("HasTagValue", nkv, "missing", []string{p[2]})
		}
		if !hi.Vals[nk][p[2]] && has {
			kind := "never_existed"
			if m.EverVal[nkv] {
				kind = "stale_after_drop"
			}
			add("HasTagValue", nkv, kind, []string{p[2]})
		}
		miss, _ := c14SetDiff(lo.VSeries[nkv], o.VSeries[nkv])
		_, extra := c14SetDiff(hi.VSeries[nkv], o.VSeries[nkv])
		classify("TagValueSeriesIDIterator", nkv, miss, extra, func(x string) bool { return m.EverSer[x] })
	}
	sort.Slice(diffs, func(i, j int) bool {
		if diffs[i].Iterator != diffs[j].Iterator {
			return diffs[i].Iterator < diffs[j].Iterator
		}
		return diffs[i].Subject < diffs[j].Subject
	})
	return
}

// ---- history ---------------------------------------------------------------------------------

type c14Op struct {
	Kind    string   `json:"op"` // create drop_series drop_measurement compact reopen
	Series  []string `json:"series,omitempty"`
	Name    string   `json:"name,omitempty"`
	Cascade bool     `json:"cascade,omitempty"`
}

type c14Cfg struct {
	MaxLog  int64 `json:"max_log"`
	PartN   int   `json:"partitions"`
	Cache   int   `json:"cache"`
	KeepSF  bool  `json:"series_file_kept"` // drops leave the series in the series file (series shared with another shard)
	History int   `json:"history"`
}

type c14Hist struct {
	t     *testing.T
	r     *vkit.Run
	rep   *gixReporter
	cfg   c14Cfg
	x     *gixIndex
	m     *c14Model
	ops   []c14Op
	since map[string]bool // op kinds seen since the last drop (for features)
}

type c14Wit struct {
	Cfg    c14Cfg    `json:"config"`
	Ops    []c14Op   `json:"ops"`
	Step   string    `json:"step"`
	Diffs  []c14Diff `json:"diffs"`
	Live   []string  `json:"model_live_series"`
	Layout any       `json:"index_files,omitempty"`
	Image  any       `json:"image,omitempty"`
	Detail string    `json:"detail,omitempty"`
}

func (h *c14Hist) liveList() []string {
	var l []string
	for s := range h.m.Live {
		l = append(l, s)
	}
	sort.Strings(l)
	return l
}

func (h *c14Hist) feat(d c14Diff, phase string) map[string]string {
	cache := "on"
	if h.cfg.Cache == 0 {
		cache = "off"
	}
	sf := "deleted"
	if h.cfg.KeepSF {
		sf = "kept"
	}
	f := map[string]string{"iterator": d.Iterator, "kind": d.Kind, "cache": cache, "series_file": sf, "phase": phase}
	// is the measurement the answer is about alive in the model? (stale keys/values of a live
	// measurement and of a dropped one have different causes)
	if d.Subject != "" {
		name := strings.SplitN(d.Subject, "|", 2)[0]
		f["measurement"] = "dropped"
		for _, s := range h.m.Live {
			if s.Name == name {
				f["measurement"] = "live"
				break
			}
		}
	}
	return f
}

func (h *c14Hist) report(diffs []c14Diff, phase, step string, image any) {
	// one violation per (iterator, kind)
	seen := map[string]bool{}
	for _, d := range diffs {
		k := d.Iterator + "/" + d.Kind
		if seen[k] {
			continue
		}
		seen[k] = true
		var same []c14Diff
		for _, e := range diffs {
			if e.Iterator == d.Iterator && e.Kind == d.Kind && len(same) < 4 {
				same = append(same, e)
			}
		}
		ops := h.ops
		if len(ops) > 30 {
			ops = ops[len(ops)-30:]
		}
		h.rep.Violation("index_metadata_mismatch", h.feat(d, phase), c14Wit{Cfg: h.cfg, Ops: ops, Step: step, Diffs: same, Live: h.liveList(), Layout: h.x.Layout(), Image: image})
	}
}

func (h *c14Hist) check(step, phase string) {
	h.quiesce() // step boundary: background compactions started by the op have finished
	o := c14Observe(h.x)
	e := c14Derive(h.m.Live)
	h.r.Event("observations", 1)
	h.r.Event("answers_compared", int64(1+len(o.Exists)+len(o.Keys)+len(o.HasKey)+len(o.Vals)+len(o.HasVal)+len(o.MSeries)+len(o.KSeries)+len(o.VSeries)))
	h.report(c14Compare(o, e, e, h.m), phase, step, nil)
}

// quiesce waits until no partition has a compaction running or pending, so that a directory
// snapshot or an observation is a state between operations.
func (h *c14Hist) quiesce() bool {
	if h.x.Quiesce() {
		return true
	}
	h.r.Inconclusive("index compactions did not quiesce")
	return false
}

func (h *c14Hist) setMaxLog(n int64) {
	for p := 0; p < int(h.x.Idx.PartitionN); p++ {
		h.x.Idx.PartitionAt(p).VerifSetMaxLogFileSize(n)
	}
}

func (h *c14Hist) apply(op c14Op, pool map[string]gixSeries) {
	h.ops = append(h.ops, op)
	switch op.Kind {
	case "create":
		var ss []gixSeries
		for _, s := range op.Series {
			ss = append(ss, pool[s])
		}
		if err := h.x.Create(ss); err != nil {
			h.t.Fatalf("C14 history %d: create: %v", h.cfg.History, err)
		}
		for _, s := range ss {
			h.m.add(s)
		}
		h.r.Event("series_created", int64(len(ss)))
	case "drop_series", "drop_measurement":
		var ss []gixSeries
		for _, s := range op.Series {
			if _, ok := h.m.Live[s]; ok {
				ss = append(ss, pool[s])
			}
		}
		n, err := h.x.DropSeriesOpt(ss, op.Cascade, h.cfg.KeepSF)
		if err != nil {
			h.t.Fatalf("C14 history %d: drop: %v", h.cfg.History, err)
		}
		for _, s := range ss {
			delete(h.m.Live, s.String())
		}
		h.r.Event("series_dropped", int64(n))
	case "compact":
		h.x.CompactWait()
		h.quiesce()
		h.r.Event("compactions_requested", 1)
	case "reopen":
		h.quiesce()
		if err := h.x.Reopen(); err != nil {
			h.rep.Violation("reopen_failed", map[string]string{"phase": "clean_close"}, c14Wit{Cfg: h.cfg, Ops: h.ops, Step: "reopen", Detail: err.Error()})
			h.t.Fatalf("C14 history %d: reopen: %v", h.cfg.History, err)
		}
		h.r.Event("reopens", 1)
	}
}

func c14GenOp(rg *vkit.Rand, m *c14Model, pool []gixSeries) c14Op {
	live := make([]string, 0, len(m.Live))
	for s := range m.Live {
		live = append(live, s)
	}
	sort.Strings(live)
	if jd := m.justDropped; jd != "" {
		m.justDropped = ""
		if rg.Chance(1, 2) {
			return c14Op{Kind: "create", Series: []string{gixSeries{jd, map[string]string{}}.String()}}
		}
	}
	switch x := rg.Intn(20); {
	case x < 8 || len(live) == 0:
		op := c14Op{Kind: "create"}
		for i, n := 0, rg.Range(1, 5); i < n; i++ {
			op.Series = append(op.Series, vkit.Pick(rg, pool).String())
		}
		return op
	case x < 12:
		op := c14Op{Kind: "drop_series", Cascade: rg.Bool()}
		for i, n := 0, rg.Range(1, 3); i < n; i++ {
			op.Series = append(op.Series, vkit.Pick(rg, live))
		}
		return op
	case x < 14:
		name := m.Live[vkit.Pick(rg, live)].Name
		m.justDropped = name
		op := c14Op{Kind: "drop_measurement", Name: name, Cascade: rg.Bool()}
		for _, s := range live {
			if m.Live[s].Name == name {
				op.Series = append(op.Series, s)
			}
		}
		return op
	case x < 18:
		return c14Op{Kind: "compact"}
	default:
		return c14Op{Kind: "reopen"}
	}
}

// c14RunHistory runs history `no` with the given cache size; the op list is a function of (seed,
// no) only, so the cache-on and cache-off runs see the same history.
func c14RunHistory(t *testing.T, r *vkit.Run, rep *gixReporter, no, cache int, crashKind string) {
	crash := crashKind != ""
	rg := r.Rand(no)
	dir, err := gixTempDir("c14")
	if err != nil {
		t.Fatal(err)
	}
	defer os.RemoveAll(dir)
	cfg := c14Cfg{History: no, Cache: cache,
		MaxLog: int64([]int{1, 1, 60, 200, 1 << 20}[rg.Intn(5)]),
		PartN:  []int{1, 2, 8, 2}[rg.Intn(4)],
		KeepSF: rg.Intn(4) == 3}
	if crash {
		cfg.KeepSF = false // index-level series sets are supersets in that mode; the crash bracket needs exact ones
	}
	x, err := gixOpen(filepath.Join(dir, "db"), cfg.MaxLog, cache, cfg.PartN)
	if err != nil {
		t.Fatal(err)
	}
	h := &c14Hist{t: t, r: r, rep: rep, cfg: cfg, x: x, m: newC14Model()}
	defer func() { h.x.Close() }()
	poolList := c14Pool()
	pool := map[string]gixSeries{}
	for _, s := range poolList {
		pool[s.String()] = s
	}
	nOps := rg.Range(8, 22)
	crashAt := -1
	if crash {
		crashAt = rg.Range(nOps/2, nOps-1)
	}
	crashed := false
	for i := 0; i < nOps; i++ {
		op := c14GenOp(rg, h.m, poolList)
		if crash && !crashed && i >= crashAt {
			// the op to be torn is of the kind this crash history was assigned
			for tries := 0; tries < 80 && op.Kind != crashKind; tries++ {
				op = c14GenOp(rg, h.m, poolList)
			}
		}
		step := fmt.Sprintf("%s #%d", op.Kind, i)
		if crash && !crashed && i >= crashAt && (op.Kind == "create" || op.Kind == "drop_series" || op.Kind == "drop_measurement" || op.Kind == "compact") {
			crashed = h.crashOp(op, pool, step)
		} else {
			h.apply(op, pool)
		}
		h.check(step, "live")
	}
	h.apply(c14Op{Kind: "compact"}, pool)
	h.check("final compact", "live")
	h.apply(c14Op{Kind: "reopen"}, pool)
	h.check("final reopen", "live")
	for k, v := range h.x.Layout() {
		r.Event("final_index_files_"+k, int64(v))
	}
	kinds := map[string]bool{}
	for _, o := range h.ops {
		kinds[o.Kind] = true
	}
	r.Case(fmt.Sprintf("cache=%d|%+v|%v", cache, cfg, h.ops), (kinds["drop_series"] || kinds["drop_measurement"]) && kinds["create"])
	if r.WantSample() && no%13 == 0 && cache != 0 {
		r.Sample(map[string]any{"config": cfg, "ops": h.ops, "live_series_at_end": len(h.m.Live), "index_files_at_end": h.x.Layout()})
	}
}

// ---- crash images ----------------------------------------------------------------------------

type c14Image struct {
	ID      string `json:"id"`
	Family  string `json:"family"`  // torn_log | manifest_old_files_new | manifest_new_files_both
	File    string `json:"file"`    // torn .tsl file
	A       int    `json:"a"`       // start of the appended region
	B       int    `json:"b"`       // end
	Cut     int    `json:"cut"`     // bytes [A,Cut) survive
	Variant string `json:"variant"` // cut | zero | a5
	Others  string `json:"others"`  // other logs appended by the same op: pre | post
}

type c14Payload struct {
	SFilePre  bool // the op in flight was a drop: the series file is written after the index log
	Pre, Post c13Snap
	Cfg       c14Cfg
	Images    []c14Image
	Journal   string
	After     []gixSeries // series created after recovery
}

type c14ImgResult struct {
	Image     c14Image `json:"image"`
	OpenErr   string   `json:"open_err,omitempty"`
	Panic     string   `json:"panic,omitempty"`
	Recovered *c14Obs  `json:"recovered,omitempty"`
	AfterErr  string   `json:"after_err,omitempty"`
	Second    *c14Obs  `json:"second,omitempty"` // after creating After and a second restart
}

func (p *c14Payload) build(im c14Image) c13Snap {
	out := c13Snap{}
	isLog := func(rel string) bool { return strings.HasSuffix(rel, ".tsl") }
	switch im.Family {
	case "manifest_old_files_new":
		// a compaction wrote its new files but died before the manifest was replaced
		for rel, f := range p.Post {
			out[rel] = f
		}
		for rel, f := range p.Pre {
			out[rel] = f // old manifest, old files (new ones stay as unknown extras)
		}
		return out
	case "manifest_new_files_both":
		// the manifest was replaced but the superseded files were not removed yet
		for rel, f := range p.Pre {
			out[rel] = f
		}
		for rel, f := range p.Post {
			out[rel] = f
		}
		return out
	}
	// torn_log: everything else as after the op; logs appended by the op: the torn one, the
	// others per Others. Series file: a create syncs it BEFORE the log entry is written (post
	// state); a drop tombstones it AFTER the index entries (pre state).
	for rel, f := range p.Post {
		out[rel] = f
	}
	if p.SFilePre {
		for rel, f := range p.Pre {
			if strings.HasPrefix(rel, "_series"+string(filepath.Separator)) {
				out[rel] = f
			}
		}
	}
	if im.Others == "pre" {
		for rel, f := range p.Pre {
			if isLog(rel) && rel != im.File {
				out[rel] = f
			}
		}
	}
	post := p.Post[im.File]
	data := append([]byte(nil), post.Data...)
	for int64(len(data)) < post.Size {
		data = append(data, 0)
	}
	switch im.Variant {
	case "cut":
		data = data[:im.Cut]
	case "zero":
		for i := im.Cut; i < im.B && i < len(data); i++ {
			data[i] = 0
		}
	case "a5":
		for i := im.Cut; i < im.B && i < len(data); i++ {
			data[i] = 0xA5
		}
	}
	out[im.File] = c13File{Data: data, Size: int64(len(data))}
	return out
}

func c14ChildImages(payload []byte) ([]byte, error) {
	var p c14Payload
	if err := json.Unmarshal(payload, &p); err != nil {
		return nil, err
	}
	jf, err := os.OpenFile(p.Journal, os.O_CREATE|os.O_WRONLY|os.O_APPEND, 0o644)
	if err != nil {
		return nil, err
	}
	defer jf.Close()
	root, err := gixTempDir("c14img")
	if err != nil {
		return nil, err
	}
	defer os.RemoveAll(root)
	var out []c14ImgResult
	for i, im := range p.Images {
		fmt.Fprintf(jf, "%d\n", i)
		dir := filepath.Join(root, fmt.Sprint(i))
		if err := c13Materialize(dir, p.build(im)); err != nil {
			return nil, err
		}
		out = append(out, c14CheckImage(dir, &p, im))
		os.RemoveAll(dir)
	}
	return json.Marshal(out)
}

func c14CheckImage(dir string, p *c14Payload, im c14Image) (res c14ImgResult) {
	res.Image = im
	defer func() {
		if e := recover(); e != nil {
			var keep []string
			for _, l := range strings.Split(string(debug.Stack()), "\n") {
				if strings.Contains(l, "influxdb/v2/") && !strings.HasPrefix(l, "\t") {
					keep = append(keep, strings.TrimSpace(l))
				}
			}
			if len(keep) > 6 {
				keep = keep[:6]
			}
			res.Panic = fmt.Sprintf("panic: %v | %s", e, strings.Join(keep, " <- "))
		}
	}()
	x, err := gixOpen(dir, 1<<20, p.Cfg.Cache, p.Cfg.PartN)
	if err != nil {
		res.OpenErr = err.Error()
		return
	}
	x.Quiesce()
	res.Recovered = c14Observe(x)
	if err := x.Create(p.After); err != nil {
		res.AfterErr = "create: " + err.Error()
		x.Close()
		return
	}
	x.Idx.Wait()
	if err := x.Reopen(); err != nil {
		res.AfterErr = "second restart: " + err.Error()
		return
	}
	x.Quiesce()
	res.Second = c14Observe(x)
	x.Close()
	return
}

func c14Union(o *c14Obs) map[string]bool {
	u := map[string]bool{}
	for _, ss := range o.MSeries {
		for _, s := range ss {
			u[s] = true
		}
	}
	return u
}

// crashOp applies op with directory snapshots around it and checks the torn states in children.
// Returns false when the op did not lend itself to enumeration (nothing appended, or the file
// layout changed under it) so that a later op is taken.
func (h *c14Hist) crashOp(op c14Op, pool map[string]gixSeries, step string) bool {
	if !h.quiesce() {
		h.apply(op, pool)
		return false
	}
	pre, err := c13TakeSnap(h.x.Dir)
	if err != nil {
		h.t.Fatal(err)
	}
	obsPre := c14Observe(h.x)
	preLive := map[string]gixSeries{}
	for k, v := range h.m.Live {
		preLive[k] = v
	}
	// the op must not roll the log or compact by itself: raise the threshold for its duration
	if op.Kind != "compact" {
		h.setMaxLog(1 << 20)
		h.x.HoldLog = true
	}
	h.apply(op, pool)
	h.quiesce()
	post, err := c13TakeSnap(h.x.Dir)
	if err != nil {
		h.t.Fatal(err)
	}
	if op.Kind != "compact" {
		h.x.HoldLog = false
		h.setMaxLog(h.cfg.MaxLog)
	}
	postLive := map[string]gixSeries{}
	for k, v := range h.m.Live {
		postLive[k] = v
	}
	var images []c14Image
	opName := fmt.Sprintf("%s#%d", op.Kind, len(h.ops))
	if op.Kind == "compact" {
		changed := false
		for rel := range post {
			if _, ok := pre[rel]; !ok {
				changed = true
			}
		}
		if !changed {
			return false
		}
		images = append(images, c14Image{ID: opName + "/old-manifest+new-files", Family: "manifest_old_files_new"},
			c14Image{ID: opName + "/new-manifest+old-files", Family: "manifest_new_files_both"})
	} else {
		var logs []string
		for rel, pf := range post {
			if _, _, ch := c13Region(pre[rel], pf); !ch {
				continue
			}
			switch {
			case strings.HasSuffix(rel, ".tsl"):
				if _, ok := pre[rel]; !ok && len(pf.Data) == 0 {
					continue
				}
				logs = append(logs, rel)
			case strings.HasPrefix(rel, "_series"+string(filepath.Separator)), strings.HasPrefix(rel, "fields"):
			default:
				h.r.Event("crash_op_skipped_layout_changed", 1)
				return false
			}
		}
		sort.Strings(logs)
		for _, rel := range logs {
			a := len(pre[rel].Data)
			if int64(a) < pre[rel].Size {
				a = int(pre[rel].Size)
			}
			b := int(post[rel].Size)
			others := []string{"post"}
			if len(logs) > 1 {
				others = append(others, "pre")
			}
			for _, o := range others {
				for c := a; c <= b; c++ { // EVERY byte of the appended log region (thorough)
					for _, v := range []string{"cut", "zero", "a5"} {
						if c == b && v != "cut" {
							continue
						}
						if h.r.Quick() {
							// quick tier: the clean cut (what a torn append to a growing file
							// leaves) at every byte of the first 80 and last 30 bytes of the region
							// and every 5th byte in between; fills and the "other logs not yet
							// written" family at a stride
							d := c - a
							if b-a > 120 && d > 80 && b-c > 30 && d%5 != 0 {
								continue
							}
							if v != "cut" && d%8 != 1 {
								continue
							}
							if o == "pre" && (v != "cut" || d%6 != 0) {
								continue
							}
						}
						images = append(images, c14Image{ID: fmt.Sprintf("%s/%s@%d/%s/others=%s", opName, rel, c, v, o), Family: "torn_log", File: rel, A: a, B: b, Cut: c, Variant: v, Others: o})
					}
				}
			}
			h.r.Event("torn_log_regions", 1)
			h.r.Event("torn_log_bytes", int64(b-a))
		}
	}
	if len(images) == 0 {
		return false
	}
	if h.r.Quick() && len(images) > 160 {
		// quick tier: a drop that appends hundreds of bytes to several logs is thinned evenly to
		// about 160 images (thorough keeps every byte)
		k := (len(images) + 159) / 160
		var thin []c14Image
		for i, im := range images {
			if i%k == 0 {
				thin = append(thin, im)
			}
		}
		h.r.Event("quick_images_thinned_away", int64(len(images)-len(thin)))
		images = thin
	}
	h.r.Event("ops_with_crash_enumeration_"+op.Kind, 1)
	hc := *h
	hc.ops = append([]c14Op(nil), h.ops...)
	mc := *h.m
	hc.m = &mc // Ever* maps only grow; sharing them is sound for classification
	after := []gixSeries{{"m0", map[string]string{"k0": "zz"}}, {"post crash", map[string]string{"k1": "a"}}}
	for _, s := range after {
		h.m.EverSer[s.String()] = true
	}
	c14Queue(&c14Job{baseline: []*c14Obs{obsPre, c14Observe(h.x)}, h: &hc, pre: pre, post: post, preLive: preLive, postLive: postLive, images: images, op: op, after: after, step: step})
	return true
}

type c14Job struct {
	baseline          []*c14Obs // what the live index listed right before and after the op
	h                 *c14Hist
	pre, post         c13Snap
	preLive, postLive map[string]gixSeries
	images            []c14Image
	op                c14Op
	after             []gixSeries
	step              string
}

var c14Jobs []*c14Job

func c14Queue(j *c14Job) {
	c14Jobs = append(c14Jobs, j)
	n := 0
	for _, q := range c14Jobs {
		n += len(q.images)
	}
	if n >= 800 {
		c14Drain(j.h.r)
	}
}

func c14Drain(r *vkit.Run) {
	if len(c14Jobs) == 0 {
		return
	}
	t0 := time.Now()
	jdir, err := gixTempDir("c14j")
	if err != nil {
		panic(err)
	}
	defer os.RemoveAll(jdir)
	const chunk = 16
	sem := make(chan struct{}, 12)
	var wg sync.WaitGroup
	ci := 0
	for _, j := range c14Jobs {
		for i := 0; i < len(j.images); i += chunk {
			e := i + chunk
			if e > len(j.images) {
				e = len(j.images)
			}
			ci++
			wg.Add(1)
			sem <- struct{}{}
			go func(j *c14Job, ch []c14Image, ci int) {
				defer wg.Done()
				defer func() { <-sem }()
				j.runChunk(ch, filepath.Join(jdir, fmt.Sprintf("journal%d", ci)))
			}(j, j.images[i:e], ci)
		}
	}
	wg.Wait()
	c14Jobs = nil
	r.Event("ms_in_crash_children", time.Since(t0).Milliseconds())
}

func (j *c14Job) runChunk(images []c14Image, journal string) {
	h := j.h
	for len(images) > 0 {
		os.Remove(journal)
		pl, _ := json.Marshal(c14Payload{SFilePre: j.op.Kind != "create" && j.op.Kind != "compact", Pre: j.pre, Post: j.post, Cfg: h.cfg, Images: images, Journal: journal, After: j.after})
		res, err := vkit.RunChild("c14img", pl, 10*time.Minute)
		if err != nil {
			h.t.Errorf("C14: child: %v", err)
			return
		}
		var out []c14ImgResult
		json.Unmarshal(res.Out, &out)
		for _, ir := range out {
			j.judge(ir)
		}
		if res.TimedOut {
			h.r.Inconclusive("crash-image child watchdog")
			return
		}
		if res.HandlerError {
			h.t.Errorf("C14: child handler error: %s", res.Log)
			return
		}
		if !res.Crashed() {
			h.r.Event("crash_images", int64(len(images)))
			return
		}
		jb, _ := os.ReadFile(journal)
		lines := strings.Fields(string(jb))
		idx := 0
		if len(lines) > 0 {
			fmt.Sscan(lines[len(lines)-1], &idx)
		}
		im := images[idx]
		log := string(res.Log)
		first := log
		if i := strings.Index(log, "\ngoroutine "); i > 0 {
			first = log[:i]
		}
		if len(log) > 6000 {
			log = log[:6000]
		}
		h.r.Event("image_crashes", 1)
		h.rep.Violation("reopen_crashed", map[string]string{"family": im.Family, "variant": im.Variant, "in_flight": j.op.Kind, "panic": c13PanicKind(first)},
			c14Wit{Cfg: h.cfg, Ops: h.ops, Step: j.step + " crash image " + im.ID, Image: im, Detail: strings.TrimSpace(first) + "\n" + log})
		h.r.Event("crash_images", int64(idx+1))
		images = images[idx+1:]
	}
}

// judge applies the crash rule to one recovered image.
func (j *c14Job) judge(ir c14ImgResult) {
	h := j.h
	im := ir.Image
	feat := func(kind string) map[string]string {
		return map[string]string{"family": im.Family, "variant": im.Variant, "in_flight": j.op.Kind, "kind": kind}
	}
	wit := func(detail string, diffs []c14Diff) c14Wit {
		return c14Wit{Cfg: h.cfg, Ops: h.ops, Step: j.step + " crash image " + im.ID, Image: im, Detail: detail, Diffs: diffs}
	}
	if ir.Panic != "" {
		f := feat("panic")
		f["site"] = c13PanicSite(ir.Panic)
		h.rep.Violation("reopen_panicked", f, wit(ir.Panic, nil))
		return
	}
	if ir.OpenErr != "" {
		h.rep.Violation("reopen_failed", feat("open_error"), wit(ir.OpenErr, nil))
		return
	}
	// bracket: every op acknowledged before the image is reflected; of the op in flight any part
	lo, hi := j.preLive, j.postLive
	if len(hi) < len(lo) || j.op.Kind == "drop_series" || j.op.Kind == "drop_measurement" {
		lo, hi = j.postLive, j.preLive
	}
	if im.Family != "torn_log" { // a compaction changes nothing
		lo, hi = j.postLive, j.postLive
	}
	// the recovered series set itself must lie in the bracket …
	rec := c14Union(ir.Recovered)
	var missing, extra []string
	for s := range lo {
		if !rec[s] {
			missing = append(missing, s)
		}
	}
	for s := range rec {
		if _, ok := hi[s]; !ok {
			extra = append(extra, s)
		}
	}
	sort.Strings(missing)
	sort.Strings(extra)
	if len(missing) > 0 {
		h.rep.Violation("acked_series_lost", feat("missing"), wit(fmt.Sprintf("series acknowledged before the image are not in the recovered index: %v", missing), nil))
	}
	if len(extra) > 0 && !h.cfg.KeepSF {
		h.rep.Violation("unexpected_series_recovered", feat("extra"), wit(fmt.Sprintf("recovered index lists series outside the acknowledged+in-flight set: %v", extra), nil))
	}
	// … and every other answer must be consistent with bounds derived from the bracket
	hiE := j.withBaseline(c14Derive(hi))
	diffs := c14Compare(ir.Recovered, c14Derive(lo), hiE, h.m)
	j.reportImage(diffs, "crash_image", im)
	if ir.AfterErr != "" {
		h.rep.Violation("write_after_recovery_failed", feat("after"), wit(ir.AfterErr, nil))
		return
	}
	if ir.Second != nil {
		lo2, hi2 := map[string]gixSeries{}, map[string]gixSeries{}
		for k, v := range lo {
			lo2[k] = v
		}
		for k, v := range hi {
			hi2[k] = v
		}
		for _, s := range j.after {
			lo2[s.String()], hi2[s.String()] = s, s
		}
		// whatever part of an in-flight create was recovered must still be there after the
		// restart (for drops the series iterators are supersets while the series file still
		// holds the series, so the recovered set says nothing about what must stay)
		if j.op.Kind == "create" {
			for s := range rec {
				if v, ok := hi[s]; ok {
					lo2[s] = v
				}
			}
		}
		d2 := c14Compare(ir.Second, c14Derive(lo2), j.withBaseline(c14Derive(hi2)), h.m)
		j.reportImage(d2, "crash_image_second_restart", im)
	}
	h.r.Event("images_judged", 1)
}

// withBaseline widens the upper bound by the tag keys and values the live index already listed
// around the op: staleness that predates the crash is reported by the live phase, not per image.
func (j *c14Job) withBaseline(e *c14Expect) *c14Expect {
	for _, o := range j.baseline {
		for n, ks := range o.Keys {
			for _, k := range ks {
				if e.Keys[n] == nil {
					e.Keys[n] = map[string]bool{}
				}
				e.Keys[n][k] = true
			}
		}
		for nk, vs := range o.Vals {
			for _, v := range vs {
				if e.Vals[nk] == nil {
					e.Vals[nk] = map[string]bool{}
				}
				e.Vals[nk][v] = true
			}
		}
	}
	return e
}

func (j *c14Job) reportImage(diffs []c14Diff, phase string, im c14Image) {
	h := j.h
	seen := map[string]bool{}
	for _, d := range diffs {
		k := d.Iterator + "/" + d.Kind
		if seen[k] {
			continue
		}
		seen[k] = true
		f := h.feat(d, phase)
		f["family"], f["variant"], f["in_flight"] = im.Family, im.Variant, j.op.Kind
		if d.Subject != "" {
			name := strings.SplitN(d.Subject, "|", 2)[0]
			f["measurement"] = "dropped"
			for _, l := range []map[string]gixSeries{j.preLive, j.postLive} {
				for _, s := range l {
					if s.Name == name {
						f["measurement"] = "live"
					}
				}
			}
		}
		h.rep.Violation("index_metadata_mismatch", f, c14Wit{Cfg: h.cfg, Ops: h.ops, Step: j.step + " crash image " + im.ID, Diffs: []c14Diff{d}, Image: im})
	}
}

func TestC14(t *testing.T) {
	r := vkit.Start(t, "C14", "fault_enumeration")
	defer r.Finish()
	r.Rule("case = one history of 8–22 ops (create 1–5 series from a pool of 42 over 3 measurements × 3 escape-heavy tag keys × 3 values; drop series the way the engine does: Index.DropSeries (cascade flag random) + DropMeasurementIfSeriesNotExist + series-file tombstone; drop measurement = drop all its series; Compact()+Wait() until quiescent; close+reopen) on a real tsi1.Index (MaxLogFileSize 1 B–1 MB so that logs roll into index files and level compactions happen, 1/2/8 partitions), run twice: tag-value cache 100 and 0. After every op every answer of MeasurementIterator, MeasurementExists, TagKeyIterator, HasTagKey, TagValueIterator, HasTagValue and the three series-id iterators (through tsdb.IndexSet) is compared with the model of the live series. Observations are made at quiescent step boundaries (no compaction running or pending). 3 (quick) / 30 (thorough) crash histories: one op of an assigned kind (create / drop series / drop measurement / compaction) has the directory copied before/after, every .tsl the op appended to is torn at every byte in thorough (quick: ≈160 images per op — clean cut at every byte of small regions, larger regions and the zero/0xA5 fills thinned; other logs before/after; series file as the real write order implies), compactions get the two manifest-boundary images, each image is reopened in a child process, observed, written to, restarted again. non-trivial = history creates and drops; distinct = (cache, config, op list)")
	r.Assume("a dropped series is also tombstoned in the series file (single-shard behaviour of the engine) except in histories marked series_file=kept, which model a series that other shards still hold",
		"crash rule: the recovered series set lies between the state before and after the op in flight and every other answer lies between the answers derived from those two states; compaction changes nothing")
	rep := newGixReporter(r, 1)
	n := gixN(r, 30, 200)
	crashN := r.N(3, 20)
	every := n / crashN
	if every < 1 {
		every = 1
	}
	kinds := []string{"create", "drop_series", "drop_measurement", "compact"}
	for i := 0; i < n; i++ {
		ck := ""
		if i%every == 0 {
			ck = kinds[(i/every)%len(kinds)]
		}
		c14RunHistory(t, r, rep, i, 100, ck)
		c14RunHistory(t, r, rep, i, 0, "")
	}
	c14Drain(r)
}
