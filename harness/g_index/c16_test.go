package g_index

import (
	"fmt"
	"sort"
	"strings"
	"testing"

	"github.com/influxdata/influxdb/v2"
	"github.com/influxdata/influxdb/v2/models"
	"github.com/influxdata/influxdb/v2/predicate"
	"github.com/influxdata/influxdb/v2/storage/reads/datatypes"
	"github.com/influxdata/influxdb/v2/tsdb"
	"github.com/influxdata/influxdb/v2/tsdb/engine/tsm1"

	"verifharness/vkit"
)

// C16 — delete predicates match exactly the series they describe (DESIGN §5 C16).
//
// Oracle: an independent three-valued evaluator over (measurement, tags). A comparison on a tag
// the series carries is true/false by string comparison. For a tag the series does not carry the
// two documented readings (InfluxQL: absent tag compares as "", Flux/storage: null never matches)
// agree for `= "<non-empty>"` (false) and `!= ""` (false, no match) and disagree for
// `!= "<non-empty>"` and `= ""`: those leaves are "either". AND/OR are combined Kleene-style, so
// a definite verdict is one both readings share; an "either" root is not asserted.

// ---- domain ------------------------------------------------------------------------------

var (
	// names: plain, space, comma, '=' (looks like the tag pair k1=v1), '=' (other)
	c16Names = []string{"m0", "m 1", "m,2", "k1=v1", "m=3"}
	// tag keys: plain, space, comma, '='
	c16Keys = []string{"k1", "k 2", "k,3", "k=4"}
	// tag values per key (index 0 = absent)
	c16Vals = []string{"v1", "v 2", "v,3", "v=4"}
	// literals used in predicates (values, names, one foreign, one with interior backslash, empty)
	c16Lits = []string{"v1", "v 2", "v,3", "v=4", "m0", "m 1", "m,2", "k1=v1", "m=3", "zz", ""}
	// keys used in predicates
	c16PredKeys = []string{"k1", "k 2", "k,3", "k=4", "_measurement", "_field", "nokey", "m", "m=3"}
	c16Fields   = []string{"f", "f 1", "value"}
)

type c16Series struct {
	Name string
	Tags map[string]string
}

func (s c16Series) String() string {
	ks := make([]string, 0, len(s.Tags))
	for k := range s.Tags {
		ks = append(ks, k)
	}
	sort.Strings(ks)
	var b strings.Builder
	fmt.Fprintf(&b, "%q", s.Name)
	for _, k := range ks {
		fmt.Fprintf(&b, " %q=%q", k, s.Tags[k])
	}
	return b.String()
}

// all series over the domain: 5 names × (absent|3 of 4 values)^4 keys, value choice rotated per key
func c16AllSeries() []c16Series {
	var out []c16Series
	for _, n := range c16Names {
		for code := 0; code < 4*4*4*4; code++ {
			c := code
			tags := map[string]string{}
			for ki, k := range c16Keys {
				d := c % 4
				c /= 4
				if d == 0 {
					continue
				}
				tags[k] = c16Vals[(d-1+ki)%len(c16Vals)]
			}
			out = append(out, c16Series{n, tags})
		}
	}
	return out
}

// ---- predicates --------------------------------------------------------------------------

type c16Pred struct {
	Op   string // "=", "!=", "AND", "OR"
	Key  string
	Val  string
	L, R *c16Pred
}

func (p *c16Pred) leaf() bool { return p.L == nil }

func c16Quote(s string) string {
	s = strings.ReplaceAll(s, `\`, `\\`)
	s = strings.ReplaceAll(s, `"`, `\"`)
	return `"` + s + `"`
}

// String renders the predicate in the delete-predicate string syntax (double-quoted identifiers).
func (p *c16Pred) String() string {
	if p.leaf() {
		return c16Quote(p.Key) + " " + p.Op + " " + c16Quote(p.Val)
	}
	return "(" + p.L.String() + " " + p.Op + " " + p.R.String() + ")"
}

func (p *c16Pred) hasOr() bool {
	if p.leaf() {
		return false
	}
	return p.Op == "OR" || p.L.hasOr() || p.R.hasOr()
}
func (p *c16Pred) hasEmptyLit() bool {
	if p.leaf() {
		return p.Val == ""
	}
	return p.L.hasEmptyLit() || p.R.hasEmptyLit()
}
func (p *c16Pred) depth() int {
	if p.leaf() {
		return 1
	}
	a, b := p.L.depth(), p.R.depth()
	if b > a {
		a = b
	}
	return a + 1
}
func (p *c16Pred) keys(m map[string]bool) {
	if p.leaf() {
		m[p.Key] = true
		return
	}
	p.L.keys(m)
	p.R.keys(m)
}

// flat AND chain rendering without parentheses: a AND b AND c (what users type)
func (p *c16Pred) flatAnd() (string, bool) {
	if p.leaf() {
		return p.String(), true
	}
	if p.Op != "AND" {
		return "", false
	}
	// the parser builds left-nested chains; only left-nested trees keep their shape when flattened
	if !p.R.leaf() {
		return "", false
	}
	l, ok := p.L.flatAnd()
	if !ok {
		return "", false
	}
	return l + " AND " + p.R.String(), true
}

func c16Gen(rg *vkit.Rand, depth int, andOnly bool) *c16Pred {
	if depth <= 1 || rg.Chance(1, 4) {
		op := "="
		if rg.Chance(2, 5) {
			op = "!="
		}
		k := vkit.Pick(rg, c16PredKeys)
		var v string
		if k == "_measurement" && rg.Chance(3, 4) {
			v = vkit.Pick(rg, c16Names)
		} else if rg.Chance(3, 4) {
			v = c16Vals[rg.Intn(len(c16Vals))]
		} else {
			v = vkit.Pick(rg, c16Lits)
		}
		return &c16Pred{Op: op, Key: k, Val: v}
	}
	op := "AND"
	if !andOnly && rg.Bool() {
		op = "OR"
	}
	return &c16Pred{Op: op, L: c16Gen(rg, depth-1, andOnly), R: c16Gen(rg, depth-1, andOnly)}
}

func (p *c16Pred) proto() *datatypes.Node {
	if p.leaf() {
		cmp := datatypes.Node_ComparisonEqual
		if p.Op == "!=" {
			cmp = datatypes.Node_ComparisonNotEqual
		}
		k := p.Key
		switch k {
		case "_measurement":
			k = models.MeasurementTagKey
		case "_field":
			k = models.FieldKeyTagKey
		}
		return &datatypes.Node{
			NodeType: datatypes.Node_TypeComparisonExpression,
			Value:    &datatypes.Node_Comparison_{Comparison: cmp},
			Children: []*datatypes.Node{
				{NodeType: datatypes.Node_TypeTagRef, Value: &datatypes.Node_TagRefValue{TagRefValue: k}},
				{NodeType: datatypes.Node_TypeLiteral, Value: &datatypes.Node_StringValue{StringValue: p.Val}},
			},
		}
	}
	lg := datatypes.Node_LogicalAnd
	if p.Op == "OR" {
		lg = datatypes.Node_LogicalOr
	}
	return &datatypes.Node{
		NodeType: datatypes.Node_TypeLogicalExpression,
		Value:    &datatypes.Node_Logical_{Logical: lg},
		Children: []*datatypes.Node{p.L.proto(), p.R.proto()},
	}
}

// ---- oracle ------------------------------------------------------------------------------

type c16Truth int8

const (
	c16F c16Truth = iota
	c16T
	c16E // either: the documented readings of a comparison on an absent tag disagree
)

func (t c16Truth) String() string { return [...]string{"false", "true", "either"}[t] }

// view: the tag pairs a key form exposes to the matcher ("_measurement" only when the index-side
// key synthesises it; "_field" never: OSS series keys carry no field tag).
func c16Eval(p *c16Pred, name string, tags map[string]string, withMeasurement bool) c16Truth {
	if p.leaf() {
		var v string
		var has bool
		switch p.Key {
		case "_measurement":
			v, has = name, withMeasurement
		case "_field":
			has = false
		default:
			v, has = tags[p.Key]
		}
		if has {
			if (v == p.Val) == (p.Op == "=") {
				return c16T
			}
			return c16F
		}
		if p.Op == "=" {
			if p.Val == "" {
				return c16E
			}
			return c16F
		}
		if p.Val == "" {
			return c16F
		}
		return c16E
	}
	l, r := c16Eval(p.L, name, tags, withMeasurement), c16Eval(p.R, name, tags, withMeasurement)
	if p.Op == "AND" {
		if l == c16F || r == c16F {
			return c16F
		}
		if l == c16T && r == c16T {
			return c16T
		}
		return c16E
	}
	if l == c16T || r == c16T {
		return c16T
	}
	if l == c16F && r == c16F {
		return c16F
	}
	return c16E
}

func c16OracleSelfTest(t *testing.T) {
	eq := func(k, v string) *c16Pred { return &c16Pred{Op: "=", Key: k, Val: v} }
	ne := func(k, v string) *c16Pred { return &c16Pred{Op: "!=", Key: k, Val: v} }
	and := func(a, b *c16Pred) *c16Pred { return &c16Pred{Op: "AND", L: a, R: b} }
	or := func(a, b *c16Pred) *c16Pred { return &c16Pred{Op: "OR", L: a, R: b} }
	tags := map[string]string{"a": "1", "b": "2"}
	for i, c := range []struct {
		p    *c16Pred
		want c16Truth
	}{
		{eq("a", "1"), c16T}, {eq("a", "2"), c16F}, {ne("a", "2"), c16T}, {ne("a", "1"), c16F},
		{eq("c", "1"), c16F}, {ne("c", "1"), c16E}, {eq("c", ""), c16E}, {ne("c", ""), c16F},
		{eq("_measurement", "m"), c16T}, {ne("_measurement", "m"), c16F}, {eq("_field", "f"), c16F},
		{and(eq("a", "1"), eq("b", "2")), c16T}, {and(eq("a", "1"), eq("b", "3")), c16F},
		{and(eq("a", "1"), ne("c", "x")), c16E}, {and(eq("a", "9"), ne("c", "x")), c16F},
		{or(eq("a", "9"), eq("b", "2")), c16T}, {or(eq("a", "9"), eq("b", "9")), c16F},
		{or(eq("a", "9"), ne("c", "x")), c16E}, {or(eq("a", "1"), ne("c", "x")), c16T},
	} {
		if got := c16Eval(c.p, "m", tags, true); got != c.want {
			t.Fatalf("C16 oracle self-test %d: %s => %v, want %v", i, c.p, got, c.want)
		}
	}
}

// ---- subject -----------------------------------------------------------------------------

type c16Wit struct {
	Predicate string            `json:"predicate"`
	Path      string            `json:"path"`
	KeyForm   string            `json:"key_form"`
	Key       string            `json:"key"`
	Name      string            `json:"measurement"`
	Tags      map[string]string `json:"tags"`
	Want      string            `json:"oracle"`
	Got       bool              `json:"matches"`
	Parsed    string            `json:"parsed_from,omitempty"`
}

func c16Special(s string) bool { return strings.ContainsAny(s, " ,=\\") }

// trigger names the narrowest input feature present in a failing pair.
func c16Trigger(p *c16Pred, s c16Series) string {
	if strings.Contains(s.Name, "=") {
		return "measurement_contains_equals"
	}
	if c16Special(s.Name) {
		return "measurement_escaped"
	}
	ks := map[string]bool{}
	p.keys(ks)
	for k := range ks {
		if c16Special(k) {
			return "tag_key_escaped"
		}
	}
	for k, v := range s.Tags {
		if c16Special(k) || c16Special(v) {
			return "series_tag_escaped"
		}
	}
	return "plain"
}

type c16KeyForm struct {
	name  string
	withM bool
	build func(s c16Series, field string) []byte
}

var c16KeyForms = []c16KeyForm{
	// what tsdb.PredicateSeriesIDIterator hands to Matches
	{"index_synthetic", true, func(s c16Series, _ string) []byte {
		tags := append(models.Tags{{Key: models.MeasurementTagKeyBytes, Value: []byte(s.Name)}}, models.NewTags(s.Tags)...)
		return models.MakeKey([]byte(s.Name), tags)
	}},
	// same key as a TSM composite key
	{"index_synthetic_field", true, func(s c16Series, f string) []byte {
		tags := append(models.Tags{{Key: models.MeasurementTagKeyBytes, Value: []byte(s.Name)}}, models.NewTags(s.Tags)...)
		return tsm1.SeriesFieldKeyBytes(string(models.MakeKey([]byte(s.Name), tags)), f)
	}},
	// the raw TSM composite key of an OSS series (no measurement tag)
	{"tsm_composite", false, func(s c16Series, f string) []byte {
		return tsm1.SeriesFieldKeyBytes(string(models.MakeKey([]byte(s.Name), models.NewTags(s.Tags))), f)
	}},
}

func TestC16(t *testing.T) {
	r := vkit.Start(t, "C16", "exploration")
	defer r.Finish()
	c16OracleSelfTest(t)
	r.Rule("case = one predicate tree (depth ≤ 3 over = != AND OR, keys incl. _measurement/_field/absent/escape-heavy) evaluated against ALL 1280 series of the domain (5 names incl. space/comma/'=' × 4 escape-heavy tag keys × absent|3 values) through: protobuf tree → NewProtobufPredicate → Matches on 3 key forms; AND-only trees also predicate.Parse → predicate.New → Matches; and tsdb.NewPredicateSeriesIDIterator over a real series file. non-trivial = oracle says true for ≥1 and false for ≥1 series; distinct = predicate text")
	r.Assume("comparison on a tag the series lacks: '= non-empty' is false, '!= \"\"' is false; '!= non-empty' and '= \"\"' are not asserted (InfluxQL empty-string reading and storage null reading disagree)",
		"series keys are OSS keys (measurement,tags#!~#field): no \\xff field tag, so _field comparisons see an absent tag",
		"tag values ending in a backslash are excluded (line protocol cannot represent them: C11)")
	n := r.N(1500, 8000)

	series := c16AllSeries()
	// real series file holding every series of the domain
	sfile := tsdb.NewSeriesFile(t.TempDir())
	if err := sfile.Open(); err != nil {
		t.Fatal(err)
	}
	defer sfile.Close()
	names := make([][]byte, len(series))
	tagss := make([]models.Tags, len(series))
	for i, s := range series {
		names[i] = []byte(s.Name)
		tagss[i] = models.NewTags(s.Tags)
	}
	ids, err := sfile.CreateSeriesListIfNotExists(names, tagss)
	if err != nil {
		t.Fatal(err)
	}
	idIdx := map[uint64]int{}
	for i, id := range ids {
		if id == 0 || idIdx[id] != 0 {
			t.Fatalf("series file setup: id %d for series %d", id, i)
		}
		idIdx[id] = i + 1
	}
	sorted := append([]uint64(nil), ids...)
	sort.Slice(sorted, func(i, j int) bool { return sorted[i] < sorted[j] })

	rep := newGixReporter(r, 2)
	report := func(p *c16Pred, path, form string, key []byte, s c16Series, want c16Truth, got bool, parsed string) {
		rep.Violation("predicate_mismatch", map[string]string{"path": path, "key_form": form, "trigger": c16Trigger(p, s),
			"expected": want.String()},
			c16Wit{Predicate: p.String(), Path: path, KeyForm: form, Key: string(key), Name: s.Name, Tags: s.Tags, Want: want.String(), Got: got, Parsed: parsed})
	}

	checkMatcher := func(p *c16Pred, m influxdb.Predicate, path, parsed string, caseNo int) (nT, nF, nE int) {
		for si, s := range series {
			field := c16Fields[(si+caseNo)%len(c16Fields)]
			for _, kf := range c16KeyForms {
				want := c16Eval(p, s.Name, s.Tags, kf.withM)
				key := kf.build(s, field)
				got := m.Matches(key)
				r.Event("pairs_"+path, 1)
				switch want {
				case c16E:
					nE++
					if got {
						r.Event("either_matched", 1)
					} else {
						r.Event("either_unmatched", 1)
					}
				case c16T:
					nT++
					if !got {
						report(p, path, kf.name, key, s, want, got, parsed)
					}
				case c16F:
					nF++
					if got {
						report(p, path, kf.name, key, s, want, got, parsed)
					}
				}
			}
		}
		return
	}

	for i := 0; i < n; i++ {
		rg := r.Rand(i)
		andOnly := i%3 == 1
		p := c16Gen(rg, rg.Range(1, 3), andOnly)
		if i < len(c16Seeds) {
			p = c16Seeds[i]
		}
		m, err := tsm1.NewProtobufPredicate(&datatypes.Predicate{Root: p.proto()})
		if err != nil {
			r.Violation("compile_error", map[string]string{"path": "proto"}, map[string]string{"predicate": p.String(), "err": err.Error()})
			continue
		}
		nT, nF, _ := checkMatcher(p, m, "proto", "", i)
		// clone must behave the same (it is what concurrent deletes use)
		if i%7 == 0 {
			checkMatcher(p, m.Clone(), "proto_clone", "", i)
		}
		// marshal → unmarshal round trip is what a stored tombstone predicate goes through
		if i%5 == 0 {
			if b, err := m.Marshal(); err == nil {
				if m2, err := tsm1.UnmarshalPredicate(b); err == nil && m2 != nil {
					checkMatcher(p, m2, "proto_marshal", "", i)
				} else {
					r.Violation("compile_error", map[string]string{"path": "unmarshal"}, map[string]string{"predicate": p.String(), "err": fmt.Sprint(err)})
				}
			}
		}

		// user path: string → Parse → New (AND only; empty literals cannot be written as idents)
		if !p.hasOr() {
			texts := []string{p.String()}
			if fl, ok := p.flatAnd(); ok && !p.leaf() {
				texts = append(texts, fl)
			}
			for _, txt := range texts {
				node, err := predicate.Parse(txt)
				if err != nil {
					r.Event("parse_rejected", 1)
					if r.EventCount("parse_rejected") <= 3 {
						r.Extra(fmt.Sprintf("parse_rejected_%d", r.EventCount("parse_rejected")), txt+" :: "+err.Error())
					}
					continue
				}
				pm, err := predicate.New(node)
				if err != nil || pm == nil {
					r.Event("parse_new_rejected", 1)
					continue
				}
				r.Event("parsed", 1)
				checkMatcher(p, pm, "parsed", txt, i)
			}
		}

		// index side: the iterator DeleteSeriesWithPredicate puts in front of DeleteSeriesRange
		itr := tsdb.NewPredicateSeriesIDIterator(tsdb.NewSeriesIDSliceIterator(append([]uint64(nil), sorted...)), sfile, m)
		got := map[int]bool{}
		for {
			e, err := itr.Next()
			if err != nil {
				t.Fatal(err)
			}
			if e.SeriesID == 0 {
				break
			}
			got[idIdx[e.SeriesID]-1] = true
		}
		itr.Close()
		for si, s := range series {
			want := c16Eval(p, s.Name, s.Tags, true)
			r.Event("pairs_index_iterator", 1)
			if (want == c16T && !got[si]) || (want == c16F && got[si]) {
				key := c16KeyForms[0].build(s, "")
				report(p, "index_iterator", "index_synthetic", key, s, want, got[si], "")
			}
		}

		r.Case(p.String(), nT > 0 && nF > 0)
		if r.WantSample() && i >= len(c16Seeds) && i%17 == 0 {
			s := series[rg.Intn(len(series))]
			r.Sample(map[string]any{"case": i, "predicate": p.String(), "depth": p.depth(), "series_true": nT / 3, "series_false": nF / 3,
				"example_series": s.String(), "example_key": string(c16KeyForms[1].build(s, "f 1")), "example_oracle": c16Eval(p, s.Name, s.Tags, true).String()})
		}
	}
	if r.EventCount("parsed") == 0 {
		r.Inconclusive("predicate.Parse accepted no generated AND-only predicate")
	}
}

// hand-picked first cases: one per documented feature, so every run covers them
var c16Seeds = func() []*c16Pred {
	eq := func(k, v string) *c16Pred { return &c16Pred{Op: "=", Key: k, Val: v} }
	ne := func(k, v string) *c16Pred { return &c16Pred{Op: "!=", Key: k, Val: v} }
	and := func(a, b *c16Pred) *c16Pred { return &c16Pred{Op: "AND", L: a, R: b} }
	or := func(a, b *c16Pred) *c16Pred { return &c16Pred{Op: "OR", L: a, R: b} }
	return []*c16Pred{
		eq("k1", "v1"), ne("k1", "v1"), eq("_measurement", "m0"), eq("_measurement", "m 1"), eq("_measurement", "m,2"),
		eq("_measurement", "k1=v1"), ne("_measurement", "m=3"), eq("k 2", "v 2"), eq("k,3", "v,3"), eq("k=4", "v=4"),
		and(eq("_measurement", "m0"), eq("k1", "v1")), and(eq("_measurement", "m,2"), ne("k=4", "v1")),
		or(eq("k1", "v1"), eq("k 2", "v1")), or(and(eq("k1", "v1"), eq("k 2", "v 2")), eq("k,3", "v,3")),
		and(and(eq("k1", "v1"), eq("k 2", "v 2")), eq("k,3", "v=4")), eq("m", "3"), eq("m=3", "v1"), eq("_field", "f"),
	}
}()
