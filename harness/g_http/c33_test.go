package g_http

// C33 — /health and /ready report the true aggregate state (DESIGN §5 C33).
//
// Subject: the real http.HealthReadyHandler over kit/check.Check with real ReadyGates, the real
// StartupProgressLogger ready/health checkers and SchedulerPulseCheck, plus state-backed named
// and anonymous health checks. 2–4 client goroutines signal, register (AddNamedReadyCheck /
// Add[Named]HealthCheck) and request concurrently; every call is stamped call/return from one
// atomic counter (logical clock).
//
// Oracle (two parts, exactly as the design says — NOT cross-gate atomicity):
//   1. per-response self-consistency: the status code agrees with the response's own per-check
//      view; a /ready 503 lists only failing gates; the /health 503 message is the message of the
//      first failing check of that same body.
//   2. per-gate / per-check register linearizability (porcupine, one partition per gate/check):
//      writes are Ready/Unready/register/set; every response contributes one read per gate or
//      check it lists or implies (an unlisted gate reads "ready or not registered").

import (
	"context"
	"encoding/json"
	"errors"
	"fmt"
	"net/http"
	"net/http/httptest"
	"runtime"
	"sort"
	"strconv"
	"strings"
	"sync"
	"sync/atomic"
	"testing"
	"time"

	"github.com/anishathalye/porcupine"
	"github.com/influxdata/influxdb/v2/cmd/influxd/run"
	ihttp "github.com/influxdata/influxdb/v2/http"
	"github.com/influxdata/influxdb/v2/kit/check"
	"go.uber.org/zap"

	"verifharness/vkit"
)

// ---- porcupine model: one small state machine per gate / check --------------------------------

type c33St struct {
	Reg bool   // registered with the handler
	Val string // last value written (gate: ""/"ready"; startup: ""/"ok"/"failed:<id>"; state check: "status|message"; pulse: kind)
	N   int    // counter (accumulated shard-load failures)
}

type c33In struct {
	Part  string // partition key, e.g. "R/bolt" or "H/query"
	PKind string // gate | slready | hstate | pulse | slhealth
	Op    string // register | set | inc | read
	View  string // for reads: ready | names | health
	Val   string
}

type c33Out struct{ Obs string }

// c33Observe says what a response must show for a gate/check in state st.
func c33Observe(pkind, view string, st c33St) string {
	if view == "names" {
		if st.Reg {
			return "present"
		}
		return "absent"
	}
	switch pkind {
	case "gate":
		if st.Reg && st.Val != "ready" {
			return "listed"
		}
		return "unlisted"
	case "slready":
		switch {
		case !st.Reg, st.Val == "ok":
			return "unlisted"
		case st.Val == "":
			return "listed:loading"
		default:
			return "listed:" + st.Val
		}
	case "hstate":
		if !st.Reg {
			return "absent"
		}
		return st.Val
	case "pulse":
		if !st.Reg {
			return "absent"
		}
		return map[string]string{"zero": "pass|idle", "future": "pass|next", "recent": "pass|ontime", "stale": "fail|stalled"}[st.Val]
	case "slhealth":
		if !st.Reg {
			return "absent"
		}
		if st.N == 0 {
			return "pass|0"
		}
		return "fail|" + strconv.Itoa(st.N)
	}
	return "?"
}

var c33Model = porcupine.Model{
	Init: func() interface{} { return c33St{} },
	Step: func(state, input, output interface{}) (bool, interface{}) {
		st, in := state.(c33St), input.(c33In)
		switch in.Op {
		case "register":
			st.Reg = true
		case "set":
			st.Val = in.Val
		case "inc":
			st.N++
		case "read":
			return c33Observe(in.PKind, in.View, st) == output.(c33Out).Obs, st
		}
		return true, st
	},
	DescribeOperation: func(input, output interface{}) string {
		in := input.(c33In)
		if in.Op == "read" {
			return fmt.Sprintf("read[%s] -> %s", in.View, output.(c33Out).Obs)
		}
		return in.Op + "(" + in.Val + ")"
	},
}

// ---- subject-side entities --------------------------------------------------------------------

type c33Sched struct{ t atomic.Pointer[time.Time] }

func (s *c33Sched) When() time.Time {
	if p := s.t.Load(); p != nil {
		return *p
	}
	return time.Time{}
}

type c33Ent struct {
	Name  string
	PKind string // gate | yield | slready | hstate | anon | errcheck | pulse | slhealth
	Part  string
	Pre   bool   // registered in the sequential prefix
	Via   string // registration entry point

	gate  *check.ReadyGate
	state atomic.Pointer[string] // "status|message"
	nc    check.NamedChecker
	anon  check.Checker
}

func (e *c33Ent) modelKind() string {
	switch e.PKind {
	case "yield":
		return "gate"
	case "anon", "errcheck":
		return "hstate"
	}
	return e.PKind
}

type c33World struct {
	h     *ihttp.HealthReadyHandler
	sl    *run.StartupProgressLogger
	sched *c33Sched
	ready []*c33Ent // all ready-side entities of the history (registered or to be registered)
	hlth  []*c33Ent
	clock atomic.Int64
}

func (w *c33World) stateResponse(e *c33Ent) check.Response {
	runtime.Gosched() // widen the window between two checks of one evaluation
	v := *e.state.Load()
	st, msg, _ := strings.Cut(v, "|")
	if st == "pass" {
		if msg == "" {
			return check.Pass()
		}
		return check.Info("%s", msg)
	}
	return check.Fail(msg)
}

// ---- plan and history ---------------------------------------------------------------------------

type c33Op struct {
	Client int    `json:"client"`
	Kind   string `json:"op"` // ready unready register set inc sl_add sl_complete get_ready get_health names
	Target string `json:"target,omitempty"`
	Arg    string `json:"arg,omitempty"`
	Call   int64  `json:"call"`
	Ret    int64  `json:"ret"`
	Status int    `json:"status,omitempty"`
	Body   string `json:"body,omitempty"`

	ent   *c33Ent
	names []string
}

type c33Check struct {
	Name    string `json:"name"`
	Status  string `json:"status"`
	Message string `json:"message"`
}

type c33ReadyBody struct {
	Status string     `json:"status"`
	Checks []c33Check `json:"checks"`
}

type c33HealthBody struct {
	Name    string      `json:"name"`
	Status  string      `json:"status"`
	Message string      `json:"message"`
	Checks  *[]c33Check `json:"checks"`
}

func (w *c33World) exec(op *c33Op) {
	op.Call = w.clock.Add(1)
	defer func() { op.Ret = w.clock.Add(1) }()
	e := op.ent
	switch op.Kind {
	case "ready":
		e.gate.Ready()
	case "unready":
		e.gate.Unready()
	case "register":
		switch e.PKind {
		case "gate", "yield", "slready":
			w.h.AddNamedReadyCheck(e.nc)
		case "anon":
			w.h.AddHealthCheck(e.anon)
		default:
			if e.Via == "AddHealthCheck" {
				w.h.AddHealthCheck(e.nc) // delegates to the named path
			} else {
				w.h.AddNamedHealthCheck(e.nc)
			}
		}
	case "set":
		switch e.PKind {
		case "slready":
			if op.Arg == "ok" {
				w.sl.Finish(nil)
			} else {
				w.sl.Finish(errors.New(strings.TrimPrefix(op.Arg, "failed:")))
			}
		case "pulse":
			var t time.Time
			switch op.Arg {
			case "future":
				t = time.Now().Add(time.Hour)
			case "stale":
				t = time.Now().Add(-time.Hour)
			case "recent":
				t = time.Now().Add(-time.Second)
			}
			w.sched.t.Store(&t)
		default:
			v := op.Arg
			e.state.Store(&v)
		}
	case "inc":
		n, _ := strconv.Atoi(op.Arg)
		w.sl.ShardLoadFailed(uint64(n), fmt.Errorf("e%d", n))
	case "sl_add":
		w.sl.AddShard()
	case "sl_complete":
		w.sl.CompletedShard()
	case "get_ready", "get_health":
		rec := httptest.NewRecorder()
		w.h.ServeHTTP(rec, httptest.NewRequest("GET", op.Arg, nil))
		op.Status, op.Body = rec.Code, rec.Body.String()
	case "names":
		op.names = w.h.ReadyCheckNames()
	}
	if op.Kind != "get_ready" && op.Kind != "get_health" {
		runtime.Gosched()
	}
}

var (
	c33GateNames   = []string{"bolt", "sqlite", "engine", "replications", "query", "tasks", "task-scheduler", "a b", "é", "x/y"}
	c33HealthNames = []string{"bolt", "sqlite", "query", "influxql", "h c", "ü"}
)

type c33Plan struct {
	w       *c33World
	prefix  []*c33Op
	clients [][]*c33Op
	desc    []string
}

func c33Build(rg *vkit.Rand) *c33Plan {
	w := &c33World{h: ihttp.NewHealthReadyHandler(zap.NewNop()), sched: &c33Sched{}}
	p := &c33Plan{w: w}
	id := 0
	nextID := func() int { id++; return id }
	var pending []*c33Op // registrations to be placed into client sequences
	addEnt := func(e *c33Ent, side string) {
		e.Pre = rg.Chance(3, 5)
		if side == "R" {
			e.Part = "R/" + e.Name
			w.ready = append(w.ready, e)
		} else {
			e.Part = "H/" + e.Name
			w.hlth = append(w.hlth, e)
		}
		reg := &c33Op{Kind: "register", Target: e.Part, ent: e}
		if e.Pre || e.PKind == "yield" {
			e.Pre = true
			p.prefix = append(p.prefix, reg)
		} else if rg.Chance(5, 6) {
			pending = append(pending, reg)
		} // else: never registered in this history
		p.desc = append(p.desc, fmt.Sprintf("%s:%s:pre=%v", e.Part, e.PKind, e.Pre))
	}
	// ready side
	gnames := rg.Perm(len(c33GateNames))
	ng := 1 + rg.Intn(4)
	useSL := rg.Chance(1, 2)
	if useSL {
		w.sl = run.NewStartupProgressLogger("shards", zap.NewNop())
	}
	for i := 0; i < ng; i++ {
		name := c33GateNames[gnames[i]]
		g := check.NewReadyGate(name)
		addEnt(&c33Ent{Name: name, PKind: "gate", gate: g, nc: g}, "R")
		if rg.Chance(1, 3) {
			yn := fmt.Sprintf("yield%d", i)
			addEnt(&c33Ent{Name: yn, PKind: "yield", nc: check.NamedFunc(yn, func(context.Context) check.Response {
				runtime.Gosched()
				return check.Pass()
			})}, "R")
		}
		if useSL && i == 0 {
			addEnt(&c33Ent{Name: "shards", PKind: "slready", nc: w.sl.ReadyChecker()}, "R")
		}
	}
	// health side
	hnames := rg.Perm(len(c33HealthNames))
	nh := rg.Intn(4)
	for i := 0; i < nh; i++ {
		name := c33HealthNames[hnames[i]]
		e := &c33Ent{Name: name, Via: vkit.Pick(rg, []string{"AddNamedHealthCheck", "AddHealthCheck"})}
		init := "pass|"
		if rg.Bool() {
			e.PKind = "hstate"
			e.nc = check.NamedFunc(name, func(context.Context) check.Response { return w.stateResponse(e) })
		} else {
			e.PKind = "errcheck"
			e.nc = check.Named(name, check.ErrCheck(func() error {
				runtime.Gosched()
				if st, msg, _ := strings.Cut(*e.state.Load(), "|"); st == "fail" {
					return errors.New(msg)
				}
				return nil
			}))
		}
		e.state.Store(&init)
		addEnt(e, "H")
	}
	if rg.Chance(1, 3) {
		e := &c33Ent{Name: "", PKind: "anon"}
		init := "pass|"
		e.state.Store(&init)
		e.anon = check.CheckerFunc(func(context.Context) check.Response { return w.stateResponse(e) })
		addEnt(e, "H")
	}
	if rg.Chance(1, 3) {
		e := &c33Ent{Name: "task-scheduler", PKind: "pulse", Via: "AddNamedHealthCheck"}
		e.nc = check.Named("task-scheduler", run.NewSchedulerPulseCheck(w.sched, run.DefaultSchedulerPulseThreshold))
		dup := false
		for _, x := range w.hlth {
			dup = dup || x.Name == e.Name
		}
		if !dup {
			addEnt(e, "H")
			p.prefix = append(p.prefix, &c33Op{Kind: "set", Target: e.Part, Arg: "zero", ent: e})
		}
	}
	if useSL && rg.Chance(2, 3) {
		addEnt(&c33Ent{Name: "shards", PKind: "slhealth", Via: "AddNamedHealthCheck", nc: w.sl.HealthChecker()}, "H")
	}
	// initial values of state-backed checks are writes of the prefix
	for _, e := range w.hlth {
		if k := e.modelKind(); k == "hstate" {
			p.prefix = append(p.prefix, &c33Op{Kind: "set", Target: e.Part, Arg: "pass|", ent: e})
		}
	}
	for _, e := range w.ready {
		if e.PKind == "gate" && rg.Chance(3, 5) {
			p.prefix = append(p.prefix, &c33Op{Kind: "ready", Target: e.Part, ent: e})
		}
		if e.PKind == "slready" && rg.Chance(1, 3) {
			p.prefix = append(p.prefix, &c33Op{Kind: "set", Target: e.Part, Arg: "ok", ent: e})
		}
	}
	// client sequences
	nc := 2 + rg.Intn(3)
	slFinished := false
	for _, o := range p.prefix {
		slFinished = slFinished || (o.Kind == "set" && o.ent.PKind == "slready")
	}
	writeOp := func() *c33Op {
		for try := 0; try < 8; try++ {
			if rg.Chance(3, 5) || len(w.hlth) == 0 {
				e := vkit.Pick(rg, w.ready)
				switch e.PKind {
				case "gate":
					k := "ready"
					if rg.Chance(2, 5) {
						k = "unready"
					}
					return &c33Op{Kind: k, Target: e.Part, ent: e}
				case "slready":
					switch rg.Intn(4) {
					case 0:
						return &c33Op{Kind: "sl_add", Target: e.Part, ent: e}
					case 1:
						return &c33Op{Kind: "sl_complete", Target: e.Part, ent: e}
					default:
						if !slFinished {
							slFinished = true
							arg := "ok"
							if rg.Chance(1, 3) {
								arg = fmt.Sprintf("failed:boom%d", nextID())
							}
							return &c33Op{Kind: "set", Target: e.Part, Arg: arg, ent: e}
						}
					}
				}
				continue
			}
			e := vkit.Pick(rg, w.hlth)
			switch e.PKind {
			case "hstate", "anon":
				arg := vkit.Pick(rg, []string{"pass|", "pass|", fmt.Sprintf("pass|p%d", nextID()), fmt.Sprintf("fail|f%d", nextID()), fmt.Sprintf("fail|f%d", nextID()), "fail|"})
				return &c33Op{Kind: "set", Target: e.Part, Arg: arg, ent: e}
			case "errcheck":
				arg := vkit.Pick(rg, []string{"pass|", fmt.Sprintf("fail|e%d", nextID())})
				return &c33Op{Kind: "set", Target: e.Part, Arg: arg, ent: e}
			case "pulse":
				return &c33Op{Kind: "set", Target: e.Part, Arg: vkit.Pick(rg, []string{"zero", "future", "stale", "recent"}), ent: e}
			case "slhealth":
				return &c33Op{Kind: "inc", Target: e.Part, Arg: strconv.Itoa(nextID()), ent: e}
			}
		}
		e := w.ready[0]
		return &c33Op{Kind: "ready", Target: e.Part, ent: e}
	}
	for c := 0; c < nc; c++ {
		var ops []*c33Op
		n := 4 + rg.Intn(7)
		for j := 0; j < n; j++ {
			switch x := rg.Intn(20); {
			case x < 5:
				ops = append(ops, &c33Op{Kind: "get_ready", Arg: vkit.Pick(rg, []string{"/ready", "/ready", "/ready/", "/ready?probe=1"})})
			case x < 9:
				ops = append(ops, &c33Op{Kind: "get_health", Arg: vkit.Pick(rg, []string{"/health", "/health", "/health/", "/health?cachebust=1"})})
			case x < 10:
				ops = append(ops, &c33Op{Kind: "names"})
			default:
				ops = append(ops, writeOp())
			}
		}
		p.clients = append(p.clients, ops)
	}
	for _, reg := range pending {
		c := rg.Intn(nc)
		at := rg.Intn(len(p.clients[c]) + 1)
		ops := p.clients[c]
		p.clients[c] = append(ops[:at:at], append([]*c33Op{reg}, ops[at:]...)...)
	}
	for c, ops := range p.clients {
		for _, o := range ops {
			o.Client = c + 1
		}
	}
	return p
}

// ---- evaluation ---------------------------------------------------------------------------------

type c33Viol struct {
	Class string
	Feats map[string]string
	Wit   any
}

func c33PulseClass(status, msg string) string {
	for pre, cl := range map[string]string{"scheduler idle": "idle", "next run in": "next", "on time": "ontime", "scheduler stalled": "stalled"} {
		if strings.HasPrefix(msg, pre) {
			return status + "|" + cl
		}
	}
	return status + "|?" + msg
}

// c33Reads turns one response (or names call) into per-partition reads and self-consistency verdicts.
func c33Reads(w *c33World, op *c33Op, r *vkit.Run) (reads map[string]string, view string, viols []c33Viol) {
	reads = map[string]string{}
	bad := func(class, rule, detail string) {
		viols = append(viols, c33Viol{class, map[string]string{"rule": rule}, map[string]any{"request": op, "detail": detail}})
	}
	switch op.Kind {
	case "names":
		view = "names"
		have := map[string]bool{}
		for _, n := range op.names {
			have[n] = true
		}
		for _, e := range w.ready {
			if have[e.Name] {
				reads[e.Part] = "present"
			} else {
				reads[e.Part] = "absent"
			}
		}
	case "get_ready":
		view = "ready"
		var b c33ReadyBody
		if err := json.Unmarshal([]byte(op.Body), &b); err != nil {
			bad("ready_response_inconsistent", "body_not_json", err.Error())
			return nil, view, viols
		}
		r.Event(fmt.Sprintf("ready_%d", op.Status), 1)
		switch op.Status {
		case http.StatusOK:
			if b.Status != "ready" {
				bad("ready_response_inconsistent", "status_field_mismatch", "200 with body status "+b.Status)
			}
			if len(b.Checks) > 0 {
				bad("ready_response_inconsistent", "200_lists_gates", fmt.Sprint(b.Checks))
			}
		case http.StatusServiceUnavailable:
			if b.Status != "starting" {
				bad("ready_response_inconsistent", "status_field_mismatch", "503 with body status "+b.Status)
			}
			if len(b.Checks) == 0 {
				bad("ready_response_inconsistent", "503_without_failing_gate", "no gate listed")
			}
		default:
			bad("ready_response_inconsistent", "bad_code", strconv.Itoa(op.Status))
			return nil, view, viols
		}
		listed := map[string]c33Check{}
		for _, c := range b.Checks {
			if _, dup := listed[c.Name]; dup {
				bad("ready_response_inconsistent", "gate_listed_twice", c.Name)
			}
			listed[c.Name] = c
			if c.Status != "fail" {
				bad("ready_response_inconsistent", "503_lists_passing_gate", fmt.Sprintf("%+v", c))
			}
		}
		known := map[string]bool{}
		for _, e := range w.ready {
			known[e.Name] = true
			c, ok := listed[e.Name]
			switch {
			case !ok, c.Status != "fail": // a listed passing gate was already reported above; its view is "passing"
				reads[e.Part] = "unlisted"
			case e.PKind == "slready" && strings.HasPrefix(c.Message, "shard loading failed: "):
				reads[e.Part] = "listed:failed:" + strings.TrimPrefix(c.Message, "shard loading failed: ")
			case e.PKind == "slready":
				reads[e.Part] = "listed:loading"
				if c.Message != "waiting for shard enumeration" && !strings.HasPrefix(c.Message, "loading shards ") {
					reads[e.Part] = "listed:?" + c.Message
				}
			default:
				reads[e.Part] = "listed"
			}
		}
		for n := range listed {
			if !known[n] {
				bad("ready_response_inconsistent", "unknown_gate_listed", n)
			}
		}
	case "get_health":
		view = "health"
		var b c33HealthBody
		if err := json.Unmarshal([]byte(op.Body), &b); err != nil {
			bad("health_response_inconsistent", "body_not_json", err.Error())
			return nil, view, viols
		}
		r.Event(fmt.Sprintf("health_%d", op.Status), 1)
		var checks []c33Check
		if b.Checks != nil {
			checks = *b.Checks
		}
		firstFail, anyFail, firstNonEmpty := -1, false, ""
		for i, c := range checks {
			if c.Status != "pass" {
				anyFail = true
				if firstFail < 0 {
					firstFail = i
				}
				if firstNonEmpty == "" {
					firstNonEmpty = c.Message
				}
			}
		}
		switch op.Status {
		case http.StatusOK:
			if anyFail {
				bad("health_response_inconsistent", "200_with_failing_check", fmt.Sprintf("%+v", checks[firstFail]))
			}
			if b.Status != "pass" {
				bad("health_response_inconsistent", "status_field_mismatch", "200 with body status "+b.Status)
			}
		case http.StatusServiceUnavailable:
			if !anyFail {
				bad("health_response_inconsistent", "503_without_failing_check", fmt.Sprintf("%+v", checks))
			} else {
				r.Event("health_503_message_checked", 1)
				want := checks[firstFail].Message
				okMsg := b.Message == want
				if want == "" { // documentation: "fail", or the first failing check that has a message
					okMsg = b.Message == "fail" || (firstNonEmpty != "" && b.Message == firstNonEmpty)
				}
				if !okMsg {
					bad("health_response_inconsistent", "message_not_first_failing", fmt.Sprintf("message %q, first failing check %+v", b.Message, checks[firstFail]))
				}
			}
			if b.Status != "fail" {
				bad("health_response_inconsistent", "status_field_mismatch", "503 with body status "+b.Status)
			}
		default:
			bad("health_response_inconsistent", "bad_code", strconv.Itoa(op.Status))
			return nil, view, viols
		}
		byName := map[string][]c33Check{}
		for _, c := range checks {
			byName[c.Name] = append(byName[c.Name], c)
		}
		known := map[string]bool{}
		for _, e := range w.hlth {
			known[e.Name] = true
			cs := byName[e.Name]
			switch {
			case len(cs) == 0:
				reads[e.Part] = "absent"
			case len(cs) > 1:
				bad("health_response_inconsistent", "check_listed_twice", e.Name)
			case e.PKind == "pulse":
				reads[e.Part] = c33PulseClass(cs[0].Status, cs[0].Message)
			case e.PKind == "slhealth":
				n := "0"
				if cs[0].Status != "pass" || cs[0].Message != "" {
					n = "?" + cs[0].Message
					if i := strings.Index(cs[0].Message, " shard(s) failed to load"); i > 0 {
						n = cs[0].Message[:i]
					}
				}
				reads[e.Part] = cs[0].Status + "|" + n
			default:
				reads[e.Part] = cs[0].Status + "|" + cs[0].Message
			}
		}
		for n := range byName {
			if !known[n] {
				bad("health_response_inconsistent", "unknown_check_listed", n)
			}
		}
	}
	return reads, view, viols
}

type c33PartOp struct {
	Client int    `json:"client"`
	Op     string `json:"op"`
	Call   int64  `json:"call"`
	Ret    int64  `json:"ret"`
}

func TestC33(t *testing.T) {
	r := vkit.Start(t, "C33", "exploration")
	defer r.Finish()
	r.Rule("case = one history: 1–4 ReadyGates (+ pass-always yielding checks, optionally the StartupProgressLogger ready checker), 0–5 health checks (state-backed named/anonymous, ErrCheck, SchedulerPulseCheck, StartupProgressLogger health), some registered before and some during the concurrent phase; 2–4 client goroutines each run 4–10 ops (Ready/Unready/Finish/set/ShardLoadFailed/register/GET /ready|/health/ReadyCheckNames), then one sequential read of each endpoint; non-trivial = at least one write or registration overlaps a request in logical time; distinct = hash of plan + observed event order")
	r.Assume("the 'first failing check' of /health is the first failing entry of the response's own checks array",
		"when the first failing check has an empty message either \"fail\" (code) or the first non-empty failing message (HEALTH_READY.md) is accepted",
		"health checks return immutable responses (BasicResponse); the documented FreshnessResponse render/aggregate skew is not exercised",
		"SchedulerPulseCheck inputs are ≥29 s away from its 30 s threshold")
	r.Trust("porcupine v1.3.0 linearizability checker", "Go race detector (build race)")
	n := r.N(1500, 40000)
	var pcOK, pcIllegal, pcUnknown int64
	reported := map[string]bool{}
	report := func(v c33Viol) {
		keys := []string{v.Class}
		for k, x := range v.Feats {
			keys = append(keys, k+"="+x)
		}
		sort.Strings(keys[1:])
		k := strings.Join(keys, "|")
		r.Event("violation_"+v.Class, 1)
		if reported[k] {
			return
		}
		reported[k] = true
		r.Violation(v.Class, v.Feats, v.Wit)
	}
	for i := 0; i < n; i++ {
		rg := r.Rand(i)
		p := c33Build(rg)
		w := p.w
		for _, o := range p.prefix {
			w.exec(o)
		}
		var wg sync.WaitGroup
		start := make(chan struct{})
		for _, ops := range p.clients {
			wg.Add(1)
			go func(ops []*c33Op) {
				defer wg.Done()
				<-start
				for _, o := range ops {
					w.exec(o)
				}
			}(ops)
		}
		close(start)
		done := make(chan struct{})
		go func() { wg.Wait(); close(done) }()
		select {
		case <-done:
		case <-time.After(60 * time.Second): // watchdog only
			r.Inconclusive("history did not finish")
			r.Case(fmt.Sprint("stuck", i), false)
			continue
		}
		final := []*c33Op{{Kind: "get_ready", Arg: "/ready"}, {Kind: "get_health", Arg: "/health"}, {Kind: "names"}}
		for _, o := range final {
			w.exec(o)
		}
		all := append([]*c33Op{}, p.prefix...)
		for _, ops := range p.clients {
			all = append(all, ops...)
		}
		all = append(all, final...)

		// partitions
		ents := map[string]*c33Ent{}
		for _, e := range append(append([]*c33Ent{}, w.ready...), w.hlth...) {
			ents[e.Part] = e
		}
		parts := map[string][]porcupine.Operation{}
		var writes, requests []*c33Op
		var viols []c33Viol
		for _, o := range all {
			switch o.Kind {
			case "register", "set", "inc", "ready", "unready":
				in := c33In{Part: o.ent.Part, PKind: o.ent.modelKind(), Op: o.Kind, Val: o.Arg}
				if o.Kind == "ready" || o.Kind == "unready" {
					in.Op, in.Val = "set", map[string]string{"ready": "ready", "unready": ""}[o.Kind]
				}
				if o.ent.PKind == "yield" && o.Kind == "register" {
					// a pass-always check: registered and ready in one step
					parts[in.Part] = append(parts[in.Part], porcupine.Operation{ClientId: o.Client, Input: c33In{Part: in.Part, PKind: "gate", Op: "set", Val: "ready"}, Output: c33Out{}, Call: o.Call, Return: o.Call})
				}
				parts[in.Part] = append(parts[in.Part], porcupine.Operation{ClientId: o.Client, Input: in, Output: c33Out{}, Call: o.Call, Return: o.Ret})
				if o.Client > 0 {
					writes = append(writes, o)
				}
				r.Event("write_"+o.Kind, 1)
			case "get_ready", "get_health", "names":
				reads, view, vs := c33Reads(w, o, r)
				viols = append(viols, vs...)
				for part, obs := range reads {
					parts[part] = append(parts[part], porcupine.Operation{ClientId: o.Client, Input: c33In{Part: part, PKind: ents[part].modelKind(), Op: "read", View: view}, Output: c33Out{Obs: obs}, Call: o.Call, Return: o.Ret})
					r.Event("reads_"+view, 1)
				}
				if o.Client > 0 {
					requests = append(requests, o)
				}
			}
		}
		overlaps := 0
		concReg := 0
		for _, wr := range writes {
			for _, q := range requests {
				if wr.Call < q.Ret && q.Call < wr.Ret {
					overlaps++
					if wr.Kind == "register" {
						concReg++
					}
				}
			}
		}
		r.Event("overlapping_write_request_pairs", int64(overlaps))
		r.Event("registrations_overlapping_a_request", int64(concReg))
		for _, v := range viols {
			report(v)
		}
		names := make([]string, 0, len(parts))
		for k := range parts {
			names = append(names, k)
		}
		sort.Strings(names)
		for _, part := range names {
			ops := parts[part]
			res := porcupine.CheckOperationsTimeout(c33Model, ops, 20*time.Second)
			r.Event("partitions_checked", 1)
			switch res {
			case porcupine.Ok:
				pcOK++
			case porcupine.Unknown:
				pcUnknown++
				r.Inconclusive("porcupine timeout")
			case porcupine.Illegal:
				pcIllegal++
				var hist []c33PartOp
				endpoint := map[string]bool{}
				for _, o := range ops {
					in := o.Input.(c33In)
					hist = append(hist, c33PartOp{o.ClientId, c33Model.DescribeOperation(o.Input, o.Output), o.Call, o.Return})
					if in.Op == "read" {
						endpoint[in.View] = true
					}
				}
				sort.Slice(hist, func(a, b int) bool { return hist[a].Call < hist[b].Call })
				var raw []*c33Op
				for _, o := range all {
					if o.Kind == "get_ready" || o.Kind == "get_health" {
						raw = append(raw, o)
					}
				}
				e := ents[part]
				report(c33Viol{"view_not_linearizable", map[string]string{"side": part[:1], "kind": e.PKind},
					map[string]any{"case": i, "partition": part, "entity": p.desc, "history_of_partition": hist, "responses": raw,
						"explanation": "no order of these operations consistent with their call/return stamps makes every response's view of this gate/check equal to a register written by the signals"}})
			}
		}
		// evidence bookkeeping
		sig := make([]string, 0, len(all)*2)
		type ev struct {
			t int64
			s string
		}
		var evs []ev
		for _, o := range all {
			evs = append(evs, ev{o.Call, fmt.Sprintf("%d:%s:%s:%s(", o.Client, o.Kind, o.Target, o.Arg)}, ev{o.Ret, fmt.Sprintf("%d)", o.Client)})
		}
		sort.Slice(evs, func(a, b int) bool { return evs[a].t < evs[b].t })
		for _, e := range evs {
			sig = append(sig, e.s)
		}
		r.Case(strings.Join(p.desc, ",")+"#"+strings.Join(sig, ""), overlaps > 0)
		if r.WantSample() && overlaps > 0 && i%97 == 3 {
			var hs []map[string]any
			for _, o := range all {
				m := map[string]any{"client": o.Client, "op": o.Kind, "target": o.Target, "arg": o.Arg, "call": o.Call, "ret": o.Ret}
				if o.Status != 0 {
					m["status"] = o.Status
					m["body"] = o.Body
				}
				if o.Kind == "names" {
					m["names"] = o.names
				}
				hs = append(hs, m)
			}
			r.Sample(map[string]any{"case": i, "entities": p.desc, "history": hs, "overlapping_pairs": overlaps})
		}
	}
	r.Extra("porcupine", map[string]int64{"ok": pcOK, "illegal": pcIllegal, "unknown": pcUnknown})
	r.Extra("sanitizer", "race")
}
