package g_http

// C32 — the write API stores all of a batch or reports why not (DESIGN §5 C32, §7-8).
//
// Subject: the real http.NewWriteHandler (/repo/http/write_handler.go) with the real
// http/points parser + batch reader + kit/io.LimitedReadCloser, tenant org/bucket services on
// the in-memory KV store, and a recording PointsWriter. Requests are generated line-protocol
// bodies (good / malformed / blank / comment lines with unique tokens) sent plain or in several
// legal gzip framings, with limits placed below, exactly at and above the decoded size.
// The oracle is computed from how the body was *generated* (never by re-parsing it).

import (
	"bytes"
	"compress/gzip"
	"context"
	"encoding/json"
	"errors"
	"fmt"
	"io"
	"math"
	"net/http"
	"net/http/httptest"
	"regexp"
	"sort"
	"strconv"
	"strings"
	"sync"
	"testing"
	"time"

	"github.com/influxdata/influxdb/v2"
	pcontext "github.com/influxdata/influxdb/v2/context"
	ihttp "github.com/influxdata/influxdb/v2/http"
	"github.com/influxdata/influxdb/v2/http/metric"
	"github.com/influxdata/influxdb/v2/inmem"
	"github.com/influxdata/influxdb/v2/kit/platform"
	kithttp "github.com/influxdata/influxdb/v2/kit/transport/http"
	"github.com/influxdata/influxdb/v2/kv/migration/all"
	"github.com/influxdata/influxdb/v2/models"
	"github.com/influxdata/influxdb/v2/tenant"
	"github.com/influxdata/influxdb/v2/tsdb"
	"go.uber.org/zap"

	"verifharness/vkit"
)

// ---- recording points writer ------------------------------------------------------------

type c32Pt struct {
	Name   string            `json:"name"`
	Tags   map[string]string `json:"tags,omitempty"`
	Fields map[string]string `json:"fields"` // "<type>:<canonical value>"
	Time   int64             `json:"time"`
}

type c32Call struct {
	Org, Bucket platform.ID
	Pts         []c32Pt
	FieldErr    string
}

type c32Writer struct {
	mu    sync.Mutex
	calls []c32Call
	err   error
}

func c32FieldString(v interface{}) string {
	switch x := v.(type) {
	case int64:
		return "i:" + strconv.FormatInt(x, 10)
	case uint64:
		return "u:" + strconv.FormatUint(x, 10)
	case float64:
		return "f:" + strconv.FormatUint(math.Float64bits(x), 16)
	case bool:
		return "b:" + strconv.FormatBool(x)
	case string:
		return "s:" + x
	default:
		return fmt.Sprintf("?:%T:%v", v, v)
	}
}

func (w *c32Writer) WritePoints(ctx context.Context, org, bucket platform.ID, pts []models.Point) error {
	c := c32Call{Org: org, Bucket: bucket}
	for _, p := range pts {
		q := c32Pt{Name: string(p.Name()), Tags: map[string]string{}, Fields: map[string]string{}, Time: p.UnixNano()}
		for _, t := range p.Tags() {
			q.Tags[string(t.Key)] = string(t.Value)
		}
		fs, err := p.Fields()
		if err != nil {
			c.FieldErr = err.Error()
		}
		for k, v := range fs {
			q.Fields[k] = c32FieldString(v)
		}
		c.Pts = append(c.Pts, q)
	}
	w.mu.Lock()
	defer w.mu.Unlock()
	w.calls = append(w.calls, c)
	return w.err
}

func (w *c32Writer) reset(err error) {
	w.mu.Lock()
	w.calls, w.err = nil, err
	w.mu.Unlock()
}

func (w *c32Writer) take() []c32Call {
	w.mu.Lock()
	defer w.mu.Unlock()
	return w.calls
}

// ---- body generator ----------------------------------------------------------------------

const (
	c32Good = iota
	c32Bad
	c32Blank
	c32Comment
)

type c32Line struct {
	Text     string
	Kind     int
	Token    string // unique token contained in Text (good: "u=<n>i"; bad: "bad<n>")
	BadClass string
	Pt       c32Pt // expected point of a good line (Time = raw timestamp as written)
	HasTime  bool
}

type c32Esc struct{ text, val string }

var (
	c32Meas    = []c32Esc{{"m", "m"}, {"cpu", "cpu"}, {`m\ x`, "m x"}, {`m\,y`, "m,y"}, {"é", "é"}, {"m=z", "m=z"}, {"日本", "日本"}}
	c32TagKeys = []c32Esc{{"host", "host"}, {"t1", "t1"}, {`a\ b`, "a b"}, {`k\=e`, "k=e"}, {`c\,d`, "c,d"}}
	c32TagVals = []c32Esc{{"a", "a"}, {"v1", "v1"}, {`x\ y`, "x y"}, {`p\=q`, "p=q"}, {`r\,s`, "r,s"}, {"ü", "ü"}, {`"q"`, `"q"`}}
	c32FKeys   = []c32Esc{{"f", "f"}, {"val", "val"}, {`f\ 1`, "f 1"}, {`g\=h`, "g=h"}}
	c32FVals   = []c32Esc{
		{"1", "f:" + strconv.FormatUint(math.Float64bits(1), 16)},
		{"1.5", "f:" + strconv.FormatUint(math.Float64bits(1.5), 16)},
		{"-2.25", "f:" + strconv.FormatUint(math.Float64bits(-2.25), 16)},
		{"1e3", "f:" + strconv.FormatUint(math.Float64bits(1000), 16)},
		{"0", "f:" + strconv.FormatUint(math.Float64bits(0), 16)},
		{"12i", "i:12"}, {"-7i", "i:-7"}, {"0i", "i:0"}, {"9223372036854775807i", "i:9223372036854775807"}, {"-9223372036854775808i", "i:-9223372036854775808"},
		{"7u", "u:7"}, {"18446744073709551615u", "u:18446744073709551615"},
		{"t", "b:true"}, {"true", "b:true"}, {"F", "b:false"}, {"false", "b:false"},
		{`"s"`, "s:s"}, {`"sp ace"`, "s:sp ace"}, {`"co,mma"`, "s:co,mma"}, {`"eq=ual"`, "s:eq=ual"}, {`"q\"x"`, `s:q"x`}, {`""`, "s:"},
	}
	c32Times = []int64{0, 1, -1, 42, 1600000000, -1600000000, 9000000000, 123456789}
)

func c32GoodLine(rg *vkit.Rand, ctr *int, prec string) c32Line {
	*ctr++
	m := vkit.Pick(rg, c32Meas)
	pt := c32Pt{Name: m.val, Tags: map[string]string{}, Fields: map[string]string{}}
	var sb strings.Builder
	sb.WriteString(m.text)
	for _, ki := range rg.Perm(len(c32TagKeys))[:rg.Intn(3)] {
		k, v := c32TagKeys[ki], vkit.Pick(rg, c32TagVals)
		sb.WriteString("," + k.text + "=" + v.text)
		pt.Tags[k.val] = v.val
	}
	sb.WriteString(" ")
	tok := fmt.Sprintf("u=%di", *ctr)
	pt.Fields["u"] = "i:" + strconv.Itoa(*ctr)
	var fs []string
	for _, ki := range rg.Perm(len(c32FKeys))[:rg.Intn(3)] {
		k, v := c32FKeys[ki], vkit.Pick(rg, c32FVals)
		fs = append(fs, k.text+"="+v.text)
		pt.Fields[k.val] = v.val
	}
	at := rg.Intn(len(fs) + 1)
	fs = append(fs[:at], append([]string{tok}, fs[at:]...)...)
	sb.WriteString(strings.Join(fs, ","))
	ln := c32Line{Kind: c32Good, Token: tok}
	if rg.Chance(2, 3) {
		ts := vkit.Pick(rg, c32Times)
		if prec == "ns" && rg.Chance(1, 6) {
			ts = vkit.Pick(rg, []int64{models.MinNanoTime, models.MaxNanoTime})
		}
		sb.WriteString(" " + strconv.FormatInt(ts, 10))
		ln.HasTime = true
		pt.Time = ts
	}
	ln.Text, ln.Pt = sb.String(), pt
	return ln
}

// malformed by construction: each class breaks a rule every line-protocol description agrees on.
var c32BadClasses = []string{"no_fields", "no_fields_tags", "bare_string_value", "bad_int_suffix", "bad_timestamp", "missing_tag_value",
	"missing_field_value", "int_overflow", "duplicate_tag", "extra_timestamp", "missing_field_key"}

func c32BadLine(rg *vkit.Rand, ctr *int) c32Line {
	*ctr++
	tok := fmt.Sprintf("bad%dz", *ctr)
	cl := vkit.Pick(rg, c32BadClasses)
	var t string
	switch cl {
	case "no_fields":
		t = tok
	case "no_fields_tags":
		t = tok + ",host=a"
	case "bare_string_value":
		t = tok + " v=abc"
	case "bad_int_suffix":
		t = tok + " v=1.5i"
	case "bad_timestamp":
		t = tok + " v=1 12x"
	case "missing_tag_value":
		t = tok + ",host= v=1"
	case "missing_field_value":
		t = tok + " v="
	case "int_overflow":
		t = tok + " v=9223372036854775808i"
	case "duplicate_tag":
		t = tok + ",a=1,a=2 v=1"
	case "extra_timestamp":
		t = tok + " v=1 1 2"
	case "missing_field_key":
		t = tok + " =1"
	}
	return c32Line{Text: t, Kind: c32Bad, Token: tok, BadClass: cl}
}

type c32Body struct {
	Lines []c32Line
	Text  string
}

func (b *c32Body) join(trailingNL bool) {
	parts := make([]string, len(b.Lines))
	for i, l := range b.Lines {
		parts[i] = l.Text
	}
	b.Text = strings.Join(parts, "\n")
	if trailingNL && len(b.Lines) > 0 {
		b.Text += "\n"
	}
}

func (b *c32Body) count(kind int) int {
	n := 0
	for _, l := range b.Lines {
		if l.Kind == kind {
			n++
		}
	}
	return n
}

// c32RandomBody draws nLines lines; bad lines only when nBad > 0.
func c32RandomBody(rg *vkit.Rand, ctr *int, prec string, nLines, nBad int) c32Body {
	var b c32Body
	badAt := map[int]bool{}
	for len(badAt) < nBad && len(badAt) < nLines {
		badAt[rg.Intn(nLines)] = true
	}
	for i := 0; i < nLines; i++ {
		switch {
		case badAt[i]:
			b.Lines = append(b.Lines, c32BadLine(rg, ctr))
		case rg.Chance(1, 10):
			b.Lines = append(b.Lines, c32Line{Kind: c32Blank, Text: vkit.Pick(rg, []string{"", " ", "  \t"})})
		case rg.Chance(1, 12):
			b.Lines = append(b.Lines, c32Line{Kind: c32Comment, Text: vkit.Pick(rg, []string{"# a comment", "#", "  # indented, with f=1 inside"})})
		default:
			b.Lines = append(b.Lines, c32GoodLine(rg, ctr, prec))
		}
	}
	b.join(rg.Bool())
	return b
}

// c32SizedBody builds a body of exactly size bytes (thorough sweep and boundary cases): an
// optional malformed line, good lines, then a good line padded through a string field, and
// blank lines ('\n') for whatever is left.
func c32SizedBody(rg *vkit.Rand, ctr *int, prec string, size int, wantBad bool) c32Body {
	var b c32Body
	used := 0 // length of the joined text so far
	cost := func(l c32Line) int {
		if len(b.Lines) > 0 {
			return len(l.Text) + 1
		}
		return len(l.Text)
	}
	add := func(l c32Line) {
		used += cost(l)
		b.Lines = append(b.Lines, l)
	}
	if wantBad && size >= 1 {
		if l := c32BadLine(rg, ctr); cost(l) <= size {
			add(l)
		} else {
			// too small for a tokenised bad line: a lone 'xx…' line has no fields
			tok := strings.Repeat("x", size)
			b.Lines = []c32Line{{Text: tok, Kind: c32Bad, Token: tok, BadClass: "no_fields"}}
			b.join(false)
			return b
		}
	}
	for size-used > 120 && len(b.Lines) < 400 {
		l := c32GoodLine(rg, ctr, prec)
		if used+cost(l) > size {
			break
		}
		add(l)
	}
	*ctr++
	head := fmt.Sprintf(`p u=%di,s="`, *ctr)
	sep := 0
	if len(b.Lines) > 0 {
		sep = 1
	}
	if k := size - used - sep - len(head) - 1; k >= 0 {
		pt := c32Pt{Name: "p", Tags: map[string]string{}, Fields: map[string]string{"u": "i:" + strconv.Itoa(*ctr), "s": "s:" + strings.Repeat("x", k)}}
		add(c32Line{Kind: c32Good, Text: head + strings.Repeat("x", k) + `"`, Token: fmt.Sprintf("u=%di", *ctr), Pt: pt})
	}
	b.join(false)
	if len(b.Text) < size {
		b.Text += strings.Repeat("\n", size-len(b.Text))
	}
	return b
}

// ---- encodings and body readers ------------------------------------------------------------

var c32GzipFramings = []string{"oneshot", "flush_before_close", "pieces_flushed", "multimember", "multimember_empty_last", "stored_level0"}

func c32Gzip(rg *vkit.Rand, framing string, data []byte) []byte {
	var zb bytes.Buffer
	level := vkit.Pick(rg, []int{gzip.DefaultCompression, gzip.BestSpeed, gzip.BestCompression, gzip.HuffmanOnly})
	if framing == "stored_level0" {
		level = gzip.NoCompression
	}
	member := func(d []byte, flush bool, pieces bool) {
		zw, _ := gzip.NewWriterLevel(&zb, level)
		if pieces && len(d) > 1 {
			for len(d) > 0 {
				k := 1 + rg.Intn(len(d))
				zw.Write(d[:k])
				d = d[k:]
				if rg.Bool() || len(d) == 0 {
					zw.Flush()
				}
			}
		} else {
			zw.Write(d)
			if flush {
				zw.Flush()
			}
		}
		zw.Close()
	}
	switch framing {
	case "oneshot", "stored_level0":
		member(data, false, false)
	case "flush_before_close":
		member(data, true, false)
	case "pieces_flushed":
		member(data, true, true)
	case "multimember":
		cut := 0
		if len(data) > 1 {
			cut = 1 + rg.Intn(len(data)-1)
		}
		member(data[:cut], false, false)
		member(data[cut:], false, false)
	case "multimember_empty_last":
		member(data, false, false)
		member(nil, false, false)
	}
	return zb.Bytes()
}

// c32Reader delivers a byte string the way different legal io.Readers do: in pieces, and with
// io.EOF either on a separate final Read (bytes.Reader, chunked bodies whose terminator arrives
// later) or together with the last bytes (net/http's Content-Length body).
type c32Reader struct {
	data     []byte
	piece    int // 0 = as much as fits
	eofWith  bool
	closed   int
	readsEOF int
}

func (r *c32Reader) Read(p []byte) (int, error) {
	if len(r.data) == 0 {
		r.readsEOF++
		return 0, io.EOF
	}
	if len(p) == 0 {
		return 0, nil
	}
	n := len(p)
	if r.piece > 0 && n > r.piece {
		n = r.piece
	}
	if n > len(r.data) {
		n = len(r.data)
	}
	copy(p, r.data[:n])
	r.data = r.data[n:]
	if len(r.data) == 0 && r.eofWith {
		return n, io.EOF
	}
	return n, nil
}
func (r *c32Reader) Close() error { r.closed++; return nil }

// ---- environment ---------------------------------------------------------------------------

type c32Env struct {
	svc     *tenant.Service
	orgs    []*influxdb.Organization
	buckets [][]*influxdb.Bucket // per org
	w       *c32Writer
	be      *ihttp.WriteBackend

	srvMu  sync.Mutex
	srvH   http.Handler
	srv    *httptest.Server
	srvErr string
	hung   bool
}

func c32NewEnv(t *testing.T) *c32Env {
	ctx := context.Background()
	s := inmem.NewKVStore()
	if err := all.Up(ctx, zap.NewNop(), s); err != nil {
		t.Fatalf("kv migrations: %v", err)
	}
	e := &c32Env{svc: tenant.NewService(tenant.NewStore(s)), w: &c32Writer{}}
	for _, on := range []string{"org-one", "org two"} {
		o := &influxdb.Organization{Name: on}
		if err := e.svc.CreateOrganization(ctx, o); err != nil {
			t.Fatalf("create org: %v", err)
		}
		var bs []*influxdb.Bucket
		for _, bn := range []string{"b1", "bucket two"} {
			b := &influxdb.Bucket{Name: bn, OrgID: o.ID}
			if err := e.svc.CreateBucket(ctx, b); err != nil {
				t.Fatalf("create bucket: %v", err)
			}
			bs = append(bs, b)
		}
		e.orgs = append(e.orgs, o)
		e.buckets = append(e.buckets, bs)
	}
	e.be = &ihttp.WriteBackend{
		HTTPErrorHandler:    kithttp.NewErrorHandler(zap.NewNop()),
		WriteEventRecorder:  &metric.NopEventRecorder{},
		PointsWriter:        e.w,
		BucketService:       e.svc,
		OrganizationService: e.svc,
	}
	return e
}

func c32Auth(org, bucket platform.ID) *influxdb.Authorization {
	return &influxdb.Authorization{OrgID: org, Status: influxdb.Active, Permissions: []influxdb.Permission{{Action: influxdb.WriteAction,
		Resource: influxdb.Resource{Type: influxdb.BucketsResourceType, OrgID: &org, ID: &bucket}}}}
}

// server returns a loopback httptest.Server dispatching to the handler of the current case, or
// nil when the sandbox does not allow listening (then the transport is skipped, not failed).
func (e *c32Env) server() (srv *httptest.Server) {
	if e.srv != nil || e.srvErr != "" {
		return e.srv
	}
	defer func() {
		if p := recover(); p != nil {
			e.srvErr = fmt.Sprint(p)
			srv = nil
		}
	}()
	e.srv = httptest.NewServer(http.HandlerFunc(func(w http.ResponseWriter, r *http.Request) {
		e.srvMu.Lock()
		h := e.srvH
		e.srvMu.Unlock()
		h.ServeHTTP(w, r)
	}))
	return e.srv
}

// ---- one request ---------------------------------------------------------------------------

type c32Case struct {
	No        int    `json:"case"`
	Body      string `json:"body"`
	Size      int    `json:"decoded_size"`
	Limit     int64  `json:"limit"`
	Relation  string `json:"relation"` // no_limit | lt_limit | eq_limit | gt_limit
	Encoding  string `json:"encoding"` // plain | gzip
	Header    string `json:"content_encoding_header"`
	Framing   string `json:"framing"`
	Transport string `json:"transport"` // recorder | server_content_length | server_chunked_stream
	Precision string `json:"precision"`
	WriterErr string `json:"writer_behaviour"` // nil | partial | partial_wrapped | generic
	Dropped   int    `json:"dropped,omitempty"`
	OrgBy     string `json:"org_by"`
	BucketBy  string `json:"bucket_by"`
	NGood     int    `json:"good_lines"`
	NBad      int    `json:"bad_lines"`

	body    c32Body
	payload []byte
	orgI    int
	bktI    int
	orgID   platform.ID
	bktID   platform.ID
}

type c32Result struct {
	Status  int       `json:"status"`
	Code    string    `json:"code,omitempty"`
	Message string    `json:"message,omitempty"`
	RawBody string    `json:"raw_body,omitempty"`
	Calls   []c32Call `json:"-"`
	NCalls  int       `json:"writer_calls"`
	T0, T1  time.Time `json:"-"`
}

type c32Wit struct {
	Case   c32Case   `json:"case"`
	Result c32Result `json:"result"`
	Expect string    `json:"expected"`
	Detail string    `json:"detail,omitempty"`
}

var c32PrecMult = map[string]int64{"": 1, "ns": 1, "us": 1e3, "ms": 1e6, "s": 1e9}

func c32Trunc(s string, n int) string {
	if len(s) > n {
		return s[:n] + fmt.Sprintf("…(%d bytes)", len(s))
	}
	return s
}

func (e *c32Env) do(r *vkit.Run, c *c32Case) (res c32Result, ok bool) {
	var werr error
	switch c.WriterErr {
	case "partial":
		werr = tsdb.PartialWriteError{Reason: "field type conflict", Dropped: c.Dropped}
	case "partial_wrapped":
		werr = fmt.Errorf("engine: %w", tsdb.PartialWriteError{Reason: "points beyond retention policy", Dropped: c.Dropped})
	case "generic":
		werr = errors.New("engine is closed")
	}
	e.w.reset(werr)
	org, bkt := e.orgs[c.orgI], e.buckets[c.orgI][c.bktI]
	c.orgID, c.bktID = org.ID, bkt.ID
	h := ihttp.NewWriteHandler(zap.NewNop(), e.be, ihttp.WithMaxBatchSizeBytes(c.Limit))
	auth := c32Auth(org.ID, bkt.ID)
	q := "?"
	if c.OrgBy == "id" {
		q += "org=" + org.ID.String()
	} else {
		q += "org=" + strings.ReplaceAll(org.Name, " ", "%20")
	}
	if c.BucketBy == "id" {
		q += "&bucket=" + bkt.ID.String()
	} else {
		q += "&bucket=" + strings.ReplaceAll(bkt.Name, " ", "%20")
	}
	if c.Precision != "" {
		q += "&precision=" + c.Precision
	}
	res.T0 = time.Now()
	switch c.Transport {
	case "recorder":
		rd := &c32Reader{data: c.payload}
		if c.Encoding == "plain" {
			rd.eofWith = strings.HasPrefix(c.Framing, "eof_with_data")
			if strings.HasSuffix(c.Framing, "_pieces") {
				rd.piece = 1 + len(c.payload)/3
			}
		}
		req := httptest.NewRequest("POST", "http://localhost:8086/api/v2/write"+q, rd)
		if c.Header != "" {
			req.Header.Set("Content-Encoding", c.Header)
		}
		req = req.WithContext(pcontext.SetAuthorizer(req.Context(), auth))
		rec := httptest.NewRecorder()
		fin := make(chan struct{})
		go func() { defer close(fin); h.ServeHTTP(rec, req) }()
		select {
		case <-fin:
		case <-time.After(60 * time.Second): // watchdog only: a handler that never returns decides nothing
			r.Inconclusive("handler did not return within 60s (in-process request)")
			e.hung = true
			return res, false
		}
		res.Status = rec.Code
		res.RawBody = rec.Body.String()
	case "server_content_length", "server_chunked_stream":
		srv := e.server()
		if srv == nil {
			r.Inconclusive("loopback listener unavailable: " + e.srvErr)
			return res, false
		}
		consumed := make(chan struct{})
		done := make(chan struct{})
		var once sync.Once
		total := len(c.payload)
		e.srvMu.Lock()
		e.srvH = http.HandlerFunc(func(w http.ResponseWriter, rq *http.Request) {
			defer close(done)
			if c.Transport == "server_chunked_stream" {
				rq.Body = &c32CountingBody{rc: rq.Body, left: total, hit: func() { once.Do(func() { close(consumed) }) }}
			}
			h.ServeHTTP(w, rq.WithContext(pcontext.SetAuthorizer(rq.Context(), auth)))
		})
		e.srvMu.Unlock()
		var body io.Reader = bytes.NewReader(c.payload)
		if c.Transport == "server_chunked_stream" {
			// the client sends all bytes as one chunk and sends the terminating chunk only after
			// the handler has consumed them — what a slow or still-producing client looks like.
			pr, pw := io.Pipe()
			go func() {
				pw.Write(c.payload)
				select {
				case <-consumed:
				case <-done:
				}
				pw.Close()
			}()
			body = pr
		}
		req, err := http.NewRequest("POST", srv.URL+"/api/v2/write"+q, body)
		if err != nil {
			r.Inconclusive("request construction: " + err.Error())
			return res, false
		}
		if c.Header != "" {
			req.Header.Set("Content-Encoding", c.Header)
		}
		ctx, cancel := context.WithTimeout(context.Background(), 20*time.Second) // watchdog only
		defer cancel()
		resp, err := srv.Client().Do(req.WithContext(ctx))
		if err != nil {
			r.Inconclusive("loopback request failed: " + c32Trunc(err.Error(), 80))
			return res, false
		}
		b, _ := io.ReadAll(resp.Body)
		resp.Body.Close()
		select {
		case <-done:
		case <-time.After(20 * time.Second):
			r.Inconclusive("handler did not return")
			return res, false
		}
		res.Status = resp.StatusCode
		res.RawBody = string(b)
	}
	res.T1 = time.Now()
	if res.RawBody != "" {
		var eb struct{ Code, Message string }
		if json.Unmarshal([]byte(res.RawBody), &eb) == nil {
			res.Code, res.Message = eb.Code, eb.Message
		} else {
			res.Message = res.RawBody
		}
		res.RawBody = c32Trunc(res.RawBody, 600)
	}
	res.Calls = e.w.take()
	res.NCalls = len(res.Calls)
	return res, true
}

type c32CountingBody struct {
	rc   io.ReadCloser
	left int
	hit  func()
}

func (b *c32CountingBody) Read(p []byte) (int, error) {
	n, err := b.rc.Read(p)
	b.left -= n
	if b.left <= 0 || err != nil {
		b.hit()
	}
	return n, err
}
func (b *c32CountingBody) Close() error { b.hit(); return b.rc.Close() }

// ---- oracle --------------------------------------------------------------------------------

func c32ContainsNumber(msg string, n int) bool {
	re := regexp.MustCompile(`(^|[^0-9])` + strconv.Itoa(n) + `([^0-9]|$)`)
	return re.MatchString(msg)
}

type c32Reporter struct {
	r    *vkit.Run
	seen map[string]bool
}

// report emits one witness per distinct (class, features); repeats are only counted, so a
// systematic finding does not bury a different violation under twenty copies of itself.
func (p *c32Reporter) report(class string, feats map[string]string, w c32Wit) {
	keys := make([]string, 0, len(feats))
	for k, v := range feats {
		keys = append(keys, k+"="+v)
	}
	sort.Strings(keys)
	k := class + "|" + strings.Join(keys, ",")
	p.r.Event("violation_"+class, 1)
	if p.seen[k] {
		return
	}
	p.seen[k] = true
	w.Case.Body = c32Trunc(w.Case.Body, 1200)
	p.r.Violation(class, feats, w)
}

func c32Check(rep *c32Reporter, c *c32Case, res c32Result) {
	r := rep.r
	mk := func(m map[string]string, extra []string) map[string]string {
		for i := 0; i+1 < len(extra); i += 2 {
			m[extra[i]] = extra[i+1]
		}
		return m
	}
	// size verdicts are keyed by encoding/relation/framing; the other classes only by their own trigger
	sizeFeats := func(extra ...string) map[string]string {
		return mk(map[string]string{"encoding": c.Encoding, "relation": c.Relation}, extra)
	}
	feats := func(extra ...string) map[string]string { return mk(map[string]string{}, extra) }
	wit := func(expect, detail string) c32Wit { return c32Wit{Case: *c, Result: res, Expect: expect, Detail: detail} }
	stored := 0
	for _, cl := range res.Calls {
		stored += len(cl.Pts)
	}
	hasBad := c.NBad > 0

	if c.Relation == "gt_limit" {
		r.Event("expect_413_oversize", 1)
		if res.NCalls > 0 {
			rep.report("oversize_body_reached_writer", sizeFeats("framing", c.Framing), wit("413 and the points writer never called", fmt.Sprintf("writer called %d time(s) with %d point(s)", res.NCalls, stored)))
			return
		}
		if res.Status == http.StatusRequestEntityTooLarge || (hasBad && res.Status == http.StatusBadRequest) {
			return
		}
		rep.report("oversize_body_not_413", sizeFeats("framing", c.Framing, "status", strconv.Itoa(res.Status)), wit("413 Request Entity Too Large", ""))
		return
	}

	// decoded size ≤ limit (or no limit): the request must not be refused for its size
	r.Event("expect_accepted_"+c.Relation, 1)
	if res.Status == http.StatusRequestEntityTooLarge {
		rep.report("limit_boundary_rejected", sizeFeats("framing", c.Framing), wit("not 413: decoded size ≤ limit", fmt.Sprintf("decoded size %d, limit %d, transport %s", c.Size, c.Limit, c.Transport)))
		return
	}

	if hasBad {
		r.Event("expect_400_malformed", 1)
		if res.NCalls > 0 {
			rep.report("malformed_batch_reached_writer", feats("status", strconv.Itoa(res.Status)), wit("400 and the points writer never called", fmt.Sprintf("writer called %d time(s) with %d point(s)", res.NCalls, stored)))
			return
		}
		if res.Status != http.StatusBadRequest {
			rep.report("malformed_batch_not_400", feats("status", strconv.Itoa(res.Status)), wit("400 Bad Request", ""))
			return
		}
		for _, l := range c.body.Lines {
			switch l.Kind {
			case c32Bad:
				r.Event("bad_lines_checked_named", 1)
				if !strings.Contains(res.Message, l.Token) {
					rep.report("bad_line_not_named", feats("bad_class", l.BadClass), wit("message names every malformed line", "missing: "+l.Text))
					return
				}
			case c32Good:
				if strings.Contains(res.Message, l.Token+",") || strings.Contains(res.Message, l.Token+" ") || strings.Contains(res.Message, l.Token+"'") {
					rep.report("good_line_named_bad", feats(), wit("message names only the malformed lines", "names well-formed line: "+l.Text))
					return
				}
			}
		}
		return
	}

	// well-formed batch
	exp := map[string]c32Line{}
	for _, l := range c.body.Lines {
		if l.Kind == c32Good {
			exp[l.Pt.Fields["u"]] = l
		}
	}
	if res.NCalls > 1 {
		rep.report("writer_called_more_than_once", feats(), wit("one WritePoints call per request", fmt.Sprint(res.NCalls, " calls")))
		return
	}
	if len(exp) > 0 && res.NCalls == 0 {
		if res.Status >= 200 && res.Status < 300 {
			rep.report("success_without_write", feats("status", strconv.Itoa(res.Status)), wit("writer called with all points before 204", "writer never called"))
		} else {
			rep.report("wellformed_batch_refused", feats("status", strconv.Itoa(res.Status)), wit("batch handed to the points writer", "writer never called"))
		}
		return
	}
	if res.NCalls == 1 {
		call := res.Calls[0]
		if call.Org != c.orgID || call.Bucket != c.bktID {
			rep.report("written_to_wrong_bucket", feats(), wit(fmt.Sprintf("org %s bucket %s", c.orgID, c.bktID), fmt.Sprintf("org %s bucket %s", call.Org, call.Bucket)))
			return
		}
		got := map[string]c32Pt{}
		for _, p := range call.Pts {
			got[p.Fields["u"]] = p
		}
		if call.FieldErr != "" || len(call.Pts) != len(exp) || len(got) != len(exp) {
			rep.report("batch_not_fully_written", feats("kind", "count"), wit(fmt.Sprintf("%d points handed to the writer", len(exp)), fmt.Sprintf("%d points (distinct tokens %d) fieldErr=%q", len(call.Pts), len(got), call.FieldErr)))
			return
		}
		mult := c32PrecMult[c.Precision]
		for tok, l := range exp {
			g, okp := got[tok]
			if !okp {
				rep.report("batch_not_fully_written", feats("kind", "missing_point"), wit("every point of the body handed to the writer", "missing: "+l.Text))
				return
			}
			r.Event("points_compared", 1)
			want := l.Pt
			diff := ""
			if g.Name != want.Name {
				diff = fmt.Sprintf("name %q want %q", g.Name, want.Name)
			} else if fmt.Sprint(g.Tags) != fmt.Sprint(want.Tags) {
				diff = fmt.Sprintf("tags %v want %v", g.Tags, want.Tags)
			} else if fmt.Sprint(g.Fields) != fmt.Sprint(want.Fields) {
				diff = fmt.Sprintf("fields %v want %v", g.Fields, want.Fields)
			} else if l.HasTime {
				if wt := want.Time * mult; g.Time != wt {
					diff = fmt.Sprintf("time %d want %d", g.Time, wt)
				}
			} else {
				// server-assigned time: bracketed by wall-clock readings around the request (M6)
				lo := res.T0.Add(-time.Duration(mult)).UnixNano()
				hi := res.T1.UnixNano()
				if g.Time < lo || g.Time > hi {
					diff = fmt.Sprintf("server-assigned time %d outside [%d,%d]", g.Time, lo, hi)
				}
			}
			if diff != "" {
				rep.report("stored_point_differs", feats("precision", c.Precision), wit("point equals the line "+l.Text, diff))
				return
			}
		}
	}
	switch c.WriterErr {
	case "nil":
		r.Event("expect_204", 1)
		if res.Status != http.StatusNoContent {
			rep.report("wellformed_stored_not_204", feats("status", strconv.Itoa(res.Status)), wit("204 No Content", ""))
		}
	default:
		if res.NCalls == 0 { // empty batch, writer not consulted: nothing was refused
			return
		}
		r.Event("expect_error_"+c.WriterErr, 1)
		if res.Status >= 200 && res.Status < 300 {
			rep.report("write_error_answered_success", feats("writer", c.WriterErr, "status", strconv.Itoa(res.Status)), wit("an error status", "the points writer returned an error"))
			return
		}
		if strings.HasPrefix(c.WriterErr, "partial") && !c32ContainsNumber(res.Message, c.Dropped) {
			rep.report("dropped_count_missing", feats("writer", c.WriterErr), wit(fmt.Sprintf("error message stating dropped=%d", c.Dropped), ""))
		}
	}
}

// ---- test ----------------------------------------------------------------------------------

func c32Relation(size int, limit int64) string {
	switch {
	case limit <= 0:
		return "no_limit"
	case int64(size) > limit:
		return "gt_limit"
	case int64(size) == limit:
		return "eq_limit"
	default:
		return "lt_limit"
	}
}

func (c *c32Case) finish(rg *vkit.Rand) {
	c.Body, c.Size = c.body.Text, len(c.body.Text)
	c.Relation = c32Relation(c.Size, c.Limit)
	c.NGood, c.NBad = c.body.count(c32Good), c.body.count(c32Bad)
	c.payload = []byte(c.body.Text)
	if c.Encoding == "gzip" {
		c.payload = c32Gzip(rg, c.Framing, c.payload)
		if c.Header == "" {
			c.Header = "gzip"
		}
	}
}

func (c *c32Case) key() string {
	return fmt.Sprintf("%q|%d|%s|%s|%s|%s|%s|%s|%d|%s%s", c.Body, c.Limit, c.Encoding, c.Header, c.Framing, c.Transport, c.Precision, c.WriterErr, c.Dropped, c.OrgBy, c.BucketBy)
}

func TestC32(t *testing.T) {
	r := vkit.Start(t, "C32", "exploration")
	defer r.Finish()
	r.Rule("case = one POST /api/v2/write to the real handler: generated body (good/malformed/blank/comment lines carrying unique tokens), limit relative to the decoded size (none, <, =, >), encoding+framing (plain with EOF separate/with data/in pieces; gzip one-shot, flushed, pieces, multi-member, stored), transport (in-process recorder, loopback server with Content-Length, loopback chunked stream), precision, writer behaviour (nil, PartialWriteError value/wrapped, generic); non-trivial = body has ≥1 good or malformed line; distinct = hash of all of these")
	r.Assume("a limit of 0 means no limit (BatchReadCloser and the influxd flag documentation)",
		"lines of the malformed classes listed in evidence are malformed under every reading of the line-protocol documentation",
		"when a body is both oversize and malformed either 413 or 400 satisfies the statement")
	r.Trust("net/http/httptest, compress/gzip (request side), tenant services on inmem KV as org/bucket lookup")
	env := c32NewEnv(t)
	defer func() {
		if env.srv != nil {
			env.srv.Close()
		}
	}()
	rep := &c32Reporter{r: r, seen: map[string]bool{}}
	ctr := 0
	caseNo := 0
	run := func(c *c32Case, rg *vkit.Rand) {
		c.No = caseNo
		caseNo++
		c.finish(rg)
		if env.hung {
			return // a previous request never returned; its goroutine still spins — stop driving
		}
		res, ok := env.do(r, c)
		r.Case(c.key(), c.NGood+c.NBad > 0)
		r.Event("enc_"+c.Encoding+"_"+c.Framing, 1)
		r.Event("transport_"+c.Transport, 1)
		r.Event("relation_"+c.Relation, 1)
		if env.hung {
			fmt.Printf("INCONCLUSIVE property=C32 the handler never returned for case %d (limit=%d size=%d %s/%s)\n", c.No, c.Limit, c.Size, c.Encoding, c.Framing)
			t.Fatalf("INCONCLUSIVE: handler hung")
		}
		if !ok {
			return
		}
		r.Event("status_"+strconv.Itoa(res.Status), 1)
		c32Check(rep, c, res)
		if r.WantSample() && c.No%37 == 5 {
			cc := *c
			cc.Body = c32Trunc(cc.Body, 300)
			r.Sample(map[string]any{"case": cc, "status": res.Status, "message": c32Trunc(res.Message, 200), "writer_calls": res.NCalls})
		}
	}

	// (1) directed minimal boundary cases first, so that a boundary witness is the smallest one
	plainFramings := []string{"eof_separate", "eof_with_data", "eof_separate_pieces", "eof_with_data_pieces"}
	drg := r.SubRand("directed", 0)
	for _, d := range []int64{0, 1, -1} {
		for _, enc := range []string{"plain", "gzip"} {
			fr := plainFramings
			if enc == "gzip" {
				fr = c32GzipFramings
			}
			for _, f := range fr {
				for _, tr := range []string{"recorder", "server_content_length", "server_chunked_stream"} {
					if tr != "recorder" && enc == "plain" && f != "eof_separate" {
						continue // the framing is the transport's own there
					}
					ctr++
					ln := c32Line{Kind: c32Good, Text: fmt.Sprintf("m u=%di", ctr), Token: fmt.Sprintf("u=%di", ctr), Pt: c32Pt{Name: "m", Tags: map[string]string{}, Fields: map[string]string{"u": "i:" + strconv.Itoa(ctr)}}}
					c := &c32Case{Encoding: enc, Framing: f, Transport: tr, WriterErr: "nil", OrgBy: "name", BucketBy: "name"}
					c.body.Lines = []c32Line{ln}
					c.body.join(false)
					c.Limit = int64(len(c.body.Text)) + d
					if tr != "recorder" && enc == "plain" {
						c.Framing = "transport_" + tr
					}
					run(c, drg)
				}
			}
		}
	}

	// (2) random requests
	n := r.N(4000, 100000)
	for i := 0; i < n; i++ {
		rg := r.Rand(i)
		c := &c32Case{}
		c.Precision = vkit.Pick(rg, []string{"", "", "ns", "us", "ms", "s"})
		prec := c.Precision
		if prec == "" {
			prec = "ns"
		}
		nBad := 0
		if rg.Chance(2, 5) {
			nBad = 1 + rg.Intn(3)
		}
		nLines := rg.Intn(9)
		if rg.Chance(1, 12) {
			nLines = 20 + rg.Intn(200) // crosses io.ReadAll's 512-byte growth steps
		}
		if nBad > 0 && nLines == 0 {
			nLines = 1
		}
		if rg.Chance(1, 4) {
			// exact-size body around buffer boundaries
			size := vkit.Pick(rg, []int{1, 2, 5, 6, 7, 20, 511, 512, 513, 1023, 1024, 1025, 4095, 4096, 4097}) + rg.Intn(2)*rg.Intn(40)
			c.body = c32SizedBody(rg, &ctr, prec, size, nBad > 0)
		} else {
			c.body = c32RandomBody(rg, &ctr, prec, nLines, nBad)
		}
		size := int64(len(c.body.Text))
		switch rg.Intn(10) {
		case 0:
			c.Limit = 0
		case 1, 2, 3:
			c.Limit = size
		case 4, 5:
			c.Limit = size - 1
		case 6:
			c.Limit = size + 1
		case 7:
			c.Limit = int64(rg.Range(1, int(2*size)+2))
		case 8:
			c.Limit = size + int64(rg.Range(2, 5000))
		default:
			c.Limit = int64(rg.Range(1, int(size)+1))
		}
		if c.Limit < 0 {
			c.Limit = 0
		}
		if rg.Chance(1, 2) {
			c.Encoding, c.Framing = "plain", vkit.Pick(rg, plainFramings)
		} else {
			c.Encoding, c.Framing = "gzip", vkit.Pick(rg, c32GzipFramings)
			if rg.Chance(1, 5) {
				c.Header = "x-gzip"
			}
		}
		c.Transport = "recorder"
		if rg.Chance(1, 10) {
			c.Transport = "server_content_length"
			if c.Encoding == "plain" {
				c.Framing = "transport_server_content_length"
			}
		}
		switch rg.Intn(10) {
		case 0, 1:
			c.WriterErr = "partial"
		case 2:
			c.WriterErr = "partial_wrapped"
		case 3:
			c.WriterErr = "generic"
		default:
			c.WriterErr = "nil"
		}
		if strings.HasPrefix(c.WriterErr, "partial") {
			c.Dropped = 1 + rg.Intn(5)
			if rg.Bool() {
				c.Dropped = 10007 + i%7919 // distinctive: cannot be mistaken for another number
			}
		}
		c.orgI, c.bktI = rg.Intn(2), rg.Intn(2)
		c.OrgBy, c.BucketBy = vkit.Pick(rg, []string{"name", "id"}), vkit.Pick(rg, []string{"name", "id"})
		run(c, rg)
	}

	// (3) thorough: every limit 1…4096 with bodies of limit−1, limit, limit+1 bytes
	if !r.Quick() {
		for lim := 1; lim <= 4096; lim++ {
			for d := -1; d <= 1; d++ {
				size := lim + d
				if size < 0 {
					continue
				}
				for _, enc := range []string{"plain", "gzip"} {
					rg := r.SubRand("sweep/"+enc, lim*3+d+1)
					c := &c32Case{Limit: int64(lim), Transport: "recorder", WriterErr: "nil", OrgBy: "id", BucketBy: "name", Precision: "ns"}
					c.body = c32SizedBody(rg, &ctr, "ns", size, rg.Chance(1, 5))
					if len(c.body.Text) != size {
						t.Fatalf("sized body generator: want %d got %d", size, len(c.body.Text))
					}
					c.Encoding, c.Framing = enc, vkit.Pick(rg, plainFramings)
					if enc == "gzip" {
						c.Framing = vkit.Pick(rg, c32GzipFramings)
					}
					run(c, rg)
				}
			}
		}
	}
	r.Extra("malformed_classes", c32BadClasses)
	r.Extra("gzip_framings", c32GzipFramings)
	if env.srvErr != "" {
		r.Extra("loopback_unavailable", env.srvErr)
	}
}
