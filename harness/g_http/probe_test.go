package g_http

import (
	"bytes"
	"compress/gzip"
	"context"
	"fmt"
	"io"
	"net/http"
	"net/http/httptest"
	"strings"
	"testing"

	"github.com/influxdata/influxdb/v2"
	pcontext "github.com/influxdata/influxdb/v2/context"
	ihttp "github.com/influxdata/influxdb/v2/http"
	"github.com/influxdata/influxdb/v2/http/metric"
	"github.com/influxdata/influxdb/v2/inmem"
	"github.com/influxdata/influxdb/v2/kit/platform"
	kithttp "github.com/influxdata/influxdb/v2/kit/transport/http"
	"github.com/influxdata/influxdb/v2/kv/migration/all"
	"github.com/influxdata/influxdb/v2/models"
	"github.com/influxdata/influxdb/v2/tenant"
	"go.uber.org/zap"
)

type pw struct {
	calls int
	pts   []models.Point
}

func (p *pw) WritePoints(ctx context.Context, o, b platform.ID, pts []models.Point) error {
	p.calls++
	p.pts = append(p.pts, pts...)
	return nil
}

type onlyReader struct{ io.Reader }

func TestProbe(t *testing.T) {
	ctx := context.Background()
	s := inmem.NewKVStore()
	if err := all.Up(ctx, zap.NewNop(), s); err != nil {
		t.Fatal(err)
	}
	st := tenant.NewStore(s)
	svc := tenant.NewService(st)
	org := &influxdb.Organization{Name: "o1"}
	if err := svc.CreateOrganization(ctx, org); err != nil {
		t.Fatal(err)
	}
	bk := &influxdb.Bucket{Name: "b1", OrgID: org.ID}
	if err := svc.CreateBucket(ctx, bk); err != nil {
		t.Fatal(err)
	}
	w := &pw{}
	be := &ihttp.WriteBackend{
		HTTPErrorHandler:    kithttp.NewErrorHandler(zap.NewNop()),
		WriteEventRecorder:  &metric.NopEventRecorder{},
		PointsWriter:        w,
		BucketService:       svc,
		OrganizationService: svc,
	}
	oid, bid := org.ID, bk.ID
	auth := &influxdb.Authorization{OrgID: oid, Status: influxdb.Active, Permissions: []influxdb.Permission{{Action: influxdb.WriteAction, Resource: influxdb.Resource{Type: influxdb.BucketsResourceType, OrgID: &oid, ID: &bid}}}}
	for _, size := range []int{13, 512, 513, 1024, 40000, 70000} {
		line := "m1,t1=v1 f1=1"
		var sb strings.Builder
		for sb.Len()+len(line)+1 <= size {
			sb.WriteString(line + "\n")
		}
		for sb.Len() < size-len("m f=1") {
			sb.WriteString("\n")
		}
		if sb.Len() < size {
			rest := size - sb.Len()
			sb.WriteString("m f=" + strings.Repeat("1", rest-4))
		}
		body := sb.String()
		if len(body) != size {
			t.Fatalf("size %d got %d", size, len(body))
		}
		for _, enc := range []string{"plain", "gzip"} {
			payload := []byte(body)
			if enc == "gzip" {
				var zb bytes.Buffer
				zw := gzip.NewWriter(&zb)
				zw.Write(payload)
				zw.Close()
				payload = zb.Bytes()
			}
			for _, d := range []int64{-1, 0, 1} {
				lim := int64(size) + d
				h := ihttp.NewWriteHandler(zap.NewNop(), be, ihttp.WithMaxBatchSizeBytes(lim))
				wrapped := http.HandlerFunc(func(rw http.ResponseWriter, r *http.Request) {
					h.ServeHTTP(rw, r.WithContext(pcontext.SetAuthorizer(r.Context(), auth)))
				})
				// recorder
				r := httptest.NewRequest("POST", "http://localhost:8086/api/v2/write?org=o1&bucket=b1", bytes.NewReader(payload))
				if enc == "gzip" {
					r.Header.Set("Content-Encoding", "gzip")
				}
				rec := httptest.NewRecorder()
				wrapped.ServeHTTP(rec, r)
				out := fmt.Sprintf("size=%d enc=%s limit=%+d recorder=%d", size, enc, d, rec.Code)
				srv := httptest.NewServer(wrapped)
				for _, chunked := range []bool{false, true} {
					var rd io.Reader = bytes.NewReader(payload)
					if chunked {
						rd = onlyReader{rd}
					}
					req, _ := http.NewRequest("POST", srv.URL+"/api/v2/write?org=o1&bucket=b1", rd)
					if enc == "gzip" {
						req.Header.Set("Content-Encoding", "gzip")
					}
					resp, err := srv.Client().Do(req)
					if err != nil {
						t.Fatal(err)
					}
					io.Copy(io.Discard, resp.Body)
					resp.Body.Close()
					out += fmt.Sprintf(" server(chunked=%v,te=%v)=%d", chunked, req.TransferEncoding, resp.StatusCode)
				}
				srv.Close()
				fmt.Println(out)
			}
		}
	}
}
