package g_meta

import (
	"context"
	"fmt"
	"math/big"
	"runtime/debug"
	"sort"
	"strconv"
	"strings"
	"sync"
	"testing"
	"time"

	"github.com/influxdata/influxdb/v2/inmem"
	"github.com/influxdata/influxdb/v2/models"
	"github.com/influxdata/influxdb/v2/tsdb"
	"github.com/influxdata/influxdb/v2/v1/coordinator"
	"github.com/influxdata/influxdb/v2/v1/services/meta"
	"github.com/influxdata/influxdb/v2/v1/services/retention"

	"verifharness/vkit"
)

// C19 — retention drops only expired data.
//
// Four monitors over the real code ((d) lives in c19_fault_test.go: the same verdicts as (b) and (c)
// in histories where metadata commits fail):
//   (a) pure:    RetentionPolicyInfo.ExpiredShardGroups(t) for explicit t on generated layouts
//   (b) write:   PointsWriter.MapShards / WritePointsPrivileged against a real meta.Client, the
//                internal time.Now() bracketed by readings before and after the call
//   (c) service: retention.Service.DeletionCheck against a real meta.Client (calls recorded by a
//                thin wrapper) and a recording TSDBStore, bracketed the same way
// The oracle is integer arithmetic written from the statement: a group [start,end) of a policy
// with retention D is expired at time t iff every instant of the range is older than t-D, i.e.
// end-1ns < t-D, i.e. end+D <= t. The code uses end+D < t; the single instant end+D == t is
// "either" (the statement says "only when"), everything else is decided.

// c19Big is the nanosecond count of any time.Time, without int64 overflow.
func c19Big(t time.Time) *big.Int {
	v := new(big.Int).Mul(big.NewInt(t.Unix()), big.NewInt(1e9))
	return v.Add(v, big.NewInt(int64(t.Nanosecond())))
}

// c19Expect: +1 the group must be reported expired at t, -1 it must not, 0 either.
func c19Expect(end time.Time, d time.Duration, deleted bool, t time.Time) int {
	if deleted || d == 0 {
		return -1
	}
	lim := new(big.Int).Add(c19Big(end), big.NewInt(int64(d)))
	switch lim.Cmp(c19Big(t)) {
	case -1:
		return +1
	case 0:
		return 0
	default:
		return -1
	}
}

var c19Durations = []time.Duration{time.Hour, 2 * time.Hour, 24 * time.Hour, 7 * 24 * time.Hour, 30 * 24 * time.Hour,
	52 * 7 * 24 * time.Hour, 3650 * 24 * time.Hour, 100 * 365 * 24 * time.Hour, time.Hour + 1, 25*time.Hour + 7}

func c19PickD(rg *vkit.Rand, zeroOK bool) time.Duration {
	if zeroOK && rg.Chance(1, 8) {
		return 0
	}
	if rg.Chance(1, 5) {
		return time.Hour + time.Duration(rg.Uint64()%uint64(400*24*time.Hour))
	}
	return vkit.Pick(rg, c19Durations)
}

func c19PickSGD(rg *vkit.Rand, d time.Duration) time.Duration {
	cands := []time.Duration{time.Hour, 90 * time.Minute, 24 * time.Hour, 7 * 24 * time.Hour, 31 * 24 * time.Hour, 52 * 7 * 24 * time.Hour}
	var ok []time.Duration
	for _, c := range cands {
		if d == 0 || c <= d {
			ok = append(ok, c)
		}
	}
	return vkit.Pick(rg, ok)
}

type c19Wit struct {
	Part    string   `json:"part"`
	Case    int      `json:"case"`
	What    string   `json:"what"`
	D       string   `json:"retention"`
	Layout  []string `json:"layout,omitempty"`
	T       string   `json:"t,omitempty"`
	T0      string   `json:"t0,omitempty"`
	T1      string   `json:"t1,omitempty"`
	Points  []string `json:"points,omitempty"`
	Calls   []string `json:"calls,omitempty"`
	Details string   `json:"details,omitempty"`
	History []string `json:"history,omitempty"` // fault stream: the operations of the history so far
}

// ---- (a) pure ---------------------------------------------------------------------------------

func c19GroupStr(g meta.ShardGroupInfo) string {
	d := ""
	if !g.DeletedAt.IsZero() {
		d = " deleted"
	}
	var sh []string
	for _, s := range g.Shards {
		sh = append(sh, strconv.FormatUint(s.ID, 10))
	}
	return fmt.Sprintf("#%d[%s,%s) shards=%s%s", g.ID, c18Fmt(g.StartTime), c18Fmt(g.EndTime), strings.Join(sh, ","), d)
}

func c19Layout(gs []meta.ShardGroupInfo) []string {
	out := make([]string, 0, len(gs))
	for _, g := range gs {
		out = append(out, c19GroupStr(g))
	}
	if len(out) > 30 {
		out = out[:30]
	}
	return out
}

func c19Pure(r *vkit.Run, caseNo int) {
	rg := r.SubRand("pure", caseNo)
	d := c19PickD(rg, true)
	sgd := c19PickSGD(rg, d)
	var rpi *meta.RetentionPolicyInfo
	mode := "literal"
	var key strings.Builder
	if rg.Chance(1, 3) {
		// layout produced by the real Data API
		mode = "api"
		data := &meta.Data{}
		if err := data.CreateDatabase("db"); err != nil {
			r.Inconclusive("pure: create database: " + err.Error())
			return
		}
		if err := data.CreateRetentionPolicy("db", &meta.RetentionPolicyInfo{Name: "rp", ReplicaN: 1, Duration: d, ShardGroupDuration: sgd}, true); err != nil {
			r.Inconclusive("pure: create rp: " + err.Error())
			return
		}
		base := vkit.Pick(rg, []int64{1600000000e9, 0, -3e18, models.MaxNanoTime - int64(3*sgd), 1e18})
		n := 1 + rg.Intn(8)
		for i := 0; i < n; i++ {
			ts := base + int64(rg.Intn(12))*(int64(sgd)/2)
			if ts < base {
				ts = models.MaxNanoTime
			}
			ts = c18Clamp(ts)
			if err := data.CreateShardGroup("db", "rp", c18T(ts)); err != nil {
				r.Inconclusive("pure: create group: " + err.Error())
				return
			}
		}
		p, _ := data.RetentionPolicy("db", "rp")
		for i := range p.ShardGroups {
			if rg.Chance(1, 5) {
				_ = data.DeleteShardGroup("db", "rp", p.ShardGroups[i].ID)
			}
		}
		rpi, _ = data.RetentionPolicy("db", "rp")
	} else {
		base := vkit.Pick(rg, []int64{1600000000e9, 0, -int64(sgd), -3e18, 1e18, models.MaxNanoTime - int64(10*sgd) - 5, models.MinNanoTime + int64(sgd)})
		rpi = &meta.RetentionPolicyInfo{Name: "rp", ReplicaN: 1, Duration: d, ShardGroupDuration: sgd}
		n := 1 + rg.Intn(8)
		cur := c18T(base) // time.Time arithmetic: layouts may run past the int64 range
		for i := 0; i < n; i++ {
			if rg.Chance(1, 4) {
				cur = cur.Add(sgd * time.Duration(1+rg.Intn(3))) // gap
			}
			ln := sgd
			if rg.Chance(1, 5) {
				ln = time.Duration(1 + int64(rg.Uint64()%uint64(sgd))) // clipped group
			}
			g := meta.ShardGroupInfo{ID: uint64(i + 1), StartTime: cur, EndTime: cur.Add(ln), Shards: []meta.ShardInfo{{ID: uint64(100 + i)}}}
			if rg.Chance(1, 5) {
				g.DeletedAt = cur.Add(ln).Add(time.Duration(rg.Intn(3)) * time.Hour)
			}
			rpi.ShardGroups = append(rpi.ShardGroups, g)
			cur = cur.Add(ln)
		}
	}
	fmt.Fprintf(&key, "pure %s d=%s sgd=%s", mode, d, sgd)
	for _, g := range rpi.ShardGroups {
		fmt.Fprintf(&key, " %s", c19GroupStr(g))
	}
	// evaluation times: every boundary the statement and its plausible misreadings care about
	var ts []time.Time
	for _, g := range rpi.ShardGroups {
		for _, delta := range []time.Duration{-1, 0, 1} {
			ts = append(ts, g.EndTime.Add(d).Add(delta), g.StartTime.Add(d).Add(delta), g.EndTime.Add(delta), g.EndTime.Add(-d).Add(delta))
		}
		ts = append(ts, g.EndTime.Add(d).Add(time.Hour), g.EndTime.Add(d).Add(-time.Hour), g.EndTime.Add(d/2))
	}
	ts = append(ts, c18T(models.MinNanoTime), c18T(models.MaxNanoTime), c18T(0), c18T(models.MaxNanoTime).Add(200*365*24*time.Hour))
	mixed := false
	for _, t := range ts {
		got := map[uint64]int{}
		for _, g := range rpi.ExpiredShardGroups(t) {
			got[g.ID]++
		}
		nExp, nKeep := 0, 0
		for _, g := range rpi.ShardGroups {
			want := c19Expect(g.EndTime, d, !g.DeletedAt.IsZero(), t)
			r.Event("pure_group_verdicts", 1)
			switch {
			case want == 0:
				r.Event("pure_boundary_either", 1)
			case want > 0:
				nExp++
			default:
				nKeep++
			}
			bad := ""
			kind := ""
			switch {
			case got[g.ID] > 1:
				bad, kind = fmt.Sprintf("group #%d reported %d times", g.ID, got[g.ID]), "duplicate"
			case want > 0 && got[g.ID] == 0:
				bad, kind = fmt.Sprintf("group %s lies entirely before t-D but is not reported expired", c19GroupStr(g)), "expired_not_reported"
			case want < 0 && got[g.ID] > 0:
				kind = "unexpired_reported"
				switch {
				case !g.DeletedAt.IsZero():
					kind = "deleted_reported"
				case d == 0:
					kind = "infinite_retention_reported"
				}
				bad = fmt.Sprintf("group %s reported expired although not (entirely older than t-D, live, D!=0)", c19GroupStr(g))
			}
			if bad != "" {
				r.Event("violation_pure_"+kind, 1)
				r.Violation("expired_set_wrong", map[string]string{"where": "ExpiredShardGroups", "kind": kind},
					c19Wit{Part: "pure", Case: caseNo, What: bad, D: d.String(), Layout: c19Layout(rpi.ShardGroups), T: c18Fmt(t)})
			}
		}
		if nExp > 0 && nKeep > 0 {
			mixed = true
		}
	}
	r.Event("pure_times_evaluated", int64(len(ts)))
	r.Case(key.String(), len(rpi.ShardGroups) >= 2 && mixed)
	if caseNo%97 == 0 && caseNo < 194 && r.WantSample() {
		r.Sample(map[string]any{"part": "pure", "case": caseNo, "mode": mode, "retention": d.String(), "layout": c19Layout(rpi.ShardGroups), "times": len(ts)})
	}
}

// ---- (b) write path ---------------------------------------------------------------------------

type c19Store struct {
	mu       sync.Mutex
	ids      map[uint64]bool
	inUse    map[uint64]bool
	blocked  map[uint64]bool
	calls    []string
	deleted  []uint64
	written  map[string]uint64 // point key -> shard
	autoMake bool
}

func c19NewStore() *c19Store {
	return &c19Store{ids: map[uint64]bool{}, inUse: map[uint64]bool{}, blocked: map[uint64]bool{}, written: map[string]uint64{}}
}

func (s *c19Store) CreateShard(ctx context.Context, database, retentionPolicy string, shardID uint64, enabled bool) error {
	s.mu.Lock()
	defer s.mu.Unlock()
	s.ids[shardID] = true
	return nil
}

func (s *c19Store) WriteToShard(ctx context.Context, shardID uint64, points []models.Point) error {
	s.mu.Lock()
	defer s.mu.Unlock()
	if !s.ids[shardID] {
		return tsdb.ErrShardNotFound
	}
	for _, p := range points {
		s.written[string(p.Key())] = shardID
	}
	return nil
}

func (s *c19Store) ShardIDs() []uint64 {
	s.mu.Lock()
	defer s.mu.Unlock()
	out := make([]uint64, 0, len(s.ids))
	for id := range s.ids {
		out = append(out, id)
	}
	sort.Slice(out, func(i, j int) bool { return out[i] < out[j] })
	return out
}

func (s *c19Store) DeleteShard(id uint64) error {
	s.mu.Lock()
	defer s.mu.Unlock()
	s.calls = append(s.calls, fmt.Sprintf("store.DeleteShard(%d)", id))
	if !s.ids[id] {
		return tsdb.ErrShardNotFound
	}
	delete(s.ids, id)
	s.deleted = append(s.deleted, id)
	return nil
}

func (s *c19Store) SetShardNewReadersBlocked(id uint64, blocked bool) error {
	s.mu.Lock()
	defer s.mu.Unlock()
	s.calls = append(s.calls, fmt.Sprintf("store.SetShardNewReadersBlocked(%d,%v)", id, blocked))
	if !s.ids[id] {
		return tsdb.ErrShardNotFound
	}
	s.blocked[id] = blocked
	return nil
}

func (s *c19Store) ShardInUse(id uint64) (bool, error) {
	s.mu.Lock()
	defer s.mu.Unlock()
	if !s.ids[id] {
		return false, tsdb.ErrShardNotFound
	}
	return s.inUse[id], nil
}

type c19Off struct {
	name string
	abs  bool  // absolute timestamp instead of an offset from (now - D)
	v    int64 // offset in ns, or the absolute timestamp
}

var c19Offsets = []c19Off{
	{"-1ns", false, -1}, {"-1us", false, -1e3}, {"-1ms", false, -1e6}, {"-1s", false, -1e9}, {"-1m", false, -60e9},
	{"-1h", false, -3600e9}, {"-1h-1ns", false, -3600e9 - 1}, {"-1d", false, -86400e9}, {"-10y", false, -3650 * 86400e9},
	{"+0", false, 0}, {"+1us", false, 1e3}, {"+50ms", false, 50e6}, {"+1s", false, 1e9}, {"+5s", false, 5e9}, {"+1m", false, 60e9},
	{"+1h", false, 3600e9}, {"+1d", false, 86400e9},
	{"min", true, models.MinNanoTime}, {"max", true, models.MaxNanoTime}, {"epoch", true, 0}, {"1800", true, -5364662400e9},
}

type c19Pt struct {
	name string
	ts   int64
	p    models.Point
}

// c19Points draws points around the retention boundary now-D (plus now, the future, extremes).
func c19Points(rg *vkit.Rand, tb time.Time, d time.Duration, n int, ctr *int) ([]c19Pt, []models.Point) {
	out := make([]c19Pt, 0, n)
	raw := make([]models.Point, 0, n)
	for i := 0; i < n; i++ {
		var name string
		var ts int64
		switch k := rg.Intn(10); {
		case k < 6:
			o := vkit.Pick(rg, c19Offsets)
			name = o.name
			if o.abs {
				ts = o.v
			} else {
				ts = c18Clamp(tb.UnixNano() - int64(d) + o.v)
			}
		case k == 6:
			name, ts = "now", tb.UnixNano()
		case k == 7:
			off := int64(rg.Uint64()%uint64(48*time.Hour)) - int64(24*time.Hour)
			name, ts = fmt.Sprintf("now%+d", off), tb.UnixNano()+off
		case k == 8:
			off := int64(rg.Uint64()%uint64(4*time.Hour)) - int64(2*time.Hour)
			name, ts = fmt.Sprintf("%+d", off), c18Clamp(tb.UnixNano()-int64(d)+off)
		default:
			span := int64(d)
			if span == 0 {
				span = int64(24 * time.Hour)
			}
			off := int64(rg.Uint64()%uint64(2*span)) - span
			name, ts = fmt.Sprintf("%+d", off), c18Clamp(tb.UnixNano()-int64(d)+off)
		}
		*ctr++
		p := models.MustNewPoint("m", models.NewTags(map[string]string{"id": strconv.Itoa(*ctr)}), models.Fields{"v": float64(*ctr)}, time.Unix(0, ts))
		out = append(out, c19Pt{name: name, ts: ts, p: p})
		raw = append(raw, p)
	}
	return out, raw
}

// c19Judge compares what happened to each point with the bracket [t0-D, t1-D].
// accepted maps the key of every accepted point to the shard group it was routed to.
func c19Judge(r *vkit.Run, where string, caseNo int, d time.Duration, pts []c19Pt, accepted map[string]uint64, t0, t1 time.Time) (dropped int) {
	return c19JudgeX(r, nil, where, caseNo, d, pts, accepted, t0, t1)
}

// c19JudgeCtx lets another stream of the check (failed metadata commits) use the same verdicts with
// its own event counters, witness part, extra features and history.
type c19JudgeCtx struct {
	ev, part string
	extra    map[string]string
	hist     []string
}

func c19JudgeX(r *vkit.Run, cx *c19JudgeCtx, where string, caseNo int, d time.Duration, pts []c19Pt, accepted map[string]uint64, t0, t1 time.Time) (dropped int) {
	ev, part := "", "write"
	var extra map[string]string
	var hist []string
	if cx != nil {
		ev, part, extra, hist = cx.ev, cx.part, cx.extra, cx.hist
	}
	lo, hi := t0.UnixNano()-int64(d), t1.UnixNano()-int64(d)
	// groups that some point of the batch which is not certainly expired was routed to
	liveGroups := map[uint64]bool{}
	for _, p := range pts {
		if g, ok := accepted[string(p.p.Key())]; ok && (d == 0 || p.ts >= lo) {
			liveGroups[g] = true
		}
	}
	var desc []string
	for _, p := range pts {
		desc = append(desc, fmt.Sprintf("%s=%d", p.name, p.ts))
	}
	for _, p := range pts {
		grp, acc := accepted[string(p.p.Key())]
		if !acc {
			dropped++
		}
		cause := ""
		r.Event(ev+"write_point_verdicts", 1)
		kind := ""
		switch {
		case d == 0:
			if !acc {
				kind = "rejected_with_infinite_retention"
			}
		case p.ts < lo: // older than now-D for every now the call can have seen
			r.Event(ev+"write_points_must_drop", 1)
			if acc {
				kind = "expired_point_accepted"
				cause = "other"
				if liveGroups[grp] {
					// the group was put on MapShards' list for a newer point of the same batch
					cause = "shares_group_with_live_point_of_batch"
				}
			}
		case p.ts >= hi: // not older than now-D for any now the call can have seen
			r.Event(ev+"write_points_must_accept", 1)
			if !acc {
				kind = "live_point_rejected"
			}
		default:
			r.Event(ev+"write_points_in_bracket_either", 1)
		}
		if kind != "" {
			feats := map[string]string{"where": where, "kind": kind}
			for k, v := range extra {
				feats[k] = v
			}
			if cause != "" {
				feats["cause"] = cause
				r.Event("violation_"+ev+"write_"+kind+"_"+cause, 1)
			} else {
				r.Event("violation_"+ev+"write_"+kind, 1)
			}
			r.Violation("retention_rejection_wrong", feats,
				c19Wit{Part: part, Case: caseNo, D: d.String(), T0: strconv.FormatInt(t0.UnixNano(), 10), T1: strconv.FormatInt(t1.UnixNano(), 10), History: hist,
					What:   fmt.Sprintf("point %s ts=%d (now-D in [%d,%d]) accepted=%v group=#%d", p.name, p.ts, lo, hi, acc, grp),
					Points: desc})
		}
	}
	return dropped
}

// c19GroupOfShard finds the group owning a shard in the client's own data (0 = none).
func c19GroupOfShard(mc *meta.Client, shard uint64) uint64 {
	d := mc.Data()
	for _, db := range d.Databases {
		for _, rp := range db.RetentionPolicies {
			for _, g := range rp.ShardGroups {
				for _, sh := range g.Shards {
					if sh.ID == shard {
						return g.ID
					}
				}
			}
		}
	}
	return 0
}

func c19Write(r *vkit.Run, caseNo int) {
	rg := r.SubRand("write", caseNo)
	defer func() {
		if p := recover(); p != nil {
			r.Violation("panic", map[string]string{"where": "write"}, c19Wit{Part: "write", Case: caseNo, What: fmt.Sprintf("panic: %v\n%s", p, debug.Stack())})
		}
	}()
	d := c19PickD(rg, true)
	var sgd time.Duration
	if rg.Bool() {
		sgd = c19PickSGD(rg, d)
	}
	store := inmem.NewKVStore()
	_ = store.CreateBucket(context.Background(), meta.BucketName)
	mc, err := c18OpenClient(store)
	if err != nil {
		r.Inconclusive("write: open: " + err.Error())
		return
	}
	defer mc.Close()
	if _, err := mc.CreateDatabaseWithRetentionPolicy("db", &meta.RetentionPolicySpec{Name: "rp", Duration: &d, ShardGroupDuration: sgd}); err != nil {
		r.Inconclusive("write: create database: " + err.Error())
		return
	}
	pw := coordinator.NewPointsWriter(time.Minute, "c19")
	pw.MetaClient = mc
	ts := c19NewStore()
	pw.TSDBStore = ts
	ctr := 0
	var key strings.Builder
	fmt.Fprintf(&key, "write d=%s sgd=%s", d, sgd)
	sawDrop, sawAccept := false, false

	// MapShards
	tb := time.Now()
	pts, raw := c19Points(rg, tb, d, 1+rg.Intn(12), &ctr)
	for _, p := range pts {
		key.WriteString(" " + p.name)
	}
	t0 := time.Now()
	mapping, err := pw.MapShards(&coordinator.WritePointsRequest{Database: "db", RetentionPolicy: "rp", Points: raw})
	t1 := time.Now()
	if err != nil {
		r.Violation("mapshards_error", map[string]string{"where": "MapShards"}, c19Wit{Part: "write", Case: caseNo, D: d.String(), What: err.Error()})
		return
	}
	acc := map[string]uint64{}
	n := 0
	for sh, ps := range mapping.Points {
		for _, p := range ps {
			acc[string(p.Key())] = c19GroupOfShard(mc, sh)
			n++
		}
	}
	dropped := c19Judge(r, "MapShards", caseNo, d, pts, acc, t0, t1)
	r.Event("write_mapshards_calls", 1)
	if n != len(acc) || mapping.RetentionDropped != dropped || mapping.Dropped() != dropped || mapping.WriteWindowDropped != 0 {
		r.Event("violation_write_dropped_count", 1)
		r.Violation("dropped_count_wrong", map[string]string{"where": "MapShards"},
			c19Wit{Part: "write", Case: caseNo, D: d.String(), What: fmt.Sprintf("%d of %d points are absent from the mapping (%d mapped entries) but RetentionDropped=%d WriteWindowDropped=%d Dropped()=%d",
				dropped, len(pts), n, mapping.RetentionDropped, mapping.WriteWindowDropped, mapping.Dropped())})
	}
	if dropped > 0 {
		sawDrop = true
	}
	if dropped < len(pts) {
		sawAccept = true
	}

	// WritePointsPrivileged: the rejection as the caller sees it
	tb = time.Now()
	pts, raw = c19Points(rg, tb, d, 1+rg.Intn(12), &ctr)
	key.WriteString(" |")
	for _, p := range pts {
		key.WriteString(" " + p.name)
	}
	t0 = time.Now()
	werr := pw.WritePointsPrivileged(context.Background(), "db", "rp", models.ConsistencyLevelAny, raw)
	t1 = time.Now()
	ts.mu.Lock()
	acc = map[string]uint64{}
	for k, sh := range ts.written {
		acc[k] = c19GroupOfShard(mc, sh)
	}
	ts.mu.Unlock()
	dropped = c19Judge(r, "WritePoints", caseNo, d, pts, acc, t0, t1)
	r.Event("write_writepoints_calls", 1)
	bad := ""
	if dropped == 0 {
		if werr != nil {
			bad = "no point was dropped but the write returned: " + werr.Error()
		}
	} else {
		r.Event("write_partial_write_errors", 1)
		pe, ok := werr.(tsdb.PartialWriteError)
		switch {
		case !ok:
			bad = fmt.Sprintf("%d points were not written but the write returned %v instead of a PartialWriteError", dropped, werr)
		case pe.Dropped != dropped:
			bad = fmt.Sprintf("%d points were not written but PartialWriteError.Dropped=%d (%s)", dropped, pe.Dropped, pe.Error())
		}
	}
	if bad != "" {
		r.Event("violation_write_dropped_count", 1)
		r.Violation("dropped_count_wrong", map[string]string{"where": "WritePoints"}, c19Wit{Part: "write", Case: caseNo, D: d.String(), What: bad})
	}
	if dropped > 0 {
		sawDrop = true
	}
	if dropped < len(pts) {
		sawAccept = true
	}
	r.Case(key.String(), sawDrop && sawAccept)
	if caseNo%89 == 0 && caseNo < 178 && r.WantSample() {
		var desc []string
		for _, p := range pts {
			_, a := acc[string(p.p.Key())]
			desc = append(desc, fmt.Sprintf("%s=%d accepted=%v", p.name, p.ts, a))
		}
		r.Sample(map[string]any{"part": "write", "case": caseNo, "retention": d.String(), "points_of_second_call": desc, "error": fmt.Sprint(werr)})
	}
}

// ---- (c) retention service --------------------------------------------------------------------

type c19Meta struct {
	*meta.Client
	mu       sync.Mutex
	calls    []string
	delGroup map[uint64]int
	dropped  map[uint64]int
}

func (m *c19Meta) DeleteShardGroup(database, policy string, id uint64) error {
	m.mu.Lock()
	m.calls = append(m.calls, fmt.Sprintf("meta.DeleteShardGroup(%s,%s,%d)", database, policy, id))
	m.delGroup[id]++
	m.mu.Unlock()
	return m.Client.DeleteShardGroup(database, policy, id)
}

func (m *c19Meta) DropShard(id uint64) error {
	m.mu.Lock()
	m.calls = append(m.calls, fmt.Sprintf("meta.DropShard(%d)", id))
	m.dropped[id]++
	m.mu.Unlock()
	return m.Client.DropShard(id)
}

type c19G struct {
	db, rp  string
	d       time.Duration
	g       meta.ShardGroupInfo
	deleted bool
}

func c19Snapshot(mc *meta.Client) map[uint64]c19G {
	out := map[uint64]c19G{}
	d := mc.Data()
	for _, db := range d.Databases {
		for _, rp := range db.RetentionPolicies {
			for _, g := range rp.ShardGroups {
				out[g.ID] = c19G{db: db.Name, rp: rp.Name, d: rp.Duration, g: g, deleted: !g.DeletedAt.IsZero()}
			}
		}
	}
	return out
}

var c19Deltas = []struct {
	name string
	v    int64
}{{"-10y", -3650 * 86400e9}, {"-30d", -30 * 86400e9}, {"-1d", -86400e9}, {"-1h", -3600e9}, {"-1s", -1e9}, {"-1us", -1e3}, {"-1ns", -1},
	{"+0", 0}, {"+3s", 3e9}, {"+1m", 60e9}, {"+1h", 3600e9}, {"+1d", 86400e9}, {"+30d", 30 * 86400e9}, {"+10y", 3650 * 86400e9}}

func c19Service(r *vkit.Run, caseNo int) {
	rg := r.SubRand("service", caseNo)
	var wcalls []string
	defer func() {
		if p := recover(); p != nil {
			r.Violation("panic", map[string]string{"where": "service"}, c19Wit{Part: "service", Case: caseNo, Calls: wcalls, What: fmt.Sprintf("panic: %v\n%s", p, debug.Stack())})
		}
	}()
	store := inmem.NewKVStore()
	_ = store.CreateBucket(context.Background(), meta.BucketName)
	mc, err := c18OpenClient(store)
	if err != nil {
		r.Inconclusive("service: open: " + err.Error())
		return
	}
	defer mc.Close()
	var key strings.Builder
	key.WriteString("service")
	tb := time.Now()
	type rpRef struct {
		db, rp string
		d, sgd time.Duration
		api    bool
	}
	var rps []rpRef
	ndb := 1 + rg.Intn(2)
	for i := 0; i < ndb; i++ {
		db := fmt.Sprintf("db%d", i)
		nrp := 1 + rg.Intn(2)
		for j := 0; j < nrp; j++ {
			d := c19PickD(rg, true)
			sgd := c19PickSGD(rg, d)
			rp := fmt.Sprintf("rp%d", j)
			dd := d
			if j == 0 {
				_, err = mc.CreateDatabaseWithRetentionPolicy(db, &meta.RetentionPolicySpec{Name: rp, Duration: &dd, ShardGroupDuration: sgd})
			} else {
				_, err = mc.CreateRetentionPolicy(db, &meta.RetentionPolicySpec{Name: rp, Duration: &dd, ShardGroupDuration: sgd}, false)
			}
			if err != nil {
				r.Inconclusive("service: create rp: " + err.Error())
				return
			}
			rps = append(rps, rpRef{db: db, rp: rp, d: d, sgd: sgd, api: rg.Chance(1, 3)})
		}
	}
	// groups created by the real API (bounds decided by the code)
	for _, rp := range rps {
		if !rp.api {
			continue
		}
		fmt.Fprintf(&key, " %s/%s d=%s sgd=%s api:", rp.db, rp.rp, rp.d, rp.sgd)
		n := 1 + rg.Intn(6)
		for i := 0; i < n; i++ {
			k := int64(rg.Intn(10)) - 3
			ts := c18Clamp(tb.UnixNano() - int64(rp.d) - k*int64(rp.sgd)/2)
			fmt.Fprintf(&key, " k=%d", k)
			if _, err := mc.CreateShardGroup(rp.db, rp.rp, c18T(ts)); err != nil {
				r.Inconclusive("service: create group: " + err.Error())
				return
			}
		}
	}
	// literal groups placed around the boundary now-D
	data := mc.Data()
	for _, rp := range rps {
		if rp.api {
			continue
		}
		fmt.Fprintf(&key, " %s/%s d=%s sgd=%s lit:", rp.db, rp.rp, rp.d, rp.sgd)
		perm := rg.Perm(len(c19Deltas))
		n := 1 + rg.Intn(6)
		var gs []meta.ShardGroupInfo
		for i := 0; i < n; i++ {
			dl := c19Deltas[perm[i]]
			end := tb.UnixNano() - int64(rp.d) + dl.v
			ln := int64(rp.sgd)
			if rg.Chance(1, 5) {
				ln = 1 + int64(rg.Uint64()%uint64(rp.sgd))
			}
			data.MaxShardGroupID++
			g := meta.ShardGroupInfo{ID: data.MaxShardGroupID, StartTime: c18T(end - ln), EndTime: c18T(end)}
			ns := 1 + rg.Intn(2)
			for k := 0; k < ns; k++ {
				data.MaxShardID++
				g.Shards = append(g.Shards, meta.ShardInfo{ID: data.MaxShardID})
			}
			fmt.Fprintf(&key, " %s/%d/%d", dl.name, ln, ns)
			gs = append(gs, g)
		}
		sort.Sort(meta.ShardGroupInfos(gs))
		for di := range data.Databases {
			if data.Databases[di].Name != rp.db {
				continue
			}
			for ri := range data.Databases[di].RetentionPolicies {
				if data.Databases[di].RetentionPolicies[ri].Name == rp.rp {
					data.Databases[di].RetentionPolicies[ri].ShardGroups = gs
				}
			}
		}
	}
	if err := mc.SetData(&data); err != nil {
		r.Inconclusive("service: SetData: " + err.Error())
		return
	}
	// some groups were deleted by somebody else before the check
	snap := c19Snapshot(mc)
	ids := make([]uint64, 0, len(snap))
	for id := range snap {
		ids = append(ids, id)
	}
	sort.Slice(ids, func(i, j int) bool { return ids[i] < ids[j] })
	for _, id := range ids {
		if rg.Chance(1, 8) {
			g := snap[id]
			if err := mc.DeleteShardGroup(g.db, g.rp, id); err != nil {
				r.Inconclusive("service: pre-delete: " + err.Error())
				return
			}
			fmt.Fprintf(&key, " predel=%d", id)
		}
	}
	// the local store: most shards of the metadata, some missing (phantoms), some in use, two strangers
	ts := c19NewStore()
	for _, id := range ids {
		for _, sh := range snap[id].g.Shards {
			if rg.Chance(5, 6) {
				ts.ids[sh.ID] = true
				if rg.Chance(1, 8) {
					ts.inUse[sh.ID] = true
					fmt.Fprintf(&key, " inuse=%d", sh.ID)
				}
			} else {
				fmt.Fprintf(&key, " phantom=%d", sh.ID)
			}
		}
	}
	strangers := map[uint64]bool{900001: true, 900002: true}
	for id := range strangers {
		ts.ids[id] = true
	}
	rec := &c19Meta{Client: mc, delGroup: map[uint64]int{}, dropped: map[uint64]int{}}
	svc := retention.NewService(retention.NewConfig())
	svc.SetOSSMetaClient(rec)
	svc.TSDBStore = ts
	svc.DropShardMetaRef = retention.OSSDropShardMetaRef(rec)

	sawExpire, sawKeep := false, false
	for round := 0; round < 2; round++ {
		before := c19Snapshot(mc)
		rec.mu.Lock()
		rec.calls, rec.delGroup, rec.dropped = nil, map[uint64]int{}, map[uint64]int{}
		rec.mu.Unlock()
		ts.mu.Lock()
		ts.calls, ts.deleted = nil, nil
		storeBefore := map[uint64]bool{}
		for id := range ts.ids {
			storeBefore[id] = true
		}
		ts.mu.Unlock()

		t0 := time.Now()
		svc.DeletionCheck(context.Background())
		t1 := time.Now()
		r.Event("service_checks", 1)

		after := c19Snapshot(mc)
		calls := append(append([]string(nil), rec.calls...), ts.calls...)
		wcalls = calls
		var layout []string
		bids := make([]uint64, 0, len(before))
		for id := range before {
			bids = append(bids, id)
		}
		sort.Slice(bids, func(i, j int) bool { return bids[i] < bids[j] })
		for _, id := range bids {
			b := before[id]
			layout = append(layout, fmt.Sprintf("%s/%s D=%s %s", b.db, b.rp, b.d, c19GroupStr(b.g)))
		}
		if len(layout) > 30 {
			layout = layout[:30]
		}
		wit := func(what string) c19Wit {
			return c19Wit{Part: "service", Case: caseNo, What: what, Layout: layout, Calls: calls,
				T0: c18Fmt(t0), T1: c18Fmt(t1), Details: fmt.Sprintf("round %d", round)}
		}
		viol := func(class, kind, what string) {
			r.Event("violation_service_"+kind, 1)
			r.Violation(class, map[string]string{"where": "DeletionCheck", "kind": kind}, wit(what))
		}
		shardOwner := map[uint64]uint64{} // shard -> group (before)
		mayTouch := map[uint64]bool{}     // shards whose group was (or had been) deleted
		mustDelete := map[uint64]bool{}   // groups that were expired for every now in [t0,t1]
		for _, id := range bids {
			b := before[id]
			for _, sh := range b.g.Shards {
				shardOwner[sh.ID] = id
			}
			r.Event("service_group_verdicts", 1)
			if b.deleted {
				r.Event("service_groups_already_deleted", 1)
				for _, sh := range b.g.Shards {
					mayTouch[sh.ID] = true
				}
				continue
			}
			e0 := c19Expect(b.g.EndTime, b.d, false, t0) // expired already at t0 -> at every later now
			e1 := c19Expect(b.g.EndTime, b.d, false, t1) // not expired even at t1 -> at no earlier now
			nDel := rec.delGroup[id]
			a, stillThere := after[id]
			deletedNow := nDel > 0 || !stillThere || a.deleted
			switch {
			case e0 > 0:
				sawExpire = true
				r.Event("service_groups_must_expire", 1)
				mustDelete[id] = true
				if !deletedNow {
					viol("expired_group_kept", "expired_group_kept", fmt.Sprintf("group %s of %s/%s (D=%s) was entirely older than now-D during the whole check but was not deleted", c19GroupStr(b.g), b.db, b.rp, b.d))
				}
			case e1 < 0:
				sawKeep = true
				r.Event("service_groups_must_keep", 1)
				if deletedNow {
					viol("unexpired_group_deleted", "unexpired_group_deleted", fmt.Sprintf("group %s of %s/%s (D=%s) was not entirely older than now-D at any time of the check but was deleted (calls=%d, present=%v, deletedAt=%v)", c19GroupStr(b.g), b.db, b.rp, b.d, nDel, stillThere, a.deleted))
				}
			default:
				r.Event("service_groups_in_bracket_either", 1)
			}
			if deletedNow {
				for _, sh := range b.g.Shards {
					mayTouch[sh.ID] = true
				}
				continue
			}
			// a kept group keeps its bounds and its shards
			if !a.g.StartTime.Equal(b.g.StartTime) || !a.g.EndTime.Equal(b.g.EndTime) {
				viol("kept_group_changed", "bounds_changed", fmt.Sprintf("kept group %s became %s", c19GroupStr(b.g), c19GroupStr(a.g)))
			}
			if fmt.Sprint(a.g.Shards) != fmt.Sprint(b.g.Shards) {
				viol("other_shard_touched", "meta_shards_changed", fmt.Sprintf("kept group %s lost or changed shards: now %s", c19GroupStr(b.g), c19GroupStr(a.g)))
			}
		}
		// groups may not appear
		for id := range after {
			if _, ok := before[id]; !ok {
				viol("kept_group_changed", "group_appeared", fmt.Sprintf("group #%d appeared during the check", id))
			}
		}
		// store: only shards of deleted groups may be removed / left blocked; strangers never
		ts.mu.Lock()
		deletedShards := append([]uint64(nil), ts.deleted...)
		blocked := map[uint64]bool{}
		for id, b := range ts.blocked {
			if b && ts.ids[id] {
				blocked[id] = true
			}
		}
		storeAfter := map[uint64]bool{}
		for id := range ts.ids {
			storeAfter[id] = true
		}
		ts.mu.Unlock()
		for _, sh := range deletedShards {
			r.Event("service_shards_deleted_from_store", 1)
			if !mayTouch[sh] {
				owner := "no group of the metadata"
				if g, ok := shardOwner[sh]; ok {
					owner = "kept group " + c19GroupStr(before[g].g)
				}
				viol("other_shard_touched", "store_shard_deleted", fmt.Sprintf("TSDBStore.DeleteShard(%d): the shard belongs to %s", sh, owner))
			}
		}
		for sh := range blocked {
			if !mayTouch[sh] {
				viol("other_shard_touched", "store_shard_left_blocked", fmt.Sprintf("shard %d of a kept group is left blocked for new readers", sh))
			}
		}
		for sh := range rec.dropped {
			r.Event("service_shard_refs_dropped", 1)
			if !mayTouch[sh] {
				viol("other_shard_touched", "meta_shard_dropped", fmt.Sprintf("meta DropShard(%d) although its group was kept", sh))
			}
		}
		for id := range storeBefore {
			if !storeAfter[id] && !mayTouch[id] {
				viol("other_shard_touched", "store_shard_gone", fmt.Sprintf("shard %d disappeared from the store", id))
			}
		}
		// shards of groups that were expired throughout: removed from disk unless in use
		for gid := range mustDelete {
			for _, sh := range before[gid].g.Shards {
				if storeBefore[sh.ID] && !ts.inUse[sh.ID] {
					r.Event("service_shards_must_be_removed", 1)
					if storeAfter[sh.ID] {
						viol("expired_group_kept", "expired_shard_kept", fmt.Sprintf("shard %d of expired group %s is still in the store after the check", sh.ID, c19GroupStr(before[gid].g)))
					}
				}
			}
		}
		if round == 0 && caseNo%83 == 0 && r.WantSample() {
			r.Sample(map[string]any{"part": "service", "case": caseNo, "layout": layout, "calls": calls})
		}
		// second round: in-use shards are released, so the retry path runs too
		ts.mu.Lock()
		ts.inUse = map[uint64]bool{}
		ts.mu.Unlock()
	}
	r.Case(key.String(), sawExpire && sawKeep)
}

func TestC19(t *testing.T) {
	r := vkit.Start(t, "C19", "exploration")
	defer r.Finish()
	r.Rule("three case kinds. pure: a retention policy (D from {0,1h,…,100y,odd}) with 1–8 groups (literal contiguous/gapped/clipped/deleted, or produced by Data.CreateShardGroup) evaluated by ExpiredShardGroups(t) at end+D, start+D, end, end-D (each ±1ns), ±1h and extremes; non-trivial = ≥2 groups and some t with both expired and unexpired groups. write: a fresh meta.Client + PointsWriter, two batches of 1–12 points at offsets {-10y…-1ns, 0, +1us…+1d} from now-D plus now, future, extremes, through MapShards and WritePointsPrivileged; non-trivial = at least one dropped and one accepted point. service: 1–4 policies with API-made or literal groups ending at now-D+{-10y…+10y}, pre-deleted groups, phantom / in-use / foreign shards in the store, two DeletionCheck rounds; non-trivial = at least one group that must expire and one that must stay. fault: a meta.Client on an inmem.KVStore behind a wrapper that fails one chosen Update once (before the transaction, at tx.Bucket, at bucket.Put, or at commit with the transaction's puts discarded); 1–2 buckets with 2–6 API-made groups each, then 6–14 steps of {UpdateRetentionPolicy (period and/or shard-group duration, valid or not), CreateShardGroup, DeleteShardGroup, DropShard, CreateDatabaseWithRetentionPolicy — each with a fault armed half of the time —, write probe (points around now-D and around now-R for refused periods R, plus the middle), DeletionCheck (a fault on its 1st–3rd commit a quarter of the time, then a clean retry round), close+reopen}; after every operation that returned an error: write probe, sometimes DeletionCheck, reading of the periods; final reopen, write probes, DeletionCheck; the model books only what the caller was told (error = nothing changed, nil = took effect); non-trivial = a fired store fault made a period-changing update return an error and a decided point or group verdict was evaluated afterwards. distinct = hash of the symbolic description (durations, offsets, flags, fault kinds, results), not of absolute times")
	r.Assume("the wall clock does not step backwards between the reading before a call and the reading after it (bracketing, DESIGN §4 M6)",
		"a group whose end+D equals t exactly may or may not be reported (statement: 'only when'; code: strict <)",
		"shards of groups that were already marked deleted before the check, and in-use shards, are outside the verdict (either)",
		"fault stream: a metadata operation that returned an error did not happen (the bucket keeps its period, groups and shards stay as they were), one that returned nil did; an expired group whose DeleteShardGroup commit was the failing one may stay until the next check")
	r.Trust("inmem.KVStore; the recording TSDBStore and the recording wrapper around meta.Client (pass-through)",
		"c19FaultStore (fails one Update without writing anything; everything else passes through to inmem.KVStore)")
	if seed, caseNo, part, ok := metaReplay(); ok {
		// re-run the recorded case of the recorded part (plus its neighbour); the write and service
		// parts place their inputs relative to the current time, so a replay re-creates the same
		// offsets, not the same absolute instants
		r.Seed = seed
		for _, c := range []int{caseNo, caseNo + 1} {
			switch part {
			case "pure":
				c19Pure(r, c)
			case "service":
				c19Service(r, c)
			case "fault":
				c19Fault(r, c)
			default:
				c19Write(r, c)
			}
		}
		r.Sample(map[string]any{"replayed_case": caseNo, "part": part, "seed": seed})
		return
	}
	nPure := r.N(12000, 200000)
	nWrite := r.N(6000, 200000)
	nSvc := r.N(6000, 150000)
	for i := 0; i < nPure; i++ {
		c19Pure(r, i)
	}
	for i := 0; i < nWrite; i++ {
		c19Write(r, i)
	}
	for i := 0; i < nSvc; i++ {
		c19Service(r, i)
	}
	// (d) metadata mutations whose kv-store commit fails (c19_fault_test.go): own stream, own counters
	nFault := r.N(4000, 120000)
	haveSample := false
	for i := 0; i < nFault; i++ {
		if s := c19Fault(r, i); s != nil && !haveSample {
			haveSample = true
			r.Extra("fault_stream_sample", s)
		}
	}
}
