package g_meta

import (
	"context"
	"fmt"
	"testing"
	"time"

	"github.com/influxdata/influxdb/v2/inmem"
	"github.com/influxdata/influxdb/v2/models"
	"github.com/influxdata/influxdb/v2/v1/services/meta"
)

func TestProbe(t *testing.T) {
	store := inmem.NewKVStore()
	_ = store.CreateBucket(context.Background(), meta.BucketName)
	c := meta.NewClient(meta.NewConfig(), store)
	if err := c.Open(); err != nil {
		t.Fatal(err)
	}
	d := time.Duration(0)
	sgd := 7 * 24 * time.Hour
	_, err := c.CreateDatabaseWithRetentionPolicy("db", &meta.RetentionPolicySpec{Name: "rp", Duration: &d, ShardGroupDuration: sgd})
	if err != nil {
		t.Fatal(err)
	}
	ts := time.Unix(0, models.MinNanoTime)
	sg, err := c.CreateShardGroup("db", "rp", ts)
	if err != nil {
		t.Fatal(err)
	}
	fmt.Println("before:", sg.ID, sg.StartTime.Format(time.RFC3339Nano), sg.EndTime.Format(time.RFC3339Nano), sg.Contains(ts))
	c.Close()
	c2 := meta.NewClient(meta.NewConfig(), store)
	if err := c2.Open(); err != nil {
		t.Fatal(err)
	}
	gs, _ := c2.ShardGroupsByTimeRange("db", "rp", ts, ts)
	fmt.Println("by range after reopen:", len(gs))
	for _, g := range c2.Data().Databases[0].RetentionPolicies[0].ShardGroups {
		fmt.Println("after:", g.ID, g.StartTime.Format(time.RFC3339Nano), g.EndTime.Format(time.RFC3339Nano), g.Contains(ts))
	}
}
