package g_meta

import (
	"context"
	"errors"
	"fmt"
	"runtime/debug"
	"sort"
	"strconv"
	"strings"
	"sync"
	"time"

	"github.com/influxdata/influxdb/v2/inmem"
	"github.com/influxdata/influxdb/v2/kv"
	"github.com/influxdata/influxdb/v2/models"
	"github.com/influxdata/influxdb/v2/tsdb"
	"github.com/influxdata/influxdb/v2/v1/coordinator"
	"github.com/influxdata/influxdb/v2/v1/services/meta"
	"github.com/influxdata/influxdb/v2/v1/services/retention"

	"verifharness/vkit"
)

// C19, stream (d) — metadata mutations whose kv-store commit fails.
//
// The meta.Client is built on an inmem.KVStore wrapped by c19FaultStore, which makes one chosen
// Update fail once (before the transaction starts, at tx.Bucket, at bucket.Put, or at commit with
// the writes of the transaction discarded, which is what a bolt rollback does). A history mixes
// UpdateRetentionPolicy / CreateShardGroup / DeleteShardGroup / DropShard /
// CreateDatabaseWithRetentionPolicy (each with or without an armed fault), write probes
// (MapShards / WritePointsPrivileged), retention-service rounds and close+reopen of the client.
//
// The model is bookkeeping of the results the caller saw, nothing else: an operation that returned
// an error changed nothing (the bucket keeps its period, no group appeared / was deleted / lost a
// shard), an operation that returned nil took effect. The verdicts of streams (b) and (c) are then
// evaluated against the model: the period that decides "outside retention" and "expired" is the
// model's, the groups that may be touched are the model's.

var errC19Injected = errors.New("c19: injected kv store fault")

var c19FaultKinds = []string{"update_begin", "tx_bucket", "bucket_put", "tx_commit"}

// c19FaultStore is a kv.Store over an inmem.KVStore whose (skip+1)-th Update after arm() fails once.
type c19FaultStore struct {
	*inmem.KVStore
	mu      sync.Mutex
	mode    string // armed fault kind, "" = none
	skip    int    // Update calls to let through first
	fired   string // the fault that fired since arm()
	updates int64
}

func (s *c19FaultStore) arm(mode string, skip int) {
	s.mu.Lock()
	s.mode, s.skip, s.fired = mode, skip, ""
	s.mu.Unlock()
}

// disarm removes a fault that did not fire and returns the one that did ("" = none).
func (s *c19FaultStore) disarm() string {
	s.mu.Lock()
	defer s.mu.Unlock()
	f := s.fired
	s.mode, s.skip, s.fired = "", 0, ""
	return f
}

func (s *c19FaultStore) Update(ctx context.Context, fn func(kv.Tx) error) error {
	s.mu.Lock()
	s.updates++
	mode := s.mode
	if mode != "" && s.skip > 0 {
		s.skip--
		mode = ""
	} else if mode != "" {
		s.mode, s.fired = "", mode
	}
	s.mu.Unlock()
	switch mode {
	case "":
		return s.KVStore.Update(ctx, fn)
	case "update_begin":
		return fmt.Errorf("%w: begin of write transaction", errC19Injected)
	}
	err := s.KVStore.Update(ctx, func(tx kv.Tx) error { return fn(&c19FaultTx{Tx: tx, mode: mode}) })
	if err == nil && mode == "tx_commit" {
		// the puts of the transaction were discarded by c19FaultBucket: nothing was written
		return fmt.Errorf("%w: commit of write transaction", errC19Injected)
	}
	return err
}

type c19FaultTx struct {
	kv.Tx
	mode string
}

func (t *c19FaultTx) Bucket(b []byte) (kv.Bucket, error) {
	if t.mode == "tx_bucket" {
		return nil, fmt.Errorf("%w: tx.Bucket", errC19Injected)
	}
	bk, err := t.Tx.Bucket(b)
	if err != nil {
		return nil, err
	}
	return &c19FaultBucket{Bucket: bk, mode: t.mode}, nil
}

type c19FaultBucket struct {
	kv.Bucket
	mode string
}

func (b *c19FaultBucket) Put(key, value []byte) error {
	if b.mode == "bucket_put" {
		return fmt.Errorf("%w: bucket.Put", errC19Injected)
	}
	return nil // tx_commit: accepted inside the transaction, rolled back with it
}

func (b *c19FaultBucket) Delete(key []byte) error {
	if b.mode == "bucket_put" {
		return fmt.Errorf("%w: bucket.Delete", errC19Injected)
	}
	return nil
}

// ---- model ------------------------------------------------------------------------------------

type c19FRP struct {
	db, rp   string
	d        time.Duration   // the bucket's retention period: set by the operations that returned nil
	rejected []time.Duration // periods asked for by updates that returned an error
}

type c19FG struct {
	db, rp     string
	id         uint64
	start, end time.Time
	shards     []uint64
	deleted    bool
}

func (g *c19FG) String() string {
	d := ""
	if g.deleted {
		d = " deleted"
	}
	return fmt.Sprintf("%s/%s #%d[%s,%s) shards=%v%s", g.db, g.rp, g.id, c18Fmt(g.start), c18Fmt(g.end), g.shards, d)
}

type c19FHist struct {
	r      *vkit.Run
	rg     *vkit.Rand
	caseNo int
	fs     *c19FaultStore
	mc     *meta.Client
	pw     *coordinator.PointsWriter
	ts     *c19Store
	svc    *retention.Service
	rps    []*c19FRP
	noDB   []string // databases whose creation returned an error
	groups map[uint64]*c19FG
	hist   []string
	key    strings.Builder
	ctr    int
	nextDB int
	abort  bool

	failedUpdate bool   // some UpdateRetentionPolicy of this history returned an error
	lastFault    string // store fault behind the most recent operation that returned an error
	lastFailedOp string

	// meta calls of the running retention-service round
	calls   []string
	delOK   map[uint64]int
	delErr  map[uint64]int
	dropAll map[uint64]int

	faultOnPeriodChange bool // a fired store fault made a period-changing update return an error …
	decidedAfter        bool // … and a decided verdict (point or group) was evaluated afterwards
}

func (h *c19FHist) feats(m map[string]string) map[string]string {
	if m == nil {
		m = map[string]string{}
	}
	m["after_failed_update"] = strconv.FormatBool(h.failedUpdate)
	m["fault"], m["failed_op"] = "none", "none"
	if h.lastFailedOp != "" {
		m["failed_op"] = h.lastFailedOp
		if h.lastFault != "" {
			m["fault"] = h.lastFault
		}
	}
	return m
}

func (h *c19FHist) histTail() []string {
	t := h.hist
	if len(t) > 40 {
		t = append([]string{"…"}, t[len(t)-40:]...)
	}
	return append([]string(nil), t...)
}

func (h *c19FHist) layout() []string {
	ids := make([]uint64, 0, len(h.groups))
	for id := range h.groups {
		ids = append(ids, id)
	}
	sort.Slice(ids, func(i, j int) bool { return ids[i] < ids[j] })
	var out []string
	for _, id := range ids {
		g := h.groups[id]
		out = append(out, fmt.Sprintf("D=%s %s", h.period(g.db, g.rp), g))
	}
	if len(out) > 30 {
		out = out[:30]
	}
	return out
}

func (h *c19FHist) period(db, rp string) time.Duration {
	for _, p := range h.rps {
		if p.db == db && p.rp == rp {
			return p.d
		}
	}
	return 0
}

func (h *c19FHist) viol(class string, feats map[string]string, w c19Wit) {
	w.Part, w.Case = "fault", h.caseNo
	if w.History == nil {
		w.History = h.histTail()
	}
	name := "violation_fault_" + class
	if k := feats["kind"]; k != "" && k != class {
		name += "_" + k
	}
	h.r.Event(name, 1)
	h.r.Violation(class, h.feats(feats), w)
}

// noteGroup records a group that a CreateShardGroup call which returned nil handed out.
func (h *c19FHist) noteGroup(db, rp string, sg *meta.ShardGroupInfo) {
	if sg == nil {
		return
	}
	if _, ok := h.groups[sg.ID]; ok {
		return
	}
	g := &c19FG{db: db, rp: rp, id: sg.ID, start: sg.StartTime, end: sg.EndTime, deleted: !sg.DeletedAt.IsZero()}
	for _, sh := range sg.Shards {
		g.shards = append(g.shards, sh.ID)
	}
	h.groups[sg.ID] = g
	h.r.Event("fault_groups_created", 1)
}

func (h *c19FHist) noteDropShard(id uint64) {
	for _, g := range h.groups {
		for i, sh := range g.shards {
			if sh == id {
				g.shards = append(append([]uint64(nil), g.shards[:i]...), g.shards[i+1:]...)
				if len(g.shards) == 0 {
					g.deleted = true // Data.DropShard: a group that loses its last shard is marked deleted
				}
				return
			}
		}
	}
}

// c19FMeta is what PointsWriter and retention.Service get: the current client, with the results of
// the mutating calls recorded into the model.
type c19FMeta struct{ h *c19FHist }

func (m c19FMeta) Database(name string) *meta.DatabaseInfo { return m.h.mc.Database(name) }
func (m c19FMeta) Databases() []meta.DatabaseInfo          { return m.h.mc.Databases() }
func (m c19FMeta) PruneShardGroups() error                 { return m.h.mc.PruneShardGroups() }
func (m c19FMeta) RetentionPolicy(database, policy string) (*meta.RetentionPolicyInfo, error) {
	return m.h.mc.RetentionPolicy(database, policy)
}

func (m c19FMeta) CreateShardGroup(database, policy string, timestamp time.Time) (*meta.ShardGroupInfo, error) {
	sg, err := m.h.mc.CreateShardGroup(database, policy, timestamp)
	if err == nil {
		m.h.noteGroup(database, policy, sg)
	}
	return sg, err
}

func (m c19FMeta) DeleteShardGroup(database, policy string, id uint64) error {
	err := m.h.mc.DeleteShardGroup(database, policy, id)
	m.h.calls = append(m.h.calls, fmt.Sprintf("meta.DeleteShardGroup(%s,%s,%d) -> %v", database, policy, id, err))
	if err == nil {
		m.h.delOK[id]++
		if g := m.h.groups[id]; g != nil {
			g.deleted = true
		}
	} else {
		m.h.delErr[id]++
	}
	return err
}

func (m c19FMeta) DropShard(id uint64) error {
	err := m.h.mc.DropShard(id)
	m.h.calls = append(m.h.calls, fmt.Sprintf("meta.DropShard(%d) -> %v", id, err))
	m.h.dropAll[id]++
	if err == nil {
		m.h.noteDropShard(id)
	}
	return err
}

// ---- operations -------------------------------------------------------------------------------

// try runs one metadata mutation, with a store fault armed when asked for, and books the outcome.
func (h *c19FHist) try(op, desc string, withFault bool, fn func() error) (err error, fired string) {
	armed := ""
	if withFault {
		armed = vkit.Pick(h.rg, c19FaultKinds)
		h.fs.arm(armed, 0)
	}
	err = fn()
	fired = h.fs.disarm()
	h.r.Event("fault_ops", 1)
	h.r.Event("fault_op_"+op, 1)
	res := "ok"
	switch {
	case err != nil && fired != "":
		res = "err(" + fired + ")"
		h.r.Event("fault_ops_failed_by_store_fault", 1)
		h.r.Event("fault_fired_"+fired, 1)
	case err != nil:
		res = "err(validation)"
		h.r.Event("fault_ops_failed_by_validation", 1)
	case fired != "":
		res = "ok-despite-" + fired
		h.r.Event("fault_ops_ok_despite_store_fault", 1)
	default:
		h.r.Event("fault_ops_ok", 1)
	}
	h.hist = append(h.hist, fmt.Sprintf("%s %s armed=%q -> %v", op, desc, armed, err))
	fmt.Fprintf(&h.key, ";%s %s %s", op, desc, res)
	if err != nil {
		h.lastFailedOp, h.lastFault = op, fired
		if op == "UpdateRetentionPolicy" {
			h.failedUpdate = true
		}
	}
	return err, fired
}

type c19Age struct {
	name string
	v    time.Duration
}

// c19FaultAges: how old (before now) the timestamp a group is created for can be.
func (h *c19FHist) ages(p *c19FRP) []c19Age {
	out := []c19Age{{"30m", 30 * time.Minute}, {"3h", 3 * time.Hour}, {"26h", 26 * time.Hour}, {"3d", 72 * time.Hour}, {"8d", 8 * 24 * time.Hour},
		{"31d", 31 * 24 * time.Hour}, {"60d", 60 * 24 * time.Hour}, {"400d", 400 * 24 * time.Hour}, {"11y", 11 * 365 * 24 * time.Hour}}
	rel := func(tag string, d time.Duration) {
		if d > 0 {
			out = append(out, c19Age{tag + "/2", d / 2}, c19Age{"1.25" + tag + "+2h", d + d/4 + 2*time.Hour}, c19Age{"2" + tag + "+2h", 2*d + 2*time.Hour})
		}
	}
	rel("D", p.d)
	if n := len(p.rejected); n > 0 {
		rel("R", p.rejected[n-1])
	}
	return out
}

func (h *c19FHist) createGroup(p *c19FRP, withFault bool) (failed bool) {
	a := vkit.Pick(h.rg, h.ages(p))
	ts := c18T(c18Clamp(time.Now().UnixNano() - int64(a.v)))
	var sg *meta.ShardGroupInfo
	err, _ := h.try("CreateShardGroup", fmt.Sprintf("%s/%s age=%s", p.db, p.rp, a.name), withFault, func() (e error) {
		sg, e = h.mc.CreateShardGroup(p.db, p.rp, ts)
		return e
	})
	if err != nil || sg == nil {
		return err != nil
	}
	_, known := h.groups[sg.ID]
	h.noteGroup(p.db, p.rp, sg)
	if !known {
		// most shards exist on disk, some only in the metadata (phantoms)
		for _, sh := range sg.Shards {
			if h.rg.Chance(5, 6) {
				h.ts.mu.Lock()
				h.ts.ids[sh.ID] = true
				h.ts.mu.Unlock()
			}
		}
	}
	return false
}

func (h *c19FHist) updatePolicy(p *c19FRP, withFault bool) (failed bool) {
	nd := c19PickD(h.rg, true)
	if len(p.rejected) > 0 && h.rg.Chance(1, 6) {
		nd = p.rejected[len(p.rejected)-1] // ask again for what was refused
	}
	upd := &meta.RetentionPolicyUpdate{Duration: &nd}
	desc := fmt.Sprintf("%s/%s D:%s->%s", p.db, p.rp, p.d, nd)
	if h.rg.Chance(1, 4) {
		sgd := c19PickSGD(h.rg, 0)
		upd.ShardGroupDuration = &sgd
		desc += " sgd=" + sgd.String()
	}
	if h.rg.Chance(1, 6) {
		upd.Duration = nil // only the shard-group duration
		sgd := c19PickSGD(h.rg, 0)
		upd.ShardGroupDuration = &sgd
		desc = fmt.Sprintf("%s/%s sgd=%s", p.db, p.rp, sgd)
	}
	err, fired := h.try("UpdateRetentionPolicy", desc, withFault, func() error {
		return h.mc.UpdateRetentionPolicy(p.db, p.rp, upd, h.rg.Chance(1, 5))
	})
	if err != nil {
		if upd.Duration != nil {
			p.rejected = append(p.rejected, nd)
			if fired != "" && nd != p.d {
				h.faultOnPeriodChange = true
				h.r.Event("fault_period_changes_refused_by_store_fault", 1)
				switch {
				case nd != 0 && (p.d == 0 || nd < p.d):
					h.r.Event("fault_refused_shortenings", 1)
				default:
					h.r.Event("fault_refused_lengthenings", 1)
				}
			}
		}
		return true
	}
	if upd.Duration != nil {
		if nd != p.d {
			h.r.Event("fault_period_changes_applied", 1)
		}
		p.d = nd
	}
	return false
}

func (h *c19FHist) liveModelGroups() []*c19FG {
	var out []*c19FG
	for _, g := range h.groups {
		if !g.deleted {
			out = append(out, g)
		}
	}
	sort.Slice(out, func(i, j int) bool { return out[i].id < out[j].id })
	return out
}

func (h *c19FHist) deleteGroup(withFault bool) (failed bool, rp *c19FRP) {
	live := h.liveModelGroups()
	if len(live) == 0 {
		return false, nil
	}
	g := live[h.rg.Intn(len(live))]
	err, _ := h.try("DeleteShardGroup", fmt.Sprintf("%s/%s #%d", g.db, g.rp, g.id), withFault, func() error {
		return h.mc.DeleteShardGroup(g.db, g.rp, g.id)
	})
	if err == nil {
		g.deleted = true
	}
	return err != nil, h.rpOf(g.db, g.rp)
}

func (h *c19FHist) dropShard(withFault bool) (failed bool, rp *c19FRP) {
	live := h.liveModelGroups()
	if len(live) == 0 {
		return false, nil
	}
	g := live[h.rg.Intn(len(live))]
	if len(g.shards) == 0 {
		return false, nil
	}
	sh := g.shards[h.rg.Intn(len(g.shards))]
	err, _ := h.try("DropShard", fmt.Sprintf("%s/%s #%d shard=%d", g.db, g.rp, g.id, sh), withFault, func() error {
		return h.mc.DropShard(sh)
	})
	if err == nil {
		h.noteDropShard(sh)
	}
	return err != nil, h.rpOf(g.db, g.rp)
}

func (h *c19FHist) rpOf(db, rp string) *c19FRP {
	for _, p := range h.rps {
		if p.db == db && p.rp == rp {
			return p
		}
	}
	return nil
}

func (h *c19FHist) createDatabase(withFault bool) (failed bool) {
	name := fmt.Sprintf("db%d", h.nextDB)
	h.nextDB++
	d := c19PickD(h.rg, true)
	sgd := c19PickSGD(h.rg, d)
	err, _ := h.try("CreateDatabaseWithRetentionPolicy", fmt.Sprintf("%s D=%s sgd=%s", name, d, sgd), withFault, func() error {
		_, e := h.mc.CreateDatabaseWithRetentionPolicy(name, &meta.RetentionPolicySpec{Name: "rp", Duration: &d, ShardGroupDuration: sgd})
		return e
	})
	if err != nil {
		h.noDB = append(h.noDB, name)
		return true
	}
	h.rps = append(h.rps, &c19FRP{db: name, rp: "rp", d: d})
	return false
}

// ---- probes -----------------------------------------------------------------------------------

// checkPeriods: the period the client reports for every bucket is the model's (where = "cache"
// right after an operation that returned an error, "reopen" after close + open on the same store).
func (h *c19FHist) checkPeriods(where string) {
	for _, p := range h.rps {
		h.r.Event("fault_period_checks_"+where, 1)
		rpi, err := h.mc.RetentionPolicy(p.db, p.rp)
		switch {
		case err != nil || rpi == nil:
			h.viol("retention_period_wrong", map[string]string{"where": where, "kind": "policy_missing"},
				c19Wit{D: p.d.String(), What: fmt.Sprintf("%s/%s: the policy of a successfully created bucket is not reported (err=%v)", p.db, p.rp, err)})
		case rpi.Duration != p.d:
			h.viol("retention_period_wrong", map[string]string{"where": where, "kind": "period_differs"},
				c19Wit{D: p.d.String(), What: fmt.Sprintf("%s/%s: the client reports retention period %s; the last update that returned nil (or the creation) set %s; periods of updates that returned an error: %v",
					p.db, p.rp, rpi.Duration, p.d, p.rejected)})
		}
	}
	for _, name := range h.noDB {
		h.r.Event("fault_period_checks_"+where, 1)
		if di := h.mc.Database(name); di != nil {
			h.viol("retention_period_wrong", map[string]string{"where": where, "kind": "phantom_policy"},
				c19Wit{What: fmt.Sprintf("database %s exists although its creation returned an error", name)})
		}
	}
}

func (h *c19FHist) judgeCtx() *c19JudgeCtx {
	return &c19JudgeCtx{ev: "fault_", part: "fault", extra: h.feats(nil), hist: h.histTail()}
}

// writeProbe sends one batch for the policy: points around now-D of the model and around now-R
// for the periods R that refused updates asked for, plus one in the middle of the two.
func (h *c19FHist) writeProbe(p *c19FRP) {
	rg := h.rg
	tb := time.Now()
	pts, raw := c19Points(rg, tb, p.d, 2+rg.Intn(7), &h.ctr)
	for i := len(p.rejected) - 1; i >= 0 && i >= len(p.rejected)-2; i-- {
		rj := p.rejected[i]
		if rj == p.d {
			continue
		}
		p2, r2 := c19Points(rg, tb, rj, 1+rg.Intn(3), &h.ctr)
		for k := range p2 {
			p2[k].name = "R" + p2[k].name
		}
		pts, raw = append(pts, p2...), append(raw, r2...)
		if rj != 0 && p.d != 0 {
			h.ctr++
			ts := tb.UnixNano() - (int64(rj)+int64(p.d))/2
			mp := models.MustNewPoint("m", models.NewTags(map[string]string{"id": strconv.Itoa(h.ctr)}), models.Fields{"v": float64(h.ctr)}, time.Unix(0, ts))
			pts, raw = append(pts, c19Pt{name: "mid", ts: ts, p: mp}), append(raw, mp)
		}
	}
	var names []string
	for _, q := range pts {
		names = append(names, q.name)
	}
	useMap := rg.Bool()
	call := "WritePoints"
	if useMap {
		call = "MapShards"
	}
	h.hist = append(h.hist, fmt.Sprintf("%s %s/%s D=%s points=%s", call, p.db, p.rp, p.d, strings.Join(names, ",")))
	fmt.Fprintf(&h.key, ";%s %s/%s %s", call, p.db, p.rp, strings.Join(names, ","))
	acc := map[string]uint64{}
	var t0, t1 time.Time
	var dropped int
	if useMap {
		t0 = time.Now()
		mapping, err := h.pw.MapShards(&coordinator.WritePointsRequest{Database: p.db, RetentionPolicy: p.rp, Points: raw})
		t1 = time.Now()
		h.r.Event("fault_write_mapshards_calls", 1)
		if err != nil {
			h.viol("mapshards_error", map[string]string{"where": "MapShards"}, c19Wit{D: p.d.String(), What: "no store fault armed: " + err.Error()})
			return
		}
		n := 0
		for sh, ps := range mapping.Points {
			for _, q := range ps {
				acc[string(q.Key())] = c19GroupOfShard(h.mc, sh)
				n++
			}
		}
		dropped = c19JudgeX(h.r, h.judgeCtx(), "MapShards", h.caseNo, p.d, pts, acc, t0, t1)
		if n != len(acc) || mapping.RetentionDropped != dropped || mapping.Dropped() != dropped || mapping.WriteWindowDropped != 0 {
			h.viol("dropped_count_wrong", map[string]string{"where": "MapShards"},
				c19Wit{D: p.d.String(), What: fmt.Sprintf("%d of %d points are absent from the mapping (%d mapped entries) but RetentionDropped=%d WriteWindowDropped=%d Dropped()=%d",
					dropped, len(pts), n, mapping.RetentionDropped, mapping.WriteWindowDropped, mapping.Dropped())})
		}
	} else {
		t0 = time.Now()
		werr := h.pw.WritePointsPrivileged(context.Background(), p.db, p.rp, models.ConsistencyLevelAny, raw)
		t1 = time.Now()
		h.r.Event("fault_write_writepoints_calls", 1)
		h.ts.mu.Lock()
		for _, q := range pts {
			if sh, ok := h.ts.written[string(q.p.Key())]; ok {
				acc[string(q.p.Key())] = sh
			}
		}
		h.ts.mu.Unlock()
		for k, sh := range acc {
			acc[k] = c19GroupOfShard(h.mc, sh)
		}
		dropped = c19JudgeX(h.r, h.judgeCtx(), "WritePoints", h.caseNo, p.d, pts, acc, t0, t1)
		bad := ""
		if dropped == 0 {
			if werr != nil {
				bad = "no point was dropped but the write returned: " + werr.Error()
			}
		} else {
			pe, ok := werr.(tsdb.PartialWriteError)
			switch {
			case !ok:
				bad = fmt.Sprintf("%d points were not written but the write returned %v instead of a PartialWriteError", dropped, werr)
			case pe.Dropped != dropped:
				bad = fmt.Sprintf("%d points were not written but PartialWriteError.Dropped=%d (%s)", dropped, pe.Dropped, pe.Error())
			}
		}
		if bad != "" {
			h.viol("dropped_count_wrong", map[string]string{"where": "WritePoints"}, c19Wit{D: p.d.String(), What: bad})
		}
	}
	if h.faultOnPeriodChange && p.d != 0 {
		// a decided verdict needs a point outside the wall-clock bracket
		lo, hi := t0.UnixNano()-int64(p.d), t1.UnixNano()-int64(p.d)
		for _, q := range pts {
			if q.ts < lo || q.ts >= hi {
				h.decidedAfter = true
			}
		}
	} else if h.faultOnPeriodChange {
		h.decidedAfter = true
	}
}

// serviceRound runs retention.Service.DeletionCheck once, optionally with the (skip+1)-th commit
// of the round failing, and judges it against the model as it was before the round.
func (h *c19FHist) serviceRound(withFault bool) (fired string) {
	before := map[uint64]c19FG{}
	var bids []uint64
	for id, g := range h.groups {
		c := *g
		c.shards = append([]uint64(nil), g.shards...)
		before[id] = c
		bids = append(bids, id)
	}
	sort.Slice(bids, func(i, j int) bool { return bids[i] < bids[j] })
	layout := h.layout()
	h.calls, h.delOK, h.delErr, h.dropAll = nil, map[uint64]int{}, map[uint64]int{}, map[uint64]int{}
	h.ts.mu.Lock()
	h.ts.calls, h.ts.deleted = nil, nil
	storeBefore := map[uint64]bool{}
	for id := range h.ts.ids {
		storeBefore[id] = true
	}
	h.ts.mu.Unlock()
	armed := ""
	if withFault {
		armed = vkit.Pick(h.rg, c19FaultKinds)
		h.fs.arm(armed, h.rg.Intn(3))
	}
	t0 := time.Now()
	h.svc.DeletionCheck(context.Background())
	t1 := time.Now()
	fired = h.fs.disarm()
	h.r.Event("fault_service_checks", 1)
	if fired != "" {
		h.r.Event("fault_service_checks_with_store_fault", 1)
		h.r.Event("fault_fired_"+fired, 1)
		h.lastFailedOp, h.lastFault = "DeletionCheck", fired // one of the service's own commits returned the error
	}
	h.hist = append(h.hist, fmt.Sprintf("DeletionCheck armed=%q fired=%q", armed, fired))
	fmt.Fprintf(&h.key, ";DeletionCheck %s", fired)

	after := c19Snapshot(h.mc)
	h.ts.mu.Lock()
	calls := append(append([]string(nil), h.calls...), h.ts.calls...)
	deletedShards := append([]uint64(nil), h.ts.deleted...)
	storeAfter := map[uint64]bool{}
	for id := range h.ts.ids {
		storeAfter[id] = true
	}
	blocked := map[uint64]bool{}
	for id, b := range h.ts.blocked {
		if b && h.ts.ids[id] {
			blocked[id] = true
		}
	}
	h.ts.mu.Unlock()
	viol := func(class, kind, what string) {
		h.viol(class, map[string]string{"where": "DeletionCheck", "kind": kind},
			c19Wit{What: what, Layout: layout, Calls: calls, T0: c18Fmt(t0), T1: c18Fmt(t1)})
	}
	shardOwner := map[uint64]uint64{}
	mayTouch := map[uint64]bool{}
	mustDelete := map[uint64]bool{}
	for _, id := range bids {
		b := before[id]
		for _, sh := range b.shards {
			shardOwner[sh] = id
		}
		h.r.Event("fault_service_group_verdicts", 1)
		if b.deleted {
			for _, sh := range b.shards {
				mayTouch[sh] = true
			}
			continue
		}
		d := h.period(b.db, b.rp)
		e0 := c19Expect(b.end, d, false, t0)
		e1 := c19Expect(b.end, d, false, t1)
		a, there := after[id]
		deletedNow := h.delOK[id] > 0 || !there || a.deleted
		switch {
		case e0 > 0:
			h.r.Event("fault_service_groups_must_expire", 1)
			if h.faultOnPeriodChange {
				h.decidedAfter = true
			}
			if h.delErr[id] > 0 && !deletedNow {
				// the commit of this group's deletion was the one that failed: retried by the next check
				h.r.Event("fault_service_deletions_refused_by_store_fault", 1)
			} else {
				mustDelete[id] = true
				if !deletedNow {
					viol("expired_group_kept", "expired_group_kept", fmt.Sprintf("group %s (D=%s) was entirely older than now-D during the whole check but was not deleted", &b, d))
				}
			}
		case e1 < 0:
			h.r.Event("fault_service_groups_must_keep", 1)
			if h.faultOnPeriodChange {
				h.decidedAfter = true
			}
			if deletedNow {
				viol("unexpired_group_deleted", "unexpired_group_deleted", fmt.Sprintf("group %s (D=%s) was not entirely older than now-D at any time of the check but was deleted (successful DeleteShardGroup calls=%d, present=%v, marked deleted=%v)",
					&b, d, h.delOK[id], there, a.deleted))
			}
		default:
			h.r.Event("fault_service_groups_in_bracket_either", 1)
		}
		if deletedNow {
			for _, sh := range b.shards {
				mayTouch[sh] = true
			}
			continue
		}
		if !a.g.StartTime.Equal(b.start) || !a.g.EndTime.Equal(b.end) {
			viol("kept_group_changed", "bounds_changed", fmt.Sprintf("kept group %s became %s", &b, c19GroupStr(a.g)))
		}
		var ash []uint64
		for _, sh := range a.g.Shards {
			ash = append(ash, sh.ID)
		}
		if fmt.Sprint(ash) != fmt.Sprint(b.shards) {
			viol("other_shard_touched", "meta_shards_changed", fmt.Sprintf("kept group %s lost or changed shards: now %s", &b, c19GroupStr(a.g)))
		}
	}
	owner := func(sh uint64) string {
		if g, ok := shardOwner[sh]; ok {
			b := before[g]
			return "kept group " + b.String()
		}
		return "no group of the metadata"
	}
	for _, sh := range deletedShards {
		h.r.Event("fault_service_shards_deleted_from_store", 1)
		if !mayTouch[sh] {
			viol("other_shard_touched", "store_shard_deleted", fmt.Sprintf("TSDBStore.DeleteShard(%d): the shard belongs to %s", sh, owner(sh)))
		}
	}
	for sh := range blocked {
		if !mayTouch[sh] {
			viol("other_shard_touched", "store_shard_left_blocked", fmt.Sprintf("shard %d (%s) is left blocked for new readers", sh, owner(sh)))
		}
	}
	for sh := range h.dropAll {
		h.r.Event("fault_service_shard_refs_dropped", 1)
		if !mayTouch[sh] {
			viol("other_shard_touched", "meta_shard_dropped", fmt.Sprintf("meta DropShard(%d): the shard belongs to %s", sh, owner(sh)))
		}
	}
	for id := range storeBefore {
		if !storeAfter[id] && !mayTouch[id] {
			viol("other_shard_touched", "store_shard_gone", fmt.Sprintf("shard %d (%s) disappeared from the store", id, owner(id)))
		}
	}
	for gid := range mustDelete {
		b := before[gid]
		for _, sh := range b.shards {
			if storeBefore[sh] {
				h.r.Event("fault_service_shards_must_be_removed", 1)
				if storeAfter[sh] {
					viol("expired_group_kept", "expired_shard_kept", fmt.Sprintf("shard %d of expired group %s is still in the store after the check", sh, &b))
				}
			}
		}
	}
	return fired
}

func (h *c19FHist) reopen() {
	h.hist = append(h.hist, "close+reopen")
	h.key.WriteString(";reopen")
	_ = h.mc.Close()
	mc := meta.NewClient(meta.NewConfig(), h.fs)
	if err := mc.Open(); err != nil {
		h.r.Inconclusive("fault: reopen on the same store: " + err.Error())
		h.abort = true
		return
	}
	h.mc = mc
	h.r.Event("fault_reopens", 1)
	h.checkPeriods("reopen")
}

// afterFailure: what the bucket's period is must be visible in behaviour right after an operation
// returned an error: a write probe on the policy, a service round (always after a group-level
// operation, else half of the time), then the direct reading.
func (h *c19FHist) afterFailure(p *c19FRP) {
	v0 := h.r.Violations()
	if p == nil {
		p = h.rps[h.rg.Intn(len(h.rps))]
	}
	h.writeProbe(p)
	// a write does not show whether a group was deleted or lost a shard: the service round is what
	// observes the group-level operations
	groupOp := h.lastFailedOp == "CreateShardGroup" || h.lastFailedOp == "DeleteShardGroup" || h.lastFailedOp == "DropShard"
	if h.rg.Chance(1, 2) || groupOp {
		h.serviceRound(false)
	}
	h.checkPeriods("cache")
	if h.r.Violations() > v0 {
		h.abort = true // the model and the client have parted: later steps would only repeat it
	}
}

// c19Fault runs one history; it returns a description of it when the case was non-trivial.
func c19Fault(r *vkit.Run, caseNo int) (sample map[string]any) {
	rg := r.SubRand("fault", caseNo)
	h := &c19FHist{r: r, rg: rg, caseNo: caseNo, groups: map[uint64]*c19FG{}, delOK: map[uint64]int{}, delErr: map[uint64]int{}, dropAll: map[uint64]int{}}
	defer func() {
		if p := recover(); p != nil {
			h.viol("panic", map[string]string{"where": "fault"}, c19Wit{What: fmt.Sprintf("panic: %v\n%s", p, debug.Stack())})
		}
	}()
	inner := inmem.NewKVStore()
	_ = inner.CreateBucket(context.Background(), meta.BucketName)
	h.fs = &c19FaultStore{KVStore: inner}
	h.mc = meta.NewClient(meta.NewConfig(), h.fs)
	if err := h.mc.Open(); err != nil {
		r.Inconclusive("fault: open: " + err.Error())
		return nil
	}
	defer func() { _ = h.mc.Close() }()
	h.ts = c19NewStore()
	h.ts.ids[900001], h.ts.ids[900002] = true, true // shards no group of the metadata owns
	h.pw = coordinator.NewPointsWriter(time.Minute, "c19f")
	h.pw.MetaClient = c19FMeta{h}
	h.pw.TSDBStore = h.ts
	h.svc = retention.NewService(retention.NewConfig())
	h.svc.SetOSSMetaClient(c19FMeta{h})
	h.svc.TSDBStore = h.ts
	h.svc.DropShardMetaRef = retention.OSSDropShardMetaRef(c19FMeta{h})
	h.key.WriteString("fault")

	// set-up without faults: 1–2 buckets, a few groups each
	nrp := 1 + rg.Intn(2)
	for i := 0; i < nrp; i++ {
		if h.createDatabase(false) {
			r.Inconclusive("fault: create database failed without a fault")
			return nil
		}
	}
	h.noDB = nil
	for _, p := range h.rps {
		for i, n := 0, 2+rg.Intn(5); i < n; i++ {
			h.createGroup(p, false)
		}
	}
	nsteps := 6 + rg.Intn(9)
	for i := 0; i < nsteps && !h.abort; i++ {
		p := h.rps[rg.Intn(len(h.rps))]
		withFault := rg.Chance(1, 2)
		failed := false
		var on *c19FRP
		switch k := rg.Intn(100); {
		case k < 34:
			failed, on = h.updatePolicy(p, withFault), p
		case k < 42:
			failed, on = h.createGroup(p, withFault), p
		case k < 48:
			failed, on = h.deleteGroup(withFault)
		case k < 53:
			failed, on = h.dropShard(withFault)
		case k < 58:
			failed = h.createDatabase(withFault)
		case k < 78:
			h.writeProbe(p)
		case k < 92:
			if h.serviceRound(rg.Chance(1, 4)) != "" && !h.abort {
				// whatever the failed commit left undone is done by the next check
				h.serviceRound(false)
			}
		default:
			h.reopen()
		}
		if failed && !h.abort {
			h.afterFailure(on)
		}
	}
	if !h.abort {
		h.reopen()
	}
	if !h.abort {
		for _, p := range h.rps {
			h.writeProbe(p)
		}
		h.serviceRound(false)
	}
	r.Case(h.key.String(), h.faultOnPeriodChange && h.decidedAfter)
	if h.faultOnPeriodChange && h.decidedAfter {
		return map[string]any{"part": "fault", "case": caseNo, "history": h.histTail(), "model": h.layout()}
	}
	return nil
}
