package g_meta

import (
	"context"
	"fmt"
	"math"
	"runtime/debug"
	"sort"
	"strconv"
	"strings"
	"testing"
	"time"

	"github.com/influxdata/influxdb/v2/inmem"
	"github.com/influxdata/influxdb/v2/models"
	"github.com/influxdata/influxdb/v2/v1/coordinator"
	"github.com/influxdata/influxdb/v2/v1/services/meta"

	"verifharness/vkit"
)

// C18 — each point lands in one shard group that contains it, also after restart.
//
// Subject: the real meta.Client on an in-memory kv.Store, driven through the real
// coordinator.PointsWriter.MapShards (which creates the groups) plus UpdateRetentionPolicy /
// DeleteShardGroup / PrecreateShardGroups, with close + reopen of the client on the same store
// between steps. Oracle: an independent model (timestamp -> id of the group it was routed to, and
// the bounds every group had when it was last seen) using nothing but time.Time comparisons.

const (
	c18DB = "db"
	c18RP = "rp"
)

var (
	// the instants an int64 nanosecond count can carry; group bounds outside are legal time.Time
	// values whose UnixNano() is undefined
	c18MinRep = time.Unix(0, math.MinInt64).UTC()
	c18MaxRep = time.Unix(0, math.MaxInt64).UTC()
	c18Epoch  = time.Unix(0, 0).UTC()

	c18StdSGD = []time.Duration{time.Hour, 24 * time.Hour, 7 * 24 * time.Hour, 52 * 7 * 24 * time.Hour}
	c18OddSGD = []time.Duration{61 * time.Minute, 90 * time.Minute, time.Hour + 1, 25 * time.Hour, 100 * time.Hour,
		8*24*time.Hour + 3*time.Hour + 7*time.Second + 11, 31 * 24 * time.Hour, 400 * 24 * time.Hour,
		3650 * 24 * time.Hour, 100 * 365 * 24 * time.Hour, 290 * 365 * 24 * time.Hour}
)

type c18Group struct {
	ID      uint64
	Start   time.Time
	End     time.Time
	Deleted bool
	Shards  []uint64
}

func (g c18Group) contains(t time.Time) bool { return !t.Before(g.Start) && t.Before(g.End) }
func (g c18Group) String() string {
	return fmt.Sprintf("#%d[%s,%s)", g.ID, c18Fmt(g.Start), c18Fmt(g.End))
}

func c18Fmt(t time.Time) string { return t.UTC().Format(time.RFC3339Nano) }
func c18T(ns int64) time.Time   { return time.Unix(0, ns).UTC() }

func c18Clamp(v int64) int64 {
	if v < models.MinNanoTime {
		return models.MinNanoTime
	}
	if v > models.MaxNanoTime {
		return models.MaxNanoTime
	}
	return v
}

// c18Ns returns the nanosecond count of t when an int64 can carry it.
func c18Ns(t time.Time) (int64, bool) {
	if t.Before(c18MinRep) || t.After(c18MaxRep) {
		return 0, false
	}
	return t.UnixNano(), true
}

type c18Wit struct {
	Case    int      `json:"case"`
	SGD     string   `json:"shard_group_duration"`
	History []string `json:"history"`
	What    string   `json:"what"`
	TS      *int64   `json:"timestamp_ns,omitempty"`
	TSTime  string   `json:"timestamp,omitempty"`
	Groups  []string `json:"groups,omitempty"`
	Before  string   `json:"before,omitempty"`
	After   string   `json:"after,omitempty"`
}

type c18Seq struct {
	r       *vkit.Run
	rg      *vkit.Rand
	caseNo  int
	store   *inmem.KVStore
	mc      *meta.Client
	pw      *coordinator.PointsWriter
	sgd     time.Duration
	base    int64
	step    int64
	focused bool
	hist    []string
	written map[int64]uint64 // timestamp -> id of the live group it was routed to
	tainted map[uint64]bool  // groups already reported as corrupted by a reload
	seenIDs map[uint64]bool
	counter int
	reloads int
	aborted bool
}

func c18OpenClient(store *inmem.KVStore) (*meta.Client, error) {
	c := meta.NewClient(meta.NewConfig(), store)
	if err := c.Open(); err != nil {
		return nil, err
	}
	return c, nil
}

// viol reports a violation and counts it per class/cause in the evidence.
func (s *c18Seq) viol(class string, feats map[string]string, w c18Wit) {
	name := "violation_" + class
	if c := feats["cause"]; c != "" {
		name += "_" + c
	}
	s.r.Event(name, 1)
	s.r.Violation(class, feats, w)
}

func (s *c18Seq) wit(what string) c18Wit {
	h := s.hist
	if len(h) > 60 {
		h = append([]string{"…"}, h[len(h)-60:]...)
	}
	return c18Wit{Case: s.caseNo, SGD: s.sgd.String(), History: append([]string(nil), h...), What: what}
}

func (s *c18Seq) witTS(what string, ts int64) c18Wit {
	w := s.wit(what)
	w.TS = &ts
	w.TSTime = c18Fmt(c18T(ts))
	return w
}

// groups reads every group of the policy (deleted ones included) from the client's own data.
func (s *c18Seq) groups() []c18Group {
	d := s.mc.Data()
	var out []c18Group
	for _, db := range d.Databases {
		if db.Name != c18DB {
			continue
		}
		for _, rp := range db.RetentionPolicies {
			if rp.Name != c18RP {
				continue
			}
			for _, g := range rp.ShardGroups {
				cg := c18Group{ID: g.ID, Start: g.StartTime, End: g.EndTime, Deleted: !g.DeletedAt.IsZero()}
				for _, sh := range g.Shards {
					cg.Shards = append(cg.Shards, sh.ID)
				}
				out = append(out, cg)
			}
		}
	}
	return out
}

func (s *c18Seq) liveGroups() []c18Group {
	var out []c18Group
	for _, g := range s.groups() {
		if !g.Deleted {
			out = append(out, g)
		}
	}
	return out
}

func c18GroupStrings(gs []c18Group) []string {
	out := make([]string, 0, len(gs))
	for _, g := range gs {
		d := ""
		if g.Deleted {
			d = " deleted"
		}
		out = append(out, g.String()+d)
	}
	if len(out) > 40 {
		out = out[:40]
	}
	return out
}

// ts draws a timestamp: extremes, around zero, pre-1970, the first and last representable years,
// a per-sequence grid, the bounds of existing groups ±1, or anything.
func (s *c18Seq) ts() int64 {
	rg := s.rg
	k := rg.Intn(10)
	if s.focused && k < 5 {
		k = 5 + rg.Intn(4)
	}
	sg := int64(s.sgd)
	switch k {
	case 0:
		return vkit.Pick(rg, []int64{models.MinNanoTime, models.MinNanoTime + 1, models.MaxNanoTime, models.MaxNanoTime - 1,
			models.MinNanoTime + int64(time.Hour), models.MaxNanoTime - int64(time.Hour)})
	case 1:
		return c18Clamp(vkit.Pick(rg, []int64{-1, 0, 1, 2, -2, sg - 1, sg, sg + 1, -sg, -sg - 1, -sg + 1, 2*sg - 1, 1e9, -1e9}))
	case 2:
		return -int64(rg.Uint64() % uint64(-models.MinNanoTime))
	case 3:
		return models.MinNanoTime + int64(rg.Uint64()%uint64(3*365*24*time.Hour))
	case 4:
		return models.MaxNanoTime - int64(rg.Uint64()%uint64(3*365*24*time.Hour))
	case 5, 6, 7:
		v := s.base + int64(rg.Intn(32))*s.step
		if (s.step > 0 && v < s.base) || v < models.MinNanoTime || v > models.MaxNanoTime { // wrapped
			return c18Clamp(s.base)
		}
		return v
	case 8:
		live := s.liveGroups()
		if len(live) == 0 {
			return s.base
		}
		g := live[rg.Intn(len(live))]
		var cands []int64
		if v, ok := c18Ns(g.Start); ok && v > models.MinNanoTime {
			cands = append(cands, v, v-1, v+1)
		}
		if v, ok := c18Ns(g.End); ok && v > models.MinNanoTime+2 {
			cands = append(cands, v, v-1, v-2)
		}
		if len(cands) == 0 {
			return s.base
		}
		return c18Clamp(vkit.Pick(rg, cands))
	default:
		return c18Clamp(rg.Int64())
	}
}

func (s *c18Seq) pickSGD() time.Duration {
	if s.rg.Chance(3, 5) {
		return vkit.Pick(s.rg, c18StdSGD)
	}
	return vkit.Pick(s.rg, c18OddSGD)
}

func (s *c18Seq) pickBase() {
	rg := s.rg
	switch rg.Intn(7) {
	case 0:
		s.base = 1600000000e9 + int64(rg.Intn(1000))*int64(time.Hour)
	case 1:
		s.base = -int64(8 * time.Hour)
	case 2:
		s.base = -3e18
	case 3:
		s.base = models.MinNanoTime + int64(rg.Intn(5*365))*int64(24*time.Hour)
	case 4:
		s.base = models.MaxNanoTime - int64(rg.Intn(5*365)+1)*int64(24*time.Hour)
	case 5:
		s.base = -int64(s.sgd) * 2
	default:
		s.base = 1e18 + rg.Int64()%int64(1e17)
	}
	s.base = c18Clamp(s.base)
	switch rg.Intn(4) {
	case 0:
		s.step = int64(s.sgd) / 4
	case 1:
		s.step = int64(s.sgd)/2 + 1
	case 2:
		s.step = int64(time.Hour)
	default:
		s.step = int64(s.sgd)
	}
	if s.step > int64(40*365*24*time.Hour) {
		s.step = int64(40 * 365 * 24 * time.Hour) // 32 slots must stay inside the int64 range
	}
}

func (s *c18Seq) write(tss []int64) {
	pts := make([]models.Point, 0, len(tss))
	key2ts := map[string]int64{}
	for _, ts := range tss {
		s.counter++
		p := models.MustNewPoint("m", models.NewTags(map[string]string{"id": strconv.Itoa(s.counter)}),
			models.Fields{"v": float64(s.counter)}, time.Unix(0, ts))
		pts = append(pts, p)
		key2ts[string(p.Key())] = ts
	}
	s.hist = append(s.hist, fmt.Sprintf("write %v", tss))
	mapping, err := s.pw.MapShards(&coordinator.WritePointsRequest{Database: c18DB, RetentionPolicy: c18RP, Points: pts})
	if err != nil {
		s.viol("mapshards_error", map[string]string{"phase": s.phase()}, s.wit("MapShards returned "+err.Error()))
		s.aborted = true
		return
	}
	all := s.groups()
	byShard := map[uint64]c18Group{}
	byID := map[uint64]c18Group{}
	for _, g := range all {
		byID[g.ID] = g
		if !s.seenIDs[g.ID] {
			s.seenIDs[g.ID] = true
			s.noteGroup(g)
		}
		for _, sh := range g.Shards {
			byShard[sh] = g
		}
	}
	seen := map[string]int{}
	for shardID, ps := range mapping.Points {
		g, ok := byShard[shardID]
		for _, p := range ps {
			ts := p.UnixNano()
			seen[string(p.Key())]++
			s.r.Event("points_mapped", 1)
			if !ok {
				s.viol("mapped_to_unknown_shard", map[string]string{"phase": s.phase()},
					s.witTS(fmt.Sprintf("point mapped to shard %d which no group of the policy owns", shardID), ts))
				continue
			}
			s.r.Event("containment_checked", 1)
			if g.Deleted {
				s.viol("mapped_to_deleted_group", map[string]string{"phase": s.phase()},
					s.witTS("point mapped to deleted group "+g.String(), ts))
				continue
			}
			if !g.contains(c18T(ts)) {
				edge := "inside"
				if c18T(ts).Equal(g.End) {
					edge = "ts_equals_end"
				} else if c18T(ts).Before(g.Start) {
					edge = "before_start"
				} else {
					edge = "after_end"
				}
				w := s.witTS("point routed to a group whose [start,end) does not contain its timestamp: "+g.String(), ts)
				w.Groups = c18GroupStrings(all)
				s.viol("point_outside_mapped_group", map[string]string{"phase": s.phase(), "edge": edge}, w)
				continue
			}
			if prev, was := s.written[ts]; was && prev != g.ID && !s.tainted[prev] {
				if pg, ok := byID[prev]; ok && !pg.Deleted {
					w := s.witTS(fmt.Sprintf("timestamp was routed to %s before and to %s now, both live", pg, g), ts)
					s.viol("timestamp_split_across_groups", map[string]string{"phase": s.phase()}, w)
				}
			}
			s.written[ts] = g.ID
		}
	}
	for k, ts := range key2ts {
		if seen[k] != 1 {
			w := s.witTS(fmt.Sprintf("point of an unlimited-retention policy appears %d times in the mapping (RetentionDropped=%d)", seen[k], mapping.RetentionDropped), ts)
			s.viol("accepted_point_not_routed_once", map[string]string{"phase": s.phase(), "times": strconv.Itoa(seen[k])}, w)
		}
	}
}

func (s *c18Seq) noteGroup(g c18Group) {
	s.r.Event("groups_created", 1)
	if g.Start.Before(c18MinRep) {
		s.r.Event("groups_with_start_before_int64_range", 1)
	}
	if g.Start.Equal(c18Epoch) {
		s.r.Event("groups_starting_at_unix_epoch", 1)
	}
	if g.End.Equal(c18Epoch) {
		s.r.Event("groups_ending_at_unix_epoch", 1)
	}
	if g.End.Equal(c18MaxRep) {
		s.r.Event("groups_clamped_to_max", 1)
	}
	if g.End.Sub(g.Start) != s.sgd && !g.End.Equal(c18MaxRep) {
		s.r.Event("groups_clipped_by_neighbours", 1)
	}
}

func (s *c18Seq) phase() string {
	if s.reloads > 0 {
		return "reloaded"
	}
	return "live"
}

// checkState: live groups pairwise disjoint; every written timestamp is found by a time-range lookup.
func (s *c18Seq) checkState(phase string) {
	live := s.liveGroups()
	var ok []c18Group
	for _, g := range live {
		if !s.tainted[g.ID] {
			ok = append(ok, g)
		}
	}
	for i := 0; i < len(ok); i++ {
		for j := i + 1; j < len(ok); j++ {
			s.r.Event("disjoint_pairs_checked", 1)
			a, b := ok[i], ok[j]
			if a.Start.Before(b.End) && b.Start.Before(a.End) {
				w := s.wit(fmt.Sprintf("live groups overlap: %s and %s", a, b))
				w.Groups = c18GroupStrings(live)
				s.viol("live_groups_overlap", map[string]string{"phase": phase}, w)
			}
		}
	}
	tss := make([]int64, 0, len(s.written))
	for ts := range s.written {
		tss = append(tss, ts)
	}
	sort.Slice(tss, func(i, j int) bool { return tss[i] < tss[j] })
	for _, ts := range tss {
		want := s.written[ts]
		got, err := s.mc.ShardGroupsByTimeRange(c18DB, c18RP, c18T(ts), c18T(ts))
		s.r.Event("lookups_"+phase, 1)
		found := false
		var gs []string
		for _, g := range got {
			gs = append(gs, fmt.Sprintf("#%d[%s,%s)", g.ID, c18Fmt(g.StartTime), c18Fmt(g.EndTime)))
			if g.ID == want {
				found = true
			}
		}
		if err != nil || !found {
			w := s.witTS(fmt.Sprintf("ShardGroupsByTimeRange(ts,ts) does not return group #%d the point was routed to (err=%v)", want, err), ts)
			w.Groups = gs
			s.viol("lookup_misses_group", map[string]string{"phase": phase}, w)
		}
	}
}

func c18Cause(orig time.Time) string {
	switch {
	case orig.Before(c18MinRep):
		return "pre1677_start"
	case orig.After(c18MaxRep):
		return "post2262_end"
	case orig.Equal(c18Epoch):
		return "unix_epoch"
	default:
		return "other"
	}
}

// reload closes the client, opens a new one on the same store and compares every group.
func (s *c18Seq) reload() {
	before := s.groups()
	s.hist = append(s.hist, "close+reopen")
	_ = s.mc.Close()
	mc, err := c18OpenClient(s.store)
	if err != nil {
		s.viol("reopen_error", nil, s.wit("meta.Client.Open on the same store: "+err.Error()))
		s.aborted = true
		return
	}
	s.mc = mc
	s.pw.MetaClient = mc
	s.reloads++
	s.r.Event("reloads", 1)
	after := map[uint64]c18Group{}
	for _, g := range s.groups() {
		after[g.ID] = g
	}
	for _, b := range before {
		a, ok := after[b.ID]
		if !ok {
			s.viol("group_lost_after_reload", nil, s.wit("group "+b.String()+" is gone after reopen"))
			s.tainted[b.ID] = true
			continue
		}
		delete(after, b.ID)
		s.r.Event("groups_compared_after_reload", 1)
		if !a.Start.Equal(b.Start) {
			w := s.wit("group start changed by persist + reload")
			w.Before, w.After = b.String(), a.String()
			s.viol("group_bounds_changed_after_reload", map[string]string{"field": "start", "cause": c18Cause(b.Start)}, w)
			s.tainted[b.ID] = true
		}
		if !a.End.Equal(b.End) {
			w := s.wit("group end changed by persist + reload")
			w.Before, w.After = b.String(), a.String()
			s.viol("group_bounds_changed_after_reload", map[string]string{"field": "end", "cause": c18Cause(b.End)}, w)
			s.tainted[b.ID] = true
		}
		if a.Deleted != b.Deleted {
			w := s.wit(fmt.Sprintf("group deleted flag changed by persist + reload: %v -> %v", b.Deleted, a.Deleted))
			w.Before, w.After = b.String(), a.String()
			s.viol("group_deleted_flag_changed_after_reload", nil, w)
			s.tainted[b.ID] = true
		}
		if fmt.Sprint(a.Shards) != fmt.Sprint(b.Shards) {
			w := s.wit(fmt.Sprintf("group shards changed by persist + reload: %v -> %v", b.Shards, a.Shards))
			s.viol("group_shards_changed_after_reload", nil, w)
		}
	}
	for _, a := range after {
		s.viol("group_appeared_after_reload", nil, s.wit("group "+a.String()+" exists only after reopen"))
	}
	for ts, id := range s.written {
		if s.tainted[id] {
			delete(s.written, ts) // already reported through the group; do not cascade
		}
	}
	s.checkState("reloaded")
}

func (s *c18Seq) rangeQuery() {
	lo, hi := s.ts(), s.ts()
	if lo > hi {
		lo, hi = hi, lo
	}
	got, err := s.mc.ShardGroupsByTimeRange(c18DB, c18RP, c18T(lo), c18T(hi))
	s.r.Event("range_queries", 1)
	have := map[uint64]bool{}
	for _, g := range got {
		have[g.ID] = true
	}
	for ts, id := range s.written {
		if ts >= lo && ts <= hi && (err != nil || !have[id]) {
			w := s.witTS(fmt.Sprintf("ShardGroupsByTimeRange(%d,%d) misses group #%d holding the timestamp (err=%v)", lo, hi, id, err), ts)
			s.viol("range_query_misses_group", map[string]string{"phase": s.phase()}, w)
			return
		}
	}
}

func c18Run(r *vkit.Run, caseNo int) {
	rg := r.Rand(caseNo)
	s := &c18Seq{r: r, rg: rg, caseNo: caseNo, written: map[int64]uint64{}, tainted: map[uint64]bool{}, seenIDs: map[uint64]bool{}}
	defer func() {
		if p := recover(); p != nil {
			w := s.wit(fmt.Sprintf("panic: %v\n%s", p, debug.Stack()))
			s.viol("panic", map[string]string{"phase": s.phase()}, w)
		}
	}()
	s.store = inmem.NewKVStore()
	if err := s.store.CreateBucket(context.Background(), meta.BucketName); err != nil {
		r.Inconclusive("inmem store: " + err.Error())
		return
	}
	mc, err := c18OpenClient(s.store)
	if err != nil {
		r.Inconclusive("meta client open: " + err.Error())
		return
	}
	s.mc = mc
	s.sgd = s.pickSGD()
	s.focused = rg.Chance(1, 2)
	s.pickBase()
	zero := time.Duration(0)
	if _, err := mc.CreateDatabaseWithRetentionPolicy(c18DB, &meta.RetentionPolicySpec{Name: c18RP, Duration: &zero, ShardGroupDuration: s.sgd}); err != nil {
		r.Inconclusive("create database: " + err.Error())
		return
	}
	s.pw = coordinator.NewPointsWriter(time.Minute, "c18")
	s.pw.MetaClient = mc
	s.hist = append(s.hist, fmt.Sprintf("create rp duration=0 sgd=%s", s.sgd))

	nsteps := 4 + rg.Intn(9)
	for i := 0; i < nsteps && !s.aborted; i++ {
		k := rg.Intn(100)
		switch {
		case k < 60:
			n := 1 + rg.Intn(8)
			tss := make([]int64, n)
			for j := range tss {
				tss[j] = s.ts()
			}
			s.write(tss)
			if !s.aborted {
				s.checkState(s.phase())
			}
		case k < 75:
			s.reload()
		case k < 83:
			d := s.pickSGD()
			if err := s.mc.UpdateRetentionPolicy(c18DB, c18RP, &meta.RetentionPolicyUpdate{ShardGroupDuration: &d}, false); err != nil {
				r.Inconclusive("update retention policy: " + err.Error())
				continue
			}
			s.sgd = d
			s.hist = append(s.hist, "set sgd="+d.String())
			r.Event("sgd_changes", 1)
		case k < 88:
			live := s.liveGroups()
			if len(live) == 0 {
				continue
			}
			g := live[rg.Intn(len(live))]
			if err := s.mc.DeleteShardGroup(c18DB, c18RP, g.ID); err != nil {
				s.viol("delete_group_error", nil, s.wit("DeleteShardGroup of live group "+g.String()+": "+err.Error()))
				continue
			}
			s.hist = append(s.hist, "delete group "+g.String())
			r.Event("group_deletes", 1)
			for ts, id := range s.written {
				if id == g.ID {
					delete(s.written, ts)
				}
			}
			s.checkState(s.phase())
		case k < 93:
			from, to := s.ts(), s.ts()
			if from > to {
				from, to = to, from
			}
			s.hist = append(s.hist, fmt.Sprintf("precreate from=%d to=%d", from, to))
			if err := s.mc.PrecreateShardGroups(c18T(from), c18T(to)); err != nil {
				s.viol("precreate_error", nil, s.wit("PrecreateShardGroups: "+err.Error()))
				continue
			}
			r.Event("precreates", 1)
			s.checkState(s.phase())
		default:
			s.rangeQuery()
		}
	}
	if !s.aborted {
		s.reload()
	}
	if !s.aborted && len(s.written) > 0 {
		// after the restart the same timestamps must still route to the same groups
		tss := make([]int64, 0, len(s.written))
		for ts := range s.written {
			tss = append(tss, ts)
		}
		sort.Slice(tss, func(i, j int) bool { return tss[i] < tss[j] })
		if len(tss) > 24 {
			tss = tss[:24]
		}
		s.write(tss)
		if !s.aborted {
			s.checkState("reloaded")
		}
		r.Event("rewrites_after_final_reload", int64(len(tss)))
	}
	_ = s.mc.Close()
	ngroups := len(s.seenIDs)
	r.Case(strings.Join(s.hist, ";"), ngroups >= 2 && s.reloads >= 1)
	if r.WantSample() && caseNo%211 == 0 {
		h := s.hist
		if len(h) > 14 {
			h = h[:14]
		}
		r.Sample(map[string]any{"case": caseNo, "history": h, "groups_created": ngroups, "reloads": s.reloads,
			"final_groups": c18GroupStrings(s.groups())})
	}
}

func TestC18(t *testing.T) {
	r := vkit.Start(t, "C18", "exploration")
	defer r.Finish()
	r.Rule("case = one sequence on a fresh in-memory store: create policy (unlimited retention, shard-group duration from {1h,24h,7d,52w} or an odd value), then 4–12 steps of {MapShards batch of 1–8 timestamps, close+reopen client, change shard-group duration, delete a group, precreate, range query}, a final close+reopen and a rewrite of the surviving timestamps; timestamps from extremes / ±1 around 0 / pre-1970 / first and last representable years / a 32-slot grid / existing group bounds ±1 / uniform int64; non-trivial = ≥ 2 groups created and ≥ 1 reload; distinct = hash of the step history")
	r.Assume("retention duration is 0 (unlimited) in every sequence, so MapShards never consults the wall clock and every point must be routed",
		"TruncateShardGroups (no caller in this tree) is not part of the workload")
	r.Trust("inmem.KVStore as the persistence medium (bytes written by snapshot() are the bytes load() sees)")
	if seed, caseNo, _, ok := metaReplay(); ok {
		// re-run exactly the recorded sequence (and its neighbour, so that the evidence rule of
		// two distinct cases is met); the oracle prints its diff again if it still fails
		r.Seed = seed
		c18Run(r, caseNo)
		c18Run(r, caseNo+1)
		r.Sample(map[string]any{"replayed_case": caseNo, "seed": seed})
		return
	}
	n := r.N(8000, 200000)
	for i := 0; i < n; i++ {
		c18Run(r, i)
	}
}
