package g_meta

import (
	"encoding/json"
	"os"
)

// metaReplay reads a witness written by vkit.Run.Violation (VERIF_REPLAY, set by
// `./check <ID> --replay <path>`) and returns the seed, the case number and the part (C19).
func metaReplay() (seed int64, caseNo int, part string, ok bool) {
	p := os.Getenv("VERIF_REPLAY")
	if p == "" {
		return 0, 0, "", false
	}
	b, err := os.ReadFile(p)
	if err != nil {
		return 0, 0, "", false
	}
	var rec struct {
		Seed    int64 `json:"seed"`
		Witness struct {
			Case int    `json:"case"`
			Part string `json:"part"`
		} `json:"witness"`
	}
	if json.Unmarshal(b, &rec) != nil {
		return 0, 0, "", false
	}
	return rec.Seed, rec.Witness.Case, rec.Witness.Part, true
}
