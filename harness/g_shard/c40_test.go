package g_shard

// C40 — partial writes store exactly the accepted points (DESIGN §5 C40).
//
// Per batch an independent classifier decides, from the property text, which points must be
// rejected (tag named `time`; invalid UTF-8 in measurement/tag when key validation is on; no
// field other than `time`, including no field at all; a field whose type conflicts with the
// schema — pre-existing or created earlier in the same batch; a string field value longer than
// 1 MiB). The real Shard.WritePoints must report exactly that many dropped points, and a
// read-back of every (series, field) ever mentioned must equal model M1 fed with the accepted
// points only.

import (
	"errors"
	"fmt"
	"os"
	"sort"
	"strings"
	"testing"
	"time"
	"unicode/utf8"

	"github.com/influxdata/influxdb/v2/models"
	"github.com/influxdata/influxdb/v2/tsdb"
	"github.com/influxdata/influxdb/v2/tsdb/engine/tsm1"
	"github.com/influxdata/influxql"

	"verifharness/vkit"
	"verifharness/vkit/sk"
)

const c40MaxField = 1048576 // tsdb.MaxFieldValueLength, restated

type c40Field struct {
	Name string
	V    sk.Val
}

type c40Point struct {
	Meas     string
	Tags     map[string]string
	Fields   []c40Field
	T        int64
	NoFields bool // wrapper point whose field iterator is empty
	// classification
	Reason string // "" = accepted
}

func (p *c40Point) key() string { return sk.SeriesKey(p.Meas, p.Tags) }

func (p *c40Point) describe() string {
	var fs []string
	for _, f := range p.Fields {
		v := f.V.String()
		if len(v) > 24 {
			v = fmt.Sprintf("%s…(%d bytes)", v[:12], len(f.V.S))
		}
		fs = append(fs, f.Name+"="+v)
	}
	if p.NoFields {
		fs = []string{"<no fields>"}
	}
	r := p.Reason
	if r == "" {
		r = "accept"
	}
	return fmt.Sprintf("%q %s @%d => %s", p.key(), strings.Join(fs, ","), p.T, r)
}

// a models.Point without any field (cannot be built through models.NewPoint)
type c40NoFieldPoint struct{ models.Point }
type c40EmptyIter struct{}

func (c40EmptyIter) Next() bool                     { return false }
func (c40EmptyIter) FieldKey() []byte               { return nil }
func (c40EmptyIter) Type() models.FieldType         { return models.Empty }
func (c40EmptyIter) StringValue() string            { return "" }
func (c40EmptyIter) IntegerValue() (int64, error)   { return 0, errors.New("no field") }
func (c40EmptyIter) UnsignedValue() (uint64, error) { return 0, errors.New("no field") }
func (c40EmptyIter) BooleanValue() (bool, error)    { return false, errors.New("no field") }
func (c40EmptyIter) FloatValue() (float64, error)   { return 0, errors.New("no field") }
func (c40EmptyIter) Reset()                         {}

func (p c40NoFieldPoint) FieldIterator() models.FieldIterator { return c40EmptyIter{} }
func (p c40NoFieldPoint) Fields() (models.Fields, error)      { return models.Fields{}, nil }

type c40State struct {
	r         *vkit.Run
	rg        *vkit.Rand
	caseNo    int
	validate  bool
	s         *sk.Shard
	m         *sk.Model
	schema    map[string]map[string]byte          // measurement -> field -> kind (definite)
	tentative map[string]map[string]map[byte]bool // fields a rejected point may or may not have registered
	universe  map[string]map[string]bool          // series -> field names ever mentioned
	rejected  map[string]string                   // series|field|t|value -> reason, for naming what a bad read observed
	ctr       int64
	log       []string
	ambiguous bool
	stop      bool
	// kinds of the values carried by stripped `time` fields of accepted points, per series
	timeKinds map[string]map[byte]bool
}

var c40Kinds = []byte{'i', 'f', 's', 'b', 'u'}

func (c *c40State) val(kind byte) sk.Val {
	c.ctr++
	switch kind {
	case 'i':
		return sk.IntVal(c.ctr)
	case 'f':
		return sk.FloatVal(float64(c.ctr))
	case 's':
		return sk.StrVal(fmt.Sprintf("w%d", c.ctr))
	case 'b':
		return sk.BoolVal(c.ctr%2 == 0)
	default:
		return sk.UintVal(uint64(c.ctr))
	}
}

func (c *c40State) bigString(n int, quotes bool) sk.Val {
	c.ctr++
	tail := fmt.Sprintf("w%d", c.ctr)
	fill := "a"
	if quotes {
		fill = "\""
	}
	return sk.StrVal(strings.Repeat(fill, n-len(tail)) + tail)
}

// genPoint draws one hostile point; the generator looks at the classifier's schema only to aim
// (same type most of the time, a conflicting one sometimes) and to stay out of cases the
// property text leaves open (a field that only a rejected point proposed).
func (c *c40State) genPoint() *c40Point {
	rg := c.rg
	p := &c40Point{Meas: vkit.Pick(rg, []string{"m0", "m0", "m1"}), Tags: map[string]string{"h": vkit.Pick(rg, []string{"a", "b", "a b"})}, T: int64(rg.Intn(10)) * 10}
	switch rg.Intn(14) {
	case 0:
		p.Tags["time"] = vkit.Pick(rg, []string{"1", "x", ""})
		if p.Tags["time"] == "" {
			p.Tags["time"] = "0"
		}
	case 1:
		p.Tags["k"] = vkit.Pick(rg, []string{"\xff", "a\xc3", "\xe2\x82"})
	case 2:
		p.Tags[vkit.Pick(rg, []string{"k\xff", "\xc0\xaf"})] = "v"
	case 3:
		p.Meas = "m\xfe"
	}
	if rg.Chance(1, 40) {
		p.NoFields = true
	}
	nf := vkit.Pick(rg, []int{1, 1, 1, 2, 2, 3})
	names := []string{"v", "w", "x", "y", "time"}
	used := map[string]bool{}
	for k := 0; k < nf; k++ {
		name := vkit.Pick(rg, names)
		if k == 0 && rg.Chance(1, 10) {
			name = "time"
		}
		if used[name] {
			continue
		}
		used[name] = true
		var kind byte
		def, hasDef := c.schema[p.Meas][name]
		tent := c.tentative[p.Meas][name]
		switch {
		case name == "time":
			kind = 'i'
			if rg.Chance(1, 8) {
				kind = vkit.Pick(rg, c40Kinds)
			}
		case hasDef:
			kind = def
			if rg.Chance(1, 5) {
				kind = vkit.Pick(rg, c40Kinds) // may conflict
			}
		case len(tent) == 1:
			for k := range tent {
				kind = k
			}
		case len(tent) > 1:
			used[name] = false
			continue // left open by the property text: stay away until resolved
		default:
			kind = vkit.Pick(rg, c40Kinds)
		}
		p.Fields = append(p.Fields, c40Field{name, c.val(kind)})
	}
	if len(p.Fields) == 0 {
		p.Fields = append(p.Fields, c40Field{"time", c.val('i')})
	}
	return p
}

func c40InvalidUTF8(p *c40Point) bool {
	if !utf8.ValidString(p.Meas) {
		return true
	}
	for k, v := range p.Tags {
		if !utf8.ValidString(k) || !utf8.ValidString(v) {
			return true
		}
	}
	return false
}

func (c *c40State) propose(meas, field string, kind byte) {
	if _, ok := c.schema[meas][field]; ok {
		return
	}
	if c.tentative[meas] == nil {
		c.tentative[meas] = map[string]map[byte]bool{}
	}
	if c.tentative[meas][field] == nil {
		c.tentative[meas][field] = map[byte]bool{}
	}
	c.tentative[meas][field][kind] = true
}

// classify decides the fate of p from the property text and updates the model schema.
func (c *c40State) classify(p *c40Point) {
	if _, ok := p.Tags["time"]; ok {
		p.Reason = "time_tag"
		return
	}
	if c.validate && c40InvalidUTF8(p) {
		p.Reason = "invalid_utf8"
		return
	}
	valid := 0
	if !p.NoFields {
		for _, f := range p.Fields {
			if f.Name != "time" {
				valid++
			}
		}
	}
	if valid == 0 {
		p.Reason = "no_valid_field"
		return
	}
	for _, f := range p.Fields {
		if f.Name == "time" {
			continue
		}
		if f.V.K == 's' && len(f.V.S) > c40MaxField {
			p.Reason = "field_too_long"
		}
	}
	if p.Reason == "" {
		for _, f := range p.Fields {
			if f.Name == "time" {
				continue
			}
			if def, ok := c.schema[p.Meas][f.Name]; ok {
				if def != f.V.K {
					p.Reason = "type_conflict"
				}
			} else if t := c.tentative[p.Meas][f.Name]; len(t) > 0 && !(len(t) == 1 && t[f.V.K]) {
				c.ambiguous = true // generator bug: must not happen
			}
		}
	}
	if p.Reason != "" {
		// Whether a rejected point registers its other, new fields is not specified: either.
		for _, f := range p.Fields {
			if f.Name != "time" {
				c.propose(p.Meas, f.Name, f.V.K)
			}
		}
		return
	}
	for _, f := range p.Fields {
		if f.Name == "time" {
			continue
		}
		if c.schema[p.Meas] == nil {
			c.schema[p.Meas] = map[string]byte{}
		}
		c.schema[p.Meas][f.Name] = f.V.K
		if c.tentative[p.Meas] != nil {
			delete(c.tentative[p.Meas], f.Name)
		}
	}
}

func c40Kind(t influxql.DataType) byte {
	switch t {
	case influxql.Integer:
		return 'i'
	case influxql.Float:
		return 'f'
	case influxql.String:
		return 's'
	case influxql.Boolean:
		return 'b'
	case influxql.Unsigned:
		return 'u'
	}
	return '?'
}

// resolve settles the "either" fields by looking at the shard's schema (observation only).
func (c *c40State) resolve() {
	for meas, fs := range c.tentative {
		for field, kinds := range fs {
			mf := c.s.Sh.MeasurementFields([]byte(meas))
			var fd *tsdb.Field
			if mf != nil {
				fd = mf.Field(field)
			}
			if fd == nil {
				c.r.Event("open_field_not_registered", 1)
				continue
			}
			k := c40Kind(fd.Type)
			if !kinds[k] {
				c.r.Violation("schema_field_of_unproposed_type", map[string]string{"field": field}, map[string]any{"case": c.caseNo, "measurement": meas, "field": field, "registered": string(k), "log": c.log})
				continue
			}
			c.r.Event("open_field_registered_by_rejected_point", 1)
			if c.schema[meas] == nil {
				c.schema[meas] = map[string]byte{}
			}
			c.schema[meas][field] = k
		}
	}
	c.tentative = map[string]map[string]map[byte]bool{}
}

func (c *c40State) build(p *c40Point) models.Point {
	fields := models.Fields{}
	for _, f := range p.Fields {
		fields[f.Name] = f.V.Iface()
	}
	mp, err := models.NewPoint(p.Meas, models.NewTags(p.Tags), fields, time.Unix(0, p.T).UTC())
	if err != nil {
		c.r.T.Fatalf("C40: generator built an invalid point: %v", err)
	}
	if p.NoFields {
		return c40NoFieldPoint{mp}
	}
	return mp
}

type c40Wit struct {
	Case     int      `json:"case"`
	Validate bool     `json:"validate_keys"`
	Batch    []string `json:"batch"`
	Expected int      `json:"expected_dropped"`
	Got      string   `json:"got"`
	Series   string   `json:"series,omitempty"`
	Field    string   `json:"field,omitempty"`
	Detail   string   `json:"detail,omitempty"`
	Log      []string `json:"earlier_batches"`
}

func c40Short(s string) string {
	if len(s) > 400 {
		return s[:400] + fmt.Sprintf("…(%d bytes)", len(s))
	}
	return s
}

func (c *c40State) batch(bno int) {
	n := c.rg.Range(1, 8)
	pts := make([]*c40Point, 0, n)
	c.ambiguous = false
	bigAt := -1
	if c.rg.Chance(1, 12) {
		bigAt = c.rg.Intn(n)
	}
	reasons := map[string]int{}
	for i := 0; i < n; i++ {
		p := c.genPoint()
		if i == bigAt {
			// a string field around the 1 MiB limit; never on `time`, never conflicting by type
			name := "big"
			if def, ok := c.schema[p.Meas][name]; ok && def != 's' {
				name = "big2"
			}
			var v sk.Val
			switch c.rg.Intn(4) {
			case 0:
				v = c.bigString(c40MaxField, false) // exactly the limit: allowed
			case 1:
				v = c.bigString(c40MaxField, true) // exactly the limit, grows when escaped: allowed
			case 2:
				v = c.bigString(c40MaxField+1, false)
			default:
				v = c.bigString(c40MaxField+c.rg.Range(2, 5000), false)
			}
			if _, ok := c.schema[p.Meas][name]; ok || len(c.tentative[p.Meas][name]) == 0 || (len(c.tentative[p.Meas][name]) == 1 && c.tentative[p.Meas][name]['s']) {
				p.Fields = append(p.Fields, c40Field{name, v})
				p.NoFields = false
			}
		}
		c.classify(p)
		pts = append(pts, p)
	}
	expected := 0
	mps := make([]models.Point, len(pts))
	desc := make([]string, len(pts))
	for i, p := range pts {
		mps[i] = c.build(p)
		desc[i] = p.describe()
		if p.Reason != "" {
			expected++
			reasons[p.Reason]++
			c.r.Event("rejected_"+p.Reason, 1)
		} else {
			c.r.Event("accepted_points", 1)
		}
		if c.universe[p.key()] == nil {
			c.universe[p.key()] = map[string]bool{}
		}
		for _, f := range p.Fields {
			c.universe[p.key()][f.Name] = true
		}
	}
	if c.ambiguous {
		c.r.Event("batches_left_open_by_statement", 1)
	}
	for _, p := range pts {
		for _, f := range p.Fields {
			if p.Reason == "" && f.Name == "time" {
				if c.timeKinds[p.key()] == nil {
					c.timeKinds[p.key()] = map[byte]bool{}
				}
				c.timeKinds[p.key()][f.V.K] = true
			}
		}
	}
	err := c.s.Write(mps)
	// apply accepted points to the model, remember rejected values
	for _, p := range pts {
		for _, f := range p.Fields {
			if p.Reason == "" && f.Name != "time" {
				c.m.Put(p.key(), f.Name, p.T, f.V)
				delete(c.rejected, fmt.Sprintf("%s|%s|%d|%s", p.key(), f.Name, p.T, f.V))
			} else {
				why := p.Reason
				if why == "" {
					why = "stripped_time_field"
				}
				c.rejected[fmt.Sprintf("%s|%s|%d|%s", p.key(), f.Name, p.T, f.V)] = why
			}
		}
	}
	var rs []string
	for k := range reasons {
		rs = append(rs, k)
	}
	sort.Strings(rs)
	got := "nil"
	dropped := -1
	var pwe tsdb.PartialWriteError
	var ppwe *tsdb.PartialWriteError
	switch {
	case err == nil:
		dropped = 0
	case errors.As(err, &pwe):
		dropped, got = pwe.Dropped, c40Short(err.Error())
	case errors.As(err, &ppwe):
		dropped, got = ppwe.Dropped, c40Short(err.Error())
	default:
		got = c40Short(err.Error())
	}
	wit := func(detail string) c40Wit {
		return c40Wit{Case: c.caseNo, Validate: c.validate, Batch: desc, Expected: expected, Got: got, Detail: detail, Log: c.log}
	}
	c.r.Event("batches", 1)
	if expected > 0 {
		c.r.Event("batches_with_rejections", 1)
		if expected < len(pts) {
			c.r.Event("batches_mixed_accept_reject", 1)
		}
	}
	if !c.ambiguous {
		c.r.Event("dropped_counts_compared", 1)
		switch {
		case dropped < 0:
			// name the trigger from the inputs alone: accepted points carried `time` fields of different types for one series
			cause := "other"
			for _, p := range pts {
				if p.Reason == "" && len(c.timeKinds[p.key()]) > 1 {
					cause = "stripped_time_fields_of_different_types"
				}
			}
			c.r.Event("whole_batch_errors_"+cause, 1)
			c.r.Violation("unexpected_write_error", map[string]string{"cause": cause, "error": strings.ReplaceAll(got, " ", "_")},
				wit("WritePoints returned an error that is not a PartialWriteError: the whole batch fails although only some points (or only a `time` field) are invalid"))
			c.stop = true // what the shard holds after a failed non-partial write is unspecified
		case dropped != expected:
			c.r.Violation("dropped_count_mismatch", map[string]string{"reasons": strings.Join(rs, "+")}, wit(fmt.Sprintf("PartialWriteError.Dropped=%d, classifier expects %d rejected points", dropped, expected)))
		case expected > 0 && err == nil:
			c.r.Violation("dropped_count_mismatch", map[string]string{"reasons": strings.Join(rs, "+")}, wit("no error although points must be rejected"))
		}
	}
	c.resolve()
	if !c.stop {
		c.readBack(fmt.Sprintf("batch %d", bno), desc, expected, got)
		c.observeTimeField(pts)
	}
	c.log = append(c.log, fmt.Sprintf("batch %d: [%s] -> %s", bno, strings.Join(desc, " | "), got))
	c.r.Case(fmt.Sprintf("%v|%s", c.validate, strings.Join(desc, "|")), expected > 0 && expected < len(pts))
	if c.r.WantSample() && expected > 0 && expected < len(pts) && bno%5 == 2 && bigAt < 0 {
		c.r.Sample(map[string]any{"case": c.caseNo, "batch": bno, "validate_keys": c.validate, "points": desc, "expected_dropped": expected, "returned": got})
	}
}

// observeTimeField counts (does not judge) whether the value of a stripped `time` field reached the cache.
func (c *c40State) observeTimeField(pts []*c40Point) {
	for _, p := range pts {
		if p.Reason != "" {
			continue
		}
		for _, f := range p.Fields {
			if f.Name == "time" {
				if len(c.s.Eng().Cache.Values(tsm1.SeriesFieldKeyBytes(p.key(), "time"))) > 0 {
					c.r.Event("observed_stripped_time_field_value_in_cache", 1)
				} else {
					c.r.Event("observed_stripped_time_field_not_in_cache", 1)
				}
			}
		}
	}
}

func (c *c40State) readBack(after string, desc []string, expected int, gotErr string) {
	var keys []string
	for k := range c.universe {
		keys = append(keys, k)
	}
	sort.Strings(keys)
	for _, key := range keys {
		var fs []string
		for f := range c.universe[key] {
			fs = append(fs, f)
		}
		sort.Strings(fs)
		for _, f := range fs {
			got, err := c.s.Read(key, f, sk.MinT, sk.MaxT, true)
			if err != nil {
				c.r.T.Fatalf("C40 case %d: read %q %s: %v", c.caseNo, key, f, err)
			}
			c.r.Event("reads_compared", 1)
			want := c.m.Read(key, f, sk.MinT, sk.MaxT, true)
			if sk.Diff(want, got) == "" {
				continue
			}
			wm := map[int64]sk.Val{}
			for _, p := range want {
				wm[p.T] = p.V
			}
			gm := map[int64]sk.Val{}
			for _, p := range got {
				gm[p.T] = p.V
			}
			w := c40Wit{Case: c.caseNo, Validate: c.validate, Batch: desc, Expected: expected, Got: gotErr, Series: key, Field: f, Log: c.log}
			reported := false
			for _, p := range got {
				if v, ok := wm[p.T]; ok && v == p.V {
					continue
				}
				why, rej := c.rejected[fmt.Sprintf("%s|%s|%d|%s", key, f, p.T, p.V)]
				if rej {
					w.Detail = fmt.Sprintf("after %s: read returns %d:%s, the value of a point that was rejected (%s)", after, p.T, c40Short(p.V.String()), why)
					c.r.Violation("rejected_point_readable", map[string]string{"reason": why}, w)
				} else {
					w.Detail = fmt.Sprintf("after %s: read returns %d:%s, model has %v", after, p.T, c40Short(p.V.String()), wm[p.T])
					c.r.Violation("read_mismatch", map[string]string{"kind": "unexpected_value"}, w)
				}
				reported = true
				break
			}
			if !reported {
				for _, p := range want {
					if _, ok := gm[p.T]; !ok {
						w.Detail = fmt.Sprintf("after %s: accepted point %d:%s is not readable", after, p.T, c40Short(p.V.String()))
						c.r.Violation("accepted_point_missing", nil, w)
						reported = true
						break
					}
				}
			}
			if !reported {
				w.Detail = "after " + after + ": order/duplicate mismatch"
				c.r.Violation("read_mismatch", map[string]string{"kind": "order"}, w)
			}
			return
		}
	}
}

func c40History(r *vkit.Run, caseNo, batches int) {
	rg := r.Rand(caseNo)
	dir, err := os.MkdirTemp("", "c40")
	if err != nil {
		r.T.Fatal(err)
	}
	defer os.RemoveAll(dir)
	validate := rg.Bool()
	s, err := sk.Open(dir, sk.Opts{Tweak: func(o *tsdb.EngineOptions) { o.Config.ValidateKeys = validate }})
	if err != nil {
		r.T.Fatalf("C40: open: %v", err)
	}
	defer func() { s.Close() }()
	c := &c40State{r: r, rg: rg, caseNo: caseNo, validate: validate, s: s, m: sk.NewModel(), schema: map[string]map[string]byte{},
		tentative: map[string]map[string]map[byte]bool{}, universe: map[string]map[string]bool{}, rejected: map[string]string{}, timeKinds: map[string]map[byte]bool{}}
	if validate {
		r.Event("histories_validate_keys_on", 1)
	} else {
		r.Event("histories_validate_keys_off", 1)
	}
	for b := 0; b < batches; b++ {
		c.batch(b)
		if c.stop {
			return
		}
		switch rg.Intn(10) {
		case 0:
			if err := s.Snapshot(); err != nil {
				r.T.Fatalf("C40: snapshot: %v", err)
			}
			c.log = append(c.log, "snapshot")
			c.readBack("snapshot", nil, 0, "")
			r.Event("snapshots", 1)
		case 1:
			if err := s.Reopen(); err != nil {
				r.T.Fatalf("C40: reopen: %v", err)
			}
			c.log = append(c.log, "reopen")
			c.readBack("reopen", nil, 0, "")
			r.Event("reopens", 1)
		}
	}
	if err := s.Reopen(); err != nil {
		r.T.Fatalf("C40: reopen: %v", err)
	}
	c.readBack("final reopen", nil, 0, "")
}

func TestC40(t *testing.T) {
	r := vkit.Start(t, "C40", "exploration")
	defer r.Finish()
	r.Rule("case = one batch of 1–8 generated points (tag `time`, invalid UTF-8 in measurement/tag key/tag value, only-`time` field, `time` next to valid fields, no field at all, field type conflicting with the schema built by earlier batches or earlier points of the same batch, string field of exactly 1 MiB / 1 MiB+1 / larger) written to a real shard with key validation on or off; non-trivial = the batch mixes accepted and rejected points; distinct = hash of (validate, every point with values and verdict)")
	r.Assume("schema = one type per (measurement, field)", "whether a rejected point registers its other, new fields in the schema is left open by the statement: resolved after the batch by looking at the shard's schema, and the generator does not build later points whose verdict would depend on it", "a stripped `time` field next to valid fields does not reject the point")
	per := 10
	n := r.N(200, 1200)
	for i := 0; i < n; i++ {
		c40History(r, i, per)
	}
	r.Extra("histories", n)
	r.Extra("batches_per_history", per)
}
