package g_shard

// C05 — compaction plans never reorder data or double-book files (DESIGN §5 C05).
//
// Part (a): the real tsm1.DefaultPlanner over a harness-supplied stats provider (the planner's
// `fileStore` parameter is an unexported interface with exported methods only, so an external
// type satisfies it; no export file is needed). Generated generation layouts and random call
// sequences; the oracle is a direct invariant on every returned group against the harness's own
// ledger of held groups and its own list of live generations.
// Part (b): the same invariant against a real shard (sk) with tiny real files; planned groups
// are executed with the engine's own strategies and every read is compared with model M1, which
// turns "non-adjacent group" into "stale value returned".

import (
	"fmt"
	"os"
	"path/filepath"
	"sort"
	"strconv"
	"strings"
	"testing"
	"time"

	"github.com/influxdata/influxdb/v2/models"
	"github.com/influxdata/influxdb/v2/tsdb/engine/tsm1"

	"verifharness/vkit"
	"verifharness/vkit/sk"
)

// ---- live store description used by the oracle (independent of tsm1's generation types) ------

type c05File struct {
	Gen  int    `json:"gen"`
	Seq  int    `json:"seq"`
	Size uint32 `json:"size"`
	FBC  int    `json:"first_block_count"`
	Tomb bool   `json:"tombstone,omitempty"`
}

func (f c05File) name() string { return fmt.Sprintf("%09d-%09d.tsm", f.Gen, f.Seq) }

const (
	c05MaxTSM   = uint64(2048) * 1024 * 1024 // tsdb.MaxTSMFileSize, restated from the docs
	c05FullBlk  = 1000                       // tsdb.DefaultMaxPointsPerBlock
	c05AggrBlk  = 10000                      // tsdb.DefaultAggressiveMaxPointsPerBlock
	c05ColdDur  = time.Hour
	c05ColdBack = 1000 * time.Hour
)

// c05Live is what the oracle knows about the store at the time of a planner call.
type c05Live struct {
	gens    []int            // live generation ids, ascending
	filesOf map[int][]string // base names per generation
	genOf   map[string]int   // base name -> generation
	over    map[int]bool     // generation is "oversize, full first block, no tombstone"
}

func c05LiveOf(files []c05File) *c05Live {
	l := &c05Live{filesOf: map[int][]string{}, genOf: map[string]int{}, over: map[int]bool{}}
	size := map[int]uint64{}
	tomb := map[int]bool{}
	firstFBC := map[int]int{}
	firstSeq := map[int]int{}
	for _, f := range files {
		if _, ok := l.filesOf[f.Gen]; !ok {
			l.gens = append(l.gens, f.Gen)
			firstSeq[f.Gen] = f.Seq
			firstFBC[f.Gen] = f.FBC
		}
		if f.Seq < firstSeq[f.Gen] {
			firstSeq[f.Gen], firstFBC[f.Gen] = f.Seq, f.FBC
		}
		l.filesOf[f.Gen] = append(l.filesOf[f.Gen], f.name())
		l.genOf[f.name()] = f.Gen
		size[f.Gen] += uint64(f.Size)
		if f.Tomb {
			tomb[f.Gen] = true
		}
	}
	sort.Ints(l.gens)
	for _, g := range l.gens {
		l.over[g] = size[g] >= c05MaxTSM && firstFBC[g] >= c05FullBlk && !tomb[g]
	}
	return l
}

type c05Held struct {
	Files   []string `json:"files"`
	Planner string   `json:"planner"`
	Trigger string   `json:"trigger"`
	Level   int      `json:"level,omitempty"`
	NonAdj  []string `json:"non_adjacent_gap_causes,omitempty"`
}

type c05Call struct {
	Planner string // Plan | PlanLevel | PlanOptimize
	Trigger string // forceFull | cold | hot   (PlanLevel: level1..3)
	Level   int
}

type c05Wit struct {
	Part    string    `json:"part"`
	Case    int       `json:"case"`
	Layout  []c05File `json:"layout_at_call"`
	Ops     []string  `json:"ops"`
	Call    string    `json:"call"`
	Group   []string  `json:"group"`
	Held    []c05Held `json:"held"`
	GapGens []int     `json:"gap_generations,omitempty"`
	Detail  string    `json:"detail,omitempty"`
	Extra   any       `json:"extra,omitempty"`
	Initial []c05File `json:"initial_layout,omitempty"`
}

// c05Check applies the invariant to every group returned by one planner call. It returns, per
// group, the distinct gap causes (empty = contiguous).
func c05Check(r *vkit.Run, part string, caseNo int, live *c05Live, layout []c05File, ops []string, held []c05Held, call c05Call, groups []tsm1.CompactionGroup) [][]string {
	heldFile := map[string]int{}
	for i, h := range held {
		for _, f := range h.Files {
			heldFile[f] = i
		}
	}
	callS := call.Planner + "(" + call.Trigger + ")"
	feat := func(extra map[string]string) map[string]string {
		m := map[string]string{"planner": call.Planner, "trigger": call.Trigger, "part": part}
		for k, v := range extra {
			m[k] = v
		}
		return m
	}
	wit := func(g []string, gaps []int, detail string) c05Wit {
		return c05Wit{Part: part, Case: caseNo, Layout: layout, Ops: append([]string(nil), ops...), Call: callS, Group: g, Held: held, GapGens: gaps, Detail: detail}
	}
	out := make([][]string, len(groups))
	seen := map[string]int{}
	for gi, grp := range groups {
		r.Event("groups_checked", 1)
		if len(held) > 0 {
			r.Event("groups_checked_while_others_held", 1)
		}
		names := make([]string, len(grp))
		member := map[int]int{}
		bad := false
		for i, p := range grp {
			b := filepath.Base(p)
			names[i] = b
			g, ok := live.genOf[b]
			if !ok {
				r.Violation("unknown_file_in_group", feat(nil), wit(names, nil, "file "+b+" is not a live TSM file"))
				bad = true
				continue
			}
			member[g]++
			if hi, ok := heldFile[b]; ok {
				r.Violation("double_booked_file", feat(map[string]string{"held_by": held[hi].Planner}), wit(names, nil, fmt.Sprintf("file %s is already held by group #%d (%s %s)", b, hi, held[hi].Planner, held[hi].Trigger)))
				bad = true
			}
			if og, ok := seen[b]; ok {
				r.Violation("double_booked_file", feat(map[string]string{"held_by": "same_return"}), wit(names, nil, fmt.Sprintf("file %s appears in groups #%d and #%d of the same return", b, og, gi)))
				bad = true
			}
			seen[b] = gi
		}
		if bad || len(member) == 0 {
			continue
		}
		for g, n := range member {
			if n != len(live.filesOf[g]) {
				r.Violation("partial_generation", feat(nil), wit(names, []int{g}, fmt.Sprintf("generation %d has %d files, group holds %d of them", g, len(live.filesOf[g]), n)))
			}
		}
		lo, hi := int(^uint(0)>>1), -1
		for g := range member {
			if g < lo {
				lo = g
			}
			if g > hi {
				hi = g
			}
		}
		causes := map[string][]int{}
		for _, g := range live.gens {
			if g <= lo || g >= hi || member[g] > 0 {
				continue
			}
			c := "unexplained"
			inUse := false
			for _, f := range live.filesOf[g] {
				if _, ok := heldFile[f]; ok {
					inUse = true
				}
			}
			switch {
			case inUse:
				c = "in_use"
			case live.over[g]:
				c = "oversize_skip"
			}
			causes[c] = append(causes[c], g)
		}
		var cs []string
		for c := range causes {
			cs = append(cs, c)
		}
		sort.Strings(cs)
		out[gi] = cs
		for _, c := range cs {
			r.Event("non_adjacent_"+part[:1]+"_"+call.Planner+"_"+call.Trigger+"_"+c, 1)
			r.Violation("non_adjacent_group", feat(map[string]string{"gap_cause": c}),
				wit(names, causes[c], fmt.Sprintf("live generation(s) %v lie strictly between members %d and %d of the group but are not part of it (%s)", causes[c], lo, hi, c)))
		}
		if len(cs) == 0 {
			r.Event("contiguous_groups", 1)
		}
	}
	return out
}

// ---- part (a): stats provider -----------------------------------------------------------------

type c05Store struct {
	files   []c05File
	changed bool
}

func (s *c05Store) sortFiles() {
	sort.Slice(s.files, func(i, j int) bool {
		if s.files[i].Gen != s.files[j].Gen {
			return s.files[i].Gen < s.files[j].Gen
		}
		return s.files[i].Seq < s.files[j].Seq
	})
}

func (s *c05Store) Stats() []tsm1.ExtFileStat {
	out := make([]tsm1.ExtFileStat, len(s.files))
	for i, f := range s.files {
		out[i] = tsm1.ExtFileStat{FileStat: tsm1.FileStat{Path: "/c05/" + f.name(), HasTombstone: f.Tomb, Size: f.Size, Generation: f.Gen, Sequence: f.Seq}, FirstBlockCount: f.FBC}
	}
	return out
}
func (s *c05Store) LastModified() time.Time {
	if s.changed {
		return time.Now().Add(24 * time.Hour)
	}
	return time.Time{}
}
func (s *c05Store) ParseFileName(p string) (int, int, error) { return tsm1.DefaultParseFileName(p) }
func (s *c05Store) NextGeneration() int {
	m := 0
	for _, f := range s.files {
		if f.Gen > m {
			m = f.Gen
		}
	}
	return m + 1
}
func (s *c05Store) TSMReader(p string) (*tsm1.TSMReader, error) {
	return nil, fmt.Errorf("c05: no readers in the stats-only store")
}
func (s *c05Store) SupportsCompactionPlanning() bool { return true }

func c05Size(rg *vkit.Rand, big bool) uint32 {
	if big {
		return uint32(2048+rg.Range(0, 1500)) * 1024 * 1024 // ≥ 2 GB, < 4 GB (FileStat.Size is uint32)
	}
	if rg.Chance(1, 6) {
		return uint32(rg.Range(1000, 2047)) * 1024 * 1024
	}
	return uint32(rg.Range(1, 200)) * 1024 * 1024
}

func c05FBC(rg *vkit.Rand) int {
	switch rg.Intn(5) {
	case 0:
		return rg.Range(1, 999)
	case 1, 2:
		return c05FullBlk
	case 3:
		return c05AggrBlk
	default:
		return rg.Range(1001, 9999)
	}
}

func c05GenLayout(rg *vkit.Rand) []c05File {
	n := rg.Range(1, 10)
	id := rg.Range(1, 5)
	shape := rg.Intn(4)
	var files []c05File
	for g := 0; g < n; g++ {
		var seq int
		switch shape {
		case 0: // realistic: old generations are high level, recent ones low
			switch {
			case g < n/3:
				seq = vkit.Pick(rg, []int{4, 5, 6, 9})
			case g < 2*n/3:
				seq = vkit.Pick(rg, []int{2, 3, 3, 4})
			default:
				seq = vkit.Pick(rg, []int{1, 1, 2})
			}
		case 1: // all level 4+
			seq = vkit.Pick(rg, []int{4, 4, 5, 7})
		default:
			seq = vkit.Pick(rg, []int{1, 1, 2, 2, 3, 3, 4, 4, 5, 8})
		}
		nf := 1
		if rg.Chance(1, 4) {
			nf = rg.Range(2, 3)
		}
		big := rg.Chance(1, 4)
		for k := 0; k < nf; k++ {
			f := c05File{Gen: id, Seq: seq + k, Size: c05Size(rg, big && (k < nf-1 || nf == 1 || rg.Bool())), FBC: c05FBC(rg), Tomb: rg.Chance(1, 8)}
			files = append(files, f)
		}
		id += rg.Range(1, 3)
	}
	return files
}

func c05LayoutKey(fs []c05File) string {
	var b strings.Builder
	for _, f := range fs {
		fmt.Fprintf(&b, "%d-%d:%d:%d:%v|", f.Gen, f.Seq, f.Size>>20, f.FBC, f.Tomb)
	}
	return b.String()
}

func c05Sequence(r *vkit.Run, caseNo int) {
	rg := r.Rand(caseNo)
	st := &c05Store{files: c05GenLayout(rg), changed: true}
	st.sortFiles()
	initial := append([]c05File(nil), st.files...)
	pl := tsm1.NewDefaultPlanner(st, c05ColdDur)
	var held []c05Held
	var ops []string
	forcePending := false
	returned, returnedWhileHeld := 0, 0
	nops := rg.Range(4, 18)

	checkLedger := func(after string) {
		n := 0
		for _, h := range held {
			n += len(h.Files)
		}
		r.Event("ledger_compared", 1)
		if got := pl.InUseCount(); got != n {
			r.Violation("ledger_mismatch", map[string]string{"after": strings.SplitN(after, " ", 2)[0], "part": "a_stats_provider"},
				c05Wit{Part: "a", Case: caseNo, Layout: append([]c05File(nil), st.files...), Initial: initial, Ops: append([]string(nil), ops...), Held: held,
					Detail: fmt.Sprintf("planner holds %d files in use, the harness ledger of handed-out and not yet released groups holds %d", got, n)})
		}
	}
	take := func(call c05Call, groups []tsm1.CompactionGroup) {
		layout := append([]c05File(nil), st.files...)
		res := c05Check(r, "a_stats_provider", caseNo, c05LiveOf(st.files), layout, ops, held, call, groups)
		for i, g := range groups {
			names := make([]string, len(g))
			for k, p := range g {
				names[k] = filepath.Base(p)
			}
			held = append(held, c05Held{Files: names, Planner: call.Planner, Trigger: call.Trigger, Level: call.Level, NonAdj: res[i]})
			returned++
			if len(held) > 1 {
				returnedWhileHeld++
			}
		}
		ops[len(ops)-1] += fmt.Sprintf(" -> %d group(s)", len(groups))
	}
	lastWrite := func(cold bool) time.Time {
		if cold {
			return time.Now().Add(-c05ColdBack)
		}
		return time.Now()
	}
	doPlan := func(gens tsm1.TsmGenerations, cold bool) {
		trig := "hot"
		if cold {
			trig = "cold"
		}
		if forcePending {
			trig = "forceFull"
		}
		ops = append(ops, "Plan "+trig)
		r.Event("call_Plan_"+trig, 1)
		g, _ := pl.Plan(gens, lastWrite(cold))
		forcePending = false
		take(c05Call{Planner: "Plan", Trigger: trig}, g)
	}
	doLevel := func(gens tsm1.TsmGenerations, level int) {
		ops = append(ops, fmt.Sprintf("PlanLevel %d", level))
		r.Event("call_PlanLevel", 1)
		g, _ := pl.PlanLevel(gens, level)
		take(c05Call{Planner: "PlanLevel", Trigger: "level" + strconv.Itoa(level), Level: level}, g)
	}
	doOpt := func(gens tsm1.TsmGenerations, cold bool) {
		trig := "hot"
		if cold {
			trig = "cold"
		}
		ops = append(ops, "PlanOptimize "+trig)
		r.Event("call_PlanOptimize", 1)
		g, _, _ := pl.PlanOptimize(gens, lastWrite(cold))
		take(c05Call{Planner: "PlanOptimize", Trigger: trig}, g)
	}

	for o := 0; o < nops; o++ {
		st.changed = !rg.Chance(1, 5)
		switch k := rg.Intn(16); {
		case k < 3:
			doPlan(pl.FindGenerations(), rg.Bool())
		case k < 6:
			doLevel(pl.FindGenerations(), rg.Range(1, 3))
		case k < 7:
			doOpt(pl.FindGenerations(), rg.Chance(3, 4))
		case k < 8:
			ops = append(ops, "ForceFull")
			r.Event("call_ForceFull", 1)
			pl.ForceFull()
			forcePending = true
		case k < 10: // the engine's planning round: one generation snapshot for all five planners
			gens := pl.FindGenerations()
			cold := rg.Bool()
			ops = append(ops, "round{")
			doLevel(gens, 1)
			doLevel(gens, 2)
			doLevel(gens, 3)
			doPlan(gens, cold)
			doOpt(gens, cold)
			ops = append(ops, "}")
		case k < 12: // release one held group without running it
			if len(held) == 0 {
				continue
			}
			i := rg.Intn(len(held))
			ops = append(ops, fmt.Sprintf("Release #%d %v", i, held[i].Files))
			r.Event("call_Release", 1)
			pl.Release([]tsm1.CompactionGroup{c05Paths(held[i].Files)})
			held = append(held[:i:i], held[i+1:]...)
		case k < 14: // a held compaction completes: its files are replaced by the output, then released
			if len(held) == 0 {
				continue
			}
			i := rg.Intn(len(held))
			h := held[i]
			maxGen, maxSeq := 0, 0
			rm := map[string]bool{}
			for _, f := range h.Files {
				rm[f] = true
			}
			var keep []c05File
			for _, f := range st.files {
				if rm[f.name()] {
					if f.Gen > maxGen {
						maxGen, maxSeq = f.Gen, f.Seq
					} else if f.Gen == maxGen && f.Seq > maxSeq {
						maxSeq = f.Seq
					}
					continue
				}
				keep = append(keep, f)
			}
			nout := 1
			if rg.Chance(1, 5) {
				nout = 2
			}
			for k := 0; k < nout; k++ {
				keep = append(keep, c05File{Gen: maxGen, Seq: maxSeq + 1 + k, Size: c05Size(rg, rg.Chance(1, 3)), FBC: c05FBC(rg)})
			}
			st.files = keep
			st.sortFiles()
			ops = append(ops, fmt.Sprintf("Complete #%d %v -> gen %d seq %d (+%d)", i, h.Files, maxGen, maxSeq+1, nout-1))
			r.Event("op_complete_compaction", 1)
			pl.Release([]tsm1.CompactionGroup{c05Paths(h.Files)})
			held = append(held[:i:i], held[i+1:]...)
		case k < 15: // cache snapshot: a new level-1 generation
			st.files = append(st.files, c05File{Gen: st.NextGeneration(), Seq: 1, Size: c05Size(rg, false), FBC: c05FBC(rg)})
			ops = append(ops, "Snapshot")
			r.Event("op_snapshot", 1)
		default: // a delete leaves a tombstone on a file that no compaction holds
			if len(st.files) == 0 {
				continue
			}
			i := rg.Intn(len(st.files))
			st.files[i].Tomb = true
			ops = append(ops, "Tombstone "+st.files[i].name())
			r.Event("op_tombstone", 1)
		}
		checkLedger(ops[len(ops)-1])
	}
	ngen := len(c05LiveOf(initial).gens)
	r.Case("a|"+c05LayoutKey(initial)+"|"+strings.Join(ops, ";"), returned > 0 && ngen >= 3)
	if returnedWhileHeld > 0 {
		r.Event("sequences_with_overlapping_holds", 1)
	}
	if caseNo%211 == 0 && r.WantSample() && returned > 0 {
		r.Sample(map[string]any{"part": "a", "case": caseNo, "initial_layout": initial, "ops": ops})
	}
}

func c05Paths(names []string) tsm1.CompactionGroup {
	g := make(tsm1.CompactionGroup, len(names))
	for i, n := range names {
		g[i] = "/c05/" + n
	}
	return g
}

// ---- part (b): real shard ---------------------------------------------------------------------

type c05Cell struct {
	series, field string
	t             int64
}

type c05Real struct {
	r       *vkit.Run
	rg      *vkit.Rand
	caseNo  int
	s       *sk.Shard
	m       *sk.Model
	hist    map[c05Cell][]sk.Val // every value ever acknowledged for a cell, in order
	deleted map[c05Cell]bool
	ctr     int64
	ops     []string
	held    []c05Held
	heldG   []tsm1.CompactionGroup
	force   bool
	// non-adjacent groups that were executed (the only accepted explanation of a stale read)
	execNonAdj []c05Held
	stop       bool
	planned    int
	executed   int
}

var c05Series = []map[string]string{{"h": "a"}, {"h": "a b"}}

func (c *c05Real) layout() []c05File {
	var out []c05File
	for _, st := range c.s.Eng().FileStore.Stats() {
		g, q, err := tsm1.DefaultParseFileName(st.Path)
		if err != nil {
			continue
		}
		out = append(out, c05File{Gen: g, Seq: q, Size: st.Size, FBC: st.FirstBlockCount, Tomb: st.HasTombstone})
	}
	return out
}

func (c *c05Real) write() {
	n := c.rg.Range(3, 12)
	pts := make([]models.Point, 0, n)
	type put struct {
		cell c05Cell
		v    sk.Val
	}
	var puts []put
	for i := 0; i < n; i++ {
		tags := vkit.Pick(c.rg, c05Series)
		t := int64(c.rg.Intn(8)) * 10
		fields := map[string]sk.Val{}
		c.ctr++
		if c.rg.Chance(2, 3) {
			fields["i"] = sk.IntVal(c.ctr)
		}
		if len(fields) == 0 || c.rg.Chance(1, 3) {
			fields["f"] = sk.FloatVal(float64(c.ctr))
		}
		pts = append(pts, sk.Point("m", tags, fields, t))
		for f, v := range fields {
			puts = append(puts, put{c05Cell{sk.SeriesKey("m", tags), f, t}, v})
		}
	}
	if err := c.s.Write(pts); err != nil {
		c.r.T.Fatalf("C05(b) case %d: write: %v", c.caseNo, err)
	}
	for _, p := range puts {
		c.m.Put(p.cell.series, p.cell.field, p.cell.t, p.v)
		c.hist[p.cell] = append(c.hist[p.cell], p.v)
		delete(c.deleted, p.cell)
	}
	c.ops = append(c.ops, fmt.Sprintf("write %d points", n))
}

func (c *c05Real) snapshot() {
	if err := c.s.Snapshot(); err != nil {
		c.r.T.Fatalf("C05(b) case %d: snapshot: %v", c.caseNo, err)
	}
	c.ops = append(c.ops, "snapshot -> "+strings.Join(c.s.TSMFiles(), ","))
}

func (c *c05Real) del() {
	tags := vkit.Pick(c.rg, c05Series)
	key := sk.SeriesKey("m", tags)
	lo := int64(c.rg.Intn(8)) * 10
	hi := lo + int64(c.rg.Intn(3))*10
	if err := c.s.DeleteRange([]string{key}, lo, hi); err != nil {
		c.r.T.Fatalf("C05(b) case %d: delete: %v", c.caseNo, err)
	}
	for _, f := range c.m.Fields(key) {
		for t := range c.m.S[key][f].P {
			if t >= lo && t <= hi {
				c.deleted[c05Cell{key, f, t}] = true
			}
		}
	}
	c.m.Delete(key, lo, hi)
	c.ops = append(c.ops, fmt.Sprintf("delete %s [%d,%d]", key, lo, hi))
}

// manual raises the level of a contiguous run of generations with the engine's own level
// strategy (a hand-made, contiguous group — only there to produce mixed-level layouts).
func (c *c05Real) manual() {
	live := c05LiveOf(c.layout())
	heldFile := map[string]bool{}
	for _, h := range c.held {
		for _, f := range h.Files {
			heldFile[f] = true
		}
	}
	if len(live.gens) == 0 {
		return
	}
	a := c.rg.Intn(len(live.gens))
	b := a + c.rg.Intn(2)
	if b >= len(live.gens) {
		b = len(live.gens) - 1
	}
	var g tsm1.CompactionGroup
	for _, id := range live.gens[a : b+1] {
		for _, f := range live.filesOf[id] {
			if heldFile[f] {
				return
			}
			g = append(g, filepath.Join(c.s.DataPath(), f))
		}
	}
	sort.Strings(g)
	c.s.Eng().VerifCompactGroup(g, c.rg.Bool(), 1, c.rg.Range(2, 5))
	c.ops = append(c.ops, fmt.Sprintf("manual-compact gens %v -> %s", live.gens[a:b+1], strings.Join(c.s.TSMFiles(), ",")))
}

func (c *c05Real) take(call c05Call, groups []tsm1.CompactionGroup) {
	res := c05Check(c.r, "b_real_shard", c.caseNo, c05LiveOf(c.layout()), c.layout(), c.ops, c.held, call, groups)
	for i, g := range groups {
		names := make([]string, len(g))
		for k, p := range g {
			names[k] = filepath.Base(p)
		}
		c.held = append(c.held, c05Held{Files: names, Planner: call.Planner, Trigger: call.Trigger, Level: call.Level, NonAdj: res[i]})
		c.heldG = append(c.heldG, g)
		c.planned++
	}
	c.ops[len(c.ops)-1] += fmt.Sprintf(" -> %d group(s)", len(groups))
}

func (c *c05Real) lastWrite(cold bool) time.Time {
	if cold {
		return time.Now().Add(-c05ColdBack)
	}
	return time.Now()
}

func (c *c05Real) plan(gens tsm1.TsmGenerations, cold bool) {
	trig := "hot"
	if cold {
		trig = "cold"
	}
	if c.force {
		trig = "forceFull"
	}
	c.ops = append(c.ops, "Plan "+trig)
	c.r.Event("b_call_Plan_"+trig, 1)
	g, _ := c.s.Eng().CompactionPlan.Plan(gens, c.lastWrite(cold))
	c.force = false
	c.take(c05Call{Planner: "Plan", Trigger: trig}, g)
}

func (c *c05Real) level(gens tsm1.TsmGenerations, level int) {
	c.ops = append(c.ops, fmt.Sprintf("PlanLevel %d", level))
	c.r.Event("b_call_PlanLevel", 1)
	g, _ := c.s.Eng().CompactionPlan.PlanLevel(gens, level)
	c.take(c05Call{Planner: "PlanLevel", Trigger: "level" + strconv.Itoa(level), Level: level}, g)
}

func (c *c05Real) optimize(gens tsm1.TsmGenerations, cold bool) {
	trig := "hot"
	if cold {
		trig = "cold"
	}
	c.ops = append(c.ops, "PlanOptimize "+trig)
	c.r.Event("b_call_PlanOptimize", 1)
	g, _, _ := c.s.Eng().CompactionPlan.PlanOptimize(gens, c.lastWrite(cold))
	c.take(c05Call{Planner: "PlanOptimize", Trigger: trig}, g)
}

func (c *c05Real) release(i int) {
	c.ops = append(c.ops, fmt.Sprintf("Release #%d %v", i, c.held[i].Files))
	c.s.Eng().CompactionPlan.Release([]tsm1.CompactionGroup{c.heldG[i]})
	c.held = append(c.held[:i:i], c.held[i+1:]...)
	c.heldG = append(c.heldG[:i:i], c.heldG[i+1:]...)
}

// exec runs held group i with the strategy the engine uses for its planner, releases it and
// reads everything back.
func (c *c05Real) exec(i int) {
	h, g := c.held[i], c.heldG[i]
	e := c.s.Eng()
	ppb := c.rg.Range(2, 6)
	before := strings.Join(c.s.TSMFiles(), ",")
	switch h.Planner {
	case "PlanLevel":
		e.VerifCompactGroup(g, h.Level < 3 || c.rg.Bool(), h.Level, ppb)
	case "Plan":
		e.VerifFullCompactGroup(g, ppb)
	default:
		e.VerifOptimizeCompactGroup(g, ppb)
	}
	after := strings.Join(c.s.TSMFiles(), ",")
	c.ops = append(c.ops, fmt.Sprintf("Execute #%d %s(%s) %v: %s => %s", i, h.Planner, h.Trigger, h.Files, before, after))
	c.r.Event("b_groups_executed", 1)
	c.executed++
	if before == after {
		c.r.Event("b_execute_left_files_unchanged", 1)
	}
	if len(h.NonAdj) > 0 {
		c.execNonAdj = append(c.execNonAdj, h)
	}
	e.CompactionPlan.Release([]tsm1.CompactionGroup{g})
	c.held = append(c.held[:i:i], c.held[i+1:]...)
	c.heldG = append(c.heldG[:i:i], c.heldG[i+1:]...)
	c.verify("execute")
}

func (c *c05Real) verify(after string) {
	for _, key := range c.m.SeriesKeys() {
		for _, f := range c.m.Fields(key) {
			for _, asc := range []bool{true, false} {
				got, err := c.s.Read(key, f, sk.MinT, sk.MaxT, asc)
				if err != nil {
					c.r.T.Fatalf("C05(b) case %d: read: %v", c.caseNo, err)
				}
				c.r.Event("b_reads_compared", 1)
				want := c.m.Read(key, f, sk.MinT, sk.MaxT, asc)
				d := sk.Diff(want, got)
				if d == "" {
					continue
				}
				// name what was observed: an older acknowledged value of the same cell, a deleted point, or something else
				kind := "missing_point"
				wm := map[int64]sk.Val{}
				for _, p := range want {
					wm[p.T] = p.V
				}
				for _, p := range got {
					if w, ok := wm[p.T]; ok && w == p.V {
						continue
					}
					cell := c05Cell{key, f, p.T}
					hv := c.hist[cell]
					kind = "other"
					for k := range hv {
						if hv[k] != p.V {
							continue
						}
						if c.deleted[cell] {
							kind = "deleted_point_resurrected"
						} else if k+1 < len(hv) {
							kind = "stale_value"
						}
					}
					break
				}
				feats := map[string]string{"kind": kind, "explained_by": "none", "part": "b_real_shard"}
				if n := len(c.execNonAdj); n > 0 {
					h := c.execNonAdj[n-1]
					feats["explained_by"] = "executed_non_adjacent_group"
					feats["planner"], feats["trigger"], feats["gap_cause"] = h.Planner, h.Trigger, strings.Join(h.NonAdj, "+")
				}
				c.r.Event("b_read_mismatch_"+kind, 1)
				c.r.Violation("stale_read_after_planned_compaction", feats, c05Wit{Part: "b", Case: c.caseNo, Layout: c.layout(), Ops: c.ops, Held: c.held,
					Call: "read " + key + " " + f + fmt.Sprintf(" asc=%v after %s", asc, after), Detail: d, Extra: map[string]any{"executed_non_adjacent_groups": c.execNonAdj}})
				c.stop = true
				return
			}
		}
	}
}

func c05RealHistory(r *vkit.Run, caseNo int) {
	rg := r.SubRand("real", caseNo)
	dir, err := os.MkdirTemp("", "c05b")
	if err != nil {
		r.T.Fatalf("C05(b): %v", err)
	}
	defer os.RemoveAll(dir)
	s, err := sk.Open(dir, sk.Opts{NoWAL: true})
	if err != nil {
		r.T.Fatalf("C05(b): open: %v", err)
	}
	defer s.Close()
	c := &c05Real{r: r, rg: rg, caseNo: caseNo, s: s, m: sk.NewModel(), hist: map[c05Cell][]sk.Val{}, deleted: map[c05Cell]bool{}}
	// setup: level-1 generations with overlapping cells, tombstones, some raised levels
	for i, n := 0, rg.Range(3, 7); i < n; i++ {
		c.write()
		c.snapshot()
		if rg.Chance(1, 5) {
			c.del()
		}
		if rg.Chance(1, 5) {
			c.manual()
		}
	}
	for i, n := 0, rg.Range(0, 3); i < n; i++ {
		c.manual()
	}
	c.verify("setup")
	for o, n := 0, rg.Range(4, 10); o < n && !c.stop; o++ {
		gens := s.Eng().CompactionPlan.FindGenerations()
		switch k := rg.Intn(14); {
		case k < 3:
			cold := rg.Bool()
			c.ops = append(c.ops, "round{")
			c.level(gens, 1)
			c.level(gens, 2)
			c.level(gens, 3)
			c.plan(gens, cold)
			c.optimize(gens, cold)
			c.ops = append(c.ops, "}")
		case k < 5:
			c.level(gens, rg.Range(1, 3))
		case k < 7:
			c.plan(gens, rg.Bool())
		case k < 8:
			c.optimize(gens, rg.Chance(3, 4))
		case k < 9:
			c.ops = append(c.ops, "ForceFull")
			s.Eng().CompactionPlan.ForceFull()
			c.force = true
		case k < 11:
			if len(c.held) > 0 {
				c.exec(rg.Intn(len(c.held)))
			}
		case k < 12:
			if len(c.held) > 0 {
				c.release(rg.Intn(len(c.held)))
			}
		case k < 13:
			c.write()
			c.snapshot()
		default:
			c.del()
			c.verify("delete")
		}
	}
	for len(c.held) > 0 && !c.stop {
		c.exec(rg.Intn(len(c.held)))
	}
	if !c.stop {
		if err := s.Reopen(); err != nil {
			r.T.Fatalf("C05(b) case %d: reopen: %v", caseNo, err)
		}
		c.verify("reopen")
	}
	r.Case("b|"+strings.Join(c.ops, ";"), c.executed > 0)
	if c.planned > 0 {
		r.Event("b_histories_with_planned_groups", 1)
	}
	if caseNo%17 == 0 && r.WantSample() && c.executed > 0 {
		r.Sample(map[string]any{"part": "b", "case": caseNo, "ops": c.ops})
	}
}

func TestC05(t *testing.T) {
	r := vkit.Start(t, "C05", "exploration")
	defer r.Finish()
	r.Rule("(a) case = generated generation layout (1–10 generations, 1–3 files, levels by sequence number, sizes small/≥2 GB, first-block counts low/1000/10000, tombstones) + random sequence of Plan(hot|cold)/PlanLevel(1..3)/PlanOptimize/ForceFull/Release/engine-round/complete-compaction/snapshot/tombstone against the real DefaultPlanner over a stats provider; (b) case = real shard history (snapshots with overlapping cells, deletes, raised levels, planner calls, held groups executed later with the engine's strategies, M1 read-back). Oracle on every returned group: files live, disjoint from every held group, whole generations, no live generation strictly between two members. Non-trivial: (a) ≥3 generations and ≥1 group returned, (b) ≥1 planned group executed. Distinct = hash of layout + op sequence.")
	r.Assume("planner calls are sequential (Plan vs Release concurrency belongs to C39)", "generation order = numeric order of the generation id in the file name", "hot/cold lastWrite are placed ≥ 999 h from the 1 h (a) / 4 h (b) cold threshold, so wall-clock reads inside the planner cannot change a decision")
	na := r.N(4000, 200000)
	t0 := time.Now()
	for i := 0; i < na; i++ {
		c05Sequence(r, i)
	}
	r.Extra("part_a_wall_s", time.Since(t0).Seconds())
	nb := r.N(80, 1500)
	for i := 0; i < nb; i++ {
		c05RealHistory(r, i)
	}
	r.Extra("part_a_sequences", na)
	r.Extra("part_b_histories", nb)
}
