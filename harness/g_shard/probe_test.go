package g_shard

import (
	"archive/tar"
	"bytes"
	"context"
	"fmt"
	"io"
	"os"
	"path/filepath"
	"testing"
	"time"

	"github.com/influxdata/influxdb/v2/models"
	"github.com/influxdata/influxdb/v2/tsdb/engine/tsm1"

	"verifharness/vkit/sk"
)

type probeFS struct {
	stats []tsm1.ExtFileStat
}

func (f *probeFS) Stats() []tsm1.ExtFileStat { return f.stats }
func (f *probeFS) LastModified() time.Time  { return time.Now().Add(24 * time.Hour) }
func (f *probeFS) ParseFileName(p string) (int, int, error) {
	return tsm1.DefaultParseFileName(p)
}
func (f *probeFS) NextGeneration() int                           { return 1 }
func (f *probeFS) TSMReader(p string) (*tsm1.TSMReader, error) { return nil, fmt.Errorf("no reader") }
func (f *probeFS) SupportsCompactionPlanning() bool             { return true }

func TestProbePlanner(t *testing.T) {
	mk := func(gen, seq int, size uint32, fbc int) tsm1.ExtFileStat {
		return tsm1.ExtFileStat{FileStat: tsm1.FileStat{Path: fmt.Sprintf("%09d-%09d.tsm", gen, seq), Size: size, Generation: gen, Sequence: seq}, FirstBlockCount: fbc}
	}
	fs := &probeFS{stats: []tsm1.ExtFileStat{mk(1, 4, 100, 10), mk(2, 4, 2200<<20, 1000), mk(3, 4, 100, 10), mk(4, 4, 100, 10)}}
	p := tsm1.NewDefaultPlanner(fs, time.Hour)
	p.ForceFull()
	g, n := p.Plan(p.FindGenerations(), time.Now())
	t.Logf("forcefull: %v %d", g, n)
	p.Release(g)
	g, n = p.Plan(p.FindGenerations(), time.Now().Add(-1000*time.Hour))
	t.Logf("cold: %v %d", g, n)
}

func tarList(b []byte) string {
	tr := tar.NewReader(bytes.NewReader(b))
	s := ""
	for {
		h, err := tr.Next()
		if err != nil {
			if err != io.EOF {
				s += " ERR:" + err.Error()
			}
			break
		}
		s += fmt.Sprintf(" %s(%d)", h.Name, h.Size)
	}
	return s
}

func TestProbeBackup(t *testing.T) {
	dir := t.TempDir()
	s, err := sk.Open(filepath.Join(dir, "src"), sk.Opts{})
	if err != nil {
		t.Fatal(err)
	}
	tags := map[string]string{"h": "a"}
	key := sk.SeriesKey("cpu", tags)
	for i := 0; i < 10; i++ {
		s.Write([]models.Point{sk.Point("cpu", tags, map[string]sk.Val{"v": sk.IntVal(int64(i))}, int64(i*10))})
	}
	s.Write([]models.Point{sk.Point("mem", tags, map[string]sk.Val{"v": sk.IntVal(int64(77))}, int64(90))})
	s.Snapshot()
	// export without tombstone
	var buf bytes.Buffer
	err = s.Sh.Export(&buf, "db0/rp0/1", time.Unix(0, 25), time.Unix(0, 55))
	t.Logf("export err=%v tar=%s", err, tarList(buf.Bytes()))
	d, err := sk.Open(filepath.Join(dir, "imp"), sk.Opts{})
	if err != nil {
		t.Fatal(err)
	}
	err = d.Sh.Import(bytes.NewReader(buf.Bytes()), "db0/rp0/1")
	got, e2 := d.Read(key, "v", sk.MinT, sk.MaxT, true)
	t.Logf("import err=%v read=%s %v files=%v", err, sk.FmtPts(got), e2, d.TSMFiles())

	buf.Reset()
	err = s.Sh.Export(&buf, "db0/rp0/1", time.Unix(0, 91), time.Unix(0, 95))
	t.Logf("export-noblock err=%v tar=%s", err, tarList(buf.Bytes()))

	// delete -> tombstone
	if err := s.DeleteRange([]string{key}, 20, 40); err != nil {
		t.Fatal(err)
	}
	ents, _ := os.ReadDir(s.DataPath())
	for _, e := range ents {
		t.Logf("src file %s", e.Name())
	}
	buf.Reset()
	err = s.Sh.Export(&buf, "db0/rp0/1", time.Unix(0, 25), time.Unix(0, 55))
	t.Logf("export(tombstone) err=%v tar=%s", err, tarList(buf.Bytes()))

	buf.Reset()
	err = s.Sh.Backup(&buf, "db0/rp0/1", time.Time{})
	t.Logf("backup err=%v tar=%s", err, tarList(buf.Bytes()))
	r, err := sk.Open(filepath.Join(dir, "rst"), sk.Opts{})
	if err != nil {
		t.Fatal(err)
	}
	err = r.Sh.Restore(context.Background(), bytes.NewReader(buf.Bytes()), "db0/rp0/1")
	got, e2 = r.Read(key, "v", sk.MinT, sk.MaxT, true)
	t.Logf("restore err=%v read=%s %v files=%v", err, sk.FmtPts(got), e2, r.TSMFiles())
	got, e2 = s.Read(key, "v", sk.MinT, sk.MaxT, true)
	t.Logf("source read=%s %v", sk.FmtPts(got), e2)
	ents, _ = os.ReadDir(r.DataPath())
	for _, e := range ents {
		t.Logf("rst file %s", e.Name())
	}
}
