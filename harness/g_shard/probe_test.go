package g_shard

import (
	"bytes"
	"context"
	"fmt"
	"path/filepath"
	"testing"
	"time"

	"github.com/influxdata/influxdb/v2/models"
	"github.com/influxdata/influxdb/v2/tsdb/engine/tsm1"

	"verifharness/vkit/sk"
)

func TestProbePlanner(t *testing.T) {
	mk := func(gen, seq int, size uint32, fbc int) c05File {
		return c05File{Gen: gen, Seq: seq, Size: size, FBC: fbc}
	}
	st := &c05Store{files: []c05File{mk(1, 4, 100<<20, 1000), mk(2, 4, 2100<<20, 1000), mk(3, 4, 100<<20, 1000)}, changed: true}
	p := tsm1.NewDefaultPlanner(st, time.Hour)
	p.ForceFull()
	g, _ := p.Plan(p.FindGenerations(), time.Now())
	t.Logf("oversize forceFull: %v", g)
	p.Release(g)
	g, _ = p.Plan(p.FindGenerations(), time.Now().Add(-1000*time.Hour))
	t.Logf("oversize cold: %v", g)
	p.Release(g)

	st = &c05Store{files: []c05File{mk(1, 2, 1<<20, 10), mk(2, 1, 1<<20, 10), mk(3, 1, 1<<20, 10), mk(4, 2, 1<<20, 10)}, changed: true}
	p = tsm1.NewDefaultPlanner(st, time.Hour)
	gens := p.FindGenerations()
	l1, _ := p.PlanLevel(gens, 1)
	t.Logf("in_use: PlanLevel(1): %v", l1)
	g, _ = p.Plan(gens, time.Now().Add(-1000*time.Hour))
	t.Logf("in_use: Plan(cold): %v", g)
}

func TestProbeC05Real(t *testing.T) {
	s, err := sk.Open(t.TempDir(), sk.Opts{NoWAL: true})
	if err != nil {
		t.Fatal(err)
	}
	defer s.Close()
	tags := map[string]string{"h": "a"}
	key := sk.SeriesKey("m", tags)
	w := func(ts int64, v int64) {
		if err := s.Write([]models.Point{sk.Point("m", tags, map[string]sk.Val{"i": sk.IntVal(v)}, ts)}); err != nil {
			t.Fatal(err)
		}
	}
	e := s.Eng()
	one := func(name string) tsm1.CompactionGroup {
		return tsm1.CompactionGroup{filepath.Join(s.DataPath(), name)}
	}
	w(30, 1)
	s.Snapshot()                                                          // 1-01
	e.VerifCompactGroup(one("000000001-000000001.tsm"), true, 1, 0) // 1-02
	e.VerifCompactGroup(one("000000001-000000002.tsm"), true, 2, 0) // 1-03
	w(30, 2)
	w(40, 9)
	s.Snapshot()                                                          // 2-01
	e.VerifCompactGroup(one("000000002-000000001.tsm"), true, 1, 0) // 2-02
	s.DeleteRange([]string{key}, 40, 40)                                  // tombstone on 2-02
	w(50, 3)
	s.Snapshot() // 3-01
	t.Logf("files: %v", s.TSMFiles())
	got, _ := s.Read(key, "i", sk.MinT, sk.MaxT, true)
	t.Logf("before: %s", sk.FmtPts(got))
	pl := e.CompactionPlan
	gens := pl.FindGenerations()
	l2, _ := pl.PlanLevel(gens, 2)
	t.Logf("PlanLevel(2): %v", l2)
	pl.ForceFull()
	full, _ := pl.Plan(gens, time.Now())
	t.Logf("Plan(forceFull): %v", full)
	for _, g := range full {
		e.VerifFullCompactGroup(g, 0)
	}
	pl.Release(full)
	for _, g := range l2 {
		e.VerifCompactGroup(g, true, 2, 0)
	}
	pl.Release(l2)
	t.Logf("files: %v", s.TSMFiles())
	got, _ = s.Read(key, "i", sk.MinT, sk.MaxT, true)
	t.Logf("after: %s", sk.FmtPts(got))
}

func TestProbeC38(t *testing.T) {
	dir := t.TempDir()
	s, err := sk.Open(filepath.Join(dir, "src"), sk.Opts{})
	if err != nil {
		t.Fatal(err)
	}
	tags := map[string]string{"h": "a"}
	key := sk.SeriesKey("cpu", tags)
	for i := 0; i < 10; i++ {
		s.Write([]models.Point{sk.Point("cpu", tags, map[string]sk.Val{"v": sk.IntVal(int64(i))}, int64(i*10))})
	}
	s.Snapshot()
	// 1. block granularity
	var buf bytes.Buffer
	err = s.Sh.Export(&buf, "db0/rp0/1", time.Unix(0, 25), time.Unix(0, 55))
	d, _ := sk.Open(filepath.Join(dir, "imp"), sk.Opts{})
	err2 := d.Sh.Import(bytes.NewReader(buf.Bytes()), "db0/rp0/1")
	got, _ := d.Read(key, "v", sk.MinT, sk.MaxT, true)
	t.Logf("export[25,55] err=%v import err=%v read=%s", err, err2, sk.FmtPts(got))
	d.Close()
	// 2. no block in range
	s2, _ := sk.Open(filepath.Join(dir, "src2"), sk.Opts{})
	s2.Write([]models.Point{sk.Point("cpu", tags, map[string]sk.Val{"v": sk.IntVal(1)}, 0), sk.Point("mem", tags, map[string]sk.Val{"v": sk.IntVal(2)}, 100)})
	s2.Snapshot()
	buf.Reset()
	err = s2.Sh.Export(&buf, "db0/rp0/1", time.Unix(0, 40), time.Unix(0, 50))
	t.Logf("export[40,50] (file spans [0,100], no block in range) err=%v", err)
	s2.Close()
	// 3. tombstone
	s.DeleteRange([]string{key}, 20, 40)
	buf.Reset()
	err = s.Sh.Export(&buf, "db0/rp0/1", time.Unix(0, 0), time.Unix(0, 100))
	t.Logf("export with tombstone err=%v", err)
	// 4. restore loses tombstones
	buf.Reset()
	err = s.Sh.Backup(&buf, "db0/rp0/1", time.Time{})
	ents, _ := c38Untar(buf.Bytes())
	r, _ := sk.Open(filepath.Join(dir, "rst"), sk.Opts{})
	err2 = r.Sh.Restore(context.Background(), bytes.NewReader(buf.Bytes()), "db0/rp0/1")
	got, _ = r.Read(key, "v", sk.MinT, sk.MaxT, true)
	src, _ := s.Read(key, "v", sk.MinT, sk.MaxT, true)
	t.Logf("backup err=%v archive=%v restore err=%v\n source  =%s\n restored=%s\n restored files=%v", err, c38Names(ents), err2, sk.FmtPts(src), sk.FmtPts(got), c38DataFiles(r.DataPath()))
}

func TestProbeC40(t *testing.T) {
	s, err := sk.Open(t.TempDir(), sk.Opts{})
	if err != nil {
		t.Fatal(err)
	}
	tags := models.NewTags(map[string]string{"h": "a"})
	p1, _ := models.NewPoint("m", tags, models.Fields{"time": int64(1), "v": int64(1)}, time.Unix(0, 0))
	p2, _ := models.NewPoint("m", tags, models.Fields{"time": true, "v": int64(2)}, time.Unix(0, 10))
	err = s.Write([]models.Point{p1, p2})
	key := sk.SeriesKey("m", map[string]string{"h": "a"})
	got, _ := s.Read(key, "v", sk.MinT, sk.MaxT, true)
	t.Logf("write err=%v (%T); read v=%s; cache time=%v", err, err, sk.FmtPts(got), s.Eng().Cache.Values(tsm1.SeriesFieldKeyBytes(key, "time")))
	s.Reopen()
	got, _ = s.Read(key, "v", sk.MinT, sk.MaxT, true)
	t.Logf("after reopen: read v=%s", sk.FmtPts(got))
	err = s.Write([]models.Point{p1})
	t.Logf("single point with time field: err=%v", err)
	fmt.Println()
}
