package g_shard

// C38 — shard backup and restore preserve data (DESIGN §5 C38).
//
// Per history a real shard is driven through random writes / deletes / snapshots / compactions /
// reopens while reference model M1 follows. Then three oracles run against the real
// Shard.Backup / Shard.Restore / Shard.Export / Shard.Import:
//   B  incremental: file mtimes are set explicitly (os.Chtimes) around a fixed `since`; the archive
//      of Backup(since) must contain every .tsm/.tombstone file with mtime > since, byte-identical;
//   A  full backup restored into a fresh shard reads exactly as the model at backup time, and the
//      index of the restored shard knows every series that has points;
//   C  Export(start,end), imported into an empty shard, holds exactly the model's points in range
//      (points exactly on a boundary are accepted either way).

import (
	"archive/tar"
	"bytes"
	"context"
	"fmt"
	"io"
	"os"
	"path/filepath"
	"sort"
	"strings"
	"testing"
	"time"

	"github.com/influxdata/influxdb/v2/models"
	"github.com/influxdata/influxdb/v2/tsdb"
	"github.com/influxdata/influxdb/v2/tsdb/engine/tsm1"

	"verifharness/vkit"
	"verifharness/vkit/sk"
)

const c38Base = "db0/rp0/1"

type c38Cell struct {
	series, field string
	t             int64
}

type c38Hist struct {
	r       *vkit.Run
	rg      *vkit.Rand
	caseNo  int
	root    string
	s       *sk.Shard
	m       *sk.Model
	hist    map[c38Cell][]sk.Val
	deleted map[c38Cell]bool
	ctr     int64
	ops     []string
	deletes bool
}

var (
	c38Meas   = []string{"cpu", "mem"}
	c38Tags   = []map[string]string{{"h": "a"}, {"h": "b"}, {"h": "a b", "r": "x,y"}}
	c38Fields = []string{"i", "f", "s", "b", "u"}
	c38Grid   = []int64{-500, 0, 100, 200, 300, 400, 500, 600, 700, 800, 900, 1000, 1100, 1200, 1300, 1400, 1500, 1000000000000000000}
)

func (c *c38Hist) val(field string) sk.Val {
	c.ctr++
	switch field {
	case "i":
		return sk.IntVal(c.ctr)
	case "f":
		return sk.FloatVal(float64(c.ctr))
	case "s":
		return sk.StrVal(fmt.Sprintf("w%d", c.ctr))
	case "b":
		return sk.BoolVal(c.ctr%2 == 0)
	default:
		return sk.UintVal(uint64(c.ctr))
	}
}

func (c *c38Hist) fatal(what string, err error) {
	c.r.T.Fatalf("C38 case %d: %s: %v\nops: %s", c.caseNo, what, err, strings.Join(c.ops, "; "))
}

func (c *c38Hist) write() {
	n := c.rg.Range(3, 14)
	var pts []models.Point
	type put struct {
		cell c38Cell
		v    sk.Val
	}
	var puts []put
	for i := 0; i < n; i++ {
		name, tags := vkit.Pick(c.rg, c38Meas), vkit.Pick(c.rg, c38Tags)
		var t int64
		if c.rg.Chance(1, 12) {
			t = vkit.Pick(c.rg, c38Grid)
		} else {
			t = int64(c.rg.Intn(16)) * 100
		}
		fields := map[string]sk.Val{}
		for k, nf := 0, c.rg.Range(1, 2); k < nf; k++ {
			f := vkit.Pick(c.rg, c38Fields)
			fields[f] = c.val(f)
		}
		pts = append(pts, sk.Point(name, tags, fields, t))
		for f, v := range fields {
			puts = append(puts, put{c38Cell{sk.SeriesKey(name, tags), f, t}, v})
		}
	}
	if err := c.s.Write(pts); err != nil {
		c.fatal("write", err)
	}
	for _, p := range puts {
		c.m.Put(p.cell.series, p.cell.field, p.cell.t, p.v)
		c.hist[p.cell] = append(c.hist[p.cell], p.v)
		delete(c.deleted, p.cell)
	}
	c.ops = append(c.ops, fmt.Sprintf("write %d", n))
}

func (c *c38Hist) del() {
	key := sk.SeriesKey(vkit.Pick(c.rg, c38Meas), vkit.Pick(c.rg, c38Tags))
	lo := int64(c.rg.Intn(16)) * 100
	hi := lo + int64(c.rg.Intn(5))*100
	if c.rg.Chance(1, 10) {
		lo, hi = sk.MinT, sk.MaxT
	}
	if err := c.s.DeleteRange([]string{key}, lo, hi); err != nil {
		c.fatal("delete", err)
	}
	for _, f := range c.m.Fields(key) {
		for t := range c.m.S[key][f].P {
			if t >= lo && t <= hi {
				c.deleted[c38Cell{key, f, t}] = true
			}
		}
	}
	c.m.Delete(key, lo, hi)
	c.ops = append(c.ops, fmt.Sprintf("delete %s [%d,%d]", key, lo, hi))
}

// compact merges a contiguous run of the current files with the engine's own strategies and a
// tiny points-per-block so that files hold several blocks per key.
func (c *c38Hist) compact() {
	files := c.s.TSMFiles()
	if len(files) == 0 {
		return
	}
	a := c.rg.Intn(len(files))
	b := a + c.rg.Intn(4)
	if b >= len(files) {
		b = len(files) - 1
	}
	// whole generations only
	gen := func(n string) string { return strings.SplitN(n, "-", 2)[0] }
	for a > 0 && gen(files[a-1]) == gen(files[a]) {
		a--
	}
	for b+1 < len(files) && gen(files[b+1]) == gen(files[b]) {
		b++
	}
	var g tsm1.CompactionGroup
	for _, f := range files[a : b+1] {
		g = append(g, filepath.Join(c.s.DataPath(), f))
	}
	ppb := c.rg.Range(2, 5)
	if c.rg.Bool() {
		c.s.Eng().VerifFullCompactGroup(g, ppb)
	} else {
		c.s.Eng().VerifCompactGroup(g, c.rg.Bool(), 1, ppb)
	}
	c.ops = append(c.ops, fmt.Sprintf("compact %v ppb=%d -> %v", files[a:b+1], ppb, c.s.TSMFiles()))
}

func (c *c38Hist) history() {
	for i, n := 0, c.rg.Range(6, 18); i < n; i++ {
		switch k := c.rg.Intn(12); {
		case k < 5:
			c.write()
		case k < 7:
			if err := c.s.Snapshot(); err != nil {
				c.fatal("snapshot", err)
			}
			c.ops = append(c.ops, "snapshot")
		case k < 9:
			if c.deletes {
				c.del()
			} else {
				c.write()
			}
		case k < 11:
			c.compact()
		default:
			if err := c.s.Reopen(); err != nil {
				c.fatal("reopen", err)
			}
			c.ops = append(c.ops, "reopen")
		}
	}
}

func c38DataFiles(dir string) []string {
	ents, _ := os.ReadDir(dir)
	var out []string
	for _, e := range ents {
		if e.Type().IsRegular() && (strings.HasSuffix(e.Name(), ".tsm") || strings.HasSuffix(e.Name(), ".tombstone")) {
			out = append(out, e.Name())
		}
	}
	sort.Strings(out)
	return out
}

type c38Entry struct {
	Name string
	Data []byte
}

func c38Untar(b []byte) ([]c38Entry, error) {
	tr := tar.NewReader(bytes.NewReader(b))
	var out []c38Entry
	for {
		h, err := tr.Next()
		if err == io.EOF {
			return out, nil
		}
		if err != nil {
			return out, err
		}
		d, err := io.ReadAll(tr)
		if err != nil {
			return out, err
		}
		out = append(out, c38Entry{h.Name, d})
	}
}

func c38Names(es []c38Entry) []string {
	var out []string
	for _, e := range es {
		out = append(out, fmt.Sprintf("%s(%d)", e.Name, len(e.Data)))
	}
	return out
}

type c38Wit struct {
	Case    int      `json:"case"`
	Step    string   `json:"step"`
	Ops     []string `json:"ops"`
	Files   []string `json:"source_files,omitempty"`
	Archive []string `json:"archive,omitempty"`
	Range   []int64  `json:"range,omitempty"`
	Series  string   `json:"series,omitempty"`
	Field   string   `json:"field,omitempty"`
	Detail  string   `json:"detail"`
	Want    string   `json:"want,omitempty"`
	Got     string   `json:"got,omitempty"`
}

var c38Since = time.Date(2021, 1, 1, 0, 0, 0, 0, time.UTC)

// stepIncremental: oracle B.
func (c *c38Hist) stepIncremental() {
	if err := c.s.Snapshot(); err != nil { // empty the cache so that Backup itself adds no file
		c.fatal("snapshot", err)
	}
	dir := c.s.DataPath()
	files := c38DataFiles(dir)
	cls := map[string]string{}
	nNew, nOld := 0, 0
	for _, f := range files {
		var mt time.Time
		switch k := c.rg.Intn(7); {
		case k < 3:
			mt, cls[f] = c38Since.Add(time.Duration(c.rg.Range(1, 48))*time.Hour), "after"
			nNew++
		case k < 6:
			mt, cls[f] = c38Since.Add(-time.Duration(c.rg.Range(1, 48))*time.Hour), "before"
			nOld++
		default:
			mt, cls[f] = c38Since, "equal"
		}
		if c.rg.Chance(1, 8) && cls[f] == "after" {
			mt = c38Since.Add(time.Second) // close to the boundary, still strictly after
		}
		if err := os.Chtimes(filepath.Join(dir, f), mt, mt); err != nil {
			c.fatal("chtimes", err)
		}
	}
	var buf bytes.Buffer
	if err := c.s.Sh.Backup(&buf, c38Base, c38Since); err != nil {
		c.r.Violation("backup_failed", map[string]string{"step": "incremental"}, c38Wit{Case: c.caseNo, Step: "incremental", Ops: c.ops, Files: files, Detail: err.Error()})
		return
	}
	ents, err := c38Untar(buf.Bytes())
	if err != nil {
		c.r.Violation("backup_archive_unreadable", map[string]string{"step": "incremental"}, c38Wit{Case: c.caseNo, Step: "incremental", Ops: c.ops, Files: files, Detail: err.Error()})
		return
	}
	in := map[string][]byte{}
	for _, e := range ents {
		in[filepath.Base(e.Name)] = e.Data
		if !strings.HasPrefix(e.Name, c38Base+"/") {
			c.r.Violation("backup_entry_outside_base_path", map[string]string{"step": "incremental"}, c38Wit{Case: c.caseNo, Step: "incremental", Ops: c.ops, Archive: c38Names(ents), Detail: e.Name})
		}
	}
	var desc []string
	for _, f := range files {
		desc = append(desc, f+":"+cls[f])
		data, has := in[f]
		switch cls[f] {
		case "after":
			c.r.Event("incr_changed_files_checked", 1)
			kind := "tsm"
			if strings.HasSuffix(f, ".tombstone") {
				kind = "tombstone"
			}
			if !has {
				c.r.Violation("incremental_backup_missing_file", map[string]string{"kind": kind}, c38Wit{Case: c.caseNo, Step: "incremental", Ops: c.ops, Files: desc, Archive: c38Names(ents),
					Detail: fmt.Sprintf("%s has mtime > since (%s) but is not in the archive of Backup(since)", f, c38Since)})
				continue
			}
			src, _ := os.ReadFile(filepath.Join(dir, f))
			if !bytes.Equal(src, data) {
				c.r.Violation("incremental_backup_content_mismatch", map[string]string{"kind": kind}, c38Wit{Case: c.caseNo, Step: "incremental", Ops: c.ops, Files: desc, Archive: c38Names(ents),
					Detail: fmt.Sprintf("%s: archive holds %d bytes, source file has %d bytes or differs", f, len(data), len(src))})
			}
		case "before":
			if has {
				c.r.Event("incr_unchanged_file_included", 1)
			} else {
				c.r.Event("incr_unchanged_file_excluded", 1)
			}
		default:
			c.r.Event("incr_boundary_file_either", 1)
		}
	}
	if after := c38DataFiles(dir); len(after) != len(files) {
		c.r.Event("incr_backup_changed_file_set", 1)
	}
	if nNew > 0 && nOld > 0 {
		c.r.Event("incr_histories_with_both_classes", 1)
	}
	c.ops = append(c.ops, fmt.Sprintf("incremental backup since: %v -> %d entries", desc, len(ents)))
}

func c38SeriesOf(s *sk.Shard) (map[string]bool, error) {
	idx, err := s.Sh.Index()
	if err != nil {
		return nil, err
	}
	is := tsdb.IndexSet{Indexes: []tsdb.Index{idx}, SeriesFile: s.SFile}
	out := map[string]bool{}
	for _, m := range c38Meas {
		keys, err := is.MeasurementSeriesKeysByExpr([]byte(m), nil)
		if err != nil {
			return nil, err
		}
		for _, k := range keys {
			out[string(k)] = true
		}
	}
	return out, nil
}

// stepRestore: oracle A.
func (c *c38Hist) stepRestore() {
	srcFiles := c38DataFiles(c.s.DataPath())
	var buf bytes.Buffer
	if err := c.s.Sh.Backup(&buf, c38Base, time.Time{}); err != nil {
		c.r.Violation("backup_failed", map[string]string{"step": "full"}, c38Wit{Case: c.caseNo, Step: "restore", Ops: c.ops, Files: srcFiles, Detail: err.Error()})
		return
	}
	ents, _ := c38Untar(buf.Bytes())
	arcTomb := 0
	for _, e := range ents {
		if strings.HasSuffix(e.Name, ".tombstone") {
			arcTomb++
		}
	}
	d, err := sk.Open(filepath.Join(c.root, "restored"), sk.Opts{})
	if err != nil {
		c.fatal("open restore target", err)
	}
	defer d.Close()
	if err := d.Sh.Restore(context.Background(), bytes.NewReader(buf.Bytes()), c38Base); err != nil {
		c.r.Violation("restore_failed", nil, c38Wit{Case: c.caseNo, Step: "restore", Ops: c.ops, Files: srcFiles, Archive: c38Names(ents), Detail: err.Error()})
		return
	}
	c.r.Event("restores", 1)
	dstFiles := c38DataFiles(d.DataPath())
	dstTomb := 0
	for _, f := range dstFiles {
		if strings.HasSuffix(f, ".tombstone") {
			dstTomb++
		}
	}
	if arcTomb > 0 {
		c.r.Event("restores_with_tombstones_in_archive", 1)
	}
	func() {
		for _, key := range c.m.SeriesKeys() {
			for _, f := range c.m.Fields(key) {
				for _, asc := range []bool{true, false} {
					got, err := d.Read(key, f, sk.MinT, sk.MaxT, asc)
					if err != nil {
						c.fatal("read restored", err)
					}
					want := c.m.Read(key, f, sk.MinT, sk.MaxT, asc)
					c.r.Event("restore_reads_compared", 1)
					diff := sk.Diff(want, got)
					if diff == "" {
						continue
					}
					// classify the first deviating point
					wm := map[int64]sk.Val{}
					for _, p := range want {
						wm[p.T] = p.V
					}
					gm := map[int64]sk.Val{}
					for _, p := range got {
						gm[p.T] = p.V
					}
					kind := "order"
					onlyDeleted := true
					for _, p := range got {
						w, ok := wm[p.T]
						if ok && w == p.V {
							continue
						}
						cell := c38Cell{key, f, p.T}
						wasWritten := false
						for _, hv := range c.hist[cell] {
							if hv == p.V {
								wasWritten = true
							}
						}
						if !ok && c.deleted[cell] && wasWritten {
							kind = "deleted_point_visible"
							continue
						}
						onlyDeleted = false
						if ok {
							kind = "wrong_value"
						} else {
							kind = "extra_point"
						}
						break
					}
					for _, p := range want {
						if _, ok := gm[p.T]; !ok {
							kind, onlyDeleted = "missing_point", false
							break
						}
					}
					w := c38Wit{Case: c.caseNo, Step: "restore", Ops: c.ops, Files: srcFiles, Archive: c38Names(ents), Series: key, Field: f, Detail: diff,
						Want: sk.FmtPts(want), Got: sk.FmtPts(got)}
					if kind == "deleted_point_visible" && onlyDeleted {
						cause := "unknown"
						if arcTomb > 0 && dstTomb == 0 {
							cause = "tombstone_not_restored"
						}
						w.Detail = fmt.Sprintf("points deleted before the backup are readable in the restored shard; archive holds %d tombstone file(s), restored shard directory holds %d (%v); %s", arcTomb, dstTomb, dstFiles, diff)
						c.r.Event("restore_deleted_point_visible", 1)
						c.r.Violation("restore_deleted_point_visible", map[string]string{"cause": cause}, w)
					} else {
						c.r.Violation("restore_mismatch", map[string]string{"kind": kind}, w)
					}
					return
				}
			}
		}
	}()
	have, err := c38SeriesOf(d)
	if err != nil {
		c.fatal("series of restored", err)
	}
	for _, key := range c.m.SeriesKeys() {
		n := 0
		for _, f := range c.m.Fields(key) {
			n += len(c.m.S[key][f].P)
		}
		if n == 0 {
			continue
		}
		c.r.Event("restore_series_checked", 1)
		if !have[key] {
			c.r.Violation("restore_series_missing", nil, c38Wit{Case: c.caseNo, Step: "restore", Ops: c.ops, Series: key, Detail: fmt.Sprintf("series has %d points in the model but the restored index does not list it", n)})
		}
	}
	c.ops = append(c.ops, fmt.Sprintf("full backup (%d entries, %d tombstones) restored", len(ents), arcTomb))
}

// c38BlockExplains reports whether some block of (series, field) in a source TSM file contains ts
// and overlaps [start,end] — the observable signature of block-granular export.
func c38BlockExplains(dir, series, field string, ts, start, end int64) bool {
	key := tsm1.SeriesFieldKeyBytes(series, field)
	for _, n := range c38DataFiles(dir) {
		if !strings.HasSuffix(n, ".tsm") {
			continue
		}
		f, err := os.Open(filepath.Join(dir, n))
		if err != nil {
			continue
		}
		rd, err := tsm1.NewTSMReader(f)
		if err != nil {
			f.Close()
			continue
		}
		hit := false
		for _, e := range rd.Entries(key) {
			if ts >= e.MinTime && ts <= e.MaxTime && e.MinTime <= end && e.MaxTime >= start {
				hit = true
			}
		}
		rd.Close()
		if hit {
			return true
		}
	}
	return false
}

// stepExport: oracle C.
func (c *c38Hist) stepExport(n int) {
	var start, end int64
	stats := c.s.Eng().FileStore.Stats()
	switch k := c.rg.Intn(8); {
	case k >= 6 && len(stats) > 0:
		// a range boundary on the first or last timestamp of a TSM file: the per-file
		// inside / overlapping / outside classification decides at exactly these values
		f := stats[c.rg.Intn(len(stats))]
		edge := vkit.Pick(c.rg, []int64{f.MinTime, f.MaxTime})
		other := int64(c.rg.Intn(16))*100 + int64(c.rg.Intn(3)-1)*int64(c.rg.Intn(60))
		if c.rg.Chance(1, 3) {
			g := stats[c.rg.Intn(len(stats))]
			other = vkit.Pick(c.rg, []int64{g.MinTime, g.MaxTime})
		}
		start, end = edge, other
		if start > end {
			start, end = end, start
		}
		switch c.rg.Intn(4) {
		case 0, 1: // the file begins exactly where the range ends
			end = f.MinTime
			start = end - int64(1+c.rg.Intn(500))
		case 2: // the file ends exactly where the range begins
			start = f.MaxTime
			end = start + int64(1+c.rg.Intn(500))
		}
		c.r.Event("exports_with_a_boundary_on_a_file_edge", 1)
	case k == 0:
		start, end = -1000, 2000 // everything on the grid
	case k == 1:
		start = int64(c.rg.Intn(16))*100 + 1 // between two grid slots: empty
		end = start + 50
	default:
		a, b := c.rg.Intn(16), c.rg.Intn(16)
		if a > b {
			a, b = b, a
		}
		start, end = int64(a)*100+int64(c.rg.Intn(3)-1)*int64(c.rg.Intn(60)), int64(b)*100+int64(c.rg.Intn(3)-1)*int64(c.rg.Intn(60))
		if start > end {
			start, end = end, start
		}
	}
	srcFiles := c38DataFiles(c.s.DataPath())
	srcTomb := 0
	for _, f := range srcFiles {
		if strings.HasSuffix(f, ".tombstone") {
			srcTomb++
		}
	}
	rng := []int64{start, end}
	var buf bytes.Buffer
	c.r.Event("exports", 1)
	err := c.s.Sh.Export(&buf, c38Base, time.Unix(0, start).UTC(), time.Unix(0, end).UTC())
	if err != nil {
		cause := "other"
		switch {
		case srcTomb > 0 && strings.Contains(err.Error(), ".tombstone: no such file or directory"):
			cause = "tombstone_path"
		case strings.Contains(err.Error(), "no values written"):
			cause = "no_block_in_range"
		}
		c.r.Event("export_failed_"+cause, 1)
		c.r.Violation("export_failed", map[string]string{"cause": cause}, c38Wit{Case: c.caseNo, Step: "export", Ops: c.ops, Files: srcFiles, Range: rng,
			Detail: "Shard.Export returned an error instead of an archive: " + err.Error()})
		return
	}
	ents, uerr := c38Untar(buf.Bytes())
	if uerr != nil {
		c.r.Violation("export_archive_unreadable", nil, c38Wit{Case: c.caseNo, Step: "export", Ops: c.ops, Files: srcFiles, Range: rng, Detail: uerr.Error()})
		return
	}
	d, err := sk.Open(filepath.Join(c.root, fmt.Sprintf("imported%d", n)), sk.Opts{})
	if err != nil {
		c.fatal("open import target", err)
	}
	defer d.Close()
	if err := d.Sh.Import(bytes.NewReader(buf.Bytes()), c38Base); err != nil {
		c.r.Violation("import_failed", nil, c38Wit{Case: c.caseNo, Step: "import", Ops: c.ops, Files: srcFiles, Archive: c38Names(ents), Range: rng, Detail: err.Error()})
		return
	}
	// Import re-enables the engine's background compactions; hand the schedule back to the harness.
	e := d.Eng()
	e.SetCompactionsEnabled(false)
	e.Compactor.EnableCompactions()
	e.Compactor.EnableSnapshots()
	c.r.Event("imports", 1)
	inRange, checked, nOor := 0, 0, 0
	oor := map[string]bool{}
	for pass := 0; pass < 2; pass++ {
		if pass == 1 {
			if !c.rg.Bool() {
				break
			}
			d.CompactFull(c.rg.Range(2, 6)) // the full compaction Import schedules, run synchronously
			c.r.Event("import_full_compactions", 1)
		}
		for _, key := range c.m.SeriesKeys() {
			for _, f := range c.m.Fields(key) {
				got, err := d.Read(key, f, sk.MinT, sk.MaxT, true)
				if err != nil {
					c.fatal("read imported", err)
				}
				c.r.Event("export_reads_compared", 1)
				checked++
				all := c.m.Read(key, f, sk.MinT, sk.MaxT, true)
				wm := map[int64]sk.Val{}
				for _, p := range all {
					wm[p.T] = p.V
				}
				gm := map[int64]sk.Val{}
				for i, p := range got {
					gm[p.T] = p.V
					if i > 0 && got[i-1].T >= p.T {
						c.r.Violation("export_import_unordered", nil, c38Wit{Case: c.caseNo, Step: "export", Ops: c.ops, Range: rng, Series: key, Field: f, Got: sk.FmtPts(got), Detail: "imported cursor not strictly ascending"})
					}
				}
				w := c38Wit{Case: c.caseNo, Step: "export", Ops: c.ops, Files: srcFiles, Archive: c38Names(ents), Range: rng, Series: key, Field: f,
					Want: sk.FmtPts(c.m.Read(key, f, start, end, true)), Got: sk.FmtPts(got)}
				for _, p := range all {
					// the range is closed: Export streams a file lying in [start,end] whole and filters the
					// others with start <= t <= end (documented for the backup -start/-end options as
					// "include all points starting with" / "exclude all points after")
					if p.T < start || p.T > end {
						continue
					}
					inRange++
					if p.T == start || p.T == end {
						c.r.Event("export_boundary_points_verified", 1)
					}
					g, ok := gm[p.T]
					if !ok {
						w.Detail = fmt.Sprintf("point %d:%s lies inside [%d,%d] but is missing after import", p.T, p.V, start, end)
						c.r.Violation("export_missing_point", map[string]string{"on_boundary": fmt.Sprint(p.T == start || p.T == end)}, w)
						return
					}
					if g != p.V {
						w.Detail = fmt.Sprintf("point at %d inside the range: model %s, imported %s", p.T, p.V, g)
						c.r.Violation("export_wrong_value", nil, w)
						return
					}
				}
				for _, p := range got {
					if p.T >= start && p.T <= end {
						mv, ok := wm[p.T]
						if !ok {
							w.Detail = fmt.Sprintf("imported point %d:%s is in range but not in the model of the source", p.T, p.V)
							c.r.Violation("export_extra_point_in_range", nil, w)
							return
						}
						if mv != p.V {
							w.Detail = fmt.Sprintf("point at %d on the range boundary was exported with value %s, model has %s", p.T, p.V, mv)
							c.r.Violation("export_wrong_value", nil, w)
							return
						}
						continue
					}
					why := "unexplained"
					if c38BlockExplains(c.s.DataPath(), key, f, p.T, start, end) {
						why = "whole_block_overlapping_range"
					}
					c.r.Event("export_out_of_range_point_"+why, 1)
					if !oor[why] { // one witness per export and explanation; keep checking the other series
						oor[why] = true
						w.Detail = fmt.Sprintf("imported point %d:%s lies outside [%d,%d] (%s)", p.T, p.V, start, end, why)
						c.r.Violation("export_out_of_range_point", map[string]string{"explained_by": why}, w)
					}
					if nOor++; nOor > 40 {
						break
					}
				}
			}
		}
	}
	if inRange > 0 {
		c.r.Event("exports_with_points_in_range_verified", 1)
	}
	c.r.Event("export_points_strictly_in_range_verified", int64(inRange))
	c.ops = append(c.ops, fmt.Sprintf("export [%d,%d] -> %v imported, %d reads equal", start, end, c38Names(ents), checked))
}

func c38History(r *vkit.Run, caseNo int) {
	rg := r.Rand(caseNo)
	root, err := os.MkdirTemp("", "c38")
	if err != nil {
		r.T.Fatal(err)
	}
	defer os.RemoveAll(root)
	s, err := sk.Open(filepath.Join(root, "src"), sk.Opts{})
	if err != nil {
		r.T.Fatalf("C38: open: %v", err)
	}
	defer s.Close()
	c := &c38Hist{r: r, rg: rg, caseNo: caseNo, root: root, s: s, m: sk.NewModel(), hist: map[c38Cell][]sk.Val{}, deleted: map[c38Cell]bool{}, deletes: rg.Chance(1, 2)}
	c.write()
	c.history()
	v0 := r.Violations()
	// the full backup and the exports are taken with acknowledged points still in the cache (no snapshot since)
	if rg.Chance(2, 3) {
		c.write()
	}
	c.stepRestore()
	c.stepIncremental()
	for i := 0; i < 2; i++ {
		if rg.Chance(2, 3) {
			c.write()
		}
		c.stepExport(i)
	}
	npts := 0
	for _, key := range c.m.SeriesKeys() {
		for _, f := range c.m.Fields(key) {
			npts += len(c.m.S[key][f].P)
		}
	}
	r.Case(strings.Join(c.ops, ";"), npts >= 5 && len(c.s.TSMFiles()) >= 1)
	if c.deletes {
		r.Event("histories_with_deletes", 1)
	} else {
		r.Event("histories_without_deletes", 1)
	}
	_ = v0
	if r.WantSample() && caseNo%5 == 0 {
		r.Sample(map[string]any{"case": caseNo, "ops": c.ops, "model_points": npts})
	}
}

func TestC38(t *testing.T) {
	r := vkit.Start(t, "C38", "exploration")
	defer r.Finish()
	r.Rule("case = random history (6–18 of write/snapshot/delete/compaction with 2–5 points per block/reopen; half of the histories without deletes) on a real shard, followed by incremental Backup(since) with explicit mtimes, full Backup→Restore into a fresh shard, and two Export(start,end)→Import into empty shards; compared with model M1. Non-trivial: model holds ≥5 points and ≥1 TSM file exists. Distinct = hash of the op log (includes file names and archives).")
	r.Assume("points exactly at start or end of an export range may be exported or not", "files with mtime == since may be in the incremental archive or not", "Import's re-enabled background compaction loop is switched off again before reading (its first tick is 1 s away)")
	n := r.N(160, 800)
	for i := 0; i < n; i++ {
		c38History(r, i)
	}
}
