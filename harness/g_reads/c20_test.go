package g_reads

// C20 — windowed aggregate pushdown equals aggregating the raw data.
//
// Subject: reads.NewWindowAggregateResultSet (storage/reads/aggregate_resultset.go) and the
// generated *Window{Count,Sum,Min,Max,First,Last,Mean}ArrayCursor.Next loops, fed from a mock
// SeriesCursor whose cursors hand out the same points under many chunkings (and shard splits);
// plus a slice of requests through the real v1/services/storage.Store over real shards.
// Oracle: own window arithmetic (ns every/offset, period = every) + fold over the raw points.

import (
	"context"
	"fmt"
	"math"
	"runtime/debug"
	"sort"
	"strings"
	"testing"
	"time"

	"github.com/influxdata/influxdb/v2/models"
	"github.com/influxdata/influxdb/v2/storage/reads"
	"github.com/influxdata/influxdb/v2/storage/reads/datatypes"
	"github.com/influxdata/influxdb/v2/tsdb/cursors"

	"verifharness/vkit"
	"verifharness/vkit/sk"
)

// ---- window arithmetic (independent of flux/interval) ------------------------------------------

// c20Win returns the bounds [start, stop) of the unique window of width every, aligned at
// offset (+ k*every), that contains t. Euclidean remainder; domain keeps everything far from
// int64 overflow.
func c20Win(t, every, offset int64) (start, stop int64) {
	m := (t - offset) % every
	if m < 0 {
		m += every
	}
	start = t - m
	return start, start + every
}

// ---- aggregates --------------------------------------------------------------------------------

const (
	c20Count = iota
	c20Sum
	c20Min
	c20Max
	c20First
	c20Last
	c20Mean
)

var c20AggNames = []string{"count", "sum", "min", "max", "first", "last", "mean"}
var c20AggProto = []datatypes.Aggregate_AggregateType{
	datatypes.Aggregate_AggregateTypeCount, datatypes.Aggregate_AggregateTypeSum, datatypes.Aggregate_AggregateTypeMin,
	datatypes.Aggregate_AggregateTypeMax, datatypes.Aggregate_AggregateTypeFirst, datatypes.Aggregate_AggregateTypeLast,
	datatypes.Aggregate_AggregateTypeMean,
}

// aggregates applicable per field type (string/boolean: count, first, last only).
func c20Aggs(typ byte) []int {
	switch typ {
	case 'f', 'i', 'u':
		return []int{c20Count, c20Sum, c20Min, c20Max, c20First, c20Last, c20Mean}
	}
	return []int{c20Count, c20First, c20Last}
}

func c20IsSelector(agg int) bool {
	return agg == c20Min || agg == c20Max || agg == c20First || agg == c20Last
}

// c20Row is one expected output row. For min/max with tied values any tied row's timestamp is
// accepted (Alt); T is the first of them.
type c20Row struct {
	Start, Stop int64 // window
	T           int64
	Alt         []int64
	V           sk.Val
	N           int // points in the window
}

func c20Less(a, b sk.Val) bool {
	switch a.K {
	case 'f':
		return math.Float64frombits(a.F) < math.Float64frombits(b.F)
	case 'i':
		return a.I < b.I
	case 'u':
		return a.U < b.U
	}
	panic("c20Less: unordered type")
}

// c20Fold aggregates the points of ONE window (non-empty, ascending) — the reference fold.
func c20Fold(pts []sk.Pt, agg int, start, stop int64) c20Row {
	row := c20Row{Start: start, Stop: stop, N: len(pts)}
	typ := pts[0].V.K
	switch agg {
	case c20Count:
		row.T, row.V = stop, sk.IntVal(int64(len(pts)))
	case c20Sum, c20Mean:
		var fs float64
		var is int64
		var us uint64
		for _, p := range pts {
			switch typ {
			case 'f':
				fs += math.Float64frombits(p.V.F)
			case 'i':
				is += p.V.I
			case 'u':
				us += p.V.U
			}
		}
		row.T = stop
		if agg == c20Sum {
			switch typ {
			case 'f':
				row.V = sk.FloatVal(fs)
			case 'i':
				row.V = sk.IntVal(is)
			case 'u':
				row.V = sk.UintVal(us)
			}
		} else {
			n := float64(len(pts))
			switch typ {
			case 'f':
				row.V = sk.FloatVal(fs / n)
			case 'i':
				row.V = sk.FloatVal(float64(is) / n)
			case 'u':
				row.V = sk.FloatVal(float64(us) / n)
			}
		}
	case c20First:
		row.T, row.V = pts[0].T, pts[0].V
	case c20Last:
		row.T, row.V = pts[len(pts)-1].T, pts[len(pts)-1].V
	case c20Min, c20Max:
		best := pts[0].V
		for _, p := range pts[1:] {
			if (agg == c20Min && c20Less(p.V, best)) || (agg == c20Max && c20Less(best, p.V)) {
				best = p.V
			}
		}
		for _, p := range pts {
			if p.V == best {
				row.Alt = append(row.Alt, p.T)
			}
		}
		row.T, row.V = row.Alt[0], best
	}
	return row
}

// c20Expect groups ascending raw points into windows and folds each non-empty window.
func c20Expect(pts []sk.Pt, agg int, every, offset int64) []c20Row {
	var out []c20Row
	for i := 0; i < len(pts); {
		s, e := c20Win(pts[i].T, every, offset)
		j := i
		for j < len(pts) && pts[j].T < e {
			j++
		}
		out = append(out, c20Fold(pts[i:j], agg, s, e))
		i = j
	}
	return out
}

// ---- mock cursors ------------------------------------------------------------------------------

const c20Poison = math.MinInt64 + 13

// c20Feed hands out points chunk by chunk from ONE reused backing buffer (as the tsm1 cursors do):
// a slice retained across the feed's next Next() sees the new chunk or poison, not its old data.
type c20Feed struct {
	pts    []sk.Pt
	sizes  []int
	pos, k int
	bufT   []int64
	calls  int
}

func (f *c20Feed) next() (lo, hi int) {
	f.calls++
	for i := range f.bufT {
		f.bufT[i] = c20Poison
	}
	if f.pos >= len(f.pts) {
		return f.pos, f.pos
	}
	n := len(f.pts) - f.pos
	if f.k < len(f.sizes) && f.sizes[f.k] < n {
		n = f.sizes[f.k]
	}
	f.k++
	lo, hi = f.pos, f.pos+n
	f.pos = hi
	if cap(f.bufT) < n {
		f.bufT = make([]int64, n)
	}
	f.bufT = f.bufT[:n]
	for i := 0; i < n; i++ {
		f.bufT[i] = f.pts[lo+i].T
	}
	return lo, hi
}

type c20CurBase struct {
	c20Feed
	closed int
}

func (c *c20CurBase) Close()                     { c.closed++ }
func (c *c20CurBase) Err() error                 { return nil }
func (c *c20CurBase) Stats() cursors.CursorStats { return cursors.CursorStats{} }

type c20FloatCur struct {
	c20CurBase
	arr cursors.FloatArray
}

func (c *c20FloatCur) Next() *cursors.FloatArray {
	for i := range c.arr.Values {
		c.arr.Values[i] = -12345.678
	}
	lo, hi := c.next()
	c.arr.Timestamps = c.bufT[:hi-lo]
	c.arr.Values = c.arr.Values[:0]
	for _, p := range c.pts[lo:hi] {
		c.arr.Values = append(c.arr.Values, math.Float64frombits(p.V.F))
	}
	return &c.arr
}

type c20IntCur struct {
	c20CurBase
	arr cursors.IntegerArray
}

func (c *c20IntCur) Next() *cursors.IntegerArray {
	for i := range c.arr.Values {
		c.arr.Values[i] = -987654321
	}
	lo, hi := c.next()
	c.arr.Timestamps = c.bufT[:hi-lo]
	c.arr.Values = c.arr.Values[:0]
	for _, p := range c.pts[lo:hi] {
		c.arr.Values = append(c.arr.Values, p.V.I)
	}
	return &c.arr
}

type c20UintCur struct {
	c20CurBase
	arr cursors.UnsignedArray
}

func (c *c20UintCur) Next() *cursors.UnsignedArray {
	for i := range c.arr.Values {
		c.arr.Values[i] = 987654321987
	}
	lo, hi := c.next()
	c.arr.Timestamps = c.bufT[:hi-lo]
	c.arr.Values = c.arr.Values[:0]
	for _, p := range c.pts[lo:hi] {
		c.arr.Values = append(c.arr.Values, p.V.U)
	}
	return &c.arr
}

type c20StrCur struct {
	c20CurBase
	arr cursors.StringArray
}

func (c *c20StrCur) Next() *cursors.StringArray {
	for i := range c.arr.Values {
		c.arr.Values[i] = "<stale>"
	}
	lo, hi := c.next()
	c.arr.Timestamps = c.bufT[:hi-lo]
	c.arr.Values = c.arr.Values[:0]
	for _, p := range c.pts[lo:hi] {
		c.arr.Values = append(c.arr.Values, p.V.S)
	}
	return &c.arr
}

type c20BoolCur struct {
	c20CurBase
	arr cursors.BooleanArray
}

func (c *c20BoolCur) Next() *cursors.BooleanArray {
	lo, hi := c.next()
	c.arr.Timestamps = c.bufT[:hi-lo]
	c.arr.Values = c.arr.Values[:0]
	for _, p := range c.pts[lo:hi] {
		c.arr.Values = append(c.arr.Values, p.V.B)
	}
	return &c.arr
}

// c20Shard is a mock cursors.CursorIterator: one shard's slice of one series. It honours the
// request's time range like a real cursor (closed interval) and yields its in-range points in
// the given chunk sizes (remainder in one final chunk). No points at all => nil cursor, the
// way a shard that does not hold the series answers.
type c20Shard struct {
	typ      byte
	pts      []sk.Pt
	sizes    []int
	descSeen *bool
}

func (s *c20Shard) Stats() cursors.CursorStats { return cursors.CursorStats{} }
func (s *c20Shard) Next(ctx context.Context, req *cursors.CursorRequest) (cursors.Cursor, error) {
	if !req.Ascending && s.descSeen != nil {
		*s.descSeen = true
	}
	if len(s.pts) == 0 {
		return nil, nil
	}
	var in []sk.Pt
	for _, p := range s.pts {
		if p.T >= req.StartTime && p.T <= req.EndTime {
			in = append(in, p)
		}
	}
	base := c20CurBase{c20Feed: c20Feed{pts: in, sizes: s.sizes}}
	switch s.typ {
	case 'f':
		return &c20FloatCur{c20CurBase: base}, nil
	case 'i':
		return &c20IntCur{c20CurBase: base}, nil
	case 'u':
		return &c20UintCur{c20CurBase: base}, nil
	case 's':
		return &c20StrCur{c20CurBase: base}, nil
	}
	return &c20BoolCur{c20CurBase: base}, nil
}

type c20SeriesCursor struct {
	rows []reads.SeriesRow
	i    int
}

func (c *c20SeriesCursor) Close()     {}
func (c *c20SeriesCursor) Err() error { return nil }
func (c *c20SeriesCursor) Next() *reads.SeriesRow {
	if c.i >= len(c.rows) {
		return nil
	}
	row := c.rows[c.i]
	c.i++
	return &row
}

// c20Drain reads a typed array cursor to its first empty array, copying each array at once
// (the result arrays are reused by the subject). Returns rows and the output block lengths.
func c20Drain(cur cursors.Cursor, limit int) (out []sk.Pt, blocks []int, err error) {
	add := func(n int) bool {
		blocks = append(blocks, n)
		return len(out) <= limit
	}
	switch c := cur.(type) {
	case cursors.IntegerArrayCursor:
		for {
			a := c.Next()
			if a.Len() == 0 {
				break
			}
			for i := range a.Timestamps {
				out = append(out, sk.Pt{T: a.Timestamps[i], V: sk.IntVal(a.Values[i])})
			}
			if !add(a.Len()) {
				return out, blocks, fmt.Errorf("runaway output: more than %d rows", limit)
			}
		}
	case cursors.FloatArrayCursor:
		for {
			a := c.Next()
			if a.Len() == 0 {
				break
			}
			for i := range a.Timestamps {
				out = append(out, sk.Pt{T: a.Timestamps[i], V: sk.FloatVal(a.Values[i])})
			}
			if !add(a.Len()) {
				return out, blocks, fmt.Errorf("runaway output: more than %d rows", limit)
			}
		}
	case cursors.UnsignedArrayCursor:
		for {
			a := c.Next()
			if a.Len() == 0 {
				break
			}
			for i := range a.Timestamps {
				out = append(out, sk.Pt{T: a.Timestamps[i], V: sk.UintVal(a.Values[i])})
			}
			if !add(a.Len()) {
				return out, blocks, fmt.Errorf("runaway output: more than %d rows", limit)
			}
		}
	case cursors.StringArrayCursor:
		for {
			a := c.Next()
			if a.Len() == 0 {
				break
			}
			for i := range a.Timestamps {
				out = append(out, sk.Pt{T: a.Timestamps[i], V: sk.StrVal(a.Values[i])})
			}
			if !add(a.Len()) {
				return out, blocks, fmt.Errorf("runaway output: more than %d rows", limit)
			}
		}
	case cursors.BooleanArrayCursor:
		for {
			a := c.Next()
			if a.Len() == 0 {
				break
			}
			for i := range a.Timestamps {
				out = append(out, sk.Pt{T: a.Timestamps[i], V: sk.BoolVal(a.Values[i])})
			}
			if !add(a.Len()) {
				return out, blocks, fmt.Errorf("runaway output: more than %d rows", limit)
			}
		}
	default:
		return nil, nil, fmt.Errorf("unknown cursor type %T", cur)
	}
	return out, blocks, cur.Err()
}

// c20Diff compares the subject's rows with the oracle's. "" = equal. kind names the first
// difference: missing_row, extra_row, timestamp, value, type.
func c20Diff(want []c20Row, got []sk.Pt) (kind string, idx int, detail string) {
	for i := 0; i < len(want) || i < len(got); i++ {
		if i >= len(got) {
			return "missing_row", i, fmt.Sprintf("row %d: want window [%d,%d) ts=%d v=%s, got end of output (%d rows, want %d)", i, want[i].Start, want[i].Stop, want[i].T, want[i].V, len(got), len(want))
		}
		if i >= len(want) {
			return "extra_row", i, fmt.Sprintf("row %d: got (%d,%s) beyond the %d expected rows", i, got[i].T, got[i].V, len(want))
		}
		w, g := want[i], got[i]
		tsOK := g.T == w.T
		for _, a := range w.Alt {
			if g.T == a {
				tsOK = true
			}
		}
		if !tsOK {
			// say whether it is a whole missing/extra window or a wrong stamp on the right one
			k := "timestamp"
			if i+1 < len(want) && (g.T == want[i+1].T) {
				k = "missing_row"
			} else if i+1 < len(got) && got[i+1].T == w.T {
				k = "extra_row"
			}
			return k, i, fmt.Sprintf("row %d: want window [%d,%d) ts=%d%s v=%s (n=%d), got ts=%d v=%s", i, w.Start, w.Stop, w.T, c20AltStr(w.Alt), w.V, w.N, g.T, g.V)
		}
		if g.V.K != w.V.K {
			return "type", i, fmt.Sprintf("row %d ts=%d: want %s got %s", i, w.T, w.V, g.V)
		}
		if g.V != w.V {
			return "value", i, fmt.Sprintf("row %d window [%d,%d) ts=%d: want %s (n=%d) got %s", i, w.Start, w.Stop, w.T, w.V, w.N, g.V)
		}
	}
	return "", 0, ""
}

func c20AltStr(a []int64) string {
	if len(a) <= 1 {
		return ""
	}
	return fmt.Sprintf(" (ties %v)", a)
}

// ---- generators --------------------------------------------------------------------------------

var c20Everys = []int64{1, 2, 3, 5, 7, 10, 60, 1000, 1_000_000_000, 3600_000_000_000}

func c20Offset(rg *vkit.Rand, every int64) int64 {
	switch rg.Intn(12) {
	case 0, 1, 2:
		return 0
	case 3:
		return 1
	case 4:
		return every - 1
	case 5:
		return every // == 0 mod every
	case 6:
		return every + 1 // offset > every
	case 7:
		return 2*every + 3
	case 8:
		return -1
	case 9:
		return -every
	case 10:
		return -(every + 2)
	default:
		return int64(rg.Intn(1_000_000)) * 1_000_003
	}
}

// c20Value draws the i-th value of a series. mode: 0 = small exactly-representable domain with
// ties (sums/means exact in any order), 1 = counter-derived unique values, 2 = extremes
// (selectors and count only: sums would overflow).
func c20Value(rg *vkit.Rand, typ byte, mode int, i int) sk.Val {
	switch typ {
	case 'f':
		switch mode {
		case 0:
			return sk.FloatVal(float64(rg.Intn(41)-20) / 8)
		case 1:
			return sk.FloatVal(float64(i+1) + 0.5)
		default:
			return sk.FloatVal(vkit.Pick(rg, []float64{math.MaxFloat64, -math.MaxFloat64, math.Inf(1), math.Inf(-1), 0, 1, -1, math.SmallestNonzeroFloat64}))
		}
	case 'i':
		switch mode {
		case 0:
			return sk.IntVal(int64(rg.Intn(41) - 20))
		case 1:
			return sk.IntVal(int64(i + 1))
		default:
			return sk.IntVal(vkit.Pick(rg, []int64{math.MaxInt64, math.MinInt64, 0, 1, -1, math.MaxInt64 - 1, math.MinInt64 + 1}))
		}
	case 'u':
		switch mode {
		case 0:
			return sk.UintVal(uint64(rg.Intn(41)))
		case 1:
			return sk.UintVal(uint64(i + 1))
		default:
			return sk.UintVal(vkit.Pick(rg, []uint64{math.MaxUint64, 0, 1, 1 << 63, 1<<63 - 1, math.MaxUint64 - 1}))
		}
	case 's':
		if mode == 0 {
			return sk.StrVal(vkit.Pick(rg, []string{"", "a", "b", "é"}))
		}
		return sk.StrVal(fmt.Sprintf("w%d", i+1))
	}
	if mode == 0 {
		return sk.BoolVal(rg.Bool())
	}
	return sk.BoolVal(i%2 == 0)
}

// c20GenPoints builds n ascending points window by window: nw non-empty windows (gaps of empty
// windows in between), the rest of the points spread over them, in-window positions biased to
// the first and last nanosecond of the window.
func c20GenPoints(rg *vkit.Rand, typ byte, vmode int, n, nw int, every, offset int64) []sk.Pt {
	if n == 0 {
		return nil
	}
	if nw > n {
		nw = n
	}
	if nw < 1 {
		nw = 1
	}
	per := make([]int, nw)
	for i := range per {
		per[i] = 1
	}
	room := func(k int) bool { return int64(per[k]) < every }
	for left, tries := n-nw, 0; left > 0 && tries < 20*n; tries++ {
		k := rg.Intn(nw)
		if room(k) {
			per[k]++
			left--
		}
	}
	// window index of the first non-empty window: around zero, negative, or far out
	var k int64
	switch rg.Intn(6) {
	case 0:
		k = 0
	case 1:
		k = -1
	case 2:
		k = -int64(nw) / 2 // data straddles the epoch / the offset
	case 3:
		k = -int64(nw) - int64(rg.Intn(50))
	case 4:
		k = 1_600_000_000_000_000_000 / every
	default:
		k = int64(rg.Intn(1000)) - 500
	}
	gapP := rg.Intn(4) // 0: no empty windows, else 1/gapP+1 chance of a gap
	var pts []sk.Pt
	for w := 0; w < nw; w++ {
		if w > 0 {
			k++
			if gapP > 0 && rg.Chance(1, gapP+1) {
				k += int64(1 + rg.Intn(3))
			}
		}
		start := offset + k*every
		offs := map[int64]bool{}
		for len(offs) < per[w] {
			var o int64
			switch rg.Intn(5) {
			case 0:
				o = 0
			case 1:
				o = every - 1
			default:
				o = int64(rg.Uint64() % uint64(every))
			}
			offs[o] = true
		}
		os := make([]int64, 0, len(offs))
		for o := range offs {
			os = append(os, o)
		}
		sort.Slice(os, func(i, j int) bool { return os[i] < os[j] })
		for _, o := range os {
			pts = append(pts, sk.Pt{T: start + o, V: c20Value(rg, typ, vmode, len(pts))})
		}
	}
	return pts
}

// c20Sizes splits n points into chunk sizes according to a bit mask (bit j set = cut after point j).
func c20SizesFromMask(n int, mask uint64) []int {
	var sizes []int
	run := 0
	for j := 0; j < n; j++ {
		run++
		if j == n-1 || mask&(1<<uint(j)) != 0 {
			sizes = append(sizes, run)
			run = 0
		}
	}
	return sizes
}

// c20Shards distributes the chunks over mock shards (shard boundaries only at chunk boundaries),
// optionally with shards that do not hold the series at all. before/after are out-of-range points
// that the first/last shard also holds (the mock cursor filters them like a real one).
func c20Shards(h *vkit.Rand, typ byte, in []sk.Pt, sizes []int, before, after []sk.Pt, desc *bool) cursors.CursorIterators {
	var its cursors.CursorIterators
	emptyShard := func() {
		if h.Chance(1, 6) {
			its = append(its, &c20Shard{typ: typ, descSeen: desc})
		}
	}
	emptyShard()
	cur := &c20Shard{typ: typ, descSeen: desc}
	cur.pts = append(cur.pts, before...)
	pos := 0
	for ci, sz := range sizes {
		cur.pts = append(cur.pts, in[pos:pos+sz]...)
		cur.sizes = append(cur.sizes, sz)
		pos += sz
		if ci < len(sizes)-1 && h.Chance(1, 4) {
			its = append(its, cur)
			emptyShard()
			cur = &c20Shard{typ: typ, descSeen: desc}
		}
	}
	cur.pts = append(cur.pts, after...)
	its = append(its, cur)
	emptyShard()
	return its
}

// ---- the case ----------------------------------------------------------------------------------

type c20Case struct {
	No        int      `json:"case"`
	Type      string   `json:"type"`
	Agg       string   `json:"agg"`
	Every     int64    `json:"every"`
	Offset    int64    `json:"offset"`
	RangeLo   int64    `json:"range_start"`
	RangeHi   int64    `json:"range_end_excl"`
	WindowMsg bool     `json:"request_uses_window_message"`
	Points    []string `json:"points"`
	NPoints   int      `json:"n_points"`
	NInRange  int      `json:"n_in_range"`
	NWindows  int      `json:"n_windows"`
}

type c20Wit struct {
	Case     c20Case  `json:"case"`
	Path     string   `json:"path"`
	Chunks   []int    `json:"chunk_sizes"`
	Shards   []string `json:"shards"`
	Blocks   []int    `json:"output_block_lengths"`
	DiffKind string   `json:"diff_kind"`
	Row      int      `json:"row"`
	Detail   string   `json:"detail"`
	Want     []string `json:"want_rows_near"`
	Got      []string `json:"got_rows_near"`
}

func c20FmtPts(p []sk.Pt, max int) []string {
	var out []string
	for i, x := range p {
		if i >= max {
			out = append(out, fmt.Sprintf("…+%d", len(p)-i))
			break
		}
		out = append(out, fmt.Sprintf("%d:%s", x.T, x.V))
	}
	return out
}

func c20Near[T any](xs []T, i int, f func(T) string) []string {
	lo, hi := i-2, i+3
	if lo < 0 {
		lo = 0
	}
	if hi > len(xs) {
		hi = len(xs)
	}
	var out []string
	for j := lo; j < hi; j++ {
		out = append(out, fmt.Sprintf("#%d %s", j, f(xs[j])))
	}
	return out
}

func c20TypeName(t byte) string {
	return map[byte]string{'f': "float", 'i': "integer", 'u': "unsigned", 's': "string", 'b': "boolean"}[t]
}

func c20Request(agg int, every, offset, lo, hi int64, windowMsg bool) *datatypes.ReadWindowAggregateRequest {
	req := &datatypes.ReadWindowAggregateRequest{
		Range:     &datatypes.TimestampRange{Start: lo, End: hi},
		Aggregate: []*datatypes.Aggregate{{Type: c20AggProto[agg]}},
	}
	if windowMsg {
		req.Window = &datatypes.Window{Every: &datatypes.Duration{Nsecs: every}}
		if offset != 0 {
			o := offset
			neg := o < 0
			if neg {
				o = -o
			}
			req.Window.Offset = &datatypes.Duration{Nsecs: o, Negative: neg}
		}
	} else {
		req.WindowEvery, req.Offset = every, offset
	}
	return req
}

// c20RunOne drives NewWindowAggregateResultSet over one series under one chunking and returns
// the drained rows.
func c20RunOne(req *datatypes.ReadWindowAggregateRequest, typ byte, its cursors.CursorIterators, limit int) ([]sk.Pt, []int, error) {
	row := reads.SeriesRow{
		Name:       []byte("m"),
		SeriesTags: models.NewTags(map[string]string{"t": "a"}),
		Tags:       models.NewTags(map[string]string{"_m": "m", "_f": "v", "t": "a"}),
		Field:      "v",
		Query:      its,
	}
	sc := &c20SeriesCursor{rows: []reads.SeriesRow{row}}
	rs, err := reads.NewWindowAggregateResultSet(context.Background(), req, sc)
	if err != nil {
		return nil, nil, err
	}
	defer rs.Close()
	if !rs.Next() {
		return nil, nil, fmt.Errorf("result set has no series: %v", rs.Err())
	}
	cur := rs.Cursor()
	if cur == nil {
		return nil, nil, nil // no shard holds the series
	}
	out, blocks, err := c20Drain(cur, limit)
	cur.Close()
	if err == nil && rs.Next() {
		err = fmt.Errorf("result set yields a second series")
	}
	return out, blocks, err
}

func c20ShardDesc(its cursors.CursorIterators) []string {
	var out []string
	for _, it := range its {
		s := it.(*c20Shard)
		if len(s.pts) == 0 {
			out = append(out, "absent")
		} else {
			out = append(out, fmt.Sprintf("%d pts chunks %v", len(s.pts), s.sizes))
		}
	}
	return out
}

func TestC20(t *testing.T) {
	r := vkit.Start(t, "C20", "exploration")
	defer r.Finish()
	r.Rule("case = (field type, aggregate, every, offset, request range, generated points); small cases (≤12 in-range points) run under EVERY composition of the points into arrays, large cases (900–2100 points, 1000/2000-row output boundaries targeted) under 7 chunking styles, each chunking spread over 1–n mock shards incl. shards without the series; a third stream sends WindowAggregate requests to a real v1 storage.Store over real shards. non-trivial = ≥2 in-range points forming ≥2 windows or a window with ≥2 points; distinct = hash of (type, agg, window, range, points)")
	r.Assume("window = (every ns, period = every, offset ns); timestamps and offsets keep |t| < 2^62 (no int64 overflow in window arithmetic)",
		"timestamps of count/sum/mean rows are the window stop, of min/max/first/last rows the selected point's own time (array_cursor.gen.go AccEmit); for tied min/max any tied point's time is accepted",
		"values are exactly representable (multiples of 1/8, small integers) so float sums/means are order-independent; extreme values only for count and selectors")
	r.Trust("mock SeriesCursor/CursorIterator/array cursors in c20_test.go (reused backing buffer, closed time range) stand in for tsm1 cursors in streams 1–2")

	nSmall := r.N(2600, 80000)
	nLarge := r.N(400, 12000)
	nStore := r.N(1500, 30000)

	types := []byte{'f', 'i', 'u', 's', 'b'}
	caseNo := 0
	t0 := time.Now() // reporting only
	// the subject allocates two 1000-slot result arrays per cursor; with ~10^6 cursors per run the
	// collector would dominate the budget
	defer debug.SetGCPercent(debug.SetGCPercent(400))

	runCase := func(path string, rg *vkit.Rand, typ byte, agg int, every, offset int64, all []sk.Pt, lo, hi int64, chunkings func(n int, f func(sizes []int, h *vkit.Rand))) {
		var before, in, after []sk.Pt
		for _, p := range all {
			switch {
			case p.T < lo:
				before = append(before, p)
			case p.T >= hi:
				after = append(after, p)
			default:
				in = append(in, p)
			}
		}
		want := c20Expect(in, agg, every, offset)
		windowMsg := rg.Bool()
		cs := c20Case{No: caseNo, Type: c20TypeName(typ), Agg: c20AggNames[agg], Every: every, Offset: offset, RangeLo: lo, RangeHi: hi,
			WindowMsg: windowMsg, Points: c20FmtPts(all, 40), NPoints: len(all), NInRange: len(in), NWindows: len(want)}
		multi := false
		for _, w := range want {
			if w.N >= 2 {
				multi = true
			}
		}
		r.Case(fmt.Sprint(path, typ, agg, every, offset, lo, hi, c20FmtPts(all, 1<<30)), len(in) >= 2 && (len(want) >= 2 || multi))
		if len(want) > reads.MaxPointsPerBlock {
			r.Event("cases_output_over_1000_rows", 1)
		}
		if len(want) > 2*reads.MaxPointsPerBlock {
			r.Event("cases_output_over_2000_rows", 1)
		}
		for _, w := range want {
			if len(w.Alt) > 1 {
				r.Event("minmax_tied_windows", 1)
				break
			}
		}
		if r.WantSample() && len(in) >= 4 && len(in) <= 12 && len(want) >= 2 && caseNo%97 == 5 {
			var ws []string
			for _, w := range want {
				ws = append(ws, fmt.Sprintf("[%d,%d) -> %d:%s", w.Start, w.Stop, w.T, w.V))
			}
			r.Sample(map[string]any{"case": cs, "expected_rows": ws, "chunkings_run": 1 << uint(len(in)-1)})
		}
		failed := false
		desc := false
		chunkings(len(in), func(sizes []int, h *vkit.Rand) {
			if failed {
				return
			}
			its := c20Shards(h, typ, in, sizes, before, after, &desc)
			req := c20Request(agg, every, offset, lo, hi, windowMsg)
			got, blocks, err := c20RunOne(req, typ, its, 2*len(in)+10)
			r.Event("chunkings_run", 1)
			r.Event("rows_compared", int64(len(want)))
			if len(blocks) > 1 {
				r.Event("runs_with_multiple_output_blocks", 1)
			}
			if len(its) > 1 {
				r.Event("runs_multi_shard", 1)
			}
			kind, idx, detail := "", 0, ""
			if err != nil {
				kind, detail = "error", err.Error()
			} else {
				kind, idx, detail = c20Diff(want, got)
			}
			if kind == "" {
				return
			}
			failed = true
			ob := "single_block"
			if len(want) > reads.MaxPointsPerBlock {
				ob = "crosses_1000_rows"
			}
			r.Violation("window_aggregate_mismatch", map[string]string{"agg": c20AggNames[agg], "type": c20TypeName(typ), "diff": kind, "output": ob, "path": path},
				c20Wit{Case: cs, Path: path, Chunks: sizes, Shards: c20ShardDesc(its), Blocks: blocks, DiffKind: kind, Row: idx, Detail: detail,
					Want: c20Near(want, idx, func(w c20Row) string { return fmt.Sprintf("[%d,%d) %d:%s n=%d", w.Start, w.Stop, w.T, w.V, w.N) }),
					Got:  c20Near(got, idx, func(p sk.Pt) string { return fmt.Sprintf("%d:%s", p.T, p.V) })})
		})
		if desc {
			r.Inconclusive("subject asked for a descending cursor in windowed mode")
		}
	}

	pickRange := func(rg *vkit.Rand, all []sk.Pt, every int64) (int64, int64) {
		if len(all) == 0 {
			return 0, 100
		}
		minT, maxT := all[0].T, all[len(all)-1].T
		switch rg.Intn(5) {
		case 0: // cut inside the data: partial first / last window
			lo := all[rg.Intn(len(all))].T
			hi := all[rg.Intn(len(all))].T + int64(rg.Intn(2))
			if hi <= lo {
				lo, hi = minT, maxT+1
			}
			return lo, hi
		case 1: // exactly tight (end exclusive just after the last point)
			return minT, maxT + 1
		case 2: // end exclusive ON the last point
			if maxT > minT {
				return minT - 1, maxT
			}
		}
		return minT - 1 - int64(rg.Intn(3))*every, maxT + 1 + int64(rg.Intn(3))*every
	}

	// ---- stream 1: every chunking of ≤ 12 points ------------------------------------------------
	for i := 0; i < nSmall; i++ {
		rg := r.Rand(caseNo)
		typ := types[i%5]
		agg := vkit.Pick(rg, c20Aggs(typ))
		every := vkit.Pick(rg, c20Everys)
		offset := c20Offset(rg, every)
		// 2^(n-1) chunkings each: most cases small, a steady share at 9–12 points
		var n int
		switch k := rg.Intn(100); {
		case k < 4:
			n = rg.Range(12, 14)
		case k < 16:
			n = rg.Range(9, 11)
		default:
			n = rg.Range(0, 8)
		}
		vmode := rg.Intn(2)
		if (agg != c20Sum && agg != c20Mean) && rg.Chance(1, 4) {
			vmode = 2
		}
		all := c20GenPoints(rg, typ, vmode, n, rg.Range(1, maxI(n, 1)), every, offset)
		lo, hi := pickRange(rg, all, every)
		// keep the exhaustive enumeration at ≤ 12 in-range points
		for {
			cnt := 0
			for _, p := range all {
				if p.T >= lo && p.T < hi {
					cnt++
				}
			}
			if cnt <= 12 {
				break
			}
			all = all[:len(all)-1]
		}
		shardSeed := rg.Uint64()
		runCase("all_chunkings", rg, typ, agg, every, offset, all, lo, hi, func(n int, f func([]int, *vkit.Rand)) {
			if n == 0 {
				f(nil, vkit.NewRand(shardSeed))
				return
			}
			for mask := uint64(0); mask < 1<<uint(n-1); mask++ {
				f(c20SizesFromMask(n, mask), vkit.NewRand(shardSeed^(mask*0x9E3779B97F4A7C15)))
			}
		})
		caseNo++
	}
	r.Extra("small_cases_exhaustive_over_chunkings", true)

	tSmall := time.Since(t0)
	// ---- stream 2: 900–2100 points, output crossing MaxPointsPerBlock ---------------------------
	for i := 0; i < nLarge; i++ {
		rg := r.Rand(caseNo)
		typ := types[i%5]
		agg := c20Aggs(typ)[(i/5)%len(c20Aggs(typ))]
		every := vkit.Pick(rg, c20Everys)
		offset := c20Offset(rg, every)
		n := rg.Range(900, 2100)
		var nw int
		switch rg.Intn(8) {
		case 0:
			nw = 999
		case 1:
			nw = 1000
		case 2:
			nw = 1001
		case 3:
			nw = 2000
		case 4:
			nw = 2001
		case 5:
			nw = n // every point its own window
		case 6:
			nw = n * 2 / 3
		default:
			nw = rg.Range(300, n)
		}
		if nw > n {
			n = nw + rg.Intn(100)
		}
		if every == 1 {
			nw = n
		}
		vmode := rg.Intn(2)
		if (agg != c20Sum && agg != c20Mean) && rg.Chance(1, 5) {
			vmode = 2
		}
		all := c20GenPoints(rg, typ, vmode, n, nw, every, offset)
		lo, hi := all[0].T-1, all[len(all)-1].T+1
		if rg.Chance(1, 4) {
			lo, hi = pickRange(rg, all, every)
		}
		runCase("large_random_chunkings", rg, typ, agg, every, offset, all, lo, hi, func(n int, f func([]int, *vkit.Rand)) {
			if n == 0 {
				f(nil, rg)
				return
			}
			mk := func(next func() int) []int {
				var s []int
				for left := n; left > 0; {
					k := next()
					if k < 1 {
						k = 1
					}
					if k > left {
						k = left
					}
					s = append(s, k)
					left -= k
				}
				return s
			}
			f([]int{n}, rg)                                              // one array
			f(mk(func() int { return 1000 }), rg)                        // TSM block sized
			f(mk(func() int { return rg.Range(1, 50) }), rg)             // small arrays
			f(mk(func() int { return 1 }), rg)                           // one point per array
			f(mk(func() int { return rg.Range(1, n) }), rg)              // anything
			f(mk(func() int { return vkit.Pick(rg, []int{1, 2, 500, 998, 999, 1000, 1001, 1002}) }), rg) // around the block size
			f(mk(func() int { return rg.Range(900, 1100) }), rg)
		})
		caseNo++
	}

	tLarge := time.Since(t0) - tSmall
	// ---- stream 3: the same property through the real store -------------------------------------
	c20StoreStream(t, r, nStore)
	t.Logf("C20 stream wall times: all_chunkings %.1fs, large %.1fs, real_store %.1fs", tSmall.Seconds(), tLarge.Seconds(), (time.Since(t0) - tSmall - tLarge).Seconds())
}

func maxI(a, b int) int {
	if a > b {
		return a
	}
	return b
}

// c20StoreStream sends ReadWindowAggregateRequests to v1/services/storage.Store.WindowAggregate
// over a real engine (several shards, TSM blocks + cache) and compares each series' rows with
// the fold of what Store.ReadFilter returns for the same range.
func c20StoreStream(t *testing.T, r *vkit.Run, n int) {
	per := 150
	for done, envNo := 0, 0; done < n; envNo++ {
		rg := r.SubRand("store-env", envNo)
		env, err := c41OpenEnv(t.TempDir())
		if err != nil {
			r.Inconclusive("real store could not be opened: " + err.Error())
			return
		}
		ds := c41GenDataset(rg, envNo)
		if err := ds.load(env, rg); err != nil {
			env.Close()
			r.Inconclusive("real store write failed: " + err.Error())
			return
		}
		for q := 0; q < per && done < n; q++ {
			qg := r.SubRand("store-req", done)
			every := vkit.Pick(qg, ds.everys)
			offset := c20Offset(qg, every)
			agg := qg.Intn(7)
			lo, hi := ds.pickBounds(qg)
			pred := c41PredFor(agg)
			raw, err := env.rawSeries(lo, hi, pred)
			if err != nil {
				r.Inconclusive("ReadFilter failed: " + err.Error())
				done++
				continue
			}
			req := c20Request(agg, every, offset, lo, hi, qg.Bool())
			req.Predicate = pred
			got, err := env.windowAggregate(req)
			nonTrivial := false
			for key, pts := range raw {
				typ := pts.typ
				applicable := false
				for _, a := range c20Aggs(typ) {
					if a == agg {
						applicable = true
					}
				}
				if !applicable {
					continue
				}
				want := c20Expect(pts.pts, agg, every, offset)
				if len(want) >= 2 {
					nonTrivial = true
				}
				g, ok := got[key]
				r.Event("store_series_compared", 1)
				r.Event("rows_compared", int64(len(want)))
				kind, idx, detail := "", 0, ""
				if err != nil {
					kind, detail = "error", err.Error()
				} else if !ok && len(want) > 0 {
					kind, detail = "missing_series", "series has rows in the filter read but no cursor in the window aggregate result"
				} else {
					kind, idx, detail = c20Diff(want, g)
				}
				if kind != "" {
					ob := "single_block"
					if len(want) > reads.MaxPointsPerBlock {
						ob = "crosses_1000_rows"
					}
					r.Violation("window_aggregate_mismatch", map[string]string{"agg": c20AggNames[agg], "type": c20TypeName(typ), "diff": kind, "output": ob, "path": "real_store"},
						c20Wit{Case: c20Case{No: done, Type: c20TypeName(typ), Agg: c20AggNames[agg], Every: every, Offset: offset, RangeLo: lo, RangeHi: hi, Points: c20FmtPts(pts.pts, 30), NPoints: len(pts.pts), NInRange: len(pts.pts), NWindows: len(want)},
							Path: "real_store series " + key + " dataset " + ds.describe(), DiffKind: kind, Row: idx, Detail: detail,
							Want: c20Near(want, idx, func(w c20Row) string { return fmt.Sprintf("[%d,%d) %d:%s n=%d", w.Start, w.Stop, w.T, w.V, w.N) }),
							Got:  c20Near(g, idx, func(p sk.Pt) string { return fmt.Sprintf("%d:%s", p.T, p.V) })})
					break
				}
			}
			if err != nil && strings.Contains(err.Error(), "unsupported") {
				r.Event("store_unsupported_aggregate_errors", 1)
			}
			r.Case(fmt.Sprint("store", envNo, agg, every, offset, lo, hi), nonTrivial)
			done++
		}
		env.Close()
	}
}
