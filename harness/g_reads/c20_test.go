package g_reads

// C20 — windowed aggregate pushdown equals aggregating the raw data.
//
// Subject: reads.NewWindowAggregateResultSet (storage/reads/aggregate_resultset.go) and the
// generated *Window{Count,Sum,Min,Max,First,Last,Mean}ArrayCursor.Next loops, fed from a mock
// SeriesCursor whose cursors hand out the same points under many chunkings (and shard splits);
// plus a slice of requests through the real v1/services/storage.Store over real shards.
// Oracle: own window arithmetic (ns every/offset, period = every) + fold over the raw points.
// Streams 4–6 repeat the three streams with calendar-month windows (req.Window.Every.Months):
// the month bounds come from own calendar arithmetic (c20W), never from flux/interval; the mock
// cursors and the mock store honour the read direction NewWindowAggregateResultSet asks for.

import (
	"context"
	"fmt"
	"math"
	"runtime/debug"
	"sort"
	"strings"
	"testing"
	"time"

	"github.com/influxdata/influxdb/v2/models"
	"github.com/influxdata/influxdb/v2/storage/reads"
	"github.com/influxdata/influxdb/v2/storage/reads/datatypes"
	"github.com/influxdata/influxdb/v2/tsdb/cursors"

	"verifharness/vkit"
	"verifharness/vkit/sk"
)

// ---- window arithmetic (independent of flux/interval) ------------------------------------------

// c20Win returns the bounds [start, stop) of the unique window of width every, aligned at
// offset (+ k*every), that contains t. Euclidean remainder; domain keeps everything far from
// int64 overflow.
func c20Win(t, every, offset int64) (start, stop int64) {
	m := (t - offset) % every
	if m < 0 {
		m += every
	}
	start = t - m
	return start, start + every
}

// ---- calendar windows (own proleptic-Gregorian arithmetic in UTC; independent of flux/interval
// and of package time, which is only used to cross-check these functions in c20CalendarSelfTest)

const c20Day = int64(24 * time.Hour)

func c20FloorDiv(a, b int64) int64 {
	q := a / b
	if a%b != 0 && (a < 0) != (b < 0) {
		q--
	}
	return q
}

// c20DaysFromCivil: days since 1970-01-01 of the date y-m-d.
func c20DaysFromCivil(y, m, d int64) int64 {
	if m <= 2 {
		y--
	}
	era := c20FloorDiv(y, 400)
	yoe := y - era*400
	mp := (m + 9) % 12 // March = 0
	doy := (153*mp+2)/5 + d - 1
	doe := yoe*365 + yoe/4 - yoe/100 + doy
	return era*146097 + doe - 719468
}

// c20CivilFromDays: the date of the z-th day since 1970-01-01.
func c20CivilFromDays(z int64) (y, m, d int64) {
	z += 719468
	era := c20FloorDiv(z, 146097)
	doe := z - era*146097
	yoe := (doe - doe/1460 + doe/36524 - doe/146096) / 365
	y = yoe + era*400
	doy := doe - (365*yoe + yoe/4 - yoe/100)
	mp := (5*doy + 2) / 153
	d = doy - (153*mp+2)/5 + 1
	if mp < 10 {
		m = mp + 3
	} else {
		m = mp - 9
	}
	if m <= 2 {
		y++
	}
	return
}

// c20MonthIdx: months since January 1970 of the UTC month containing t (negative before 1970).
func c20MonthIdx(t int64) int64 {
	y, m, _ := c20CivilFromDays(c20FloorDiv(t, c20Day))
	return (y-1970)*12 + m - 1
}

// c20MonthStart: 00:00:00 UTC on the first day of month idx (months since January 1970).
func c20MonthStart(idx int64) int64 {
	yq := c20FloorDiv(idx, 12)
	return c20DaysFromCivil(1970+yq, idx-yq*12+1, 1) * c20Day
}

// Month indexes the checks stay inside: 1700-01 … 2250-01 (int64 nanoseconds reach 1677-09 … 2262-04).
const (
	c20MinMonth = (1700 - 1970) * 12
	c20MaxMonth = (2250 - 1970) * 12
)

// c20CalendarSelfTest cross-checks the calendar arithmetic against package time on month
// boundaries, the nanosecond before them and pseudo-random instants of 1700–2250. "" = agree.
func c20CalendarSelfTest(rg *vkit.Rand) string {
	check := func(t int64) string {
		tt := time.Unix(0, t).UTC()
		want := int64(tt.Year()-1970)*12 + int64(tt.Month()) - 1
		if got := c20MonthIdx(t); got != want {
			return fmt.Sprintf("c20MonthIdx(%d)=%d, time says %d", t, got, want)
		}
		if got, w := c20MonthStart(want), time.Date(tt.Year(), tt.Month(), 1, 0, 0, 0, 0, time.UTC).UnixNano(); got != w {
			return fmt.Sprintf("c20MonthStart(%d)=%d, time says %d", want, got, w)
		}
		return ""
	}
	for idx := int64(c20MinMonth); idx <= c20MaxMonth; idx++ {
		s := c20MonthStart(idx)
		for _, t := range []int64{s, s - 1, s + 1, s + 28*c20Day, s + 29*c20Day - 1} {
			if msg := check(t); msg != "" {
				return msg
			}
		}
	}
	lo, hi := c20MonthStart(c20MinMonth), c20MonthStart(c20MaxMonth)
	for i := 0; i < 20000; i++ {
		if msg := check(lo + int64(rg.Uint64()%uint64(hi-lo))); msg != "" {
			return msg
		}
	}
	return ""
}

// c20W is a window specification, period = every. Months > 0: calendar windows of Months months
// (UTC) — the i-th window starts at 00:00:00 of the first day of month OffMonths + i*Months
// (months since January 1970), shifted by Offset nanoseconds (0 ≤ Offset < 28 days, so the
// shifted start exists in every month), and ends where window i+1 starts. Months == 0: windows
// of Every nanoseconds aligned at Offset.
type c20W struct {
	Months    int64
	Every     int64
	OffMonths int64
	Offset    int64
}

func (w c20W) isMonths() bool { return w.Months > 0 }

func (w c20W) unit() string {
	if w.isMonths() {
		return "months"
	}
	return "nsecs"
}

func (w c20W) monthWinStart(i int64) int64 {
	return c20MonthStart(w.OffMonths+i*w.Months) + w.Offset
}

// win returns the bounds [start, stop) of the unique window containing t.
func (w c20W) win(t int64) (start, stop int64) {
	if !w.isMonths() {
		return c20Win(t, w.Every, w.Offset)
	}
	i := c20FloorDiv(c20MonthIdx(t)-w.OffMonths, w.Months)
	if w.monthWinStart(i) > t { // t lies in the starting month of window i but before the shifted start
		i--
	}
	return w.monthWinStart(i), w.monthWinStart(i + 1)
}

// approxEvery: a lower bound of the window length in nanoseconds (for budgets and range padding).
func (w c20W) approxEvery() int64 {
	if w.isMonths() {
		return w.Months * 28 * c20Day
	}
	return w.Every
}

func (w c20W) String() string {
	if w.isMonths() {
		return fmt.Sprintf("every=%dmo offset=%dmo+%dns", w.Months, w.OffMonths, w.Offset)
	}
	return fmt.Sprintf("every=%dns offset=%dns", w.Every, w.Offset)
}

// ---- aggregates --------------------------------------------------------------------------------

const (
	c20Count = iota
	c20Sum
	c20Min
	c20Max
	c20First
	c20Last
	c20Mean
)

var c20AggNames = []string{"count", "sum", "min", "max", "first", "last", "mean"}
var c20AggProto = []datatypes.Aggregate_AggregateType{
	datatypes.Aggregate_AggregateTypeCount, datatypes.Aggregate_AggregateTypeSum, datatypes.Aggregate_AggregateTypeMin,
	datatypes.Aggregate_AggregateTypeMax, datatypes.Aggregate_AggregateTypeFirst, datatypes.Aggregate_AggregateTypeLast,
	datatypes.Aggregate_AggregateTypeMean,
}

// aggregates applicable per field type (string/boolean: count, first, last only).
func c20Aggs(typ byte) []int {
	switch typ {
	case 'f', 'i', 'u':
		return []int{c20Count, c20Sum, c20Min, c20Max, c20First, c20Last, c20Mean}
	}
	return []int{c20Count, c20First, c20Last}
}

func c20IsSelector(agg int) bool {
	return agg == c20Min || agg == c20Max || agg == c20First || agg == c20Last
}

// c20Row is one expected output row. For min/max with tied values any tied row's timestamp is
// accepted (Alt); T is the first of them.
type c20Row struct {
	Start, Stop int64 // window
	T           int64
	Alt         []int64
	V           sk.Val
	N           int // points in the window
}

func c20Less(a, b sk.Val) bool {
	switch a.K {
	case 'f':
		return math.Float64frombits(a.F) < math.Float64frombits(b.F)
	case 'i':
		return a.I < b.I
	case 'u':
		return a.U < b.U
	}
	panic("c20Less: unordered type")
}

// c20Fold aggregates the points of ONE window (non-empty, ascending) — the reference fold.
func c20Fold(pts []sk.Pt, agg int, start, stop int64) c20Row {
	row := c20Row{Start: start, Stop: stop, N: len(pts)}
	typ := pts[0].V.K
	switch agg {
	case c20Count:
		row.T, row.V = stop, sk.IntVal(int64(len(pts)))
	case c20Sum, c20Mean:
		var fs float64
		var is int64
		var us uint64
		for _, p := range pts {
			switch typ {
			case 'f':
				fs += math.Float64frombits(p.V.F)
			case 'i':
				is += p.V.I
			case 'u':
				us += p.V.U
			}
		}
		row.T = stop
		if agg == c20Sum {
			switch typ {
			case 'f':
				row.V = sk.FloatVal(fs)
			case 'i':
				row.V = sk.IntVal(is)
			case 'u':
				row.V = sk.UintVal(us)
			}
		} else {
			n := float64(len(pts))
			switch typ {
			case 'f':
				row.V = sk.FloatVal(fs / n)
			case 'i':
				row.V = sk.FloatVal(float64(is) / n)
			case 'u':
				row.V = sk.FloatVal(float64(us) / n)
			}
		}
	case c20First:
		row.T, row.V = pts[0].T, pts[0].V
	case c20Last:
		row.T, row.V = pts[len(pts)-1].T, pts[len(pts)-1].V
	case c20Min, c20Max:
		best := pts[0].V
		for _, p := range pts[1:] {
			if (agg == c20Min && c20Less(p.V, best)) || (agg == c20Max && c20Less(best, p.V)) {
				best = p.V
			}
		}
		for _, p := range pts {
			if p.V == best {
				row.Alt = append(row.Alt, p.T)
			}
		}
		row.T, row.V = row.Alt[0], best
	}
	return row
}

// c20Expect groups ascending raw points into windows and folds each non-empty window.
func c20Expect(pts []sk.Pt, agg int, every, offset int64) []c20Row {
	return c20ExpectW(pts, agg, c20W{Every: every, Offset: offset})
}

// c20ExpectW: the same for nanosecond and calendar-month windows.
func c20ExpectW(pts []sk.Pt, agg int, w c20W) []c20Row {
	var out []c20Row
	for i := 0; i < len(pts); {
		s, e := w.win(pts[i].T)
		j := i
		for j < len(pts) && pts[j].T < e {
			j++
		}
		out = append(out, c20Fold(pts[i:j], agg, s, e))
		i = j
	}
	return out
}

// ---- mock cursors ------------------------------------------------------------------------------

const c20Poison = math.MinInt64 + 13

// c20Feed hands out points chunk by chunk from ONE reused backing buffer (as the tsm1 cursors do):
// a slice retained across the feed's next Next() sees the new chunk or poison, not its old data.
type c20Feed struct {
	pts    []sk.Pt
	sizes  []int
	pos, k int
	bufT   []int64
	calls  int
}

func (f *c20Feed) next() (lo, hi int) {
	f.calls++
	for i := range f.bufT {
		f.bufT[i] = c20Poison
	}
	if f.pos >= len(f.pts) {
		return f.pos, f.pos
	}
	n := len(f.pts) - f.pos
	if f.k < len(f.sizes) && f.sizes[f.k] < n {
		n = f.sizes[f.k]
	}
	f.k++
	lo, hi = f.pos, f.pos+n
	f.pos = hi
	if cap(f.bufT) < n {
		f.bufT = make([]int64, n)
	}
	f.bufT = f.bufT[:n]
	for i := 0; i < n; i++ {
		f.bufT[i] = f.pts[lo+i].T
	}
	return lo, hi
}

type c20CurBase struct {
	c20Feed
	closed int
}

func (c *c20CurBase) Close()                     { c.closed++ }
func (c *c20CurBase) Err() error                 { return nil }
func (c *c20CurBase) Stats() cursors.CursorStats { return cursors.CursorStats{} }

type c20FloatCur struct {
	c20CurBase
	arr cursors.FloatArray
}

func (c *c20FloatCur) Next() *cursors.FloatArray {
	for i := range c.arr.Values {
		c.arr.Values[i] = -12345.678
	}
	lo, hi := c.next()
	c.arr.Timestamps = c.bufT[:hi-lo]
	c.arr.Values = c.arr.Values[:0]
	for _, p := range c.pts[lo:hi] {
		c.arr.Values = append(c.arr.Values, math.Float64frombits(p.V.F))
	}
	return &c.arr
}

type c20IntCur struct {
	c20CurBase
	arr cursors.IntegerArray
}

func (c *c20IntCur) Next() *cursors.IntegerArray {
	for i := range c.arr.Values {
		c.arr.Values[i] = -987654321
	}
	lo, hi := c.next()
	c.arr.Timestamps = c.bufT[:hi-lo]
	c.arr.Values = c.arr.Values[:0]
	for _, p := range c.pts[lo:hi] {
		c.arr.Values = append(c.arr.Values, p.V.I)
	}
	return &c.arr
}

type c20UintCur struct {
	c20CurBase
	arr cursors.UnsignedArray
}

func (c *c20UintCur) Next() *cursors.UnsignedArray {
	for i := range c.arr.Values {
		c.arr.Values[i] = 987654321987
	}
	lo, hi := c.next()
	c.arr.Timestamps = c.bufT[:hi-lo]
	c.arr.Values = c.arr.Values[:0]
	for _, p := range c.pts[lo:hi] {
		c.arr.Values = append(c.arr.Values, p.V.U)
	}
	return &c.arr
}

type c20StrCur struct {
	c20CurBase
	arr cursors.StringArray
}

func (c *c20StrCur) Next() *cursors.StringArray {
	for i := range c.arr.Values {
		c.arr.Values[i] = "<stale>"
	}
	lo, hi := c.next()
	c.arr.Timestamps = c.bufT[:hi-lo]
	c.arr.Values = c.arr.Values[:0]
	for _, p := range c.pts[lo:hi] {
		c.arr.Values = append(c.arr.Values, p.V.S)
	}
	return &c.arr
}

type c20BoolCur struct {
	c20CurBase
	arr cursors.BooleanArray
}

func (c *c20BoolCur) Next() *cursors.BooleanArray {
	lo, hi := c.next()
	c.arr.Timestamps = c.bufT[:hi-lo]
	c.arr.Values = c.arr.Values[:0]
	for _, p := range c.pts[lo:hi] {
		c.arr.Values = append(c.arr.Values, p.V.B)
	}
	return &c.arr
}

// c20Shard is a mock cursors.CursorIterator: one shard's slice of one series. It honours the
// request's time range like a real cursor (closed interval) and yields its in-range points in
// the given chunk sizes (remainder in one final chunk). No points at all => nil cursor, the
// way a shard that does not hold the series answers.
type c20Shard struct {
	typ      byte
	pts      []sk.Pt
	sizes    []int
	descSeen *bool
}

func (s *c20Shard) Stats() cursors.CursorStats { return cursors.CursorStats{} }
func (s *c20Shard) Next(ctx context.Context, req *cursors.CursorRequest) (cursors.Cursor, error) {
	if !req.Ascending && s.descSeen != nil {
		*s.descSeen = true
	}
	if len(s.pts) == 0 {
		return nil, nil
	}
	var in []sk.Pt
	for _, p := range s.pts {
		if p.T >= req.StartTime && p.T <= req.EndTime {
			in = append(in, p)
		}
	}
	sizes := s.sizes
	if !req.Ascending {
		// a descending cursor yields the same points from the newest to the oldest
		rev := make([]sk.Pt, len(in))
		for i, p := range in {
			rev[len(in)-1-i] = p
		}
		in = rev
		sizes = make([]int, len(s.sizes))
		for i, z := range s.sizes {
			sizes[len(s.sizes)-1-i] = z
		}
	}
	base := c20CurBase{c20Feed: c20Feed{pts: in, sizes: sizes}}
	switch s.typ {
	case 'f':
		return &c20FloatCur{c20CurBase: base}, nil
	case 'i':
		return &c20IntCur{c20CurBase: base}, nil
	case 'u':
		return &c20UintCur{c20CurBase: base}, nil
	case 's':
		return &c20StrCur{c20CurBase: base}, nil
	}
	return &c20BoolCur{c20CurBase: base}, nil
}

type c20SeriesCursor struct {
	rows []reads.SeriesRow
	i    int
}

func (c *c20SeriesCursor) Close()     {}
func (c *c20SeriesCursor) Err() error { return nil }
func (c *c20SeriesCursor) Next() *reads.SeriesRow {
	if c.i >= len(c.rows) {
		return nil
	}
	row := c.rows[c.i]
	c.i++
	return &row
}

// c20Drain reads a typed array cursor to its first empty array, copying each array at once
// (the result arrays are reused by the subject). Returns rows and the output block lengths.
func c20Drain(cur cursors.Cursor, limit int) (out []sk.Pt, blocks []int, err error) {
	add := func(n int) bool {
		blocks = append(blocks, n)
		return len(out) <= limit
	}
	switch c := cur.(type) {
	case cursors.IntegerArrayCursor:
		for {
			a := c.Next()
			if a.Len() == 0 {
				break
			}
			for i := range a.Timestamps {
				out = append(out, sk.Pt{T: a.Timestamps[i], V: sk.IntVal(a.Values[i])})
			}
			if !add(a.Len()) {
				return out, blocks, fmt.Errorf("runaway output: more than %d rows", limit)
			}
		}
	case cursors.FloatArrayCursor:
		for {
			a := c.Next()
			if a.Len() == 0 {
				break
			}
			for i := range a.Timestamps {
				out = append(out, sk.Pt{T: a.Timestamps[i], V: sk.FloatVal(a.Values[i])})
			}
			if !add(a.Len()) {
				return out, blocks, fmt.Errorf("runaway output: more than %d rows", limit)
			}
		}
	case cursors.UnsignedArrayCursor:
		for {
			a := c.Next()
			if a.Len() == 0 {
				break
			}
			for i := range a.Timestamps {
				out = append(out, sk.Pt{T: a.Timestamps[i], V: sk.UintVal(a.Values[i])})
			}
			if !add(a.Len()) {
				return out, blocks, fmt.Errorf("runaway output: more than %d rows", limit)
			}
		}
	case cursors.StringArrayCursor:
		for {
			a := c.Next()
			if a.Len() == 0 {
				break
			}
			for i := range a.Timestamps {
				out = append(out, sk.Pt{T: a.Timestamps[i], V: sk.StrVal(a.Values[i])})
			}
			if !add(a.Len()) {
				return out, blocks, fmt.Errorf("runaway output: more than %d rows", limit)
			}
		}
	case cursors.BooleanArrayCursor:
		for {
			a := c.Next()
			if a.Len() == 0 {
				break
			}
			for i := range a.Timestamps {
				out = append(out, sk.Pt{T: a.Timestamps[i], V: sk.BoolVal(a.Values[i])})
			}
			if !add(a.Len()) {
				return out, blocks, fmt.Errorf("runaway output: more than %d rows", limit)
			}
		}
	default:
		return nil, nil, fmt.Errorf("unknown cursor type %T", cur)
	}
	return out, blocks, cur.Err()
}

// c20Diff compares the subject's rows with the oracle's. "" = equal. kind names the first
// difference: missing_row, extra_row, timestamp, value, type.
func c20Diff(want []c20Row, got []sk.Pt) (kind string, idx int, detail string) {
	for i := 0; i < len(want) || i < len(got); i++ {
		if i >= len(got) {
			return "missing_row", i, fmt.Sprintf("row %d: want window [%d,%d) ts=%d v=%s, got end of output (%d rows, want %d)", i, want[i].Start, want[i].Stop, want[i].T, want[i].V, len(got), len(want))
		}
		if i >= len(want) {
			return "extra_row", i, fmt.Sprintf("row %d: got (%d,%s) beyond the %d expected rows", i, got[i].T, got[i].V, len(want))
		}
		w, g := want[i], got[i]
		tsOK := g.T == w.T
		for _, a := range w.Alt {
			if g.T == a {
				tsOK = true
			}
		}
		if !tsOK {
			// say whether it is a whole missing/extra window or a wrong stamp on the right one
			k := "timestamp"
			if i+1 < len(want) && (g.T == want[i+1].T) {
				k = "missing_row"
			} else if i+1 < len(got) && got[i+1].T == w.T {
				k = "extra_row"
			}
			return k, i, fmt.Sprintf("row %d: want window [%d,%d) ts=%d%s v=%s (n=%d), got ts=%d v=%s", i, w.Start, w.Stop, w.T, c20AltStr(w.Alt), w.V, w.N, g.T, g.V)
		}
		if g.V.K != w.V.K {
			return "type", i, fmt.Sprintf("row %d ts=%d: want %s got %s", i, w.T, w.V, g.V)
		}
		if g.V != w.V {
			return "value", i, fmt.Sprintf("row %d window [%d,%d) ts=%d: want %s (n=%d) got %s", i, w.Start, w.Stop, w.T, w.V, w.N, g.V)
		}
	}
	return "", 0, ""
}

func c20AltStr(a []int64) string {
	if len(a) <= 1 {
		return ""
	}
	return fmt.Sprintf(" (ties %v)", a)
}

// ---- generators --------------------------------------------------------------------------------

var c20Everys = []int64{1, 2, 3, 5, 7, 10, 60, 1000, 1_000_000_000, 3600_000_000_000}

func c20Offset(rg *vkit.Rand, every int64) int64 {
	switch rg.Intn(12) {
	case 0, 1, 2:
		return 0
	case 3:
		return 1
	case 4:
		return every - 1
	case 5:
		return every // == 0 mod every
	case 6:
		return every + 1 // offset > every
	case 7:
		return 2*every + 3
	case 8:
		return -1
	case 9:
		return -every
	case 10:
		return -(every + 2)
	default:
		return int64(rg.Intn(1_000_000)) * 1_000_003
	}
}

// c20Value draws the i-th value of a series. mode: 0 = small exactly-representable domain with
// ties (sums/means exact in any order), 1 = counter-derived unique values, 2 = extremes
// (selectors and count only: sums would overflow).
func c20Value(rg *vkit.Rand, typ byte, mode int, i int) sk.Val {
	switch typ {
	case 'f':
		switch mode {
		case 0:
			return sk.FloatVal(float64(rg.Intn(41)-20) / 8)
		case 1:
			return sk.FloatVal(float64(i+1) + 0.5)
		default:
			return sk.FloatVal(vkit.Pick(rg, []float64{math.MaxFloat64, -math.MaxFloat64, math.Inf(1), math.Inf(-1), 0, 1, -1, math.SmallestNonzeroFloat64}))
		}
	case 'i':
		switch mode {
		case 0:
			return sk.IntVal(int64(rg.Intn(41) - 20))
		case 1:
			return sk.IntVal(int64(i + 1))
		default:
			return sk.IntVal(vkit.Pick(rg, []int64{math.MaxInt64, math.MinInt64, 0, 1, -1, math.MaxInt64 - 1, math.MinInt64 + 1}))
		}
	case 'u':
		switch mode {
		case 0:
			return sk.UintVal(uint64(rg.Intn(41)))
		case 1:
			return sk.UintVal(uint64(i + 1))
		default:
			return sk.UintVal(vkit.Pick(rg, []uint64{math.MaxUint64, 0, 1, 1 << 63, 1<<63 - 1, math.MaxUint64 - 1}))
		}
	case 's':
		if mode == 0 {
			return sk.StrVal(vkit.Pick(rg, []string{"", "a", "b", "é"}))
		}
		return sk.StrVal(fmt.Sprintf("w%d", i+1))
	}
	if mode == 0 {
		return sk.BoolVal(rg.Bool())
	}
	return sk.BoolVal(i%2 == 0)
}

// c20GenPoints builds n ascending points window by window: nw non-empty windows (gaps of empty
// windows in between), the rest of the points spread over them, in-window positions biased to
// the first and last nanosecond of the window.
func c20GenPoints(rg *vkit.Rand, typ byte, vmode int, n, nw int, every, offset int64) []sk.Pt {
	if n == 0 {
		return nil
	}
	if nw > n {
		nw = n
	}
	if nw < 1 {
		nw = 1
	}
	per := make([]int, nw)
	for i := range per {
		per[i] = 1
	}
	room := func(k int) bool { return int64(per[k]) < every }
	for left, tries := n-nw, 0; left > 0 && tries < 20*n; tries++ {
		k := rg.Intn(nw)
		if room(k) {
			per[k]++
			left--
		}
	}
	// window index of the first non-empty window: around zero, negative, or far out
	var k int64
	switch rg.Intn(6) {
	case 0:
		k = 0
	case 1:
		k = -1
	case 2:
		k = -int64(nw) / 2 // data straddles the epoch / the offset
	case 3:
		k = -int64(nw) - int64(rg.Intn(50))
	case 4:
		k = 1_600_000_000_000_000_000 / every
	default:
		k = int64(rg.Intn(1000)) - 500
	}
	gapP := rg.Intn(4) // 0: no empty windows, else 1/gapP+1 chance of a gap
	var pts []sk.Pt
	for w := 0; w < nw; w++ {
		if w > 0 {
			k++
			if gapP > 0 && rg.Chance(1, gapP+1) {
				k += int64(1 + rg.Intn(3))
			}
		}
		start := offset + k*every
		offs := map[int64]bool{}
		for len(offs) < per[w] {
			var o int64
			switch rg.Intn(5) {
			case 0:
				o = 0
			case 1:
				o = every - 1
			default:
				o = int64(rg.Uint64() % uint64(every))
			}
			offs[o] = true
		}
		os := make([]int64, 0, len(offs))
		for o := range offs {
			os = append(os, o)
		}
		sort.Slice(os, func(i, j int) bool { return os[i] < os[j] })
		for _, o := range os {
			pts = append(pts, sk.Pt{T: start + o, V: c20Value(rg, typ, vmode, len(pts))})
		}
	}
	return pts
}

// c20Sizes splits n points into chunk sizes according to a bit mask (bit j set = cut after point j).
func c20SizesFromMask(n int, mask uint64) []int {
	var sizes []int
	run := 0
	for j := 0; j < n; j++ {
		run++
		if j == n-1 || mask&(1<<uint(j)) != 0 {
			sizes = append(sizes, run)
			run = 0
		}
	}
	return sizes
}

// c20Shards distributes the chunks over mock shards (shard boundaries only at chunk boundaries),
// optionally with shards that do not hold the series at all. before/after are out-of-range points
// that the first/last shard also holds (the mock cursor filters them like a real one).
func c20Shards(h *vkit.Rand, typ byte, in []sk.Pt, sizes []int, before, after []sk.Pt, desc *bool) cursors.CursorIterators {
	var its cursors.CursorIterators
	emptyShard := func() {
		if h.Chance(1, 6) {
			its = append(its, &c20Shard{typ: typ, descSeen: desc})
		}
	}
	emptyShard()
	cur := &c20Shard{typ: typ, descSeen: desc}
	cur.pts = append(cur.pts, before...)
	pos := 0
	for ci, sz := range sizes {
		cur.pts = append(cur.pts, in[pos:pos+sz]...)
		cur.sizes = append(cur.sizes, sz)
		pos += sz
		if ci < len(sizes)-1 && h.Chance(1, 4) {
			its = append(its, cur)
			emptyShard()
			cur = &c20Shard{typ: typ, descSeen: desc}
		}
	}
	cur.pts = append(cur.pts, after...)
	its = append(its, cur)
	emptyShard()
	return its
}

// ---- the case ----------------------------------------------------------------------------------

type c20Case struct {
	No        int      `json:"case"`
	Type      string   `json:"type"`
	Agg       string   `json:"agg"`
	Every     int64    `json:"every"`
	Offset    int64    `json:"offset"`
	EveryMo   int64    `json:"every_months,omitempty"`
	OffsetMo  int64    `json:"offset_months,omitempty"`
	RangeLo   int64    `json:"range_start"`
	RangeHi   int64    `json:"range_end_excl"`
	WindowMsg bool     `json:"request_uses_window_message"`
	Points    []string `json:"points"`
	NPoints   int      `json:"n_points"`
	NInRange  int      `json:"n_in_range"`
	NWindows  int      `json:"n_windows"`
}

type c20Wit struct {
	Case     c20Case  `json:"case"`
	Path     string   `json:"path"`
	Chunks   []int    `json:"chunk_sizes"`
	Shards   []string `json:"shards"`
	Blocks   []int    `json:"output_block_lengths"`
	DiffKind string   `json:"diff_kind"`
	Row      int      `json:"row"`
	Detail   string   `json:"detail"`
	Want     []string `json:"want_rows_near"`
	Got      []string `json:"got_rows_near"`
}

func c20FmtPts(p []sk.Pt, max int) []string {
	var out []string
	for i, x := range p {
		if i >= max {
			out = append(out, fmt.Sprintf("…+%d", len(p)-i))
			break
		}
		out = append(out, fmt.Sprintf("%d:%s", x.T, x.V))
	}
	return out
}

func c20Near[T any](xs []T, i int, f func(T) string) []string {
	lo, hi := i-2, i+3
	if lo < 0 {
		lo = 0
	}
	if hi > len(xs) {
		hi = len(xs)
	}
	var out []string
	for j := lo; j < hi; j++ {
		out = append(out, fmt.Sprintf("#%d %s", j, f(xs[j])))
	}
	return out
}

func c20TypeName(t byte) string {
	return map[byte]string{'f': "float", 'i': "integer", 'u': "unsigned", 's': "string", 'b': "boolean"}[t]
}

// c20RequestW builds the request for a window specification; calendar-month windows only exist
// in the Window message form.
func c20RequestW(agg int, w c20W, lo, hi int64, windowMsg bool) *datatypes.ReadWindowAggregateRequest {
	if !w.isMonths() {
		return c20Request(agg, w.Every, w.Offset, lo, hi, windowMsg)
	}
	req := &datatypes.ReadWindowAggregateRequest{
		Range:     &datatypes.TimestampRange{Start: lo, End: hi},
		Aggregate: []*datatypes.Aggregate{{Type: c20AggProto[agg]}},
		Window:    &datatypes.Window{Every: &datatypes.Duration{Months: w.Months}},
	}
	if w.OffMonths != 0 || w.Offset != 0 {
		req.Window.Offset = &datatypes.Duration{Months: w.OffMonths, Nsecs: w.Offset}
	}
	return req
}

func c20Request(agg int, every, offset, lo, hi int64, windowMsg bool) *datatypes.ReadWindowAggregateRequest {
	req := &datatypes.ReadWindowAggregateRequest{
		Range:     &datatypes.TimestampRange{Start: lo, End: hi},
		Aggregate: []*datatypes.Aggregate{{Type: c20AggProto[agg]}},
	}
	if windowMsg {
		req.Window = &datatypes.Window{Every: &datatypes.Duration{Nsecs: every}}
		if offset != 0 {
			o := offset
			neg := o < 0
			if neg {
				o = -o
			}
			req.Window.Offset = &datatypes.Duration{Nsecs: o, Negative: neg}
		}
	} else {
		req.WindowEvery, req.Offset = every, offset
	}
	return req
}

// c20RunOne drives NewWindowAggregateResultSet over one series under one chunking and returns
// the drained rows.
func c20RunOne(req *datatypes.ReadWindowAggregateRequest, typ byte, its cursors.CursorIterators, limit int) ([]sk.Pt, []int, error) {
	if reads.IsLastDescendingAggregateOptimization(req) {
		// the store layer (v1/services/storage Store.WindowAggregate → findShardIDs) hands the shards
		// over newest first when this function asks for a descending read; the mock store does the same
		rev := make(cursors.CursorIterators, len(its))
		for i, it := range its {
			rev[len(its)-1-i] = it
		}
		its = rev
	}
	row := reads.SeriesRow{
		Name:       []byte("m"),
		SeriesTags: models.NewTags(map[string]string{"t": "a"}),
		Tags:       models.NewTags(map[string]string{"_m": "m", "_f": "v", "t": "a"}),
		Field:      "v",
		Query:      its,
	}
	sc := &c20SeriesCursor{rows: []reads.SeriesRow{row}}
	rs, err := reads.NewWindowAggregateResultSet(context.Background(), req, sc)
	if err != nil {
		return nil, nil, err
	}
	defer rs.Close()
	if !rs.Next() {
		return nil, nil, fmt.Errorf("result set has no series: %v", rs.Err())
	}
	cur := rs.Cursor()
	if cur == nil {
		return nil, nil, nil // no shard holds the series
	}
	out, blocks, err := c20Drain(cur, limit)
	cur.Close()
	if err == nil && rs.Next() {
		err = fmt.Errorf("result set yields a second series")
	}
	return out, blocks, err
}

func c20ShardDesc(its cursors.CursorIterators) []string {
	var out []string
	for _, it := range its {
		s := it.(*c20Shard)
		if len(s.pts) == 0 {
			out = append(out, "absent")
		} else {
			out = append(out, fmt.Sprintf("%d pts chunks %v", len(s.pts), s.sizes))
		}
	}
	return out
}

func TestC20(t *testing.T) {
	r := vkit.Start(t, "C20", "exploration")
	defer r.Finish()
	r.Rule("case = (field type, aggregate, every, offset, request range, generated points); small cases (≤12 in-range points) run under EVERY composition of the points into arrays, large cases (900–2100 points, 1000/2000-row output boundaries targeted) under 7 chunking styles, each chunking spread over 1–n mock shards incl. shards without the series; a third stream sends WindowAggregate requests to a real v1 storage.Store over real shards; streams 4–6 are the same three with windows of 1, 2, 3, 6 or 12 calendar months (offsets of whole months and/or < 28 days of nanoseconds; points on month boundaries and 1 ns around them, leap / non-leap Februaries, 1700–2250; real-store datasets of 5–30 months in shard groups of 7–90 days). non-trivial = ≥2 in-range points forming ≥2 windows or a window with ≥2 points; distinct = hash of (type, agg, window, range, points)")
	r.Assume("window = (every ns, period = every, offset ns); timestamps and offsets keep |t| < 2^62 (no int64 overflow in window arithmetic)",
		"calendar windows (doc comments of interval.NewWindow / interval.Window in the vendored flux v0.200.0 source: \"Window boundaries start at the epoch plus the offset. Each subsequent window starts at a multiple of the every duration\", window_start_i = zero + every*i; values.Time.Add adds months on the UTC calendar keeping day and clock): window i of every=M months, offset=K months + d ns (K ≥ 0, 0 ≤ d < 28 days) starts at 00:00:00 UTC of the first day of month K+i*M counted from January 1970, plus d, and ends where window i+1 starts; data within 1700–2250",
		"timestamps of count/sum/mean rows are the window stop, of min/max/first/last rows the selected point's own time (array_cursor.gen.go AccEmit); for tied min/max any tied point's time is accepted",
		"values are exactly representable (multiples of 1/8, small integers) so float sums/means are order-independent; extreme values only for count and selectors")
	r.Trust("mock SeriesCursor/CursorIterator/array cursors in c20_test.go (reused backing buffer, closed time range, descending on request; the mock store hands the shards over newest first when reads.IsLastDescendingAggregateOptimization says so, as v1 Store.WindowAggregate does) stand in for tsm1 cursors in streams 1–2 and 4–5",
		"the oracle's calendar arithmetic is cross-checked against package time on every month boundary of 1700–2250 before the month streams start")

	nSmall := r.N(2600, 80000)
	nLarge := r.N(400, 12000)
	nStore := r.N(1500, 30000)
	nMonthSmall := r.N(1400, 14000)
	nMonthLarge := r.N(70, 1400)
	nMonthStore := r.N(600, 6000)

	types := []byte{'f', 'i', 'u', 's', 'b'}
	caseNo := 0
	t0 := time.Now() // reporting only
	// the subject allocates two 1000-slot result arrays per cursor; with ~10^6 cursors per run the
	// collector would dominate the budget
	defer debug.SetGCPercent(debug.SetGCPercent(400))

	nsSamples := 0
	runCase := func(path string, rg *vkit.Rand, typ byte, agg int, w c20W, all []sk.Pt, lo, hi int64, chunkings func(n int, f func(sizes []int, h *vkit.Rand))) {
		every, offset := w.Every, w.Offset
		var before, in, after []sk.Pt
		for _, p := range all {
			switch {
			case p.T < lo:
				before = append(before, p)
			case p.T >= hi:
				after = append(after, p)
			default:
				in = append(in, p)
			}
		}
		want := c20ExpectW(in, agg, w)
		windowMsg := rg.Bool() || w.isMonths()
		cs := c20Case{No: caseNo, Type: c20TypeName(typ), Agg: c20AggNames[agg], Every: every, Offset: offset, EveryMo: w.Months, OffsetMo: w.OffMonths, RangeLo: lo, RangeHi: hi,
			WindowMsg: windowMsg, Points: c20FmtPts(all, 40), NPoints: len(all), NInRange: len(in), NWindows: len(want)}
		multi := false
		for _, w := range want {
			if w.N >= 2 {
				multi = true
			}
		}
		r.Case(fmt.Sprint(path, typ, agg, w, lo, hi, c20FmtPts(all, 1<<30)), len(in) >= 2 && (len(want) >= 2 || multi))
		if w.isMonths() {
			r.Event("month_window_cases", 1)
			r.Event(fmt.Sprintf("month_window_cases_every_%dmo", w.Months), 1)
		}
		if len(want) > reads.MaxPointsPerBlock {
			r.Event("cases_output_over_1000_rows", 1)
		}
		if len(want) > 2*reads.MaxPointsPerBlock {
			r.Event("cases_output_over_2000_rows", 1)
		}
		for _, w := range want {
			if len(w.Alt) > 1 {
				r.Event("minmax_tied_windows", 1)
				break
			}
		}
		// (two of the six evidence samples are left to the month streams)
		if r.WantSample() && (w.isMonths() || nsSamples < 4) && len(in) >= 4 && len(in) <= 12 && len(want) >= 2 && caseNo%97 == 5 {
			if !w.isMonths() {
				nsSamples++
			}
			var ws []string
			for _, w := range want {
				ws = append(ws, fmt.Sprintf("[%d,%d) -> %d:%s", w.Start, w.Stop, w.T, w.V))
			}
			r.Sample(map[string]any{"case": cs, "expected_rows": ws, "chunkings_run": 1 << uint(len(in)-1)})
		}
		failed := false
		desc := false
		chunkings(len(in), func(sizes []int, h *vkit.Rand) {
			if failed {
				return
			}
			its := c20Shards(h, typ, in, sizes, before, after, &desc)
			req := c20RequestW(agg, w, lo, hi, windowMsg)
			got, blocks, err := c20RunOne(req, typ, its, 2*len(in)+10)
			r.Event("chunkings_run", 1)
			r.Event("rows_compared", int64(len(want)))
			if len(blocks) > 1 {
				r.Event("runs_with_multiple_output_blocks", 1)
			}
			if len(its) > 1 {
				r.Event("runs_multi_shard", 1)
			}
			kind, idx, detail := "", 0, ""
			if err != nil {
				kind, detail = "error", err.Error()
			} else {
				kind, idx, detail = c20Diff(want, got)
			}
			if kind == "" {
				return
			}
			failed = true
			ob := "single_block"
			if len(want) > reads.MaxPointsPerBlock {
				ob = "crosses_1000_rows"
			}
			r.Event("violations_path_"+path, 1)
			r.Violation("window_aggregate_mismatch", map[string]string{"agg": c20AggNames[agg], "type": c20TypeName(typ), "diff": kind, "output": ob, "path": path, "window_unit": w.unit()},
				c20Wit{Case: cs, Path: path, Chunks: sizes, Shards: c20ShardDesc(its), Blocks: blocks, DiffKind: kind, Row: idx, Detail: detail,
					Want: c20Near(want, idx, func(w c20Row) string { return fmt.Sprintf("[%d,%d) %d:%s n=%d", w.Start, w.Stop, w.T, w.V, w.N) }),
					Got:  c20Near(got, idx, func(p sk.Pt) string { return fmt.Sprintf("%d:%s", p.T, p.V) })})
		})
		if desc {
			// the mock cursors and the mock store honour the direction, so the row comparison decides
			r.Event("cases_read_with_descending_cursors", 1)
		}
	}

	pickRange := func(rg *vkit.Rand, all []sk.Pt, every int64) (int64, int64) {
		if len(all) == 0 {
			return 0, 100
		}
		minT, maxT := all[0].T, all[len(all)-1].T
		switch rg.Intn(5) {
		case 0: // cut inside the data: partial first / last window
			lo := all[rg.Intn(len(all))].T
			hi := all[rg.Intn(len(all))].T + int64(rg.Intn(2))
			if hi <= lo {
				lo, hi = minT, maxT+1
			}
			return lo, hi
		case 1: // exactly tight (end exclusive just after the last point)
			return minT, maxT + 1
		case 2: // end exclusive ON the last point
			if maxT > minT {
				return minT - 1, maxT
			}
		}
		return minT - 1 - int64(rg.Intn(3))*every, maxT + 1 + int64(rg.Intn(3))*every
	}

	// every composition of the in-range points into arrays (each with its own shard split)
	allChunkings := func(shardSeed uint64) func(n int, f func([]int, *vkit.Rand)) {
		return func(n int, f func([]int, *vkit.Rand)) {
			if n == 0 {
				f(nil, vkit.NewRand(shardSeed))
				return
			}
			for mask := uint64(0); mask < 1<<uint(n-1); mask++ {
				f(c20SizesFromMask(n, mask), vkit.NewRand(shardSeed^(mask*0x9E3779B97F4A7C15)))
			}
		}
	}
	// 7 chunking styles for large inputs
	largeChunkings := func(rg *vkit.Rand) func(n int, f func([]int, *vkit.Rand)) {
		return func(n int, f func([]int, *vkit.Rand)) {
			if n == 0 {
				f(nil, rg)
				return
			}
			mk := func(next func() int) []int {
				var s []int
				for left := n; left > 0; {
					k := next()
					if k < 1 {
						k = 1
					}
					if k > left {
						k = left
					}
					s = append(s, k)
					left -= k
				}
				return s
			}
			f([]int{n}, rg)                                                                                 // one array
			f(mk(func() int { return 1000 }), rg)                                                           // TSM block sized
			f(mk(func() int { return rg.Range(1, 50) }), rg)                                                // small arrays
			f(mk(func() int { return 1 }), rg)                                                              // one point per array
			f(mk(func() int { return rg.Range(1, n) }), rg)                                                 // anything
			f(mk(func() int { return vkit.Pick(rg, []int{1, 2, 500, 998, 999, 1000, 1001, 1002}) }), rg) // around the block size
			f(mk(func() int { return rg.Range(900, 1100) }), rg)
		}
	}

	// ---- stream 1: every chunking of ≤ 12 points ------------------------------------------------
	for i := 0; i < nSmall; i++ {
		rg := r.Rand(caseNo)
		typ := types[i%5]
		agg := vkit.Pick(rg, c20Aggs(typ))
		every := vkit.Pick(rg, c20Everys)
		offset := c20Offset(rg, every)
		// 2^(n-1) chunkings each: most cases small, a steady share at 9–12 points
		var n int
		switch k := rg.Intn(100); {
		case k < 4:
			n = rg.Range(12, 14)
		case k < 16:
			n = rg.Range(9, 11)
		default:
			n = rg.Range(0, 8)
		}
		vmode := rg.Intn(2)
		if (agg != c20Sum && agg != c20Mean) && rg.Chance(1, 4) {
			vmode = 2
		}
		all := c20GenPoints(rg, typ, vmode, n, rg.Range(1, maxI(n, 1)), every, offset)
		lo, hi := pickRange(rg, all, every)
		// keep the exhaustive enumeration at ≤ 12 in-range points
		for {
			cnt := 0
			for _, p := range all {
				if p.T >= lo && p.T < hi {
					cnt++
				}
			}
			if cnt <= 12 {
				break
			}
			all = all[:len(all)-1]
		}
		shardSeed := rg.Uint64()
		runCase("all_chunkings", rg, typ, agg, c20W{Every: every, Offset: offset}, all, lo, hi, allChunkings(shardSeed))
		caseNo++
	}
	r.Extra("small_cases_exhaustive_over_chunkings", true)

	tSmall := time.Since(t0)
	// ---- stream 2: 900–2100 points, output crossing MaxPointsPerBlock ---------------------------
	for i := 0; i < nLarge; i++ {
		rg := r.Rand(caseNo)
		typ := types[i%5]
		agg := c20Aggs(typ)[(i/5)%len(c20Aggs(typ))]
		every := vkit.Pick(rg, c20Everys)
		offset := c20Offset(rg, every)
		n := rg.Range(900, 2100)
		var nw int
		switch rg.Intn(8) {
		case 0:
			nw = 999
		case 1:
			nw = 1000
		case 2:
			nw = 1001
		case 3:
			nw = 2000
		case 4:
			nw = 2001
		case 5:
			nw = n // every point its own window
		case 6:
			nw = n * 2 / 3
		default:
			nw = rg.Range(300, n)
		}
		if nw > n {
			n = nw + rg.Intn(100)
		}
		if every == 1 {
			nw = n
		}
		vmode := rg.Intn(2)
		if (agg != c20Sum && agg != c20Mean) && rg.Chance(1, 5) {
			vmode = 2
		}
		all := c20GenPoints(rg, typ, vmode, n, nw, every, offset)
		lo, hi := all[0].T-1, all[len(all)-1].T+1
		if rg.Chance(1, 4) {
			lo, hi = pickRange(rg, all, every)
		}
		runCase("large_random_chunkings", rg, typ, agg, c20W{Every: every, Offset: offset}, all, lo, hi, largeChunkings(rg))
		caseNo++
	}

	tLarge := time.Since(t0) - tSmall
	// ---- stream 3: the same property through the real store -------------------------------------
	c20StoreStream(t, r, nStore)
	tStore := time.Since(t0) - tSmall - tLarge

	// ---- streams 4–6: calendar-month windows (every = M months, period = every) -------------------
	if msg := c20CalendarSelfTest(r.SubRand("calendar-selftest", 0)); msg != "" {
		r.Inconclusive("the oracle's calendar arithmetic disagrees with package time: " + msg)
		return
	}
	r.Event("calendar_selftest_months_checked", c20MaxMonth-c20MinMonth+1)
	// stream 4: every chunking of ≤ 12 points in month windows
	for i := 0; i < nMonthSmall; i++ {
		rg := r.SubRand("month-small", i)
		typ := types[i%5]
		agg := c20Aggs(typ)[(i/5)%len(c20Aggs(typ))]
		w := c20MonthWindow(rg)
		var n int
		switch k := rg.Intn(100); {
		case k < 4:
			n = rg.Range(12, 14)
		case k < 16:
			n = rg.Range(9, 11)
		default:
			n = rg.Range(0, 8)
		}
		vmode := rg.Intn(2)
		if (agg != c20Sum && agg != c20Mean) && rg.Chance(1, 4) {
			vmode = 2
		}
		all := c20GenMonthPoints(rg, typ, vmode, n, rg.Range(1, maxI(n, 1)), w)
		lo, hi := pickRange(rg, all, w.approxEvery())
		if len(all) > 0 && rg.Chance(1, 4) {
			// range edges on / next to window and month boundaries
			ws, _ := w.win(all[rg.Intn(len(all))].T)
			_, we := w.win(all[rg.Intn(len(all))].T)
			if ws < we {
				lo, hi = ws+int64(rg.Intn(3))-1, we+int64(rg.Intn(3))-1
			}
		}
		for {
			cnt := 0
			for _, p := range all {
				if p.T >= lo && p.T < hi {
					cnt++
				}
			}
			if cnt <= 12 {
				break
			}
			all = all[:len(all)-1]
		}
		caseNo = i
		runCase("month_all_chunkings", rg, typ, agg, w, all, lo, hi, allChunkings(rg.Uint64()))
	}
	// stream 5: 900–2100 points in month windows, output crossing MaxPointsPerBlock
	for i := 0; i < nMonthLarge; i++ {
		rg := r.SubRand("month-large", i)
		typ := types[i%5]
		agg := c20Aggs(typ)[(i/5)%len(c20Aggs(typ))]
		w := c20MonthWindow(rg)
		n := rg.Range(900, 2100)
		nw := vkit.Pick(rg, []int{999, 1000, 1001, 2000, 2001, n, n * 2 / 3, rg.Range(300, n)})
		// 1700–2250 holds 6600 months: keep the windows inside
		for int64(nw)*w.Months > 6000 {
			if w.Months > 1 {
				w.Months = map[int64]int64{12: 6, 6: 3, 3: 2, 2: 1}[w.Months]
				if w.OffMonths > w.Months+1 {
					w.OffMonths = w.Months + 1
				}
			} else {
				nw = 6000
			}
		}
		if nw > n {
			n = nw + rg.Intn(100)
		}
		vmode := rg.Intn(2)
		if (agg != c20Sum && agg != c20Mean) && rg.Chance(1, 5) {
			vmode = 2
		}
		all := c20GenMonthPoints(rg, typ, vmode, n, nw, w)
		lo, hi := all[0].T-1, all[len(all)-1].T+1
		if rg.Chance(1, 4) {
			lo, hi = pickRange(rg, all, w.approxEvery())
		}
		caseNo = i
		runCase("month_large_random_chunkings", rg, typ, agg, w, all, lo, hi, largeChunkings(rg))
	}
	tMonthMock := time.Since(t0) - tSmall - tLarge - tStore
	// stream 6: month windows through the real store
	c20MonthStoreStream(t, r, nMonthStore)
	r.Extra("stream_wall_s", map[string]int{"all_chunkings": int(tSmall.Seconds()), "large": int(tLarge.Seconds()), "real_store": int(tStore.Seconds()),
		"month_mock_streams": int(tMonthMock.Seconds()), "month_real_store": int((time.Since(t0) - tSmall - tLarge - tStore - tMonthMock).Seconds())}) // reporting only
}

// ---- month-window generators -------------------------------------------------------------------

var c20MonthEverys = []int64{1, 2, 3, 6, 12}

// c20MonthOffsets draws an offset for windows of M months: none, whole months (below, equal to
// and above every), nanoseconds below 28 days, or both.
func c20MonthOffsets(rg *vkit.Rand, M int64) (months, nsecs int64) {
	ns := []int64{1, int64(time.Hour), 5*c20Day + 3*int64(time.Hour), 27*c20Day + 86399_999_999_999}
	switch rg.Intn(12) {
	case 0, 1, 2, 3:
		return 0, 0
	case 4:
		return 1, 0
	case 5:
		return M - 1, 0
	case 6:
		return M, 0
	case 7:
		return M + 1, 0
	case 8:
		return 13, 0
	case 9:
		return 0, 1
	case 10:
		return 0, vkit.Pick(rg, ns)
	default:
		return vkit.Pick(rg, []int64{1, M + 1}), vkit.Pick(rg, ns)
	}
}

func c20MonthWindow(rg *vkit.Rand) c20W {
	w := c20W{Months: vkit.Pick(rg, c20MonthEverys)}
	w.OffMonths, w.Offset = c20MonthOffsets(rg, w.Months)
	return w
}

// c20GenMonthPoints builds n ascending points in nw non-empty month windows (gaps of empty
// windows in between while the calendar range has room); in-window positions are biased to the
// first and last nanosecond of the window and to the month boundaries inside it.
func c20GenMonthPoints(rg *vkit.Rand, typ byte, vmode int, n, nw int, w c20W) []sk.Pt {
	if n == 0 {
		return nil
	}
	if nw > n {
		nw = n
	}
	if nw < 1 {
		nw = 1
	}
	per := make([]int, nw)
	for i := range per {
		per[i] = 1
	}
	for left := n - nw; left > 0; left-- {
		per[rg.Intn(nw)]++
	}
	// window index range that keeps every window inside 1700–2250
	iMin := c20FloorDiv(c20MinMonth-w.OffMonths, w.Months) + 1
	iMax := c20FloorDiv(c20MaxMonth-w.OffMonths, w.Months) - 2
	idxOf := func(year, month int64) int64 { return c20FloorDiv((year-1970)*12+month-1-w.OffMonths, w.Months) }
	var k int64
	switch rg.Intn(9) {
	case 0:
		k = 0
	case 1:
		k = -1
	case 2:
		k = -int64(nw) / 2 // data straddles the epoch
	case 3:
		k = idxOf(2019, 11) // leap February 2020
	case 4:
		k = idxOf(1899, 12) - int64(rg.Intn(3)) // 1900 is not a leap year
	case 5:
		k = idxOf(1999, 12) - int64(rg.Intn(3)) // 2000 is
	case 6:
		k = idxOf(2099, 11) // 2100 is not
	case 7:
		k = idxOf(1967, 12) - int64(rg.Intn(14)) // before the epoch, leap February 1968
	default:
		k = iMin + int64(rg.Uint64()%uint64(iMax-iMin+1))
	}
	if k+int64(nw) > iMax {
		k = iMax - int64(nw)
	}
	if k < iMin {
		k = iMin
	}
	room := iMax - (k + int64(nw)) // empty windows that may still be inserted
	gapP := rg.Intn(4)
	var pts []sk.Pt
	for wi := 0; wi < nw; wi++ {
		if wi > 0 {
			k++
			if gapP > 0 && room > 0 && rg.Chance(1, gapP+1) {
				g := int64(1 + rg.Intn(3))
				if g > room {
					g = room
				}
				k += g
				room -= g
			}
		}
		start, stop := w.monthWinStart(k), w.monthWinStart(k+1)
		offs := map[int64]bool{}
		for len(offs) < per[wi] {
			var o int64
			switch rg.Intn(7) {
			case 0:
				o = 0
			case 1:
				o = stop - start - 1
			case 2, 3: // a calendar month boundary inside the window, or the nanosecond before / after it
				b := c20MonthStart(c20MonthIdx(start)+1+int64(rg.Intn(int(w.Months)))) + int64(rg.Intn(3)) - 1
				if b < start || b >= stop {
					b = start
				}
				o = b - start
			default:
				o = int64(rg.Uint64() % uint64(stop-start))
			}
			offs[o] = true
		}
		os := make([]int64, 0, len(offs))
		for o := range offs {
			os = append(os, o)
		}
		sort.Slice(os, func(i, j int) bool { return os[i] < os[j] })
		for _, o := range os {
			pts = append(pts, sk.Pt{T: start + o, V: c20Value(rg, typ, vmode, len(pts))})
		}
	}
	return pts
}

func maxI(a, b int) int {
	if a > b {
		return a
	}
	return b
}

// c20StoreStream sends ReadWindowAggregateRequests to v1/services/storage.Store.WindowAggregate
// over a real engine (several shards, TSM blocks + cache) and compares each series' rows with
// the fold of what Store.ReadFilter returns for the same range.
func c20StoreStream(t *testing.T, r *vkit.Run, n int) {
	per := 150
	for done, envNo := 0, 0; done < n; envNo++ {
		rg := r.SubRand("store-env", envNo)
		env, err := c41OpenEnv(t.TempDir())
		if err != nil {
			r.Inconclusive("real store could not be opened: " + err.Error())
			return
		}
		ds := c41GenDataset(rg, envNo)
		if err := ds.load(env, rg); err != nil {
			env.Close()
			r.Inconclusive("real store write failed: " + err.Error())
			return
		}
		for q := 0; q < per && done < n; q++ {
			qg := r.SubRand("store-req", done)
			every := vkit.Pick(qg, ds.everys)
			offset := c20Offset(qg, every)
			agg := qg.Intn(7)
			lo, hi := ds.pickBounds(qg)
			pred := c41PredFor(agg)
			raw, err := env.rawSeries(lo, hi, pred)
			if err != nil {
				r.Inconclusive("ReadFilter failed: " + err.Error())
				done++
				continue
			}
			req := c20Request(agg, every, offset, lo, hi, qg.Bool())
			req.Predicate = pred
			got, err := env.windowAggregate(req)
			nonTrivial := false
			for key, pts := range raw {
				typ := pts.typ
				applicable := false
				for _, a := range c20Aggs(typ) {
					if a == agg {
						applicable = true
					}
				}
				if !applicable {
					continue
				}
				want := c20Expect(pts.pts, agg, every, offset)
				if len(want) >= 2 {
					nonTrivial = true
				}
				g, ok := got[key]
				r.Event("store_series_compared", 1)
				r.Event("rows_compared", int64(len(want)))
				kind, idx, detail := "", 0, ""
				if err != nil {
					kind, detail = "error", err.Error()
				} else if !ok && len(want) > 0 {
					kind, detail = "missing_series", "series has rows in the filter read but no cursor in the window aggregate result"
				} else {
					kind, idx, detail = c20Diff(want, g)
				}
				if kind != "" {
					ob := "single_block"
					if len(want) > reads.MaxPointsPerBlock {
						ob = "crosses_1000_rows"
					}
					r.Event("violations_path_real_store", 1)
					r.Violation("window_aggregate_mismatch", map[string]string{"agg": c20AggNames[agg], "type": c20TypeName(typ), "diff": kind, "output": ob, "path": "real_store", "window_unit": "nsecs"},
						c20Wit{Case: c20Case{No: done, Type: c20TypeName(typ), Agg: c20AggNames[agg], Every: every, Offset: offset, RangeLo: lo, RangeHi: hi, Points: c20FmtPts(pts.pts, 30), NPoints: len(pts.pts), NInRange: len(pts.pts), NWindows: len(want)},
							Path: "real_store series " + key + " dataset " + ds.describe(), DiffKind: kind, Row: idx, Detail: detail,
							Want: c20Near(want, idx, func(w c20Row) string { return fmt.Sprintf("[%d,%d) %d:%s n=%d", w.Start, w.Stop, w.T, w.V, w.N) }),
							Got:  c20Near(g, idx, func(p sk.Pt) string { return fmt.Sprintf("%d:%s", p.T, p.V) })})
					break
				}
			}
			if err != nil && strings.Contains(err.Error(), "unsupported") {
				r.Event("store_unsupported_aggregate_errors", 1)
			}
			r.Case(fmt.Sprint("store", envNo, agg, every, offset, lo, hi), nonTrivial)
			done++
		}
		env.Close()
	}
}

// c20MonthStoreStream: calendar-month windows (req.Window.Every.Months) sent to
// v1/services/storage.Store.WindowAggregate over a real engine holding 5–30 months of data in
// several shards per series; every series' rows are compared with the fold of what
// Store.ReadFilter returns for the same range.
func c20MonthStoreStream(t *testing.T, r *vkit.Run, n int) {
	per := r.N(60, 100)
	for done, envNo := 0, 0; done < n; envNo++ {
		rg := r.SubRand("month-store-env", envNo)
		ds := c41GenMonthDataset(rg, envNo)
		env, err := c41OpenEnvSGD(t.TempDir(), ds.sgd)
		if err != nil {
			r.Inconclusive("real store could not be opened: " + err.Error())
			return
		}
		if err := ds.load(env, rg); err != nil {
			env.Close()
			r.Inconclusive("real store write failed: " + err.Error())
			return
		}
		ds.shards = env.shardCount()
		r.Event("month_store_datasets", 1)
		r.Event("month_store_dataset_shards", int64(ds.shards))
		for q := 0; q < per && done < n; q++ {
			qg := r.SubRand("month-store-req", done)
			w := c20MonthWindow(qg)
			agg := done % 7
			lo, hi := ds.monthBounds(qg)
			pred := c41PredFor(agg)
			raw, err := env.rawSeries(lo, hi, pred)
			if err != nil {
				r.Inconclusive("ReadFilter failed: " + err.Error())
				done++
				continue
			}
			req := c20RequestW(agg, w, lo, hi, true)
			req.Predicate = pred
			got, err := env.windowAggregate(req)
			nonTrivial := false
			keys := make([]string, 0, len(raw))
			for key := range raw {
				keys = append(keys, key)
			}
			sort.Strings(keys)
			for _, key := range keys {
				pts := raw[key]
				typ := pts.typ
				applicable := false
				for _, a := range c20Aggs(typ) {
					if a == agg {
						applicable = true
					}
				}
				if !applicable {
					continue
				}
				want := c20ExpectW(pts.pts, agg, w)
				if len(want) >= 2 {
					nonTrivial = true
				}
				g, ok := got[key]
				r.Event("store_series_compared", 1)
				r.Event("month_store_series_compared", 1)
				r.Event("rows_compared", int64(len(want)))
				r.Event("month_store_rows_compared", int64(len(want)))
				kind, idx, detail := "", 0, ""
				if err != nil {
					kind, detail = "error", err.Error()
				} else if !ok && len(want) > 0 {
					kind, detail = "missing_series", "series has rows in the filter read but no cursor in the window aggregate result"
				} else {
					kind, idx, detail = c20Diff(want, g)
				}
				if kind != "" {
					r.Event("violations_path_month_real_store", 1)
				r.Violation("window_aggregate_mismatch", map[string]string{"agg": c20AggNames[agg], "type": c20TypeName(typ), "diff": kind, "output": "single_block", "path": "month_real_store", "window_unit": "months"},
						c20Wit{Case: c20Case{No: done, Type: c20TypeName(typ), Agg: c20AggNames[agg], EveryMo: w.Months, OffsetMo: w.OffMonths, Offset: w.Offset, RangeLo: lo, RangeHi: hi, WindowMsg: true, Points: c20FmtPts(pts.pts, 30), NPoints: len(pts.pts), NInRange: len(pts.pts), NWindows: len(want)},
							Path: "month_real_store series " + key + " dataset " + ds.describe(), DiffKind: kind, Row: idx, Detail: detail,
							Want: c20Near(want, idx, func(w c20Row) string { return fmt.Sprintf("[%d,%d) %d:%s n=%d", w.Start, w.Stop, w.T, w.V, w.N) }),
							Got:  c20Near(g, idx, func(p sk.Pt) string { return fmt.Sprintf("%d:%s", p.T, p.V) })})
					break
				}
			}
			r.Event("month_window_cases", 1)
			r.Event(fmt.Sprintf("month_window_cases_every_%dmo", w.Months), 1)
			r.Case(fmt.Sprint("month-store", envNo, agg, w, lo, hi), nonTrivial)
			if r.WantSample() && nonTrivial && done%37 == 11 && len(keys) > 0 {
				want := c20ExpectW(raw[keys[0]].pts, agg, w)
				var ws []string
				for i, x := range want {
					if i >= 4 {
						ws = append(ws, "…")
						break
					}
					ws = append(ws, fmt.Sprintf("[%d,%d) -> %d:%s n=%d", x.Start, x.Stop, x.T, x.V, x.N))
				}
				r.Sample(map[string]any{"path": "month_real_store", "dataset": ds.describe(), "agg": c20AggNames[agg], "every_months": w.Months, "offset_months": w.OffMonths, "offset_nsecs": w.Offset,
					"range_start": lo, "range_end_excl": hi, "first_series": keys[0], "first_series_expected_rows_head": ws})
			}
			done++
		}
		env.Close()
	}
}
