package g_reads

import (
	"context"
	"fmt"
	"testing"
	"time"

	"github.com/influxdata/flux"
	"github.com/influxdata/flux/execute"
	"github.com/influxdata/flux/memory"
	"github.com/influxdata/flux/plan"
	"github.com/influxdata/flux/values"
	"github.com/influxdata/influxdb/v2/inmem"
	"github.com/influxdata/influxdb/v2/kit/platform"
	"github.com/influxdata/influxdb/v2/models"
	"github.com/influxdata/influxdb/v2/query"
	"github.com/influxdata/influxdb/v2/storage"
	storageflux "github.com/influxdata/influxdb/v2/storage/flux"
	"github.com/influxdata/influxdb/v2/v1/services/meta"
	storagev1 "github.com/influxdata/influxdb/v2/v1/services/storage"
)

func TestSmoke(t *testing.T) {
	ctx := context.Background()
	kv := inmem.NewKVStore()
	if err := kv.CreateBucket(ctx, meta.BucketName); err != nil {
		t.Fatal(err)
	}
	mc := meta.NewClient(meta.NewConfig(), kv)
	if err := mc.Open(); err != nil {
		t.Fatal(err)
	}
	defer mc.Close()
	org, bucket := platform.ID(1), platform.ID(2)
	rp := &meta.RetentionPolicySpec{Name: meta.DefaultRetentionPolicyName, ShardGroupDuration: 24 * time.Hour}
	if _, err := mc.CreateDatabaseWithRetentionPolicy(bucket.String(), rp); err != nil {
		t.Fatal(err)
	}
	eng := storage.NewEngine(t.TempDir(), storage.NewConfig(), storage.WithMetaClient(mc))
	if err := eng.Open(ctx); err != nil {
		t.Fatal(err)
	}
	defer eng.Close()
	var pts []models.Point
	for i := 0; i < 10; i++ {
		p, _ := models.NewPoint("m0", models.NewTags(map[string]string{"t": "a"}), models.Fields{"f": float64(i)}, time.Unix(0, int64(i)*10))
		pts = append(pts, p)
	}
	if err := eng.WritePoints(ctx, org, bucket, pts); err != nil {
		t.Fatal(err)
	}
	store := storagev1.NewStore(eng.TSDBStore(), eng.MetaClient())
	rd := storageflux.NewReader(store)
	spec := query.ReadWindowAggregateSpec{
		ReadFilterSpec: query.ReadFilterSpec{OrganizationID: org, BucketID: bucket, Bounds: execute.Bounds{Start: 0, Stop: 100}},
		Aggregates:     []plan.ProcedureKind{"sum"},
		Window: execute.Window{Every: values.ConvertDurationNsecs(30), Period: values.ConvertDurationNsecs(30)},
		CreateEmpty: true, TimeColumn: "_stop",
	}
	ti, err := rd.ReadWindowAggregate(ctx, spec, memory.DefaultAllocator)
	if err != nil {
		t.Fatal(err)
	}
	err = ti.Do(func(tbl flux.Table) error {
		fmt.Println("table", tbl.Key(), tbl.Cols())
		return tbl.Do(func(cr flux.ColReader) error {
			for i := 0; i < cr.Len(); i++ {
				fmt.Println(cr.Times(0).Value(i), cr.Times(1).Value(i), cr.Times(2).Value(i), cr.Floats(3).Value(i), cr.Floats(3).IsNull(i))
			}
			return nil
		})
	})
	if err != nil {
		t.Fatal(err)
	}
}
